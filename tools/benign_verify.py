#!/usr/bin/env python3
"""Confirms a sub-agent's behaviour-preserving refactoring in a scratch worktree
and, if confirmed, stores it under /verif/benign/<round>-<prop>-<X>/.

usage: benign_verify.py <out-dir, e.g. /tmp/out9-C06> <A|B|C>

Confirmed means: the patch applies to /repo's HEAD, the module builds, the
pinned test suite passes with the patch, and the delivered differential test
passes both without and with the patch. Nothing is applied to /repo itself.
"""
import json, os, re, shutil, subprocess, sys

ENV = dict(os.environ, GOFLAGS="-mod=mod", GOPROXY="off", GOSUMDB="off", GOTOOLCHAIN="local")


def sh(cmd, cwd=None, timeout=900):
    try:
        p = subprocess.run(cmd, shell=True, cwd=cwd, env=ENV, stdout=subprocess.PIPE, stderr=subprocess.STDOUT, text=True, timeout=timeout)
        return p.returncode, p.stdout
    except subprocess.TimeoutExpired:
        return 124, "timed out"


def failed(rc, out):
    return rc != 0 or bool(re.search(r"(^|\n)(--- FAIL|FAIL\b|panic:|fatal error:)", out)) or "no tests to run" in out


def main():
    outdir, x = sys.argv[1], sys.argv[2]
    base = os.path.basename(outdir.rstrip("/"))
    m = re.match(r"out(\d+)-(C\d+)$", base)
    n, prop = m.group(1), m.group(2)
    agent_wt = "/tmp/wt%s-%s" % (n, prop)
    src = os.path.join(outdir, x)
    meta = json.load(open(os.path.join(src, "meta.json")))
    vw = "/tmp/vb-%s-%s-%s" % (n, prop, x)
    sh("git -C /repo worktree remove --force %s" % vw)
    rc, o = sh("git -C /repo worktree add --detach %s HEAD" % vw)
    assert rc == 0, o
    rep = {"repo_head": sh("git -C /repo rev-parse --short HEAD")[1].strip()}
    try:
        cmd = meta["demo_cmd"].replace(agent_wt, vw)
        rc, o = sh(cmd, cwd=vw)
        rep["demo_without"] = "fails" if failed(rc, o) else "passes"
        rep["demo_without_tail"] = o[-500:]
        sh("git clean -fdq", cwd=vw)
        rc, o = sh("git apply --whitespace=nowarn %s" % os.path.join(src, "patch.diff"), cwd=vw)
        rep["applies"] = rc == 0
        if rc != 0:
            rep["apply_output"] = o[-500:]
            print(json.dumps(rep, indent=1))
            return 1
        rc, o = sh("go build ./...", cwd=vw)
        rep["builds"] = rc == 0
        rc, o = sh("go test -vet=off -count=1 -timeout 25m ./...", cwd=vw, timeout=1800)
        rep["suite_passes"] = rc == 0 and "FAIL" not in o
        if not rep["suite_passes"]:
            rep["suite_tail"] = o[-800:]
        rc, o = sh(cmd, cwd=vw)
        rep["demo_with"] = "fails" if failed(rc, o) else "passes"
        rep["demo_with_tail"] = o[-700:]
    finally:
        sh("git -C /repo worktree remove --force %s" % vw)
        sh("rm -rf %s" % vw)
    ok = rep.get("applies") and rep.get("builds") and rep.get("suite_passes") and rep["demo_without"] == "passes" and rep["demo_with"] == "passes"
    rep["confirmed"] = bool(ok)
    print(json.dumps({k: v for k, v in rep.items() if not k.endswith("_tail") or not ok}, indent=1))
    if ok:
        dst = "/verif/benign/B%s-%s-%s" % (n, prop, x)
        shutil.rmtree(dst, ignore_errors=True)
        os.makedirs(dst)
        for f in os.listdir(src):
            p = os.path.join(src, f)
            if os.path.isfile(p):
                shutil.copy(p, dst)
        meta["written_for_property"] = prop
        meta["confirmed_by_us"] = {"repo_head": rep["repo_head"], "ran": ["git apply patch.diff (scratch worktree of /repo HEAD)", "go build ./...", "go test -vet=off -count=1 ./... (all packages ok)", "differential test without the patch: passes", "differential test with the patch: passes"]}
        json.dump(meta, open(os.path.join(dst, "meta.json"), "w"), indent=1)
    return 0 if ok else 1


if __name__ == "__main__":
    sys.exit(main())
