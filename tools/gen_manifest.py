#!/usr/bin/env python3
"""Generates /verif/MANIFEST.json from the table below (kept in one place so the
manifest stays valid and current)."""
import json, os, sys

ROOT = os.path.dirname(os.path.dirname(os.path.abspath(__file__)))

# id -> (technique, level text, level note, design ref)
CLAIMED = {
 "C01": ("forward dataflow over go/cfg of the writers' byte accounting; SSA check of ReadLine fragment joining; constant agreement of record markers and Phred offsets between writer and reader; cutset-trim rule on the classified record prefix",
         "Decides, on every path, that each emitting call's byte count reaches the returned count at every success return (fasta/fastq writers), that both readers join ReadLine fragments before classifying and never retain bufio's buffer, and that writer and reader agree on the record-marker and Phred-offset constants. These are necessary conditions of the round trip and of the byte-count clause; equality of the parsed records is value-level and not decided. Also decides that the FASTA prefix is stripped by length, not by a cutset trim.",
         "fmt/io writers report the bytes written; returns inside `if err != nil` are error exits", "DESIGN.md §2.C/D/J, §4/C01"),
 "C02": ("AST+types rule on the 1-based/0-based conversion pair at every parse and format site of package gff; forward dataflow over go/cfg of the bed/gff writers' byte accounting (incl. deferred closures); interprocedural bufio buffer-view lifetime analysis; zero-colour test rule for the BED writer",
         "Decides that every start coordinate parsed from GFF text goes through feat.OneToZero and every start written goes through feat.ZeroToOne, ends through neither (all paths, all sites), and that the bed/gff writers' returned count includes every emitted byte on every success path. Field-by-field equality after a round trip is not decided. Also decides that no view of bufio's buffer is used after the next read or stored, and that the BED writer's \"0\" colour test includes alpha.",
         "start/end fields are those the Start()/End() methods return; feat.OneToZero/ZeroToOne bodies are trusted", "DESIGN.md §2.D/E, §4/C02"),
 "C03": ("SSA dominance analysis of field-count guards before constant column indices (with helper summaries and entry bounds); call-graph reachability of non-error panics from functions deferring a recover-to-error converter, with call-site exclusion of `param == const` preconditions; EOF path exploration for non-terminating read loops; dominance of the FASTQ length check over quality stores",
         "Decides for all inputs that no constant column access in the BED/GFF parsers can be out of range, and that every explicit panic reachable from a parser that converts panics to errors carries an error value (or its triggering argument value is excluded at the call site). Termination, nil dereferences and type assertions are not decided. Also decides that the BED/GFF read loops cannot spin at end of input and that FASTQ quality scores are stored only after the length comparison.",
         "vectors come from bytes|strings.Split*/Fields; runtime panics other than field indexing are out of scope", "DESIGN.md §2.A/B, §4/C03"),
 "C04": ("edge-sensitive forward search over the SSA CFG along branches consistent with err == io.EOF; taint flow from ReadBytes to splitters through trims; SSA shape check of ReadLine fragment joining; bufio buffer-view lifetime analysis; EOF path exploration for records returned together with io.EOF",
         "Decides that no line reader can return past the bytes delivered together with io.EOF without looking at them (final record never dropped), that every BED/GFF line is CR/whitespace-trimmed before splitting, and that FASTA/FASTQ readers join long-line fragments. Record equality under re-wrapping is not decided. Also decides that no buffer view outlives the next read and that the final unterminated record is not returned together with io.EOF.",
         "bufio.Reader semantics of ReadBytes/ReadLine", "DESIGN.md §2.C, §4/C04"),
 "C05": ("ownership classification (FRESH / ALIAS(receiver|param) / UNKNOWN) of every slice-typed field of each Clone() result, with element-wise deep-freshness; data dependence of the per-row offset on the loop's row variable in Multi.RevComp/Reverse; loop-invariance of the alignment span in the row loop",
         "Decides that no Clone() of the seven sequence containers shares a letter/row/annotation backing array with its receiver (the 'independent deep copy' clause) and that the offset each row receives when a multiple alignment is reversed depends on that row (necessary for mirroring ragged rows about the alignment's span). The reversal algebra itself (involution, complement, quality travel) is value-level and not decided. Also decides that the span rows are mirrored about is taken before the loop moves any row.",
         "append(T(nil),..)/make/X.Make/Clone() allocate; interface and func typed fields are shared by design", "DESIGN.md §2.F/G, §4/C05"),
 "C06": ("ownership classification of every SetSlice argument in sequtils (fresh destination unless dst == src); must-pass dataflow over go/cfg for Compose's scratch reverser; dataflow rule on Stitch's running end",
         "Decides that when destination and source differ the storage installed in the destination (and handed to the scratch reverser) is newly allocated in Join/Truncate/Stitch/Compose, and that every iteration of Compose that appends a reversed segment installed and reversed *that* segment. Positional correctness of slice bounds, Stitch's merge and Trim's optimality are not decided. Also decides that Stitch's extend-or-open test reads the running end it updates.",
         "alphabet.Slice.Make allocates; Append/Copy stay in their receiver's storage or a grown copy", "DESIGN.md §2.F/G, §4/C06"),
 "C07": ("retention analysis: no slice-typed caller value (nor a loop-reused scratch buffer) reaches receiver storage in AppendColumns/AppendEach, with type-resolved per-method retention summaries; clone deep-freshness as C05; per-iteration allocation rule for slices installed inside loops (AppendColumns/AppendEach, Flush)",
         "Decides the 'without retaining the caller's buffers' clause for the seven append methods and the 'Clone is deep' clause. Row/column view equality, Delete/Flush/Subseq semantics and consensus are value-level and not decided. Also decides that columns/rows installed in a loop are not carved from a shared buffer.",
         "append(dst, xs...) copies elements; it retains xs only when the elements are themselves slices", "DESIGN.md §2.F, §4/C07"),
 "C08": ("offset/letter agreement analysis of every DP transition (table cell + matrix entry) in fill recurrences and traceback tests on SSA; dimension (stride) analysis of matrix subscripts; typed-AST sibling comparison",
         "Decides necessary conditions of the recurrences computing optimal scores: in all twelve align functions every transition pairs the predecessor offset with the letters it consumes (diag: both, up: reference only, left: query only), rows/columns of the flattened matrix are selected by the right sequence, and the Letters/QLetters variants are the same program. Optimality itself — a maximum over exponentially many alignments, border values, tie-breaking, affine layer logic — is value-level and not decided.",
         "p = i*c+j addresses row i (reference), column j (query) of the DP table", "DESIGN.md §2.H/I, §4/C08 (Part II §13)"),
 "C09": ("typed-AST sibling comparison of the generated Letters/QLetters aligner variants; sibling agreement on argument validation; SSA sign-check (dominance) analysis of letter-index values before subscript use; linear-form proof that validation loops sweep the whole sequence; dimension (stride) analysis of flattened-matrix subscripts",
         "Decides that the six Letters/QLetters variant pairs are the same program modulo element access (type independence), that all twelve variants and six entry points perform the full argument validation, and that no letter index can be used as a subscript before its sign was checked (illegal letters give an error, not a panic). Path monotonicity, score bookkeeping and Format are value-level and not decided. Also decides that reference-letter indices select rows and query-letter indices columns of the flattened matrix in every subscript.",
         "alphabet.Index holds -1 for letters outside the alphabet; a validation loop's bounds are not checked", "DESIGN.md §2.H/I, §4/C09"),
 "C10": ("SSA sign-check (dominance) analysis of base codes looked up through the alphabet index table before they are packed into the k-mer word; strict-guard rule against kMask; linear-form check of the invalid-letter watermark",
         "Decides one necessary guard of 'no invalid letter inside a reported k-mer': every looked-up base code is sign-checked before conversion to the unsigned k-mer word in ForEachKmerOf and both KmerOf functions. It does not decide the index's correctness (watermark arithmetic, prefix sums, bucket bounds are value-level). Also decides that the largest k-mer is accepted and that the invalid-letter watermark is the letter's position + 1.",
         "alphabet.Index holds -1 for letters outside the alphabet", "DESIGN.md §2.I, §4/C10"),
 "C11": ("must-assign analysis (must-pass over the SSA CFG) of every per-cycle field of Morass in Clear, with the computed cycle state and the Finalise-re-establishes alternative; join analysis of the in-memory/spilled decision",
         "Decides that after Clear no per-cycle field (pos, len, fast, chunk, files, _err — computed from the writes of Push/write/Finalise/Pull) keeps a value from the previous cycle on any path: a necessary condition of 'whatever earlier cycles did'. Sortedness, multiset equality and Pos/Len arithmetic are value-level and not decided. Also decides that Finalise's in-memory decision does not read writer-produced state before the join.",
         "API protocol Push* Finalise Pull* Clear", "DESIGN.md §2.K, §4/C11"),
 "C12": ("go-statement join analysis (WaitGroup Add dominates go, deferred Done, Wait dominates the shared-field reads, error slot consulted after the wait) and must-hold lockset dataflow over the SSA CFG",
         "Decides, for every schedule, that Finalise cannot read the run-file list while a background writer started by Push may still be registering or encoding its run, and that files/_err are accessed under their locks in all writer-reachable code. It does not decide absence of every data race nor deadlock freedom of the pool/writable protocol.",
         "sync.WaitGroup/Mutex semantics; Pull and Clear run after Finalise returned", "DESIGN.md §2.L, §4/C12"),
 "C13": ("error-slot discipline on SSA: setErr arguments proven non-nil by dominating tests (sticky), data flow of every TempFile/Encode/Sync/Seek/Decode error to a return or the slot, must-pass of err() before nil returns; dominance of AutoClear/AutoClean tests over every end-of-data branch of Pull; acquire/register pairing of temporary files on all paths",
         "Decides that a recorded writer error cannot be overwritten by a later success, that no I/O error of the listed operations is dropped, that Push/Finalise consult the slot before returning nil, and that both end-of-data branches of Pull honour AutoClear and AutoClean. It does not decide that delivered values are right after a fault. Also decides that every created run file is registered or removed on every path.",
         "an error that reaches a return or the slot is reported by a later Push/Finalise/Pull", "DESIGN.md §2.M, §4/C13"),
 "C19": ("multi-instance close analysis (closures started by a go statement inside a loop must close under sync.Once or an atomic-zero guard) and must-hold lockset dataflow for the Promise mailbox with caller-intersection entry locksets; send-before-Done ordering across deferred functions; Broadcast-after-put rule",
         "Decides, for every schedule, that the Processor's result channel cannot be closed by more than one goroutine instance, and that every take/put on the Promise's one-slot mailbox happens under the promise's mutex (so no fulfiller can observe the momentarily borrowed, empty mailbox). Exactly-one-result per operation, Map's partition arithmetic and liveness are not decided. Also decides that no worker sends after its Done and that settling functions broadcast to all waiters.",
         "sync.Mutex/Cond/Once/WaitGroup semantics", "DESIGN.md §2.N/L, §4/C19"),
 "C20": ("append-aliasing analysis on SSA (append on a parameter slice, in-place mutation of the result, parameter handed back) and store-before-error-return reachability in the setters; freshness of the slice Exons.Add sorts and returns; NotOriented check before orientation products",
         "Decides that a rejected Exons.Add cannot have touched the receiver's backing array and that SetExons/SetFeatures store into the receiver only after every check has passed — the 'rejected updates leave the previous exon set exactly as it was' clause. Tiling and position/orientation composition are value-level and not decided. Also decides that Exons.Add never sorts or returns the caller's slice and that orientation products skip NotOriented locations.",
         "append reuses spare capacity of its first argument", "DESIGN.md §2.O, §4/C20"),
 "C14": ("polynomial normal form of the q-gram threshold function and role check of its call; SSA branch-polarity analysis of every tube emission and tube retirement in the filter; agreement of the tick period with the tube spacing; per-run re-initialisation of tube state",
         "Decides two necessary conditions of 'no false negatives': the threshold is exactly Ukkonen's n+1-k(e+1) computed from (match length, word size, error bound), and a tube is emitted exactly when Count >= threshold (inclusive) at all three retirement sites, with no retirement path that skips the comparison. Tube geometry, ticker recycling and diagonal arithmetic — the theorem itself — are value-level and not decided. Also decides that the recycling tick period is the tube spacing and that tube state is fresh per run.",
         "the q-gram lemma; roles of Filter fields are those filter.New assigns", "DESIGN.md §2.J/P, §4/C14"),
 "C15": ("SSA branch-polarity analysis of the only hit emission in the DP kernel (both extents >= minLen, error estimate <= maxDiff, Error assigned the tested value) and wiring of minLen/maxDiff in AlignTraps; per-run re-initialisation of the filter's tube state",
         "Decides one clause: every emitted hit passed the stated length and identity tests, its Error is the tested value, and the thresholds are the user's minimum hit length and 1 - minimum identity. Score optimality, coordinate bounds and recall of planted repeats are value-level and not decided. Also decides that the filter's tube states are re-made on every call.",
         "the kernel's Hit position fields mean what their names say", "DESIGN.md §2.P, §4/C15"),
 "C16": ("SSA dataflow/typestate rules on Piler.merge (matched intervals collected, images carried over, both ends extended, deleted in an unconditional loop, merged interval inserted into the same tree) and Piler.Add (duplicate look-ups in swapped orientation before any mutation, pair recorded on success)",
         "Decides structural necessary conditions of 'every added feature appears in exactly one pile' and 'a pair added twice in either orientation is rejected': conservation of member features across merges and the both-orientation duplicate verdict before any change. That piles are exactly the connected components, disjointness, order independence and the overlap-slack arithmetic are properties of the interval tree's contents and are not decided.",
         "interval.IntTree.DoMatching/Delete/Insert behave as documented", "DESIGN.md Part II §14"),
 "C17": ("constant-table consistency check over go/types constant values of the built-in alphabet definitions (AST + types); both-directions involution check in NewPairing; case-folding dataflow in newAlphabet",
         "Decides, for the seven built-in alphabets, every clause the property states about their *definitions* (distinct ASCII letters, involutive case-preserving pairing closed over the alphabet, 3-minus-index complement rule, gap at index 0) from the constants in the source. It does not decide that the constructors build the tables the definitions describe. Also decides two constructor mechanisms: NewPairing tests the involution for both strings, and the case-insensitive table fill uses case-folded strings.",
         "go/types constant evaluation; constructors interpret their arguments positionally", "DESIGN.md §2.J, §4/C17"),
 "C18": ("sibling-table agreement: Encode/Decode switch cases compared per Encoding constant (AST + go/types constants); signed-range guard and clamp-exception rules",
         "Decides case exhaustiveness and offset agreement of Encode/Decode per encoding (additive constant == subtractive constant, bound+offset == '~', no scale conversion in between): a necessary condition of decode(encode(q)) == q. Value-level arithmetic, probabilities and conversion tables are not decided. Also decides that negative Solexa scores receive the offset and that only Illumina1_5 clamps.",
         "the guarded `q += K` / `x - K` shapes are the only offset arithmetic in each case (else UNDECIDED, exit 2)", "DESIGN.md §2.J, §4/C18"),
}


# Clauses added after the third round of seeded changes (DESIGN.md §10.2): appended to the
# technique and level text of the property.
R3 = {
 "C01": ("dominance of the bare-\"+\" length test over the FASTQ label comparison; clone deep-freshness of the reader's record template",
         "Also decides that the reader compares the text after '+' with the label only when the separator is longer than the bare \"+\" the writer may emit, and that linear.Seq/QSeq.Clone (which makes each record read) never shares storage with the template on any path."),
 "C02": ("interprocedural SSA flow of coordinate reads into fmt.Fprint* arguments counting the 0-based/1-based conversions applied on the way (through helpers); producer analysis of the readers' column vectors",
         "Also decides that every start read reaches the written text through exactly one +1 conversion and every end through none whatever helpers lie in between, and that BED/GFF columns are produced by bytes.Split/SplitN on exactly the tab the writers join with."),
 "C03": ("constant evaluation of byte-indexed lookup tables against the sentinel their users test",
         "Also decides that every entry of the strand tables that is not set explicitly holds the value mustAtos rejects (an unlisted character cannot pass as a strand)."),
 "C04": ("taint flow of the assembled ReadLine line to anything but trims; EOF path exploration for fragments still pending in the accumulator",
         "Also decides that the FASTA/FASTQ line assembled from fragments reaches only whitespace-removing calls before it is classified or compared, and that at end of input no record is returned while accumulated fragments of an unterminated final line are still unread."),
 "C05": ("symbolic linear form of the offset each row receives (must equal Start()+End()-row.End()); store-target analysis of the strand negation in every RevComp",
         "Also decides that rows are mirrored about the alignment's own span (not its Offset field or a length) and that each RevComp stores the negated strand into the sequence's own annotation rather than a local copy."),
 "C06": ("difference-constraint proof of Truncate's slice bounds from dominating range checks",
         "Also decides that for every start/end that reaches a Slice call in Truncate, 0 <= low <= high <= length follows from the dominating range checks (with End() == Start() + Len()), so out-of-range arguments produce the error, never a slice panic."),
 "C07": ("cycle analysis of the row loop that fills AppendEach's scratch column",
         "Also decides that every entry of the scratch column handed to AppendColumns is rewritten for every column on every path (no stale letter of the previous column stands in for the gap letter)."),
 "C08": ("interval cover of the DP table's border initialisation (first row, first column) from induction ranges of the initialising loops",
         "Also decides that where the gap model needs base cases (NW, NWAffine, Fitted row 0, FittedAffine) the border writes cover columns 1..c-1 of row 0 and rows 1..r-1 of column 0 without a hole."),
 "C09": ("interval cover of the DP table's border initialisation",
         "Also decides the border-cover clause of C08 (an uninitialised border cell lets a gap start for free, so reported scores no longer equal recomputed ones)."),
 "C10": ("backward demanded-bits dataflow over k-mer word functions; symbolic evaluation of range-length guards at end-start == k",
         "Also decides that GCof/Format/ComplementOf (and their methods) can see every one of the 2*MaxKmerLen bits of the k-mer word, and that no guard of ForEachKmerOf rejects a sub-range of exactly k letters."),
 "C11": ("ownership typestate of the chunk buffer across the pool/writable channels (nil placeholder check after a pool receive; m.chunk reassigned whenever the buffer is handed to a channel)",
         "Also decides that a buffer received from the pool is checked for the nil placeholder and replaced by a chunkSize-capacity buffer before use (cap(m.chunk) == chunkSize is what the spill and in-memory tests rely on), and that m.chunk never keeps pointing at a buffer that was sent to the pool or the writer."),
 "C12": ("error-slot stickiness as C13; must-pass of the pool hand-back on every exit of the chunk writer",
         "Also decides that no writer overwrites a recorded error with nil and that every exit of the chunk writer after it took a run buffer returns the buffer to the pool (otherwise the next spill blocks forever)."),
 "C13": ("must-pass of close and AutoClear-removal for every run popped from the heap and not pushed back",
         "Also decides that on every path of Pull a popped run is either pushed back or closed and, under AutoClear, removed."),
 "C14": ("symbolic linear forms (with inlining of diagIndex) of the retired tube's diagonal and of the run-extension distance test",
         "Also decides that tubeEnd retires the tube of diagonal q (diagIndex(Tlen-1, q-1) == q) and that a k-mer extends the current run exactly when q - QHi <= MinMatch - WordSize (after substituting the definition of maxKmerDist)."),
 "C15": ("dominating-equality analysis of the duplicate-removal passes; constructor-ownership rule for the per-aligner filter",
         "Also decides that AlignTraps discards a hit as a duplicate only when both coordinates of its start (or of its end) equal the kept hit's, and that every PALS value owns a filter of its own (Share does not alias the donor's stateful Filter)."),
 "C18": ("rounding-domain rule for Ephred/Esolexa",
         "Also decides that the nearest score is not chosen by comparing differences of probabilities (nearest in probability space); the logarithmic route is recognised, anything else is UNDECIDED."),
 "C19": ("must-pass of the mailbox put-back after every take in fulfill/fail/Wait; spawn-site rule for the result channel's closer",
         "Also decides that a message taken out of the promise is put back on every path to a return (a rejected Fulfill leaves the promise set), and that the goroutine closing the result channel is started by NewProcessor, so it runs however the caller closes the queue."),
 "C20": ("symbolic linear form of the exon overlap test",
         "Also decides that neighbouring exons are rejected exactly when start < previous end (half-open overlap), neither one base later nor earlier."),
}

# Clauses added after the fourth round (DESIGN.md §10.3).
R4 = {
 "C01": "both FASTQ header lines come from the same routine",
 "C02": "normal form of start/end sanity tests in the text coordinate space; no default-limit bufio.Scanner in the readers",
 "C03": "call-graph cover of explicit panics by a deferred converter from Reader.Read; exact interval analysis of byte-derived subscripts of fixed-size tables",
 "C04": "no default-limit bufio.Scanner in the readers",
 "C06": "parallel-index rule (two slices indexed by one counter have provably equal length); commit-together rule for the two results of Trim; non-negativity of every Make length (structural or by difference constraints)",
 "C07": "path evidence for both ends in IsFlush; watermark exit test of the prefix-doubling fill loops; no reflect.New on the dynamic pointer type of a row",
 "C08": "DP table freshly zeroed; running-maximum choice of the traceback start layer",
 "C09": "block emission independent of the accumulated score; DP table freshly zeroed",
 "C10": "no exported method returns an internal table; difference-constraint proof that the first reported position is >= start; lock-step linear relation between reported position and last letter read",
 "C11": "error-slot discipline as C13",
 "C12": "pool drain in Clear as C11",
 "C13": "join-then-consult ordering as C12; any buffered writer layer's errors",
 "C14": "symbolic linear forms of the retired diagonal (q - MaxError), of the final flush range (from Qlen - k) and of the tube ring size",
 "C15": "normal form of the self-comparison guard; field-role wiring of dp.NewAligner's arguments",
 "C16": "field coverage of a canonical-orientation ordering; insertion on every path of merge",
 "C17": "method form reads the unflagged tables; index table cleared on every constructor path",
 "C18": "analytic pair of the two conversion tables; fill/lookup shift agreement of the score tables; own-scale decode in seq/quality; helper-method offsets evaluated per encoding",
 "C19": "WaitGroup.Add dominates every go statement whose goroutine calls Done",
 "C20": "exact zero-start test; query methods write no receiver state",
}

# Clauses added after the fifth round (DESIGN.md §10.4).
R5 = {
 "C01": "overflow-free use of the user-set line width",
 "C02": "separator-only attribute splitting",
 "C03": "abstract end-of-input run of the ReadLine loops (accumulator emptiness); length facts for constant subscripts of input lines, with predicate summaries",
 "C05": "no receiver writes in alphabet methods; row counters range over rows",
 "C06": "candidate window start initialised from Start()",
 "C07": "identity start of min/max folds; guarded use of the nil-able quality filter in column views",
 "C08": "delegation within the aligner family",
 "C09": "watermark exit test of the gap-run fill",
 "C10": "alphabet table rules of C17; lock-step advance of the scanner's counters",
 "C11": "who-may-remove rule for run files; who-may-reset rule for the cycle count",
 "C12": "who-may-reset rule and per-cycle reset analysis as C11",
 "C13": "per-cycle reset (incl. sync.Once fields) and who-may-remove as C11; error results of the sorter's own helpers",
 "C14": "ring reduction only at the slot subscript; no offset on the first flushed tube",
 "C15": "min/max classification of the coverage intersection; count read after its last change",
 "C16": "no internal image list in the exported pile; closed Overlap comparisons",
 "C17": "per-string MaxASCII comparison; byte-wise alphabet methods",
 "C18": "saturation before the narrowing conversion; every decode return under an encoding comparison",
 "C19": "one thread count for channel capacity, tokens and workers; Operation calls under recover",
 "C20": "one intron per neighbouring pair; location comparison between exons of the result",
}

# Clauses added after the sixth round (DESIGN.md §10.5).
R6 = {
 "C01": "header text handed on verbatim; byte counts at error exits; appended letters offset by the old length",
 "C02": "comment column parsed on every path that has one; no unbounded float-to-int in the writer; byte counts at error exits",
 "C03": "numeric columns only through strconv; loop-carried byte subscripts compared with a length",
 "C04": "appended letters offset by the old length; classification only of non-empty trimmed lines; header text verbatim",
 "C05": "Start() after SetOffset(o) is o (linear-form substitution)",
 "C06": "early success of Join only for an empty src argument; Truncate always passes the conformation reset",
 "C07": "position-to-subscript conversion with the subscripted object's own offset; column accessors return only inside [Start, End)",
 "C09": "unconditional emission of the last traced block",
 "C10": "no use of the indexed sequence when enumerating another; query methods write no index state",
 "C11": "fresh gob decode targets; lockset of the run-file list",
 "C12": "pool placeholder test after every pool receive",
 "C13": "fresh gob decode targets",
 "C14": "every hit pushed to the sorter; fresh gob decode targets",
 "C15": "sign test beside letter-code equality; mid-row formula of the trapezoid clip",
 "C17": "constructors free of package-level mutable state; complement table filled before every success return",
 "C18": "table fill loops without early exit; tables written by the initialiser only",
 "C19": "condition waits in re-testing loops; rounded-up chunk size",
 "C20": "location found only by meeting ref; transcript regions oriented Forward",
}

# Clauses added after the seventh round (DESIGN.md §10.6).
R7 = {
 "C01": "constant format strings; exported reader/writer settings consulted per call",
 "C02": "constant format strings; exported reader/writer settings consulted per call",
 "C03": "fragment joining of the FASTA/FASTQ readers",
 "C05": "strict converging loops in RevComp; positions never passed as raw subscripts; sibling agreement of argument arithmetic",
 "C06": "Append returns the receiver's extension; operations install their own result; sibling agreement of argument arithmetic",
 "C07": "flag tests reached on every row; run counter advances with every row; positions never passed as raw subscripts",
 "C08": "ties kept among candidate scores; last-column maximum starts from the identity",
 "C09": "traceback score starts from zero; last block emission in all aligners",
 "C10": "per-k-mer verdict of Check; k-mer space enumerated from word 0",
 "C11": "writer takes its buffer before any return",
 "C12": "writer takes its buffer before any return",
 "C13": "CleanUp always removes the directory; Pull errors propagated by PALS",
 "C14": "no success before the scan",
 "C15": "hit collector started before the kernel; Pull errors propagated; per-strand self-comparison flag",
 "C16": "tree looked up by location; every image located",
 "C17": "constructors do not write through arguments; complement table built by the constructor",
 "C18": "exact subscript ranges of fixed-size tables in seq/quality",
 "C19": "recovered failure delivered through a named result; settled flag decides fulfilment",
 "C20": "SetExons stores the builder's result",
}

# Clauses added after the eighth round (DESIGN.md §10.7).
R8 = {
 "C02": "attribute column (or placeholder) before the comment column on every feasible path",
 "C06": "strict entry test of Truncate's wrapped branch",
 "C07": "strict entry test of Truncate's wrapped branch",
 "C08": "argument checks and matrix stride of C09; border cell/letter correspondence",
 "C09": "border cell/letter correspondence; single-cell guard of the first traceback step",
 "C10": "k-mer space enumerated through the last word",
 "C14": "ring size decided through the tubeIndex helper",
 "C15": "merger built on the sequence that was filtered",
 "C18": "rounding half selected by the sign of the rounded value",
 "C19": "ceiling taken of a real quotient",
}

# Clauses added in round 11 (DESIGN.md §10.10).
R11 = {
 "C01": "no byte slice carried across reader rounds is a view of the refilled line buffer",
 "C03": "no byte slice carried across reader rounds is a view of the refilled line buffer",
 "C05": "nothing RevComp calls writes the strand before it is negated",
 "C07": "quality-vs-threshold comparisons agree between row and column views; columns cut from a shared block carry a capacity limit",
 "C08": "best end cell of the local aligners recorded under comparisons of its score only",
 "C09": "affine traceback steps taken only where the current layer is known (open finding on the pinned tree); sequence and border subscripts within bounds for all lengths including zero (exhaustive over the linear forms); alphabet used only after a nil test; Repeat returns count letters",
 "C11": "buffers in circulation are re-sliced from 0 (capacity kept)",
 "C12": "buffers in circulation are re-sliced from 0 (capacity kept)",
 "C15": "covered mark made at the absolute number of the trapezoid examined",
 "C17": "a failed round trip on either definition string rejects by itself",
 "C18": "half a unit added before every float to Phred conversion",
 "C19": "the queue fed by Map's unjoined producer is closed by nothing else",
}

# Clauses added in round 13 (DESIGN.md §10.12).
R13 = {
 "C03": "no (nil record, nil error) return in Read or the helpers it reaches",
 "C05": "a strictly converging exchange loop is followed by the middle-letter step",
 "C06": "origin degrees: positions and subscripts are not mixed in min/max, Slice and Make",
 "C07": "the padding guard admits a pad length of one",
 "C08": "block boundaries in the traceback suppressed at the single first cell only",
 "C11": "every buffer stored into m.chunk has capacity chunkSize",
 "C12": "every buffer stored into m.chunk has capacity chunkSize",
}

# Clauses added in round 15 (DESIGN.md §10.14).
R15 = {
 "C03": "the recover-to-error converter is deferred before (dominates) every call that can reach an explicit panic",
 "C08": "every scan that stores its counter does so on beating the running best (start row, start layer, end cell)",
 "C14": "the k-mer scanner reads only the sequence it is given",
 "C19": "a chunk count obtained by division is behind a test that the set is not empty",
}

# Clauses added in round 17 (DESIGN.md §10.16).
R17 = {
 "C01": "the '+' line is written from the same arguments as the '@' line; at end of input the pending line fragments are looked at before an error of the reader's own is returned",
 "C04": "at end of input the pending line fragments are looked at before an error of the reader's own is returned",
 "C06": "Truncate's range tests accept the sequence's own bounds",
 "C07": "Truncate's range tests accept the sequence's own bounds; a column cut as the tail of a growing block has a capacity limit",
 "C10": "whole-sequence subscripts and subscripts of a cut of the sequence are not mixed in the k-mer scanner",
 "C17": "the complement table is filled before its unpaired entries are marked",
 "C19": "the end of every chunk is clamped to the length of the input",
 "C18": "every float-to-score conversion of Ephred and Esolexa is saturated first (found and repaired a defect of the tree: Esolexa wrapped for probabilities within 2e-13 of 0 or 1)",
}

# Clauses added in round 19 (DESIGN.md §10.18).
R19 = {
 "C08": "closing a traceback segment does not depend on the score accumulated for it",
 "C09": "closing a traceback segment does not depend on the score accumulated for it",
 "C13": "the temporary directory is always removed with its contents",
 "C14": "Clear resets every per-cycle field of the sorter the filter's hits go through",
 "C15": "the complement strand is searched on a copy of the query",
 "C18": "each saturation bound keeps the converted float inside the score type (and below the NaN score); the other scale's decode converts after removing the encoding's own offset",
 "C19": "every division by the chunk size is guarded against the empty set",
}

# Clauses added in round 21 (DESIGN.md §10.20).
R21 = {
 "C05": "every letter of a built-in complementing alphabet has a partner in it and the pairing is a case-preserving involution (constant tables)",
 "C06": "Trim's results and EAt probes are positions: no value on the way merges a position with a subscript",
 "C09": "illegal letters are rejected in a loop over each sequence alone, not only inside the nested fill loop",
 "C16": "the end of a merged pile is extended from every interval it absorbs, not only the first",
 "C17": "on the case-insensitive path the loops that mark letters valid walk both the lower-case and the upper-case image of the definition",
 "C10": "as C17 (the scanner relies on the alphabet's tables)",
}

# Clauses added in round 23 (DESIGN.md §10.22).
R23 = {
 "C03": "the FASTQ quality line that is decoded is the one whose length was found equal to the number of letters",
}

# Clauses added in round 25 (DESIGN.md §10.24).
R25 = {
 "C06": "a clipped span is handed to Slice only under a test that found its bounds in order",
 "C08": "every aligner body is handed the reference's letters first and the query's second",
 "C09": "every aligner body is handed the reference's letters first and the query's second",
 "C15": "every trapezoid put on the merger's list is counted before the function returns or inserts again",
}

# Clauses added in round 27 (DESIGN.md §10.26).
R27 = {
 "C05": "RevComp and Reverse of the column-major alignments read no fixed column unconditionally (the alignment without columns is left to the walk)",
 "C09": "no method is called on the query's alphabet, in Align or a helper it is handed to, where it is not known to be non-nil",
}

NOT_APPLICABLE = {
}

def main():
    props = [json.loads(l) for l in open(os.path.join(ROOT, "properties.jsonl"))]
    checks, na = [], []
    for p in props:
        pid = p["id"]
        if pid in CLAIMED:
            tech, text, note, ref = CLAIMED[pid]
            if pid in R3:
                tech = tech + "; " + R3[pid][0]
                text = text + " " + R3[pid][1]
                ref = ref + "; Part II §10.2"
            if pid in R4:
                tech = tech + "; " + R4[pid]
                text = text + " Round 4 (DESIGN §10.3) adds: " + R4[pid] + "."
                ref = ref + ", §10.3"
            if pid in R5:
                tech = tech + "; " + R5[pid]
                text = text + " Round 5 (DESIGN §10.4) adds: " + R5[pid] + "."
                ref = ref + ", §10.4"
            if pid in R6:
                tech = tech + "; " + R6[pid]
                text = text + " Round 6 (DESIGN §10.5) adds: " + R6[pid] + "."
                ref = ref + ", §10.5"
            if pid in R7:
                tech = tech + "; " + R7[pid]
                text = text + " Round 7 (DESIGN §10.6) adds: " + R7[pid] + "."
                ref = ref + ", §10.6"
            if pid in R8:
                tech = tech + "; " + R8[pid]
                text = text + " Round 8 (DESIGN §10.7) adds: " + R8[pid] + "."
                ref = ref + ", §10.7"
            if pid in R11:
                tech = tech + "; " + R11[pid]
                text = text + " Round 11 (DESIGN §10.10) adds: " + R11[pid] + "."
                ref = ref + ", §10.10"
            if pid in R13:
                tech = tech + "; " + R13[pid]
                text = text + " Round 13 (DESIGN §10.12) adds: " + R13[pid] + "."
                ref = ref + ", §10.12"
            if pid in R15:
                tech = tech + "; " + R15[pid]
                text = text + " Round 15 (DESIGN §10.14) adds: " + R15[pid] + "."
                ref = ref + ", §10.14"
            if pid in R17:
                tech = tech + "; " + R17[pid]
                text = text + " Round 17 (DESIGN §10.16) adds: " + R17[pid] + "."
                ref = ref + ", §10.16"
            if pid in R19:
                tech = tech + "; " + R19[pid]
                text = text + " Round 19 (DESIGN §10.18) adds: " + R19[pid] + "."
                ref = ref + ", §10.18"
            if pid in R21:
                tech = tech + "; " + R21[pid]
                text = text + " Round 21 (DESIGN §10.20) adds: " + R21[pid] + "."
                ref = ref + ", §10.20"
            if pid in R23:
                tech = tech + "; " + R23[pid]
                text = text + " Round 23 (DESIGN §10.22) adds: " + R23[pid] + "."
                ref = ref + ", §10.22"
            if pid in R25:
                tech = tech + "; " + R25[pid]
                text = text + " Round 25 (DESIGN §10.24) adds: " + R25[pid] + "."
                ref = ref + ", §10.24"
            if pid in R27:
                tech = tech + "; " + R27[pid]
                text = text + " Round 27 (DESIGN §10.26) adds: " + R27[pid] + "."
                ref = ref + ", §10.26"
            text = text + " The thorough tier also replays the independently written behaviour-preserving refactorings of /verif/benign (DESIGN §10.8, §10.9, §10.11, §10.13, §10.15, §10.17, §10.19, §10.21, §10.23, §10.25, §10.27) and fails if one of them is reported."
            checks.append({
                "property_id": pid,
                "quick_cmd": "./check %s quick" % pid,
                "thorough_cmd": "./check %s thorough" % pid,
                "evidence_file": "/verif/evidence/%s.json" % pid,
                "replay_cmd_template": "bin/biocheck -explain {path}",
                "engine": "biocheck",
                "level_claimed": {"category": "other", "text": text, "design_ref": ref},
                "level_note": note,
                "technique": "static analysis: " + tech,
            })
        else:
            reason = NOT_APPLICABLE.get(pid, "static rules for this property are not built yet (work in progress; see DESIGN.md §4)")
            na.append({"property_id": pid, "reason": reason})
    m = {
        "version": 1,
        "setup_cmd": "cd /verif/checker && GOFLAGS=-mod=mod GOPROXY=off GOSUMDB=off GOTOOLCHAIN=local GOWORK=off go build -o /verif/bin/biocheck .",
        "hooks": {
            "guard": "verif",
            "enable": "none needed: the checks are static analyses of the source; the thorough tier additionally type-checks the tree with -tags verif so guarded files would be covered",
            "baseline_off_cmd": "cd /repo && go test -vet=off -count=1 -timeout 25m ./...",
            "source_commits": [],
            "add_only": True,
        },
        "engines": [{
            "name": "biocheck", "path": "/verif/checker",
            "serves_properties": sorted(CLAIMED),
            "kind_free_text": "repository-specific static analyser (go/packages + go/types + go/cfg + go/ssa + call graph, golang.org/x/tools v0.29.0); table-driven rule engines, obligations keyed by rule+construct, instance floors, known-findings filter",
        }],
        "checks": checks,
        "not_applicable": na,
        "notes": "All claims are level 'other': each check decides structural necessary conditions of its property for all paths/inputs at once and states what it does not decide. Exit 2 (no verdict) is used for UNDECIDED/anchor-missing/internal errors, never a VIOLATION line.",
    }
    json.dump(m, open(os.path.join(ROOT, "MANIFEST.json"), "w"), indent=1)
    print("wrote MANIFEST.json: %d checks, %d not_applicable" % (len(checks), len(na)))

if __name__ == "__main__":
    main()
