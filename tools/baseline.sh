#!/bin/sh
# Runs the repository's pinned test suite (guard off; there are no hooks).
export GOFLAGS=-mod=mod GOPROXY=off GOSUMDB=off GOTOOLCHAIN=local
cd /repo && go test -vet=off -count=1 -timeout 25m ./...
