#!/usr/bin/env python3
"""Runs the registered quick check of the broken property against every
seeded change under /verif/seeded: git -C /repo apply <patch>, ./check,
git -C /repo checkout -- . (always undone, also on error).

usage: seeded_check.py [ids...]     (default: all)
Writes /verif/seeded/RESULTS.json and prints a table.
"""
import json, os, subprocess, sys

ROOT = "/verif"


def sh(cmd, cwd=None):
    p = subprocess.run(cmd, shell=True, cwd=cwd, stdout=subprocess.PIPE, stderr=subprocess.STDOUT, text=True)
    return p.returncode, p.stdout


def main():
    ids = sys.argv[1:] or sorted(d for d in os.listdir(ROOT + "/seeded") if os.path.isdir(ROOT + "/seeded/" + d))
    rc, o = sh("git -C /repo status --porcelain")
    if o.strip():
        print("refusing: /repo is not clean:\n" + o)
        return 2
    results = {}
    res_path = ROOT + "/seeded/RESULTS.json"
    if os.path.exists(res_path):
        results = json.load(open(res_path))
    for i in ids:
        d = ROOT + "/seeded/" + i
        meta = json.load(open(d + "/meta.json"))
        prop = meta.get("breaks_property") or i.split("-")[0]
        try:
            rc, o = sh("git -C /repo apply --whitespace=nowarn %s/patch.diff" % d)
            if rc != 0:
                results[i] = {"property": prop, "status": "patch does not apply to /repo HEAD", "detail": o[-300:]}
                continue
            rc, o = sh("./check %s quick" % prop, cwd=ROOT)
            viol = [l.strip() for l in o.splitlines() if l.strip().startswith("violation:")]
            und = [l.strip() for l in o.splitlines() if l.startswith("UNDECIDED")]
            status = {0: "missed (check passes)", 1: "caught", 2: "no verdict (exit 2)"}.get(rc, "exit %d" % rc)
            results[i] = {"property": prop, "status": status, "violations": [v[:400] for v in viol][:4], "undecided": [u[:300] for u in und][:3], "summary": meta.get("summary", "")[:300]}
        finally:
            sh("git -C /repo checkout -- . && git -C /repo clean -fdq")
    json.dump(results, open(res_path, "w"), indent=1, sort_keys=True)
    # restore evidence of the unchanged tree for the properties we touched
    for prop in sorted({r["property"] for k, r in results.items() if k in ids}):
        sh("./check %s quick" % prop, cwd=ROOT)
    for i in sorted(results):
        r = results[i]
        print("%-7s %-4s %-26s %s" % (i, r["property"], r["status"], (r.get("violations") or r.get("undecided") or [""])[0][:150]))
    return 0


if __name__ == "__main__":
    sys.exit(main())
