#!/usr/bin/env python3
"""Runs the registered quick check of the broken property against every
seeded change under /verif/seeded: git -C /repo apply <patch>, ./check,
git -C /repo checkout -- . (always undone, also on error).

usage: seeded_check.py [--jobs=N] [ids...]     (default: all; --jobs=N works in N scratch worktrees instead of /repo)
Writes /verif/seeded/RESULTS.json and prints a table.
"""
import json, os, subprocess, sys

ROOT = "/verif"


def sh(cmd, cwd=None):
    p = subprocess.run(cmd, shell=True, cwd=cwd, stdout=subprocess.PIPE, stderr=subprocess.STDOUT, text=True)
    return p.returncode, p.stdout


ALL_PROPS = ["C01", "C02", "C03", "C04", "C05", "C06", "C07", "C08", "C09", "C10", "C11", "C12", "C13", "C14", "C15", "C16", "C17", "C18", "C19", "C20"]


def parallel(ids, jobs):
    """The same verdicts from scratch worktrees of /repo's HEAD (outside /repo and
    /verif, removed afterwards), `jobs` at a time, with the binary ./check builds."""
    from concurrent.futures import ThreadPoolExecutor
    import queue
    rc, o = sh("./check C01 quick", cwd=ROOT)  # builds bin/biocheck from the current sources
    slots = queue.Queue()
    for k in range(jobs):
        wt, vd = "/tmp/sc-wt-%d" % k, "/tmp/sc-verif-%d" % k
        sh("git -C /repo worktree remove --force %s; rm -rf %s %s" % (wt, wt, vd))
        rc, o = sh("git -C /repo worktree add --detach -q %s HEAD" % wt)
        assert rc == 0, o
        os.makedirs(vd + "/evidence")
        sh("cp %s/known_findings.txt %s/" % (ROOT, vd))
        slots.put((wt, vd))
    results = {}

    def one(i):
        d = ROOT + "/seeded/" + i
        meta = json.load(open(d + "/meta.json"))
        prop = meta.get("breaks_property") or i.split("-")[-2]
        wt, vd = slots.get()
        try:
            rc, o = sh("git -C %s apply --whitespace=nowarn %s/patch.diff" % (wt, d))
            if rc != 0:
                return i, {"property": prop, "status": "patch does not apply to /repo HEAD", "detail": o[-300:]}
            rc, o = sh("%s/bin/biocheck -prop %s -tier quick -repo %s -verif %s" % (ROOT, prop, wt, vd))
            if rc == 2 and not o.strip():
                rc, o = sh("%s/bin/biocheck -prop %s -tier quick -repo %s -verif %s" % (ROOT, prop, wt, vd))
            viol = [l.strip() for l in o.splitlines() if l.strip().startswith("violation:")]
            und = [l.strip() for l in o.splitlines() if l.startswith("UNDECIDED")]
            status = {0: "missed (check passes)", 1: "caught", 2: "no verdict (exit 2)"}.get(rc, "exit %d" % rc)
            return i, {"property": prop, "status": status, "violations": [v[:400] for v in viol][:4], "undecided": [u[:300] for u in und][:3], "summary": meta.get("summary", "")[:300]}
        finally:
            sh("git -C %s checkout -- . && git -C %s clean -fdq" % (wt, wt))
            slots.put((wt, vd))

    try:
        with ThreadPoolExecutor(max_workers=jobs) as ex:
            for i, r in ex.map(one, ids):
                results[i] = r
    finally:
        for k in range(jobs):
            sh("git -C /repo worktree remove --force /tmp/sc-wt-%d; rm -rf /tmp/sc-wt-%d /tmp/sc-verif-%d" % (k, k, k))
        sh("git -C /repo worktree prune")
    return results


def main():
    cross = "--all" in sys.argv
    sys.argv = [a for a in sys.argv if a != "--all"]
    jobs = 0
    for a in list(sys.argv):
        if a.startswith("--jobs="):
            jobs = int(a.split("=")[1])
            sys.argv.remove(a)
    if jobs > 1:
        ids = sys.argv[1:] or sorted(d for d in os.listdir(ROOT + "/seeded") if os.path.isdir(ROOT + "/seeded/" + d))
        res_path = ROOT + "/seeded/RESULTS.json"
        results = json.load(open(res_path)) if os.path.exists(res_path) else {}
        results.update(parallel(ids, jobs))
        json.dump(results, open(res_path, "w"), indent=1, sort_keys=True)
        for i in sorted(results):
            r = results[i]
            print("%-7s %-4s %-26s %s" % (i, r["property"], r["status"], (r.get("violations") or r.get("undecided") or [""])[0][:150]))
        return 0
    ids = sys.argv[1:] or sorted(d for d in os.listdir(ROOT + "/seeded") if os.path.isdir(ROOT + "/seeded/" + d))
    rc, o = sh("git -C /repo status --porcelain")
    if o.strip():
        print("refusing: /repo is not clean:\n" + o)
        return 2
    results = {}
    res_path = ROOT + "/seeded/RESULTS.json"
    if os.path.exists(res_path):
        results = json.load(open(res_path))
    for i in ids:
        d = ROOT + "/seeded/" + i
        meta = json.load(open(d + "/meta.json"))
        prop = meta.get("breaks_property") or i.split("-")[-2]
        try:
            rc, o = sh("git -C /repo apply --whitespace=nowarn %s/patch.diff" % d)
            if rc != 0:
                results[i] = {"property": prop, "status": "patch does not apply to /repo HEAD", "detail": o[-300:]}
                continue
            rc, o = sh("./check %s quick" % prop, cwd=ROOT)
            viol = [l.strip() for l in o.splitlines() if l.strip().startswith("violation:")]
            und = [l.strip() for l in o.splitlines() if l.startswith("UNDECIDED")]
            status = {0: "missed (check passes)", 1: "caught", 2: "no verdict (exit 2)"}.get(rc, "exit %d" % rc)
            results[i] = {"property": prop, "status": status, "violations": [v[:400] for v in viol][:4], "undecided": [u[:300] for u in und][:3], "summary": meta.get("summary", "")[:300]}
            if cross and rc != 1:
                others = []
                for q in ALL_PROPS:
                    if q == prop:
                        continue
                    rc2, o2 = sh("./check %s quick" % q, cwd=ROOT)
                    if rc2 == 1:
                        v2 = [l.strip() for l in o2.splitlines() if l.strip().startswith("violation:")]
                        others.append({"property": q, "violation": (v2 or [""])[0][:300]})
                results[i]["caught_by_other_checks"] = others
                if others:
                    results[i]["status"] = "caught by the check of " + ",".join(x["property"] for x in others)
        finally:
            sh("git -C /repo checkout -- . && git -C /repo clean -fdq")
    json.dump(results, open(res_path, "w"), indent=1, sort_keys=True)
    # restore evidence of the unchanged tree for the properties we touched
    for prop in (ALL_PROPS if cross else sorted({r["property"] for k, r in results.items() if k in ids})):
        sh("./check %s quick" % prop, cwd=ROOT)
    for i in sorted(results):
        r = results[i]
        print("%-7s %-4s %-26s %s" % (i, r["property"], r["status"], (r.get("violations") or r.get("undecided") or [""])[0][:150]))
    return 0


if __name__ == "__main__":
    sys.exit(main())
