import json,os,subprocess,sys
from concurrent.futures import ThreadPoolExecutor
ROOT='/verif'; WT='/tmp/wt-dev'
PROPS=["C%02d"%i for i in range(1,21)]
props=[json.loads(l) for l in open(ROOT+'/properties.jsonl')]
anch={p['id']:{os.path.dirname(f) for f in p['anchors'].get('files',[])} for p in props}
def sh(c):
    p=subprocess.run(c,shell=True,stdout=subprocess.PIPE,stderr=subprocess.STDOUT,text=True); return p.returncode,p.stdout
def one(a):
    prop,i=a
    os.makedirs('/tmp/bc-dev-verif-%d/evidence'%i,exist_ok=True)
    sh('cp %s/known_findings.txt /tmp/bc-dev-verif-%d/'%(ROOT,i))
    rc,o=sh('/tmp/bc-dev/biocheck -prop %s -tier quick -repo %s -verif /tmp/bc-dev-verif-%d'%(prop,WT,i))
    bad=[l.strip()[:260] for l in o.splitlines() if l.strip().startswith('violation:') or l.startswith('UNDECIDED') or l.startswith('ERROR')]
    return prop,rc,bad
for d in sys.argv[1:]:
    n=os.path.basename(d.rstrip('/'))
    own=n.split('-')[1]
    rc,o=sh('git -C %s apply --whitespace=nowarn %s/patch.diff'%(WT,d))
    if rc!=0: print(n,'NOAPPLY'); continue
    files=[l[6:].strip() for l in open(d+'/patch.diff') if l.startswith('+++ b/')]
    dirs={os.path.dirname(f) for f in files}
    todo=sorted({own}|{p for p in PROPS if anch[p]&dirs})
    with ThreadPoolExecutor(max_workers=6) as ex:
        outs=list(ex.map(one,[(p,i) for i,p in enumerate(todo)]))
    sh('git -C %s checkout -- . ; git -C %s clean -fdq'%(WT,WT))
    al=[(p,b) for p,rc,b in outs if rc!=0 or b]
    print(n,'silent' if not al else 'ALARM '+'; '.join('%s: %s'%(p,(b or ['exit'])[0]) for p,b in al),flush=True)
