#!/usr/bin/env python3
"""Confirms a sub-agent's seeded change in a scratch worktree and, if it is
confirmed, stores it under /verif/seeded/<prop>-<X>/.

usage: seeded_verify.py <out-dir of the agent, e.g. /tmp/out-C06> <A|B> [agent worktree path]

Confirmed means: the patch applies to /repo's HEAD, the module builds, the
pinned test suite passes with the patch, the demonstration passes without
the patch and fails with it. Nothing is ever applied to /repo itself.
"""
import json, os, re, shutil, subprocess, sys

ENV = dict(os.environ, GOFLAGS="-mod=mod", GOPROXY="off", GOSUMDB="off", GOTOOLCHAIN="local")


def sh(cmd, cwd=None, timeout=900):
    p = subprocess.run(cmd, shell=True, cwd=cwd, env=ENV, stdout=subprocess.PIPE, stderr=subprocess.STDOUT, text=True, timeout=timeout)
    return p.returncode, p.stdout


def demo_failed(out):
    return bool(re.search(r"(^|\n)(--- FAIL|FAIL\b|panic:|fatal error:|exit status [1-9]|DEMO-FAIL|WARNING: DATA RACE)", out)) or "timed out" in out


def main():
    outdir, x = sys.argv[1], sys.argv[2]
    base = os.path.basename(outdir.rstrip("/"))
    import re as _re
    m = _re.match(r"out(\d*)-(C\d+)$", base)
    n, prop = m.group(1), m.group(2)
    rnd = ("R%s-" % n) if n else ""
    agent_wt = sys.argv[3] if len(sys.argv) > 3 else "/tmp/wt%s-%s" % (n, prop)
    src = os.path.join(outdir, x)
    meta = json.load(open(os.path.join(src, "meta.json")))
    vw = "/tmp/vw-%s%s-%s" % (rnd, prop, x)
    sh("git -C /repo worktree remove --force %s" % vw)
    rc, o = sh("git -C /repo worktree add --detach %s HEAD" % vw)
    assert rc == 0, o
    report = {"repo_head": sh("git -C /repo rev-parse --short HEAD")[1].strip()}
    try:
        cmd = meta["demo_cmd"].replace(agent_wt, vw)
        # the delivery directory may have been staged elsewhere
        orig_out = "/tmp/out%s-%s" % (n, prop)
        if os.path.abspath(outdir) != orig_out:
            cmd = cmd.replace(orig_out + "/", os.path.abspath(outdir) + "/")
        # 1. demo on the clean tree
        rc, o = sh(cmd, cwd=vw)
        report["demo_without"] = "fails" if demo_failed(o) else "passes"
        report["demo_without_tail"] = o[-600:]
        sh("git clean -fdq", cwd=vw)  # a demo command may leave its test file behind
        # 2. apply
        rc, o = sh("git apply --whitespace=nowarn %s" % os.path.join(src, "patch.diff"), cwd=vw)
        report["applies"] = rc == 0
        if rc != 0:
            report["apply_output"] = o[-600:]
            print(json.dumps(report, indent=1))
            return 1
        rc, o = sh("go build ./...", cwd=vw)
        report["builds"] = rc == 0
        rc, o = sh("go test -vet=off -count=1 -timeout 25m ./...", cwd=vw, timeout=1800)
        report["suite_passes"] = rc == 0 and "FAIL" not in o
        if not report["suite_passes"]:
            report["suite_tail"] = o[-800:]
        # 3. demo with the mutant
        rc, o = sh(cmd, cwd=vw)
        report["demo_with"] = "fails" if demo_failed(o) else "passes"
        report["demo_with_tail"] = o[-900:]
    finally:
        sh("git -C /repo worktree remove --force %s" % vw)
        sh("rm -rf %s" % vw)
    ok = report.get("applies") and report.get("builds") and report.get("suite_passes") and report["demo_without"] == "passes" and report["demo_with"] == "fails"
    report["confirmed"] = bool(ok)
    print(json.dumps({k: v for k, v in report.items() if not k.endswith("_tail") or not ok}, indent=1))
    if ok:
        dst = "/verif/seeded/%s%s-%s" % (rnd, prop, x)
        shutil.rmtree(dst, ignore_errors=True)
        os.makedirs(dst)
        for f in os.listdir(src):
            p = os.path.join(src, f)
            if os.path.isdir(p):
                shutil.copytree(p, os.path.join(dst, f))
            else:
                shutil.copy(p, dst)
        meta["breaks_property"] = prop
        meta["confirmed_by_us"] = {
            "repo_head": report["repo_head"],
            "ran": ["git apply patch.diff (scratch worktree of /repo HEAD)", "go build ./...", "go test -vet=off -count=1 ./... (all packages ok)", "demo without the patch: passes", "demo with the patch: fails"],
            "demo_with_tail": report["demo_with_tail"][-400:],
        }
        json.dump(meta, open(os.path.join(dst, "meta.json"), "w"), indent=1)
    return 0 if ok else 1


if __name__ == "__main__":
    sys.exit(main())
