#!/usr/bin/env python3
"""Regenerates /verif/seeded/EXPECT.json from seeded/RESULTS.json (written by
seeded_check.py): for every seeded change caught by the check of the property
it breaks, records that property and the first reporting rule. The thorough
tier replays exactly these entries as in-memory overlays."""
import json, re
R = json.load(open("/verif/seeded/RESULTS.json"))
E = {}
for k in sorted(R):
    r = R[k]
    if r["status"] != "caught":
        print("not caught, left out of EXPECT:", k, r["status"])
        continue
    m = re.search(r"rule=(\S+)", (r.get("violations") or [""])[0])
    E[k] = {"breaks": r["property"], "caught_by": [r["property"]], "rule": m.group(1) if m else ""}
json.dump(E, open("/verif/seeded/EXPECT.json", "w"), indent=1, sort_keys=True)
print(len(E), "entries")
