#!/bin/sh
# usage: try_patch.sh <dir-with-patch.diff> <Cnn> [grep-pattern]  — applies the patch to /repo, runs the quick check, reverts
d=$(realpath $1); p=$2; pat=${3:-"^biocheck\|iolation:\|UNDEC"}
git -C /repo apply --whitespace=nowarn $d/patch.diff || exit 1
/verif/bin/biocheck -prop $p -tier quick -verif /tmp/bc-verif 2>&1 | grep "$pat" | cut -c1-420
git -C /repo checkout -- . ; git -C /repo clean -fdq
