#!/usr/bin/env python3
"""Runs every property's quick check against every behaviour-preserving
refactoring under /verif/benign: git -C /repo apply <patch>, bin/biocheck for
all 20 properties (in parallel), git -C /repo checkout -- . (always undone).
Any VIOLATION or "no verdict" is a false alarm of ours.

usage: benign_check.py [ids...]   (default: all)
Writes /verif/benign/RESULTS.json and /verif/benign/SILENT.json, prints a table.
"""
import json, os, subprocess, sys
from concurrent.futures import ThreadPoolExecutor

ROOT = "/verif"
PROPS = ["C%02d" % i for i in range(1, 21)]
ENV = dict(os.environ, GOFLAGS="-mod=mod", GOPROXY="off", GOSUMDB="off", GOTOOLCHAIN="local", GOWORK="off")


def sh(cmd, cwd=None):
    p = subprocess.run(cmd, shell=True, cwd=cwd, env=ENV, stdout=subprocess.PIPE, stderr=subprocess.STDOUT, text=True)
    return p.returncode, p.stdout


def one(prop):
    # evidence goes to a scratch verif root so that parallel runs do not fight over files
    rc, o = sh("%s/bin/biocheck -prop %s -tier quick -verif /tmp/bc-verif" % (ROOT, prop), cwd=ROOT)
    bad = [l.strip() for l in o.splitlines() if l.strip().startswith("violation:") or l.startswith("UNDECIDED") or l.startswith("ERROR")]
    return prop, rc, bad


def main():
    # --anchored: run only the properties whose anchor directories the patch touches (and the property
    # the refactoring was written for) — what the thorough tier replays; the default runs all 20
    anchored = "--anchored" in sys.argv
    sys.argv = [a for a in sys.argv if a != "--anchored"]
    ids = sys.argv[1:] or sorted(d for d in os.listdir(ROOT + "/benign") if os.path.isdir(ROOT + "/benign/" + d))
    rc, o = sh("git -C /repo status --porcelain")
    if o.strip():
        print("refusing: /repo is not clean:\n" + o)
        return 2
    os.makedirs("/tmp/bc-verif/evidence", exist_ok=True)
    sh("cp %s/known_findings.txt /tmp/bc-verif/" % ROOT)
    res_path = ROOT + "/benign/RESULTS.json"
    results = json.load(open(res_path)) if os.path.exists(res_path) else {}
    props_json = [json.loads(l) for l in open(ROOT + "/properties.jsonl")]
    anchor_dirs = {p["id"]: {os.path.dirname(f) for f in p["anchors"].get("files", [])} for p in props_json}
    for i in ids:
        d = ROOT + "/benign/" + i
        meta = json.load(open(d + "/meta.json"))
        own = meta.get("written_for_property") or i.split("-")[1]
        try:
            rc, o = sh("git -C /repo apply --whitespace=nowarn %s/patch.diff" % d)
            if rc != 0:
                results[i] = {"property": own, "status": "patch does not apply to /repo HEAD", "alarms": {}}
                print("%-12s %s" % (i, "patch does not apply"))
                continue
            pfiles = [l[6:].strip() for l in open(d + "/patch.diff") if l.startswith("+++ b/")]
            pdirs = {os.path.dirname(f) for f in pfiles}
            todo = PROPS
            if anchored:
                todo = sorted({own} | {p for p in PROPS if anchor_dirs[p] & pdirs})
            with ThreadPoolExecutor(max_workers=8) as ex:
                outs = list(ex.map(one, todo))
        finally:
            sh("git -C /repo checkout -- .")
            sh("git -C /repo clean -fdq")
        alarms = {p: {"exit": rc, "lines": bad[:4]} for p, rc, bad in outs if rc != 0 or bad}
        files = [l[6:].strip() for l in open(d + "/patch.diff") if l.startswith("+++ b/")]
        dirs = {os.path.dirname(f) for f in files}
        results[i] = {"property": own, "status": "silent" if not alarms else "FALSE ALARM", "alarms": alarms, "files": files,
                      "replay_in": sorted({own} | {p for p in PROPS if anchor_dirs[p] & dirs})}
        print("%-12s %-11s %s" % (i, results[i]["status"], "; ".join("%s: %s" % (p, (a["lines"] or ["exit %d" % a["exit"]])[0][:150]) for p, a in sorted(alarms.items()))))
    json.dump(results, open(res_path, "w"), indent=1, sort_keys=True)
    silent = {k: {"props": v["replay_in"]} for k, v in results.items() if v["status"] == "silent"}
    json.dump(silent, open(ROOT + "/benign/SILENT.json", "w"), indent=1, sort_keys=True)
    n_bad = sum(1 for v in results.values() if v["status"] != "silent")
    print("%d refactorings, %d not silent" % (len(results), n_bad))
    return 0


if __name__ == "__main__":
    sys.exit(main())
