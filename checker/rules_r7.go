// Rules added after the seventh round of seeded changes (DESIGN §10.6).
package main

import (
	"fmt"
	"go/token"
	"go/types"
	"sort"
	"strings"

	"golang.org/x/tools/go/ssa"
)

// maybeSuccess: the error result of the return (its last result) is nil or
// whatever another call reported — anything but an error made on the spot or
// a variable just tested non-nil.
func maybeSuccess(r *ssa.Return) bool {
	res := effectiveResults(r)
	if len(res) == 0 {
		return true
	}
	e := res[len(res)-1]
	if !isErrorType(e.Type()) {
		return true
	}
	if isNilConst(e) {
		return true
	}
	switch x := e.(type) {
	case *ssa.Call:
		if sf := x.Call.StaticCallee(); sf != nil && sf.Pkg != nil {
			p := sf.Pkg.Pkg.Path()
			if (p == "errors" && sf.Name() == "New") || (p == "fmt" && sf.Name() == "Errorf") {
				return false
			}
		}
		return true
	case *ssa.MakeInterface:
		return false
	case *ssa.Extract, *ssa.Phi, *ssa.UnOp:
		// a variable: an error exit if it has just been found non-nil
		for _, bf := range branchesAt(r.Block()) {
			if (bf.cond.X == e && isNilConst(bf.cond.Y)) || (bf.cond.Y == e && isNilConst(bf.cond.X)) {
				if (bf.cond.Op == token.NEQ && bf.edge == 0) || (bf.cond.Op == token.EQL && bf.edge == 1) {
					return false
				}
			}
		}
		return true
	}
	return true
}

// everyIterationPasses: every path from the loop header through the body back
// to the header executes an instruction accepted by stop.
func everyIterationPasses(l *ssaLoop, stop func(ssa.Instruction) bool) bool {
	seen := map[*ssa.BasicBlock]bool{}
	var walk func(b *ssa.BasicBlock) bool // true: header reached again without stop
	walk = func(b *ssa.BasicBlock) bool {
		if b == l.head {
			return true
		}
		if !l.body[b] || seen[b] {
			return false
		}
		seen[b] = true
		for _, ins := range b.Instrs {
			if stop(ins) {
				return false
			}
		}
		for _, s := range b.Succs {
			if walk(s) {
				return true
			}
		}
		return false
	}
	for _, ins := range l.head.Instrs {
		if stop(ins) {
			return true
		}
	}
	for _, s := range l.head.Succs {
		if l.body[s] && walk(s) {
			return false
		}
	}
	return true
}

// ---- constformat (C01, C02): record text is never used as a format string ----

func ruleConstFormat(c *Ctx, rule string, shorts ...string) {
	n := 0
	for _, short := range shorts {
		sp := c.SPkgs[c.pkg(short).PkgPath]
		for _, fn := range srcFuncs(sp) {
			cnt := 0
			for _, b := range fn.Blocks {
				for _, ins := range b.Instrs {
					call, ok := ins.(*ssa.Call)
					if !ok {
						continue
					}
					sf := call.Call.StaticCallee()
					if sf == nil || sf.Pkg == nil || sf.Pkg.Pkg.Path() != "fmt" {
						continue
					}
					idx := -1
					switch sf.Name() {
					case "Fprintf":
						idx = 1
					case "Sprintf", "Printf", "Errorf":
						idx = 0
					}
					if idx < 0 {
						continue
					}
					n++
					cnt++
					c.Funcs[funcName(fn)] = true
					key := fmt.Sprintf("%s/fmt.%s#%d", funcName(fn), sf.Name(), cnt)
					if _, isK := call.Call.Args[idx].(*ssa.Const); isK {
						c.ok(rule, key, call.Pos(), "the format is a constant")
					} else {
						c.bad(rule, key, call.Pos(), "the format string of fmt."+sf.Name()+" is computed ("+symName(call.Call.Args[idx], nil)+"), not a constant: text that comes from a record — a name, a description, an attribute value — is then interpreted as formatting verbs, so any '%' in it is written as %!x(MISSING) noise and the record does not read back as it was")
					}
				}
			}
		}
	}
	if n == 0 {
		c.und(rule, "constformat", token.NoPos, "no formatted output calls found")
	}
}

// ---- liveconfig (C01, C02): the exported settings of a reader or writer are consulted per call ----

func ruleLiveConfig(c *Ctx, rule string, shorts ...string) {
	n := 0
	for _, short := range shorts {
		sp := c.SPkgs[c.pkg(short).PkgPath]
		for _, tname := range []string{"Reader", "Writer"} {
			m, ok := sp.Members[tname].(*ssa.Type)
			if !ok {
				continue
			}
			st, ok := m.Type().Underlying().(*types.Struct)
			if !ok {
				continue
			}
			// fields loaded in the call tree of the type's methods (constructors excluded)
			loaded := map[string]bool{}
			written := map[string]bool{}
			seen := map[*ssa.Function]bool{}
			var visit func(f *ssa.Function, d int)
			visit = func(f *ssa.Function, d int) {
				if seen[f] || d > 4 {
					return
				}
				seen[f] = true
				for _, b := range f.Blocks {
					for _, ins := range b.Instrs {
						if fa, ok := ins.(*ssa.FieldAddr); ok {
							if name, ok := fieldOf(fa, sp.Pkg.Path(), tname); ok {
								var use func(v ssa.Value, d int)
								use = func(v ssa.Value, d int) {
									if d > 3 {
										return
									}
									for _, r := range *v.Referrers() {
										switch x := r.(type) {
										case *ssa.UnOp:
											if x.Op == token.MUL {
												loaded[name] = true
											}
										case *ssa.Store:
											if x.Addr == v {
												written[name] = true
											}
										case *ssa.FieldAddr:
											use(x, d+1)
										case *ssa.IndexAddr:
											use(x, d+1)
										}
									}
								}
								use(fa, 0)
							}
						}
						if call, ok := ins.(*ssa.Call); ok {
							if sf := call.Call.StaticCallee(); sf != nil && sf.Pkg == sp {
								visit(sf, d+1)
							}
						}
					}
				}
				for _, an := range f.AnonFuncs {
					visit(an, d+1)
				}
			}
			for _, typ := range []types.Type{m.Type(), types.NewPointer(m.Type())} {
				ms := c.Prog.MethodSets.MethodSet(typ)
				for i := 0; i < ms.Len(); i++ {
					if f := c.Prog.MethodValue(ms.At(i)); f != nil && f.Synthetic == "" && f.Pkg == sp {
						visit(f, 0)
					}
				}
			}
			for i := 0; i < st.NumFields(); i++ {
				f := st.Field(i)
				if !f.Exported() || (written[f.Name()] && !loaded[f.Name()]) {
					continue // unexported, or something the methods report to the caller (gff.Reader.Metadata)
				}
				n++
				key := shortPkg(sp.Pkg.Path()) + "." + tname + "." + f.Name() + "/read-by-the-methods"
				if loaded[f.Name()] {
					c.ok(rule, key, f.Pos(), "the setting is read in the call tree of the type's methods")
				} else {
					c.bad(rule, key, f.Pos(), "the exported setting "+tname+"."+f.Name()+" is never read by a method of the type: what it selected has been fixed at construction (or dropped), so changing the field between calls — writing a record at a narrower column count, switching the '+' line style — no longer has any effect")
				}
			}
		}
	}
	if n == 0 {
		c.und(rule, "liveconfig", token.NoPos, "no exported reader/writer settings found")
	}
}

// ---- strictconverge (C05): converging pointers stop before they meet ----

func ruleStrictConverge(c *Ctx, rule string, shorts ...string) {
	n := 0
	for _, short := range shorts {
		sp := c.SPkgs[c.pkg(short).PkgPath]
		for _, fn := range srcFuncs(sp) {
			if fn.Name() != "RevComp" {
				continue
			}
			for _, l := range naturalLoops(fn) {
				for _, bf := range headFact(l) {
					pi, oki := bf.cond.X.(*ssa.Phi)
					pj, okj := bf.cond.Y.(*ssa.Phi)
					if !oki || !okj || pi.Block() != l.head || pj.Block() != l.head {
						continue
					}
					n++
					c.Funcs[funcName(fn)] = true
					key := fmt.Sprintf("%s/converging-loop#%d", funcName(fn), l.head.Index)
					op := effectiveOp(bf, true)
					if op == token.LSS || op == token.GTR {
						// the positions stop before they meet: the letter in the middle of an odd-length sequence is
						// complemented separately, under a test that the two positions have met
						// the loop only exchanges the ends, and a pass of its own complements every letter afterwards
						// (reverse the letter/quality pairs as units, then complement in place)
						if pureSwapThenFullPass(fn, l) {
							c.ok(rule, key, bf.cond.Pos(), "the converging loop only exchanges the two ends; every letter, the middle one included, is complemented by a pass over the whole sequence")
							continue
						}
						middle := false
						for _, b := range fn.Blocks {
							if l.body[b] {
								continue
							}
							ifi, ok := b.Instrs[len(b.Instrs)-1].(*ssa.If)
							if !ok {
								continue
							}
							if eq, ok := ifi.Cond.(*ssa.BinOp); ok && (eq.Op == token.EQL || eq.Op == token.NEQ) {
								if (eq.X == ssa.Value(pi) && eq.Y == ssa.Value(pj)) || (eq.X == ssa.Value(pj) && eq.Y == ssa.Value(pi)) {
									middle = true
								}
							}
						}
						if !middle {
							c.bad(rule, key, bf.cond.Pos(), "the loop that exchanges and complements the two ends stops while "+pi.Comment+" "+op.String()+" "+pj.Comment+" and nothing afterwards tests whether the two positions have met: the middle letter of an odd-length sequence is left uncomplemented, so reverse-complementing gives a wrong middle letter")
							continue
						}
						c.ok(rule, key, bf.cond.Pos(), "the two positions are exchanged only while they differ")
					} else if meetingBranch(l, pi, pj) {
						c.ok(rule, key, bf.cond.Pos(), "the positions may meet, and the round in which they do is a branch of its own (a test of the two positions for equality inside the loop): the exchange runs only while they differ")
					} else if readsBeforeWrites(l) {
						c.ok(rule, key, bf.cond.Pos(), "the positions may meet, but each round reads both ends before it writes either (one parallel assignment): the middle letter exchanged with itself ends up complemented once")
					} else {
						c.bad(rule, key, bf.cond.Pos(), "the loop that exchanges and complements the two ends runs while "+pi.Comment+" "+op.String()+" "+pj.Comment+": when the positions meet, the middle letter of an odd-length sequence is exchanged with itself and complemented twice, i.e. left as it was — reverse-complementing once gives a wrong middle letter (twice still restores the input)")
					}
				}
			}
		}
	}
	if n == 0 {
		c.und(rule, "strictconverge", token.NoPos, "no converging two-position loop found in a RevComp method")
	}
}

// pureSwapThenFullPass: the converging loop never reads the complement table,
// and another loop of the function, bounded by the length of a slice and not
// nested with the first, stores a value read from that table.
func pureSwapThenFullPass(fn *ssa.Function, l *ssaLoop) bool {
	var table ssa.Value
	for _, b := range fn.Blocks {
		for _, ins := range b.Instrs {
			if call, ok := ins.(*ssa.Call); ok && calleeName(&call.Call) == "ComplementTable" {
				table = call
			}
		}
	}
	if table == nil {
		return false
	}
	readsTable := func(b *ssa.BasicBlock) bool {
		for _, ins := range b.Instrs {
			if ia, ok := ins.(*ssa.IndexAddr); ok && ia.X == table {
				return true
			}
			if ix, ok := ins.(*ssa.Index); ok && ix.X == table {
				return true
			}
		}
		return false
	}
	for b := range l.body {
		if readsTable(b) {
			return false
		}
	}
	for _, l2 := range naturalLoops(fn) {
		if l2 == l || l2.body[l.head] || l.body[l2.head] {
			continue
		}
		// bounded by a length, from the first element
		whole := false
		if ifi, ok := l2.head.Instrs[len(l2.head.Instrs)-1].(*ssa.If); ok {
			if bo, ok := ifi.Cond.(*ssa.BinOp); ok && bo.Op == token.LSS && builtinCall(bo.Y, "len") != nil {
				whole = true
			}
		}
		if !whole {
			continue
		}
		reads, stores := false, false
		for b := range l2.body {
			if readsTable(b) {
				reads = true
			}
			for _, ins := range b.Instrs {
				if st, ok := ins.(*ssa.Store); ok {
					if _, ok := st.Addr.(*ssa.FieldAddr); ok {
						stores = true
					}
					if _, ok := st.Addr.(*ssa.IndexAddr); ok {
						stores = true
					}
				}
			}
		}
		if reads && stores {
			return true
		}
	}
	return false
}

// meetingBranch: inside the loop a branch tests the two positions for equality,
// and stores into the sequence happen on both of its sides (the middle is
// complemented on one, the ends exchanged on the other).
func meetingBranch(l *ssaLoop, pi, pj *ssa.Phi) bool {
	for b := range l.body {
		ifi, ok := b.Instrs[len(b.Instrs)-1].(*ssa.If)
		if !ok || len(b.Succs) != 2 {
			continue
		}
		eq, ok := ifi.Cond.(*ssa.BinOp)
		if !ok || (eq.Op != token.EQL && eq.Op != token.NEQ) {
			continue
		}
		if !((eq.X == ssa.Value(pi) && eq.Y == ssa.Value(pj)) || (eq.X == ssa.Value(pj) && eq.Y == ssa.Value(pi))) {
			continue
		}
		stores := func(from *ssa.BasicBlock) bool {
			seen := map[*ssa.BasicBlock]bool{}
			work := []*ssa.BasicBlock{from}
			for len(work) > 0 {
				x := work[0]
				work = work[1:]
				// the side on which the positions have met may leave the loop (break) before it stores
				if seen[x] || x == l.head || len(seen) > 12 {
					continue
				}
				seen[x] = true
				for _, ins := range x.Instrs {
					if st, ok := ins.(*ssa.Store); ok {
						if _, isIdx := st.Addr.(*ssa.IndexAddr); isIdx {
							return true
						}
					}
				}
				work = append(work, x.Succs...)
			}
			return false
		}
		if stores(b.Succs[0]) && stores(b.Succs[1]) {
			return true
		}
	}
	return false
}

// readsBeforeWrites: all stores of the loop body sit in one block, and no memory is read there after the first of them.
func readsBeforeWrites(l *ssaLoop) bool {
	var blk *ssa.BasicBlock
	for b := range l.body {
		for _, ins := range b.Instrs {
			if _, ok := ins.(*ssa.Store); ok {
				if blk != nil && blk != b {
					return false
				}
				blk = b
			}
			if _, ok := ins.(ssa.CallInstruction); ok {
				return false
			}
		}
	}
	if blk == nil {
		return false
	}
	stored := false
	for _, ins := range blk.Instrs {
		switch x := ins.(type) {
		case *ssa.Store:
			stored = true
		case *ssa.UnOp:
			if x.Op == token.MUL && stored {
				return false
			}
		}
	}
	return true
}

// ---- posindex (C05, C07): a position is not passed where a raw subscript is expected ----

// rawIndexParams: parameters of fn used as a subscript of recv.Seq as they are.
func rawIndexParams(fn *ssa.Function) map[int]bool {
	out := map[int]bool{}
	if fn.Signature.Recv() == nil {
		return out
	}
	for _, b := range fn.Blocks {
		for _, ins := range b.Instrs {
			ia, ok := ins.(*ssa.IndexAddr)
			if !ok {
				continue
			}
			ld, ok := ia.X.(*ssa.UnOp)
			if !ok {
				continue
			}
			fa, ok := ld.X.(*ssa.FieldAddr)
			if !ok || fieldName(fa) != "Seq" {
				continue
			}
			for i, p := range fn.Params {
				if ia.Index == ssa.Value(p) {
					out[i] = true
				}
			}
		}
	}
	return out
}

func rulePosIndex(c *Ctx, rule string, shorts ...string) {
	n := 0
	for _, short := range shorts {
		sp := c.SPkgs[c.pkg(short).PkgPath]
		for _, fn := range srcFuncs(sp) {
			env := &linEnv{forms: map[*ssa.Parameter]lin{}, names: map[*ssa.Parameter]string{}, allocAsName: true}
			cnt := 0
			for _, b := range fn.Blocks {
				for _, ins := range b.Instrs {
					call, ok := ins.(*ssa.Call)
					if !ok {
						continue
					}
					sf := call.Call.StaticCallee()
					if sf == nil || sf.Pkg != sp {
						continue
					}
					raw := rawIndexParams(sf)
					for i := range raw {
						if i >= len(call.Call.Args) {
							continue
						}
						arg := call.Call.Args[i]
						cnt++
						n++
						c.Funcs[funcName(fn)] = true
						key := fmt.Sprintf("%s/%s(arg %d)#%d", funcName(fn), sf.Name(), i, cnt)
						// the value, or where a counter starts from
						vals := []ssa.Value{arg}
						if phi, _, ok := linearIn(arg); ok {
							vals = nil
							for _, e := range phi.Edges {
								vals = append(vals, e)
							}
						}
						why := ""
						for _, v := range vals {
							f := linOf(v, env)
							for a := range f.coef {
								if strings.HasSuffix(a, ".Offset") || strings.HasSuffix(a, ".Start()") || strings.HasSuffix(a, ".End()") {
									why = a
								}
							}
						}
						if why == "" {
							c.ok(rule, key, call.Pos(), "the argument is a subscript (no offset term)")
						} else {
							c.bad(rule, key, call.Pos(), sf.Name()+" uses this argument as a subscript of the letters as it is, but the value passed is a position (it contains "+why+"): the two agree only for a sequence at offset zero; at any other offset the call addresses the wrong column or runs off the slice")
						}
					}
				}
			}
		}
	}
	if n == 0 {
		c.triv(rule, "posindex", token.NoPos, "no in-package call passes a value to a raw-subscript parameter")
	}
}

// ---- appendfresh (C06): Slice.Append returns the receiver's extension, never the argument ----

func ruleAppendFresh(c *Ctx, rule string) {
	sp := c.SPkgs[c.pkg("alphabet").PkgPath]
	n := 0
	for _, fn := range srcFuncs(sp) {
		if fn.Parent() != nil || fn.Name() != "Append" || fn.Signature.Recv() == nil || len(fn.Params) != 2 {
			continue
		}
		n++
		c.Funcs[funcName(fn)] = true
		key := funcName(fn) + "/result-extends-the-receiver"
		var bad *ssa.Return
		for _, r := range returnsOf(fn) {
			if len(r.Results) != 1 {
				continue
			}
			v := r.Results[0]
			for d := 0; d < 4; d++ {
				switch x := v.(type) {
				case *ssa.MakeInterface:
					v = x.X
					continue
				case *ssa.ChangeType:
					v = x.X
					continue
				case *ssa.Convert:
					v = x.X
					continue
				}
				break
			}
			app := builtinCall(v, "append")
			if app == nil {
				bad = r
				continue
			}
			first := app.Call.Args[0]
			for d := 0; d < 3; d++ {
				if ct, ok := first.(*ssa.ChangeType); ok {
					first = ct.X
					continue
				}
				break
			}
			// the receiver (possibly spilled)
			if first != ssa.Value(fn.Params[0]) {
				if ld, ok := first.(*ssa.UnOp); !ok || symName(ld, &linEnv{allocAsName: true}) != fn.Params[0].Name() {
					bad = r
				}
			}
		}
		if bad != nil {
			c.bad(rule, key, bad.Pos(), "Append returns something other than append(receiver, …) at "+c.pos(bad.Pos())+": sequtils builds every result as Make(0, n).Append(piece), so a shortcut that hands back the argument for an empty receiver makes the result share storage with the source — a later Append into it (Stitch's second span) or a write to the copy overwrites the source's letters")
		} else {
			c.ok(rule, key, fn.Pos(), "every return is append(receiver, …)")
		}
	}
	if n == 0 {
		c.und(rule, "alphabet/Append", token.NoPos, "no Slice.Append implementations found")
	}
}

// ---- commitown (C06): a sequtils operation installs its own result ----

func ruleCommitOwn(c *Ctx, rule string, names ...string) {
	for _, name := range names {
		fn := c.fn("seq/sequtils", name)
		c.Funcs[funcName(fn)] = true
		key := "sequtils." + name + "/result-installed-by-its-own-code"
		isSet := func(i ssa.Instruction) bool {
			call, ok := i.(*ssa.Call)
			return ok && call.Call.IsInvoke() && call.Call.Method.Name() == "SetSlice"
		}
		if !containsVia(fn, isSet) {
			c.und(rule, key, fn.Pos(), "no SetSlice call")
			continue
		}
		// SetSlice in the function itself or in a private helper of the package that always makes it; a sibling
		// operation (an exported function such as Truncate) installs its own result under its own conventions
		own := viaCalls(isSet)
		lifted := func(i ssa.Instruction) bool {
			if call, ok := i.(*ssa.Call); ok {
				if g := call.Call.StaticCallee(); g != nil && g.Object() != nil && g.Object().Exported() {
					return isSet(i)
				}
			}
			return own(i)
		}
		var bad *ssa.Return
		for _, r := range returnsOf(fn) {
			if !maybeSuccess(r) {
				continue
			}
			// a return that hands back the result of a private helper is judged in the helper
			if call, ok := effectiveResults(r)[len(r.Results)-1].(*ssa.Call); ok {
				if g := call.Call.StaticCallee(); g != nil && inModule(g) && g.Blocks != nil && g.Pkg == fn.Pkg && (g.Object() == nil || !g.Object().Exported()) {
					okAll := true
					for _, gr := range returnsOf(g) {
						if maybeSuccess(gr) && !everyPathPasses(g, gr, lifted, nil) {
							okAll = false
						}
					}
					if okAll {
						continue
					}
				}
			}
			if !everyPathPasses(fn, r, lifted, nil) {
				bad = r
			}
		}
		if bad != nil {
			c.bad(rule, key, bad.Pos(), name+" can return without an error of its own at "+c.pos(bad.Pos())+" on a path that has not installed the result with SetSlice: handing the work to a sibling operation takes over that operation's conventions as well — its range check, the offset it gives the result — which are not the documented ones of "+name)
		} else {
			c.ok(rule, key, fn.Pos(), "every return that is not an error made on the spot has passed SetSlice")
		}
	}
}

// ---- flagloop (C07): per-row work selected by a flag is not skipped by another flag's continue ----

func ruleFlagLoop(c *Ctx, rule string) {
	fn := c.fn("seq/multi", "(*Multi).Flush")
	c.Funcs[funcName(fn)] = true
	where := fn.Params[1]
	n := 0
	for _, l := range naturalLoops(fn) {
		// flag tests inside the loop
		var tests []*ssa.BinOp
		for b := range l.body {
			for _, ins := range b.Instrs {
				if bo, ok := ins.(*ssa.BinOp); ok && bo.Op == token.AND && (bo.X == ssa.Value(where) || bo.Y == ssa.Value(where)) {
					tests = append(tests, bo)
				}
			}
		}
		sort.Slice(tests, func(i, j int) bool { return tests[i].Pos() < tests[j].Pos() })
		for _, t := range tests {
			n++
			key := fmt.Sprintf("multi.(*Multi).Flush/flag-test-in-row-loop#%d", n)
			if everyIterationPasses(l, func(i ssa.Instruction) bool { return i == ssa.Instruction(t) }) {
				c.ok(rule, key, t.Pos(), "every iteration reaches the test")
			} else {
				c.bad(rule, key, t.Pos(), "the test of the flag at "+c.pos(t.Pos())+" sits in a loop over the rows but is not reached on every iteration: a `continue` meant for the work of the other flag skips it, so a row that needs no padding at the start gets none at the end either and Flush(Start|End) leaves the alignment ragged")
			}
		}
	}
	if n == 0 {
		c.triv(rule, "multi.(*Multi).Flush/flag-tests", fn.Pos(), "the flags are tested outside the loops over the rows")
	}
}

// ---- stepalways (C07): the run counter advances with every row ----

func ruleStepAlways(c *Ctx, rule string, targets [][2]string) {
	for _, t := range targets {
		fn := c.fn(t[0], t[1])
		c.Funcs[funcName(fn)] = true
		key := funcName(fn) + "/run-counter-advances"
		a := fn.Params[1]
		n := 0
		bad := false
		var pos token.Pos
		for _, l := range naturalLoops(fn) {
			for _, ins := range l.head.Instrs {
				phi, ok := ins.(*ssa.Phi)
				if !ok {
					break
				}
				// a counter used as a subscript (or slice bound) of the argument
				used := false
				for _, r := range *phi.Referrers() {
					switch x := r.(type) {
					case *ssa.IndexAddr:
						used = used || x.X == ssa.Value(a)
					case *ssa.Slice:
						used = used || x.X == ssa.Value(a)
					}
				}
				if !used || !isIntegral(phi.Type()) {
					continue
				}
				n++
				// on every back edge the value differs from the phi itself
				var stale func(v ssa.Value, d int) bool
				stale = func(v ssa.Value, d int) bool {
					if d > 6 {
						return false
					}
					if v == ssa.Value(phi) {
						return true
					}
					if p, ok := v.(*ssa.Phi); ok && l.body[p.Block()] && p != phi {
						for _, e := range p.Edges {
							if stale(e, d+1) {
								return true
							}
						}
					}
					return false
				}
				for i, p := range l.head.Preds {
					if l.body[p] && stale(phi.Edges[i], 0) {
						bad, pos = true, phi.Pos()
					}
				}
			}
		}
		switch {
		case n == 0:
			c.und(rule, key, fn.Pos(), "no counter into the argument found")
		case bad:
			c.bad(rule, key, pos, "the counter that selects each row's run of letters can go round the loop over the rows unchanged: from the first row that is skipped on, every later row is offered the run of an earlier row (or none), silently")
		default:
			c.ok(rule, key, fn.Pos(), "every way round the loop over the rows advances the counter")
		}
	}
}

// ---- tiekeeps (C08): a tie between candidate scores does not count against the diagonal ----

func ruleTieKeeps(c *Ctx, rule string, fns []*ssa.Function) {
	n := 0
	for _, fn := range fns {
		cands := map[ssa.Value]bool{}
		for _, b := range fn.Blocks {
			for _, ins := range b.Instrs {
				if call, ok := ins.(*ssa.Call); ok {
					if sf := call.Call.StaticCallee(); sf != nil && sf.Name() == "max3" {
						for _, a := range call.Call.Args {
							cands[a] = true
						}
					}
				}
			}
		}
		cnt := 0
		for _, b := range fn.Blocks {
			for _, ins := range b.Instrs {
				bo, ok := ins.(*ssa.BinOp)
				if !ok || !cands[bo.X] || !cands[bo.Y] {
					continue
				}
				switch bo.Op {
				case token.LSS, token.GTR, token.LEQ, token.GEQ, token.EQL, token.NEQ:
				default:
					continue
				}
				cnt++
				n++
				c.Funcs[funcName(fn)] = true
				key := fmt.Sprintf("%s/candidate-comparison#%d", funcName(fn), cnt)
				if bo.Op == token.LSS || bo.Op == token.GTR {
					c.bad(rule, key, bo.Pos(), "two of the candidate scores of a cell are compared strictly ("+bo.Op.String()+") to decide whether the cell was reached on the diagonal: when the layers tie — always so for the first letter pair of a local alignment, whose predecessors are all zero — the diagonal loses, the cell cannot become the end of the alignment, and a lower-scoring (or empty) alignment is returned")
				} else {
					c.ok(rule, key, bo.Pos(), "ties are kept")
				}
			}
		}
	}
	if n == 0 {
		c.triv(rule, "align/candidate-comparisons", token.NoPos, "which candidate won is decided by comparing with the maximum, not the candidates with each other")
	}
}

// ---- scorezero (C09): the score of the first traced block starts from zero ----

func ruleScoreZero(c *Ctx, rule string, fns []*ssa.Function) {
	for _, fn := range fns {
		c.Funcs[funcName(fn)] = true
		key := funcName(fn) + "/traceback-score-starts-at-zero"
		loops := naturalLoops(fn)
		inLoop := func(b *ssa.BasicBlock) *ssaLoop {
			var best *ssaLoop
			for _, l := range loops {
				if l.body[b] && (best == nil || len(l.body) < len(best.body)) {
					best = l
				}
			}
			return best
		}
		n := 0
		var bad ssa.Value
		// the accumulator is a variable shared with a closure that emits the pairs: what is stored into it
		// before the traceback loop is what the first block starts from
		capturedInit := func(al *ssa.Alloc) {
			for _, r := range *al.Referrers() {
				st, ok := r.(*ssa.Store)
				if !ok || st.Addr != ssa.Value(al) || inLoop(st.Block()) != nil {
					continue
				}
				n++
				if k, ok := constIntVal(st.Val); !ok || k != 0 {
					bad = st.Val
				}
			}
		}
		for _, an := range fn.AnonFuncs {
			for _, b := range an.Blocks {
				for _, ins := range b.Instrs {
					st, ok := ins.(*ssa.Store)
					if !ok {
						continue
					}
					fa, ok := st.Addr.(*ssa.FieldAddr)
					if !ok || fieldName(fa) != "score" || !strings.HasSuffix(typeString(fa.X.Type()), "featPair") {
						continue
					}
					ld, ok := st.Val.(*ssa.UnOp)
					if !ok || ld.Op != token.MUL {
						continue
					}
					fv, ok := ld.X.(*ssa.FreeVar)
					if !ok {
						continue
					}
					for _, pb := range fn.Blocks {
						for _, pi := range pb.Instrs {
							if mc, ok := pi.(*ssa.MakeClosure); ok && mc.Fn == ssa.Value(an) {
								for i, bv := range mc.Bindings {
									if an.FreeVars[i] == fv {
										if al, ok := bv.(*ssa.Alloc); ok {
											capturedInit(al)
										}
									}
								}
							}
						}
					}
				}
			}
		}
		judgeScore := func(v ssa.Value) {
			// follow the accumulator to the phi of the traceback loop
			var phi *ssa.Phi
			for d := 0; d < 6 && phi == nil; d++ {
				switch x := v.(type) {
				case *ssa.Phi:
					phi = x
				case *ssa.BinOp:
					v = x.X
				default:
					d = 6
				}
			}
			if phi == nil {
				return
			}
			// climb to the loop-head phi
			seen := map[*ssa.Phi]bool{}
			var inits []ssa.Value
			var climb func(p *ssa.Phi)
			climb = func(p *ssa.Phi) {
				if seen[p] {
					return
				}
				seen[p] = true
				l := inLoop(p.Block())
				for i, e := range p.Edges {
					fromOutside := l == nil || !l.body[p.Block().Preds[i]]
					if q, ok := e.(*ssa.Phi); ok && !fromOutside {
						climb(q)
						continue
					}
					if fromOutside && l != nil && p.Block() == l.head {
						inits = append(inits, e)
					} else if q, ok := e.(*ssa.Phi); ok {
						climb(q)
					}
				}
			}
			climb(phi)
			for _, e := range inits {
				n++
				if k, ok := constIntVal(e); !ok || k != 0 {
					bad = e
				}
			}
		}
		for _, b := range fn.Blocks {
			for _, ins := range b.Instrs {
				st, ok := ins.(*ssa.Store)
				if !ok {
					continue
				}
				fa, ok := st.Addr.(*ssa.FieldAddr)
				if !ok || fieldName(fa) != "score" || !strings.HasSuffix(typeString(fa.X.Type()), "featPair") {
					continue
				}
				if ld, ok := st.Val.(*ssa.UnOp); ok && ld.Op == token.MUL {
					if al, ok := ld.X.(*ssa.Alloc); ok {
						capturedInit(al)
						continue
					}
				}
				judgeScore(st.Val)
			}
		}
		// the pair may be built by a private helper that is handed the score
		for _, b := range fn.Blocks {
			for _, ins := range b.Instrs {
				call, ok := ins.(*ssa.Call)
				if !ok {
					continue
				}
				g := call.Call.StaticCallee()
				if g == nil || g.Pkg != fn.Pkg || g.Blocks == nil {
					continue
				}
				for _, gb := range g.Blocks {
					for _, gi := range gb.Instrs {
						st, ok := gi.(*ssa.Store)
						if !ok {
							continue
						}
						fa, ok := st.Addr.(*ssa.FieldAddr)
						if !ok || fieldName(fa) != "score" || !strings.HasSuffix(typeString(fa.X.Type()), "featPair") {
							continue
						}
						if prm, ok := st.Val.(*ssa.Parameter); ok {
							for k, gp := range g.Params {
								if gp == prm && k < len(call.Call.Args) {
									judgeScore(call.Call.Args[k])
								}
							}
						}
					}
				}
			}
		}
		switch {
		case n == 0:
			c.und(rule, key, fn.Pos(), "the score accumulator of the traceback was not found")
		case bad != nil:
			c.bad(rule, key, fn.Pos(), "the score accumulated for the blocks of the traceback does not start from the constant 0 but from "+symName(bad, nil)+": a value left over from the table fill is added to the first block traced, so that pair's Score() is not the score of its letters")
		default:
			c.ok(rule, key, fn.Pos(), "the accumulator enters the traceback loop as 0")
		}
	}
}
