package main

// Explanations of the rules added after the fifth round of seeded changes
// (DESIGN.md §10.4), appended to the registered properties.
func init() {
	extra := map[string]string{
		"C01": "overflowwidth: the writer's user-settable line width is an operand only of overflow-free operations (remainder, division, comparison), never of + or *. linelimit: as C04, for the FASTA/FASTQ readers.",
		"C02": "attrsplit: the GFF attribute list is produced by bytes.Split on \";\" or by a splitter that compares bytes with no constant other than ';'.",
		"C03": "eofspin: an abstract run of the FASTA/FASTQ read loop with the reader at end of input, tracking only whether the accumulated line is empty, cannot get back to ReadLine with the accumulator still non-empty. byteidx: every constant subscript or slice bound of an input line ([]byte call result or parameter) in the four readers is covered by len facts: dominating comparisons, a dominating bytes.HasPrefix with a literal, a dominating module predicate that is true only for len >= k (summarised), and for a parameter the minimum over the call sites.",
		"C05": "getterpure: no method of the alphabet types (Pairing, alpha, nucleic, protein) stores into receiver state (alphabets are shared across goroutines). rangeself: in the column-stored alignments' RevComp the row counter of rs[i][r] ranges over a column of the same alignment or over Rows().",
		"C06": "trimwindow also requires the candidate start (the value committed into the returned start) to be initialised from q.Start().",
		"C07": "foldinit: the running minimum/maximum of Multi.Start/End starts from the identity of the fold (or from a row's coordinate). nilfunc: the Column views call the QFilter field only under a comparison with Threshold or a nil check.",
		"C08": "delegatefamily: an aligner's Align delegates only to an aligner of its own family (NW*/SW*/Fitted*).",
		"C09": "fillwatermark: as C07 (Format builds gap runs with Repeat).",
		"C10": "casefold, indexinit: as C17 (the scanner relies on the alphabet's tables). windowpos reports a violation when the position and read counters do not advance in lock step on every path.",
		"C11": "removeowner: os.Remove/RemoveAll are called only from Clear, Pull and CleanUp (and New's finalizer). cycleowner: the per-cycle value count is reset to zero only in Clear.",
		"C12": "cycleowner, reset: as C11.",
		"C13": "reset, removeowner: as C11. errslot/propagate also requires the error result of the sorter's own unexported helpers (write) to reach a return or the slot.",
		"C14": "ringindex: a tube index reduced modulo the ring size is used only as the subscript of f.tubes. flushrange also rejects a constant offset on the first flushed tube index.",
		"C15": "intersectminmax: in alignRecursion the bound chosen between the trapezoid's and the hit's left/low diagonals is their maximum, between their right/high diagonals their minimum (selection by comparison, or util.Max/Min). stalecount: nothing that can change the trapezoid count runs between sizing FinaliseMerge's result and filling it.",
		"C16": "pileimages: Piles never stores the interval's own image list into the exported pile. overlapclosed: every Overlap(IntRange) method of package pals compares non-strictly, so abutting intervals match.",
		"C17": "asciicheck: every letter of both definition strings of NewPairing is compared with unicode.MaxASCII (directly or in a helper that receives the string). norunes: the methods of alpha handle letters byte by byte (no rune-decoding call).",
		"C18": "clampfirst: Ephred saturates the score as a float before converting it to the one-byte score. decodeswitch: every return of DecodeToQphred/DecodeToQsolexa is dominated by a comparison of the encoding.",
		"C19": "tokencap: the capacity of the token channel, the number of tokens sent and the number of workers started in NewProcessor are one SSA value. operationrecover: every Operation() call in package concurrent is in a function that defers a recover.",
		"C20": "intronperpair: Exons.Introns appends an intron on every iteration of its loop over neighbouring exons. locpairwise: Exons.Add rejects on a comparison of the locations of two exons of the result slice.",
	}
	for id, s := range extra {
		if p := props[id]; p != nil {
			p.Explanation += " " + s
		}
	}
}
