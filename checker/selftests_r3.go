package main

// Benign rewrites for the rules added after the third round of seeded
// changes: each keeps the behaviour the rule is about and must stay silent.
// (The fault direction of these rules is exercised by replaying the R3-*
// seeded changes.)
func init() {
	const (
		bed     = "io/featio/bed/bed.go"
		gff     = "io/featio/gff/gff.go"
		fastq   = "io/seqio/fastq/fastq.go"
		linseq  = "seq/linear/seq.go"
		multi   = "seq/multi/multi.go"
		aln     = "seq/alignment/alignment.go"
		utils   = "seq/sequtils/utils.go"
		fitaff  = "align/fitted_affine_letters.go"
		fitaffq = "align/fitted_affine_qletters.go"
		kmer    = "index/kmerindex/kmerindex.go"
		mor     = "morass/morass.go"
		filt    = "align/pals/filter/filter.go"
		dpal    = "align/pals/dp/align.go"
		prom    = "concurrent/promise.go"
		proc    = "concurrent/processor.go"
		gene    = "feat/gene/gene.go"
	)
	add := func(prop string, vs ...variant) { selftests[prop] = append(selftests[prop], vs...) }

	add("C01",
		variant{Name: "benign-bareplus-greater-than-one", File: fastq, Find: "if len(line) != 1 && bytes.Compare(label[1:], line[1:]) != 0 {", Replace: "if len(line) > 1 && !bytes.Equal(label[1:], line[1:]) {"},
		variant{Name: "benign-bareplus-less-than-two", File: fastq, Find: "if maybeID2(line) && (len(line) == 1 || bytes.Compare(label[1:], line[1:]) == 0) {", Replace: "if maybeID2(line) && (len(line) < 2 || bytes.Equal(label[1:], line[1:])) {"},
		variant{Name: "benign-clone-make-copy", File: linseq, Find: "\tc.Seq = append([]alphabet.Letter(nil), s.Seq...)\n", Replace: "\tc.Seq = make(alphabet.Letters, len(s.Seq))\n\tcopy(c.Seq, s.Seq)\n"},
	)
	add("C02",
		variant{Name: "benign-region-helper", File: gff,
			Find:    "\tcase *Region:\n\t\treturn fmt.Fprintf(w.w, \"##sequence-region %s %d %d\\n\", f.SeqName, feat.ZeroToOne(f.RegionStart), f.RegionEnd)\n\tdefault:\n\t\treturn fmt.Fprintf(w.w, \"##sequence-region %s %d %d\\n\", f.Name(), feat.ZeroToOne(f.Start()), f.End())\n\t}\n}\n",
			Replace: "\tcase *Region:\n\t\treturn w.writeRegion(f.SeqName, f.RegionStart, f.RegionEnd)\n\tdefault:\n\t\treturn w.writeRegion(f.Name(), f.Start(), f.End())\n\t}\n}\n\nfunc (w *Writer) writeRegion(name string, start, end int) (n int, err error) {\n\treturn fmt.Fprintf(w.w, \"##sequence-region %s %d %d\\n\", name, feat.ZeroToOne(start), end)\n}\n"},
		variant{Name: "benign-start-plus-one", File: gff, Find: "d.SeqName, feat.ZeroToOne(d.FeatStart), d.FeatEnd)", Replace: "d.SeqName, d.FeatStart+1, d.FeatEnd)"},
		variant{Name: "benign-split-helper", File: bed,
			Find:    "\tconst n = 3\n\tdefer handlePanic(b, &err)\n\tf := bytes.SplitN(line, []byte{'\\t'}, n+1)\n",
			Replace: "\tconst n = 3\n\tdefer handlePanic(b, &err)\n\tf := splitTabs(line, n+1)\n",
			More:    []edit{{bed, "type Chrom string\n", "func splitTabs(line []byte, n int) [][]byte { return bytes.SplitN(line, []byte(\"\\t\"), n) }\n\ntype Chrom string\n"}}},
	)
	add("C03",
		variant{Name: "benign-sentinel-counted-fill", File: bed, Find: "\tfor i := range t {\n\t\tt[i] = 0x7f\n\t}\n\tt['+'] = seq.Plus", Replace: "\tfor i := 0; i < 256; i++ {\n\t\tt[i] = 0x7f\n\t}\n\tt['+'] = seq.Plus"},
		variant{Name: "benign-sentinel-named-constant", File: bed, Find: "\tfor i := range t {\n\t\tt[i] = 0x7f\n\t}\n\tt['+'] = seq.Plus", Replace: "\tconst bad = seq.Strand(127)\n\tfor i := range t {\n\t\tt[i] = bad\n\t}\n\tt['+'] = seq.Plus"},
	)
	const fasta = "io/seqio/fasta/fasta.go"
	add("C04",
		variant{Name: "fasta-pending-fragments-dropped-at-eof", File: fasta, Find: "\t\t\tif err != io.EOF || len(line) == 0 {\n\t\t\t\tif err != io.EOF || r.working == nil {", Replace: "\t\t\tif true {\n\t\t\t\tif err != io.EOF || r.working == nil {", Rule: "lineio/pendingeof", Key: "fasta.(*Reader).Read/ReadLine/pending-fragments"},
		variant{Name: "benign-pending-fragments-flag", File: fasta, Find: "\t\t\tif err != io.EOF || len(line) == 0 {\n\t\t\t\tif err != io.EOF || r.working == nil {", Replace: "\t\t\tpending := len(line) != 0\n\t\t\tif err != io.EOF || !pending {\n\t\t\t\tif err != io.EOF || r.working == nil {"},
		variant{Name: "benign-trimmed-under-new-name", File: fastq, Find: "\t\tline = bytes.TrimSpace(line)\n\t\tswitch {\n", Replace: "\t\ttrimmed := bytes.TrimSpace(line)\n\t\tline = trimmed\n\t\tswitch {\n"},
	)
	add("C05",
		variant{Name: "benign-mirror-regrouped", File: multi, Find: "\t\tr.RevComp()\n\t\tr.SetOffset(start + end - r.End())\n", Replace: "\t\tr.RevComp()\n\t\tr.SetOffset(end - (r.End() - start))\n"},
		variant{Name: "benign-mirror-span-and-length", File: multi, Find: "\t\tr.Reverse()\n\t\tr.SetOffset(start + end - r.End())\n", Replace: "\t\tr.Reverse()\n\t\tspan := start + end\n\t\tr.SetOffset(span - r.Start() - r.Len())\n"},
		variant{Name: "benign-strand-times-minus-one", File: linseq, Find: "\ts.Strand = -s.Strand\n", Replace: "\ts.Strand *= -1\n"},
		variant{Name: "benign-row-strand-through-pointer", File: aln, Find: "\tr.Align.SubAnnotations[r.Row].Strand = -r.Align.SubAnnotations[r.Row].Strand\n", Replace: "\tann := &r.Align.SubAnnotations[r.Row]\n\tann.Strand = -ann.Strand\n"},
		variant{Name: "benign-row-strand-copy-stored-back", File: aln, Find: "\tr.Align.SubAnnotations[r.Row].Strand = -r.Align.SubAnnotations[r.Row].Strand\n", Replace: "\tann := r.Align.SubAnnotations[r.Row]\n\tann.Strand = -ann.Strand\n\tr.Align.SubAnnotations[r.Row] = ann\n"},
	)
	add("C06",
		variant{Name: "benign-range-checks-reordered", File: utils, Find: "\tif start < offset || end > src.End() {\n\t\treturn errors.New(\"sequtils: index out of range\")\n\t}\n\tif start <= end {", Replace: "\tif end > src.End() {\n\t\treturn errors.New(\"sequtils: index out of range\")\n\t}\n\tif offset > start {\n\t\treturn errors.New(\"sequtils: index out of range\")\n\t}\n\tif start <= end {"},
		variant{Name: "benign-start-check-hoisted", File: utils, Find: "\tif start < offset || end > src.End() {\n\t\treturn errors.New(\"sequtils: index out of range\")\n\t}\n\tif start <= end {", Replace: "\tif start < offset || start > src.End() || end > src.End() {\n\t\treturn errors.New(\"sequtils: index out of range\")\n\t}\n\tif start <= end {",
			More: []edit{{utils, "\tif end < offset || start > src.End() {\n", "\tif end < offset {\n"}}},
	)
	add("C07",
		variant{Name: "benign-scratch-assigned-on-both-branches", File: aln,
			Find:    "\tfor i, b := 0, make([]alphabet.QLetter, 0, len(a)); i < max; i, b = i+1, b[:0] {\n\t\tfor _, ss := range a {\n\t\t\tif i < len(ss) {\n\t\t\t\tb = append(b, ss[i])\n\t\t\t} else {\n\t\t\t\tb = append(b, alphabet.QLetter{L: s.Alpha.Gap()})\n\t\t\t}\n\t\t}\n\t\ts.AppendColumns(b)\n\t}\n",
			Replace: "\tb := make([]alphabet.QLetter, len(a))\n\tfor i := 0; i < max; i++ {\n\t\tfor j, ss := range a {\n\t\t\tif i < len(ss) {\n\t\t\t\tb[j] = ss[i]\n\t\t\t} else {\n\t\t\t\tb[j] = alphabet.QLetter{L: s.Alpha.Gap()}\n\t\t\t}\n\t\t}\n\t\ts.AppendColumns(b)\n\t}\n"},
		variant{Name: "benign-scratch-gap-prefill-per-column", File: aln,
			Find:    "\tfor i, b := 0, make([]alphabet.QLetter, 0, len(a)); i < max; i, b = i+1, b[:0] {\n\t\tfor _, ss := range a {\n\t\t\tif i < len(ss) {\n\t\t\t\tb = append(b, ss[i])\n\t\t\t} else {\n\t\t\t\tb = append(b, alphabet.QLetter{L: s.Alpha.Gap()})\n\t\t\t}\n\t\t}\n\t\ts.AppendColumns(b)\n\t}\n",
			Replace: "\tb := make([]alphabet.QLetter, len(a))\n\tfor i := 0; i < max; i++ {\n\t\tfor j := range b {\n\t\t\tb[j] = alphabet.QLetter{L: s.Alpha.Gap()}\n\t\t}\n\t\tfor j, ss := range a {\n\t\t\tif i < len(ss) {\n\t\t\t\tb[j] = ss[i]\n\t\t\t}\n\t\t}\n\t\ts.AppendColumns(b)\n\t}\n"},
	)
	borderFind := "\t\ttable[c] = [3]int{\n\t\t\tdiag: minInt,\n\t\t\tleft: minInt,\n\t\t}\n\t\tfor i := 2; i < r; i++ {\n"
	borderRepl := "\t\tfor i := 1; i < r; i++ {\n"
	for _, prop := range []string{"C08", "C09"} {
		add(prop, variant{Name: "benign-border-loop-from-row-one", File: fitaff, Find: borderFind, Replace: borderRepl, More: []edit{{fitaffq, borderFind, borderRepl}}})
	}
	add("C10",
		variant{Name: "reported-position-one-early", File: kmer, Find: "\tfor position := basePosition - ki.k + 1; basePosition < end; position++ {", Replace: "\tfor position := basePosition - ki.k; basePosition < end; position++ {", Rule: "windowpos", Key: "kmerindex.(*Index).ForEachKmerOf/reported-position"},
		variant{Name: "benign-position-init-reordered", File: kmer, Find: "\tfor position := basePosition - ki.k + 1; basePosition < end; position++ {", Replace: "\tfor position := 1 + basePosition - ki.k; basePosition < end; position++ {"},
		variant{Name: "benign-gc-popcount-full-mask", File: kmer,
			Find:    "\tgc := 0\n\tfor i := k - 1; i >= 0; i, kmer = i-1, kmer>>2 {\n\t\tgc += int((kmer & 1) ^ ((kmer & 2) >> 1))\n\t}\n",
			Replace: "\tgc := 0\n\tfor x := uint32((kmer ^ kmer>>1) & 0x55555555); x != 0; x &= x - 1 {\n\t\tgc++\n\t}\n"},
		variant{Name: "benign-range-guard-admits-k", File: kmer, Find: "\tkmer := Kmer(0)\n\thigh := 0\n\tvar currentBase int\n", Replace: "\tif ki.k > end-start {\n\t\treturn ErrShortSeq\n\t}\n\tkmer := Kmer(0)\n\thigh := 0\n\tvar currentBase int\n"},
	)
	add("C11",
		variant{Name: "benign-placeholder-nil-test", File: mor, Find: "\t\tif cap(m.chunk) == 0 {\n\t\t\tm.chunk = make(sorter, 0, m.chunkSize)\n\t\t}\n\t}\n\n\tm.chunk = append(m.chunk, e)", Replace: "\t\tif m.chunk == nil {\n\t\t\tm.chunk = make(sorter, 0, m.chunkSize)\n\t\t}\n\t}\n\n\tm.chunk = append(m.chunk, e)"},
		variant{Name: "benign-chunk-given-up-before-send", File: mor, Find: "\t\t\tm.pool <- m.chunk[:0]\n\t\t\tm.chunk = nil\n\t\t\tfallthrough\n", Replace: "\t\t\tbuf := m.chunk\n\t\t\tm.chunk = nil\n\t\t\tm.pool <- buf[:0]\n\t\t\tfallthrough\n"},
	)
	add("C12",
		variant{Name: "benign-buffer-returned-on-each-exit", File: mor,
			Find:    "\twriting := <-m.writable\n\tdefer func() {\n\t\tm.pool <- writing[:0]\n\t}()\n\n\tsort.Sort(writing)\n\n\ttf, err := ioutil.TempFile(m.dir, m.prefix)\n\tif err != nil {\n\t\tm.setErr(err)\n\t\treturn\n\t}\n",
			Replace: "\twriting := <-m.writable\n\n\tsort.Sort(writing)\n\n\ttf, err := ioutil.TempFile(m.dir, m.prefix)\n\tif err != nil {\n\t\tm.setErr(err)\n\t\tm.pool <- writing[:0]\n\t\treturn\n\t}\n\tdefer func() {\n\t\tm.pool <- writing[:0]\n\t}()\n"},
	)
	add("C13",
		variant{Name: "benign-run-retire-restructured", File: mor,
			Find:    "\t\t\tcase io.EOF:\n\t\t\t\terr = nil\n\t\t\t\tfallthrough\n\t\t\tdefault:\n\t\t\t\tlow.file.Close()\n\t\t\t\tif m.AutoClear {\n\t\t\t\t\tos.Remove(low.file.Name())\n\t\t\t\t}\n\t\t\t}\n",
			Replace: "\t\t\tdefault:\n\t\t\t\tif err == io.EOF {\n\t\t\t\t\terr = nil\n\t\t\t\t}\n\t\t\t\tlow.file.Close()\n\t\t\t\tif m.AutoClear {\n\t\t\t\t\tos.Remove(low.file.Name())\n\t\t\t\t}\n\t\t\t}\n"},
	)
	add("C14",
		variant{Name: "benign-tube-end-diagonal-rewritten", File: filt, Find: "\tdiagIndex := f.diagIndex(f.target.Len()-1, q-1) - f.maxError\n", Replace: "\tdiagIndex := f.diagIndex(f.target.Len()-1, q) - f.maxError - 1\n"},
		variant{Name: "benign-kmer-distance-rearranged", File: filt, Find: "\tif q-tube.QHi > f.maxKmerDist {\n", Replace: "\tif q > tube.QHi+f.maxKmerDist {\n"},
		variant{Name: "benign-kmer-distance-shifted-bound", File: filt, Find: "\tif q-tube.QHi > f.maxKmerDist {\n", Replace: "\tif q-tube.QHi >= f.maxKmerDist {\n", More: []edit{{filt, "\tf.maxKmerDist = f.minMatch - f.k\n", "\tf.maxKmerDist = f.minMatch - f.k + 1\n"}}},
	)
	add("C15",
		variant{Name: "benign-duplicate-test-disjunction", File: dpal, Find: "\t\t\t\tif segs[j].Abpos != segs[i].Abpos {\n\t\t\t\t\tbreak\n\t\t\t\t}\n\t\t\t\tif segs[j].Bbpos != segs[i].Bbpos {\n\t\t\t\t\tbreak\n\t\t\t\t}\n", Replace: "\t\t\t\tif segs[j].Abpos != segs[i].Abpos || segs[j].Bbpos != segs[i].Bbpos {\n\t\t\t\t\tbreak\n\t\t\t\t}\n"},
	)
	add("C18",
		variant{Name: "solexa-probability-lookup-shifted", File: "alphabet/letters.go", Find: "func (qs Qsolexa) ProbE() float64 { return solexaETable[int(qs)+128] }", Replace: "func (qs Qsolexa) ProbE() float64 { return solexaETable[int(qs)+127] }", Rule: "tableshift", Key: "alphabet.solexaETable/shift"},
		variant{Name: "solexa-phred-fill-index-shifted", File: "alphabet/letters.go", Find: "\t\tif Q > 254 {\n\t\t\tQ = 254\n\t\t}\n\t\tt[q+1] = Q\n", Replace: "\t\tif Q > 254 {\n\t\t\tQ = 254\n\t\t}\n\t\tt[q] = Q\n", Rule: "tableshift", Key: "alphabet.solexaPhredTable/shift"},
		variant{Name: "benign-solexa-etable-score-variable", File: "alphabet/letters.go", Find: "\t\tpq := math.Pow(10, -(float64(q-127) / 10))\n\t\tt[q+1] = pq / (1 + pq)\n", Replace: "\t\tqs := q - 127\n\t\tpq := math.Pow(10, -(float64(qs) / 10))\n\t\tt[qs+128] = pq / (1 + pq)\n"},
		variant{Name: "benign-ephred-rounding-in-one-expression", File: "alphabet/letters.go", Find: "\tQ := -10 * math.Log10(p)\n\tQ += 0.5\n\tif Q > 254 {", Replace: "\tQ := -10*math.Log10(p) + 0.5\n\tif Q > 254 {"},
	)
	add("C19",
		variant{Name: "benign-mailbox-put-back-deferred", File: prom, Find: "func (p *Promise) fail(value interface{}, err error) (f bool) {\n\tr, _ := p.messageState()\n", Replace: "func (p *Promise) fail(value interface{}, err error) (f bool) {\n\tr, _ := p.messageState()\n\tdefer func() {\n\t\tp.message <- r\n\t\tp.set.Broadcast()\n\t}()\n",
			More: []edit{{prom, "\tp.message <- r\n\tp.set.Broadcast()\n\n\treturn\n}\n\n// Recover", "\treturn\n}\n\n// Recover"}}},
		variant{Name: "benign-closer-as-method", File: proc, Find: "\tgo func() {\n\t\tp.wg.Wait()\n\t\tclose(p.out)\n\t}()\n\n\treturn\n}\n", Replace: "\tgo p.closeWhenDone()\n\n\treturn\n}\n\nfunc (p *Processor) closeWhenDone() {\n\tp.wg.Wait()\n\tclose(p.out)\n}\n"},
	)
	add("C20",
		variant{Name: "benign-overlap-test-flipped", File: gene, Find: "\t\tif i != 0 && e.Start() < newSlice[i-1].End() {\n", Replace: "\t\tif i != 0 && newSlice[i-1].End() > e.Start() {\n"},
		variant{Name: "benign-overlap-test-last-base", File: gene, Find: "\t\tif i != 0 && e.Start() < newSlice[i-1].End() {\n", Replace: "\t\tif i != 0 && e.Start() <= newSlice[i-1].End()-1 {\n"},
	)
}
