// Rules added in round 15 (DESIGN.md §10.14).
package main

import (
	"go/token"
	"go/types"
	"strconv"

	"golang.org/x/tools/go/ssa"
)

// ---- argmaxrunning (C08): a position chosen by a scan is the position of the running best ----

// headerLeaves resolves what a loop-header phi receives over the loop's back
// edges: the values behind the joins inside the body, each with the block the
// value comes from (the arm of the test that selects it).
type phiLeaf struct {
	v    ssa.Value
	from *ssa.BasicBlock
}

func headerLeaves(l *ssaLoop, phi *ssa.Phi) []phiLeaf {
	var out []phiLeaf
	seen := map[*ssa.Phi]bool{phi: true}
	var walk func(p *ssa.Phi, depth int)
	walk = func(p *ssa.Phi, depth int) {
		blk := p.Block()
		for i, e := range p.Edges {
			pred := blk.Preds[i]
			if !l.body[pred] {
				continue
			}
			if q, ok := e.(*ssa.Phi); ok && l.body[q.Block()] && q.Block() != l.head && depth < 6 {
				if !seen[q] {
					seen[q] = true
					walk(q, depth+1)
				}
				continue
			}
			out = append(out, phiLeaf{e, pred})
		}
	}
	walk(phi, 0)
	return out
}

func valueDependsOn(v, target ssa.Value, depth int) bool {
	if v == target {
		return true
	}
	if depth > 6 {
		return false
	}
	ins, ok := v.(ssa.Instruction)
	if !ok {
		return false
	}
	if _, isPhi := v.(*ssa.Phi); isPhi {
		return false
	}
	for _, op := range ins.Operands(nil) {
		if *op != nil && valueDependsOn(*op, target, depth+1) {
			return true
		}
	}
	return false
}

// ruleArgmaxRunning: the aligners choose where a traceback starts (the row of
// the best last-column cell, the layer of the best end-cell score) by a scan
// that stores the scan's counter whenever the element it looks at beats the
// best so far. For the stored position to be the position of a maximum, the
// element must be compared with the running best — the variable that receives
// the element in the same arm — or with the element at the position stored so
// far. Compared with anything else (a fixed element, a constant) the scan
// keeps the last element that passes, not the largest: the traceback then
// starts from a cell or layer that is not optimal and the alignment returned
// scores less than the optimum.
func ruleArgmaxRunning(c *Ctx, rule string, fns []*ssa.Function) {
	for _, fn := range fns {
		c.Funcs[funcName(fn)] = true
		n := 0
		for _, l := range naturalLoops(fn) {
			counters := map[*ssa.Phi]bool{}
			var heads []*ssa.Phi
			for _, ins := range l.head.Instrs {
				phi, ok := ins.(*ssa.Phi)
				if !ok {
					break
				}
				heads = append(heads, phi)
				for _, e := range phi.Edges {
					if q, _, ok := linearIn(e); ok && q == phi && e != ssa.Value(phi) {
						counters[phi] = true
					}
					// stepped by a value fixed before the loop (p += c)
					if bo, ok := e.(*ssa.BinOp); ok && (bo.Op == token.ADD || bo.Op == token.SUB) {
						var step ssa.Value
						if bo.X == ssa.Value(phi) {
							step = bo.Y
						} else if bo.Y == ssa.Value(phi) && bo.Op == token.ADD {
							step = bo.X
						}
						if si, ok := step.(ssa.Instruction); ok && !l.body[si.Block()] {
							counters[phi] = true
						} else if _, ok := step.(*ssa.Parameter); ok {
							counters[phi] = true
						}
					}
				}
			}
			onCounters := func(v ssa.Value) bool {
				for k := range counters {
					if dependsOnCounter(v, k) {
						return true
					}
				}
				return false
			}
			for _, arg := range heads {
				if counters[arg] || !isIntegral(arg.Type()) {
					continue
				}
				for _, lf := range headerLeaves(l, arg) {
					if lf.v == ssa.Value(arg) {
						continue
					}
					q, _, ok := linearIn(lf.v)
					if !ok || !counters[q] {
						continue
					}
					// the tests the arm lf.from lies behind (a conjunction, enclosing ifs), up to the loop's own test
					type armTest struct {
						bo    *ssa.BinOp
						taken bool
					}
					var tests []armTest
					for blk := lf.from; len(blk.Preds) == 1; {
						cb := blk.Preds[0]
						if !l.body[cb] || cb == l.head {
							break
						}
						if ifi, ok := cb.Instrs[len(cb.Instrs)-1].(*ssa.If); ok {
							if bo, ok := ifi.Cond.(*ssa.BinOp); ok {
								tests = append(tests, armTest{bo, blk == cb.Succs[0]})
							}
						}
						blk = cb
					}
					var first *ssa.BinOp
					var firstOther ssa.Value
					okBest, wrongWay := false, false
					for _, t := range tests {
						bo := t.bo
						switch bo.Op {
						case token.GTR, token.GEQ, token.LSS, token.LEQ:
						default:
							continue
						}
						if !isIntegral(bo.X.Type()) {
							continue
						}
						// which operand is the element looked at in this round: it depends on the counter
						var cand, other ssa.Value
						switch {
						case onCounters(bo.X) && !onCounters(bo.Y):
							cand, other = bo.X, bo.Y
						case onCounters(bo.Y) && !onCounters(bo.X):
							cand, other = bo.Y, bo.X
						default:
							continue
						}
						if _, isK := cand.(*ssa.Const); isK {
							continue
						}
						// a test of the counter itself (j > 0) is a bound, not a choice among elements
						if p, _, ok := linearIn(cand); ok && counters[p] {
							continue
						}
						if first == nil {
							first, firstOther = bo, other
						}
						// the running best: a header phi that receives cand in the same arm
						good := false
						for _, b := range heads {
							if b == arg {
								continue
							}
							for _, bl := range headerLeaves(l, b) {
								if bl.from == lf.from && sameRead(bl.v, cand, 0) && currentValueOf(other, b, l) {
									good = true
								}
							}
						}
						if !good && valueDependsOn(other, arg, 0) {
							good = true // compared with the element at the position stored so far
						}
						if !good {
							continue
						}
						first, firstOther = bo, other
						okBest = true
						// orientation: the arm taken must be the one where the element is the larger
						greater := (bo.Op == token.GTR || bo.Op == token.GEQ) == (cand == bo.X)
						if t.taken != greater {
							wrongWay = true
						}
						break
					}
					if first == nil {
						continue
					}
					n++
					key := funcName(fn) + "/scan-compares-with-running-best#" + itoa(n)
					switch {
					case !okBest:
						c.bad(rule, key, first.Pos(), "the scan stores its position ("+symName(lf.v, nil)+") when "+symName(first.X, nil)+" "+first.Op.String()+" "+symName(first.Y, nil)+", but "+symName(firstOther, nil)+" is neither the running best (the variable that receives the element in the same arm) nor the element at the position stored so far: the position kept is that of the last element passing the test, not of the maximum, and the traceback starts from a cell or layer that is not optimal")
					case wrongWay:
						c.bad(rule, key, first.Pos(), "the scan stores its position when the element is the smaller one: it keeps the position of the minimum")
					default:
						c.ok(rule, key, first.Pos(), "the position "+symName(lf.v, nil)+" is stored when the element beats the running best "+symName(firstOther, nil))
					}
				}
			}
		}
		if n == 0 {
			c.triv(rule, funcName(fn)+"/scan-compares-with-running-best", fn.Pos(), "no scan that stores its counter under a comparison of elements")
		}
	}
}

// currentValueOf: v is the header phi b, or a phi inside the loop (the header
// phi of a nested loop, a join) that carries b's value.
func currentValueOf(v ssa.Value, b *ssa.Phi, l *ssaLoop) bool {
	seen := map[ssa.Value]bool{}
	var walk func(v ssa.Value, d int) bool
	walk = func(v ssa.Value, d int) bool {
		if v == ssa.Value(b) {
			return true
		}
		p, ok := v.(*ssa.Phi)
		if !ok || d > 6 || seen[v] || !l.body[p.Block()] || p.Block() == l.head {
			return false
		}
		seen[v] = true
		for _, e := range p.Edges {
			if walk(e, d+1) {
				return true
			}
		}
		return false
	}
	return walk(v, 0)
}

// sameRead: the two values are one value, or two evaluations of one pure
// expression over the same operands (go/ssa does not share the two loads of
// `if t[p] >= max { max = t[p] }`).
func sameRead(a, b ssa.Value, depth int) bool {
	if a == b {
		return true
	}
	if depth > 8 {
		return false
	}
	switch x := a.(type) {
	case *ssa.UnOp:
		y, ok := b.(*ssa.UnOp)
		return ok && x.Op == y.Op && sameRead(x.X, y.X, depth+1)
	case *ssa.IndexAddr:
		y, ok := b.(*ssa.IndexAddr)
		return ok && sameRead(x.X, y.X, depth+1) && sameRead(x.Index, y.Index, depth+1)
	case *ssa.FieldAddr:
		y, ok := b.(*ssa.FieldAddr)
		return ok && x.Field == y.Field && sameRead(x.X, y.X, depth+1)
	case *ssa.Field:
		y, ok := b.(*ssa.Field)
		return ok && x.Field == y.Field && sameRead(x.X, y.X, depth+1)
	case *ssa.Index:
		y, ok := b.(*ssa.Index)
		return ok && sameRead(x.X, y.X, depth+1) && sameRead(x.Index, y.Index, depth+1)
	case *ssa.BinOp:
		y, ok := b.(*ssa.BinOp)
		return ok && x.Op == y.Op && sameRead(x.X, y.X, depth+1) && sameRead(x.Y, y.Y, depth+1)
	case *ssa.Convert:
		y, ok := b.(*ssa.Convert)
		return ok && types.Identical(x.Type(), y.Type()) && sameRead(x.X, y.X, depth+1)
	case *ssa.Const:
		y, ok := b.(*ssa.Const)
		return ok && x.Value != nil && y.Value != nil && x.Value.ExactString() == y.Value.ExactString()
	}
	return false
}

func dependsOnCounter(v ssa.Value, counter *ssa.Phi) bool {
	return dependsOnThroughLoads(v, counter, 0)
}

// dependsOnThroughLoads: v is computed from target, also through the element
// reads the range statement makes (the element of `for i, s := range t`).
func dependsOnThroughLoads(v, target ssa.Value, depth int) bool {
	if v == target {
		return true
	}
	if depth > 16 {
		return false
	}
	switch x := v.(type) {
	case *ssa.Phi, *ssa.Const, *ssa.Parameter, *ssa.Global, *ssa.Alloc:
		return false
	case *ssa.Call:
		for _, a := range x.Call.Args {
			if dependsOnThroughLoads(a, target, depth+1) {
				return true
			}
		}
		return false
	case ssa.Instruction:
		for _, op := range x.Operands(nil) {
			if *op != nil && dependsOnThroughLoads(*op, target, depth+1) {
				return true
			}
		}
	}
	return false
}

func itoa(n int) string { return strconv.Itoa(n) }

// ---- scansargument (C10, C14): the k-mer scanner reads the sequence it was given ----

// ruleScansArgument: ForEachKmerOf takes the sequence to scan as a parameter
// (the index's own sequence when the index is built, the query when the PALS
// filter looks words up). Every letter it reads — the Seq field subscripted in
// the function, its closures and the helpers it passes the sequence to — must
// be a letter of that parameter. A read of the receiver's sequence gives the
// right words only when the two coincide (building and checking the index),
// and words made of the target's letters for any other query.
func ruleScansArgument(c *Ctx, rule string) {
	fn := c.fn("index/kmerindex", "(*Index).ForEachKmerOf")
	c.Funcs[funcName(fn)] = true
	var seqParam *ssa.Parameter
	for _, p := range fn.Params[1:] {
		if pt, ok := p.Type().(*types.Pointer); ok {
			if st, ok := pt.Elem().Underlying().(*types.Struct); ok {
				for i := 0; i < st.NumFields(); i++ {
					if st.Field(i).Name() == "Seq" {
						seqParam = p
					}
				}
			}
		}
	}
	key := funcName(fn) + "/letters-read-from-the-sequence-given"
	if seqParam == nil {
		c.und(rule, key, fn.Pos(), "no sequence parameter found")
		return
	}
	n := 0
	var bad ssa.Instruction
	var und ssa.Instruction
	// origin: 1 the parameter, 2 something else that is known, 0 unknown
	var origin func(v ssa.Value, depth int) int
	origin = func(v ssa.Value, depth int) int {
		if depth > 8 {
			return 0
		}
		switch x := v.(type) {
		case *ssa.Parameter:
			if x == seqParam {
				return 1
			}
			if x.Parent() == fn {
				return 2
			}
			// a parameter of a closure or helper: what its callers pass
			pi := paramIndex(x.Parent(), x)
			res := -1
			for _, site := range callSitesOf(fn, x.Parent()) {
				if pi < 0 || pi >= len(site.Call.Args) {
					return 0
				}
				o := origin(site.Call.Args[pi], depth+1)
				if res == -1 {
					res = o
				} else if res != o {
					return 2
				}
			}
			if res == -1 {
				return 0
			}
			return res
		case *ssa.FreeVar:
			for _, b := range x.Parent().Parent().Blocks {
				for _, ins := range b.Instrs {
					if mc, ok := ins.(*ssa.MakeClosure); ok && mc.Fn == ssa.Value(x.Parent()) {
						for i, bv := range mc.Bindings {
							if x.Parent().FreeVars[i] == x {
								return origin(bv, depth+1)
							}
						}
					}
				}
			}
			return 0
		case *ssa.UnOp:
			if x.Op == token.MUL {
				if al, ok := x.X.(*ssa.Alloc); ok {
					return origin(al, depth+1)
				}
				if _, ok := x.X.(*ssa.FieldAddr); ok {
					return 2 // a field of some object: not the parameter
				}
				return origin(x.X, depth+1)
			}
		case *ssa.Alloc:
			// a spilled variable (a captured parameter): every store
			res := -1
			for _, r := range *x.Referrers() {
				if st, ok := r.(*ssa.Store); ok && st.Addr == ssa.Value(x) {
					o := origin(st.Val, depth+1)
					if res == -1 {
						res = o
					} else if res != o {
						return 2
					}
				}
			}
			if res == -1 {
				return 0
			}
			return res
		case *ssa.Phi:
			res := -1
			for _, e := range x.Edges {
				o := origin(e, depth+1)
				if res == -1 {
					res = o
				} else if res != o {
					return 2
				}
			}
			return res
		}
		return 0
	}
	var visit func(f *ssa.Function)
	seenF := map[*ssa.Function]bool{}
	visit = func(f *ssa.Function) {
		if seenF[f] {
			return
		}
		seenF[f] = true
		for _, b := range f.Blocks {
			for _, ins := range b.Instrs {
				switch x := ins.(type) {
				case *ssa.IndexAddr:
					ld, ok := x.X.(*ssa.UnOp)
					if !ok || ld.Op != token.MUL {
						continue
					}
					fa, ok := ld.X.(*ssa.FieldAddr)
					if !ok || structFieldName(fa.X.Type(), fa.Field) != "Seq" {
						continue
					}
					n++
					switch origin(fa.X, 0) {
					case 1:
					case 2:
						if bad == nil {
							bad = x
						}
					default:
						if und == nil {
							und = x
						}
					}
				case *ssa.Call:
					if g := x.Call.StaticCallee(); g != nil && g.Blocks != nil && g.Pkg == fn.Pkg && g != fn && g.Signature.Recv() == nil {
						// a helper that is handed the sequence
						for _, a := range x.Call.Args {
							if origin(a, 0) == 1 {
								visit(g)
							}
						}
					}
				}
			}
		}
		for _, an := range f.AnonFuncs {
			visit(an)
		}
	}
	visit(fn)
	switch {
	case bad != nil:
		c.bad(rule, key, bad.Pos(), "a letter is read from a sequence other than the parameter "+seqParam.Name()+" (a field of the receiver or another object): the words reported are those of that sequence, which is the scanned one only while the index scans its own sequence")
	case und != nil:
		c.und(rule, key, und.Pos(), "the sequence a letter is read from could not be traced")
	case n == 0:
		c.und(rule, key, fn.Pos(), "no letter read found in ForEachKmerOf")
	default:
		c.ok(rule, key, fn.Pos(), itoa(n)+" letter reads, all of the parameter "+seqParam.Name())
	}
}

// callSitesOf: the calls of callee inside root, its closures and (one level) the package helpers.
func callSitesOf(root, callee *ssa.Function) []*ssa.Call {
	var out []*ssa.Call
	seen := map[*ssa.Function]bool{}
	var visit func(f *ssa.Function)
	visit = func(f *ssa.Function) {
		if f == nil || seen[f] || f.Blocks == nil {
			return
		}
		seen[f] = true
		for _, b := range f.Blocks {
			for _, ins := range b.Instrs {
				if call, ok := ins.(*ssa.Call); ok {
					if g := call.Call.StaticCallee(); g != nil {
						if g == callee {
							out = append(out, call)
						} else if g.Pkg == root.Pkg && g.Signature.Recv() == nil {
							visit(g)
						}
					}
				}
			}
		}
		for _, an := range f.AnonFuncs {
			visit(an)
		}
	}
	visit(root)
	return out
}
