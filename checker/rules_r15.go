// Rules added in round 15 (DESIGN.md §10.14).
package main

import (
	"fmt"
	"go/token"
	"go/types"
	"strconv"

	"golang.org/x/tools/go/ssa"
)

// ---- argmaxrunning (C08): a position chosen by a scan is the position of the running best ----

// headerLeaves resolves what a loop-header phi receives over the loop's back
// edges: the values behind the joins inside the body, each with the block the
// value comes from (the arm of the test that selects it).
type phiLeaf struct {
	v    ssa.Value
	from *ssa.BasicBlock
	to   *ssa.BasicBlock // the block of the phi the value enters
}

func headerLeaves(l *ssaLoop, phi *ssa.Phi) []phiLeaf {
	var out []phiLeaf
	seen := map[*ssa.Phi]bool{phi: true}
	var walk func(p *ssa.Phi, depth int)
	walk = func(p *ssa.Phi, depth int) {
		blk := p.Block()
		for i, e := range p.Edges {
			pred := blk.Preds[i]
			if !l.body[pred] {
				continue
			}
			if q, ok := e.(*ssa.Phi); ok && l.body[q.Block()] && q.Block() != l.head && depth < 6 {
				if !seen[q] {
					seen[q] = true
					walk(q, depth+1)
				}
				continue
			}
			out = append(out, phiLeaf{e, pred, blk})
		}
	}
	walk(phi, 0)
	return out
}

func valueDependsOn(v, target ssa.Value, depth int) bool {
	if v == target {
		return true
	}
	if depth > 6 {
		return false
	}
	ins, ok := v.(ssa.Instruction)
	if !ok {
		return false
	}
	if _, isPhi := v.(*ssa.Phi); isPhi {
		return false
	}
	for _, op := range ins.Operands(nil) {
		if *op != nil && valueDependsOn(*op, target, depth+1) {
			return true
		}
	}
	return false
}

// ruleArgmaxRunning: the aligners choose where a traceback starts (the row of
// the best last-column cell, the layer of the best end-cell score) by a scan
// that stores the scan's counter whenever the element it looks at beats the
// best so far. For the stored position to be the position of a maximum, the
// element must be compared with the running best — the variable that receives
// the element in the same arm — or with the element at the position stored so
// far. Compared with anything else (a fixed element, a constant) the scan
// keeps the last element that passes, not the largest: the traceback then
// starts from a cell or layer that is not optimal and the alignment returned
// scores less than the optimum.
func ruleArgmaxRunning(c *Ctx, rule string, fns []*ssa.Function) {
	for _, fn := range fns {
		c.Funcs[funcName(fn)] = true
		n := 0
		for _, l := range naturalLoops(fn) {
			counters := map[*ssa.Phi]bool{}
			var heads []*ssa.Phi
			for _, ins := range l.head.Instrs {
				phi, ok := ins.(*ssa.Phi)
				if !ok {
					break
				}
				heads = append(heads, phi)
				for _, e := range phi.Edges {
					if q, _, ok := linearIn(e); ok && q == phi && e != ssa.Value(phi) {
						counters[phi] = true
					}
					// stepped by a value fixed before the loop (p += c)
					if bo, ok := e.(*ssa.BinOp); ok && (bo.Op == token.ADD || bo.Op == token.SUB) {
						var step ssa.Value
						if bo.X == ssa.Value(phi) {
							step = bo.Y
						} else if bo.Y == ssa.Value(phi) && bo.Op == token.ADD {
							step = bo.X
						}
						if si, ok := step.(ssa.Instruction); ok && !l.body[si.Block()] {
							counters[phi] = true
						} else if _, ok := step.(*ssa.Parameter); ok {
							counters[phi] = true
						}
					}
				}
			}
			onCounters := func(v ssa.Value) bool {
				for k := range counters {
					if dependsOnCounter(v, k) {
						return true
					}
				}
				return false
			}
			for _, arg := range heads {
				if counters[arg] || !isIntegral(arg.Type()) {
					continue
				}
				for _, lf := range headerLeaves(l, arg) {
					if lf.v == ssa.Value(arg) {
						continue
					}
					q, _, ok := linearIn(lf.v)
					if !ok || !counters[q] {
						continue
					}
					// the tests the arm lf.from lies behind (a conjunction, enclosing ifs), up to the loop's own test
					type armTest struct {
						bo    *ssa.BinOp
						taken bool
					}
					var tests []armTest
					for blk := lf.from; len(blk.Preds) == 1; {
						cb := blk.Preds[0]
						if !l.body[cb] || cb == l.head {
							break
						}
						if ifi, ok := cb.Instrs[len(cb.Instrs)-1].(*ssa.If); ok {
							if bo, ok := ifi.Cond.(*ssa.BinOp); ok {
								tests = append(tests, armTest{bo, blk == cb.Succs[0]})
							}
						}
						blk = cb
					}
					var first *ssa.BinOp
					var firstOther ssa.Value
					okBest, wrongWay := false, false
					for _, t := range tests {
						bo := t.bo
						switch bo.Op {
						case token.GTR, token.GEQ, token.LSS, token.LEQ:
						default:
							continue
						}
						if !isIntegral(bo.X.Type()) {
							continue
						}
						// which operand is the element looked at in this round: it depends on the counter
						var cand, other ssa.Value
						switch {
						case onCounters(bo.X) && !onCounters(bo.Y):
							cand, other = bo.X, bo.Y
						case onCounters(bo.Y) && !onCounters(bo.X):
							cand, other = bo.Y, bo.X
						default:
							continue
						}
						if _, isK := cand.(*ssa.Const); isK {
							continue
						}
						// a test of the counter itself (j > 0) is a bound, not a choice among elements
						if p, _, ok := linearIn(cand); ok && counters[p] {
							continue
						}
						if first == nil {
							first, firstOther = bo, other
						}
						// the running best: a header phi that receives cand in the same arm
						good := false
						for _, b := range heads {
							if b == arg {
								continue
							}
							for _, bl := range headerLeaves(l, b) {
								if bl.from == lf.from && sameRead(bl.v, cand, 0) && currentValueOf(other, b, l) {
									good = true
								}
							}
						}
						if !good && valueDependsOn(other, arg, 0) {
							good = true // compared with the element at the position stored so far
						}
						if !good {
							continue
						}
						first, firstOther = bo, other
						okBest = true
						// orientation: the arm taken must be the one where the element is the larger
						greater := (bo.Op == token.GTR || bo.Op == token.GEQ) == (cand == bo.X)
						if t.taken != greater {
							wrongWay = true
						}
						break
					}
					if first == nil {
						continue
					}
					n++
					key := funcName(fn) + "/scan-compares-with-running-best#" + itoa(n)
					switch {
					case !okBest:
						c.bad(rule, key, first.Pos(), "the scan stores its position ("+symName(lf.v, nil)+") when "+symName(first.X, nil)+" "+first.Op.String()+" "+symName(first.Y, nil)+", but "+symName(firstOther, nil)+" is neither the running best (the variable that receives the element in the same arm) nor the element at the position stored so far: the position kept is that of the last element passing the test, not of the maximum, and the traceback starts from a cell or layer that is not optimal")
					case wrongWay:
						c.bad(rule, key, first.Pos(), "the scan stores its position when the element is the smaller one: it keeps the position of the minimum")
					default:
						c.ok(rule, key, first.Pos(), "the position "+symName(lf.v, nil)+" is stored when the element beats the running best "+symName(firstOther, nil))
					}
				}
			}
		}
		if n == 0 {
			c.triv(rule, funcName(fn)+"/scan-compares-with-running-best", fn.Pos(), "no scan that stores its counter under a comparison of elements")
		}
	}
}

// currentValueOf: v is the header phi b, or a phi inside the loop (the header
// phi of a nested loop, a join) that carries b's value.
func currentValueOf(v ssa.Value, b *ssa.Phi, l *ssaLoop) bool {
	seen := map[ssa.Value]bool{}
	var walk func(v ssa.Value, d int) bool
	walk = func(v ssa.Value, d int) bool {
		if v == ssa.Value(b) {
			return true
		}
		p, ok := v.(*ssa.Phi)
		if !ok || d > 6 || seen[v] || !l.body[p.Block()] || p.Block() == l.head {
			return false
		}
		seen[v] = true
		for _, e := range p.Edges {
			if walk(e, d+1) {
				return true
			}
		}
		return false
	}
	return walk(v, 0)
}

// sameRead: the two values are one value, or two evaluations of one pure
// expression over the same operands (go/ssa does not share the two loads of
// `if t[p] >= max { max = t[p] }`).
func sameRead(a, b ssa.Value, depth int) bool {
	if a == b {
		return true
	}
	if depth > 8 {
		return false
	}
	switch x := a.(type) {
	case *ssa.UnOp:
		y, ok := b.(*ssa.UnOp)
		return ok && x.Op == y.Op && sameRead(x.X, y.X, depth+1)
	case *ssa.IndexAddr:
		y, ok := b.(*ssa.IndexAddr)
		return ok && sameRead(x.X, y.X, depth+1) && sameRead(x.Index, y.Index, depth+1)
	case *ssa.FieldAddr:
		y, ok := b.(*ssa.FieldAddr)
		return ok && x.Field == y.Field && sameRead(x.X, y.X, depth+1)
	case *ssa.Field:
		y, ok := b.(*ssa.Field)
		return ok && x.Field == y.Field && sameRead(x.X, y.X, depth+1)
	case *ssa.Index:
		y, ok := b.(*ssa.Index)
		return ok && sameRead(x.X, y.X, depth+1) && sameRead(x.Index, y.Index, depth+1)
	case *ssa.BinOp:
		y, ok := b.(*ssa.BinOp)
		return ok && x.Op == y.Op && sameRead(x.X, y.X, depth+1) && sameRead(x.Y, y.Y, depth+1)
	case *ssa.Convert:
		y, ok := b.(*ssa.Convert)
		return ok && types.Identical(x.Type(), y.Type()) && sameRead(x.X, y.X, depth+1)
	case *ssa.Const:
		y, ok := b.(*ssa.Const)
		return ok && x.Value != nil && y.Value != nil && x.Value.ExactString() == y.Value.ExactString()
	}
	return false
}

func dependsOnCounter(v ssa.Value, counter *ssa.Phi) bool {
	return dependsOnThroughLoads(v, counter, 0)
}

// dependsOnThroughLoads: v is computed from target, also through the element
// reads the range statement makes (the element of `for i, s := range t`).
func dependsOnThroughLoads(v, target ssa.Value, depth int) bool {
	if v == target {
		return true
	}
	if depth > 16 {
		return false
	}
	switch x := v.(type) {
	case *ssa.Phi, *ssa.Const, *ssa.Parameter, *ssa.Global, *ssa.Alloc:
		return false
	case *ssa.Call:
		for _, a := range x.Call.Args {
			if dependsOnThroughLoads(a, target, depth+1) {
				return true
			}
		}
		return false
	case ssa.Instruction:
		for _, op := range x.Operands(nil) {
			if *op != nil && dependsOnThroughLoads(*op, target, depth+1) {
				return true
			}
		}
	}
	return false
}

func itoa(n int) string { return strconv.Itoa(n) }

// ---- scansargument (C10, C14): the k-mer scanner reads the sequence it was given ----

// ruleScansArgument: ForEachKmerOf takes the sequence to scan as a parameter
// (the index's own sequence when the index is built, the query when the PALS
// filter looks words up). Every letter it reads — the Seq field subscripted in
// the function, its closures and the helpers it passes the sequence to — must
// be a letter of that parameter. A read of the receiver's sequence gives the
// right words only when the two coincide (building and checking the index),
// and words made of the target's letters for any other query.
func ruleScansArgument(c *Ctx, rule string) {
	fn := c.fn("index/kmerindex", "(*Index).ForEachKmerOf")
	c.Funcs[funcName(fn)] = true
	var seqParam *ssa.Parameter
	for _, p := range fn.Params[1:] {
		if pt, ok := p.Type().(*types.Pointer); ok {
			if st, ok := pt.Elem().Underlying().(*types.Struct); ok {
				for i := 0; i < st.NumFields(); i++ {
					if st.Field(i).Name() == "Seq" {
						seqParam = p
					}
				}
			}
		}
	}
	key := funcName(fn) + "/letters-read-from-the-sequence-given"
	if seqParam == nil {
		c.und(rule, key, fn.Pos(), "no sequence parameter found")
		return
	}
	n := 0
	var bad ssa.Instruction
	var und ssa.Instruction
	// origin: 1 the parameter, 2 something else that is known, 0 unknown
	var origin func(v ssa.Value, depth int) int
	origin = func(v ssa.Value, depth int) int {
		if depth > 8 {
			return 0
		}
		switch x := v.(type) {
		case *ssa.Parameter:
			if x == seqParam {
				return 1
			}
			if x.Parent() == fn {
				return 2
			}
			// a parameter of a closure or helper: what its callers pass
			pi := paramIndex(x.Parent(), x)
			res := -1
			for _, site := range callSitesOf(fn, x.Parent()) {
				if pi < 0 || pi >= len(site.Call.Args) {
					return 0
				}
				o := origin(site.Call.Args[pi], depth+1)
				if res == -1 {
					res = o
				} else if res != o {
					return 2
				}
			}
			if res == -1 {
				return 0
			}
			return res
		case *ssa.FreeVar:
			for _, b := range x.Parent().Parent().Blocks {
				for _, ins := range b.Instrs {
					if mc, ok := ins.(*ssa.MakeClosure); ok && mc.Fn == ssa.Value(x.Parent()) {
						for i, bv := range mc.Bindings {
							if x.Parent().FreeVars[i] == x {
								return origin(bv, depth+1)
							}
						}
					}
				}
			}
			return 0
		case *ssa.UnOp:
			if x.Op == token.MUL {
				if al, ok := x.X.(*ssa.Alloc); ok {
					return origin(al, depth+1)
				}
				if _, ok := x.X.(*ssa.FieldAddr); ok {
					return 2 // a field of some object: not the parameter
				}
				return origin(x.X, depth+1)
			}
		case *ssa.Alloc:
			// a spilled variable (a captured parameter): every store
			res := -1
			for _, r := range *x.Referrers() {
				if st, ok := r.(*ssa.Store); ok && st.Addr == ssa.Value(x) {
					o := origin(st.Val, depth+1)
					if res == -1 {
						res = o
					} else if res != o {
						return 2
					}
				}
			}
			if res == -1 {
				return 0
			}
			return res
		case *ssa.Phi:
			res := -1
			for _, e := range x.Edges {
				o := origin(e, depth+1)
				if res == -1 {
					res = o
				} else if res != o {
					return 2
				}
			}
			return res
		}
		return 0
	}
	var visit func(f *ssa.Function)
	seenF := map[*ssa.Function]bool{}
	visit = func(f *ssa.Function) {
		if seenF[f] {
			return
		}
		seenF[f] = true
		for _, b := range f.Blocks {
			for _, ins := range b.Instrs {
				switch x := ins.(type) {
				case *ssa.IndexAddr:
					ld, ok := x.X.(*ssa.UnOp)
					if !ok || ld.Op != token.MUL {
						continue
					}
					fa, ok := ld.X.(*ssa.FieldAddr)
					if !ok || structFieldName(fa.X.Type(), fa.Field) != "Seq" {
						continue
					}
					n++
					switch origin(fa.X, 0) {
					case 1:
					case 2:
						if bad == nil {
							bad = x
						}
					default:
						if und == nil {
							und = x
						}
					}
				case *ssa.Call:
					if g := x.Call.StaticCallee(); g != nil && g.Blocks != nil && g.Pkg == fn.Pkg && g != fn && g.Signature.Recv() == nil {
						// a helper that is handed the sequence
						for _, a := range x.Call.Args {
							if origin(a, 0) == 1 {
								visit(g)
							}
						}
					}
				}
			}
		}
		for _, an := range f.AnonFuncs {
			visit(an)
		}
	}
	visit(fn)
	switch {
	case bad != nil:
		c.bad(rule, key, bad.Pos(), "a letter is read from a sequence other than the parameter "+seqParam.Name()+" (a field of the receiver or another object): the words reported are those of that sequence, which is the scanned one only while the index scans its own sequence")
	case und != nil:
		c.und(rule, key, und.Pos(), "the sequence a letter is read from could not be traced")
	case n == 0:
		c.und(rule, key, fn.Pos(), "no letter read found in ForEachKmerOf")
	default:
		c.ok(rule, key, fn.Pos(), itoa(n)+" letter reads, all of the parameter "+seqParam.Name())
	}
}

// callSitesOf: the calls of callee inside root, its closures and (one level) the package helpers.
func callSitesOf(root, callee *ssa.Function) []*ssa.Call {
	var out []*ssa.Call
	seen := map[*ssa.Function]bool{}
	var visit func(f *ssa.Function)
	visit = func(f *ssa.Function) {
		if f == nil || seen[f] || f.Blocks == nil {
			return
		}
		seen[f] = true
		for _, b := range f.Blocks {
			for _, ins := range b.Instrs {
				if call, ok := ins.(*ssa.Call); ok {
					if g := call.Call.StaticCallee(); g != nil {
						if g == callee {
							out = append(out, call)
						} else if g.Pkg == root.Pkg && g.Signature.Recv() == nil {
							visit(g)
						}
					}
				}
			}
		}
		for _, an := range f.AnonFuncs {
			visit(an)
		}
	}
	visit(root)
	return out
}

// ---- eofpending (C04): at end of input the pending line is looked at before a different error is raised ----

// ruleEOFPending: fasta.Reader.Read and fastq.Reader.Read read physical lines
// with ReadLine and collect the fragments of an over-long line in an
// accumulator. When ReadLine reports io.EOF the accumulator may still hold
// the fragments of a final line that has no terminator (a last line whose
// length is a multiple of the buffer size arrives as full fragments followed
// by a bare io.EOF). Whether there is such a line can only be known by looking
// at the accumulator. Along every path from the ReadLine call that is
// consistent with err == io.EOF, a return that hands back an error other than
// that io.EOF (or nil) must therefore have consulted the accumulator; one that
// has not refuses, or truncates, a file merely because it lacks the final
// newline.
func ruleEOFPending(c *Ctx, rule string, shorts ...string) {
	for _, call := range lineCalls(c, shorts, "ReadLine") {
		fn := call.Parent()
		c.Funcs[funcName(fn)] = true
		key := funcName(fn) + "/ReadLine/pending-line-consulted-at-end-of-input"
		buff, errv := extractOf(call, 0), extractOf(call, 2)
		if buff == nil || errv == nil {
			c.und(rule, key, call.Pos(), "the results of ReadLine are not taken apart")
			continue
		}
		// the family of values of the accumulator: append(X, buff...) and what flows from and into X
		family := map[ssa.Value]bool{}
		var appendCall *ssa.Call
		for _, b := range fn.Blocks {
			for _, ins := range b.Instrs {
				if ap := builtinCall(valueOf(ins), "append"); ap != nil && len(ap.Call.Args) == 2 && ap.Call.Args[1] == ssa.Value(buff) {
					appendCall = ap
				}
			}
		}
		if appendCall == nil {
			c.und(rule, key, call.Pos(), "no accumulator of line fragments (append(line, buff...)) found")
			continue
		}
		family[appendCall] = true
		family[appendCall.Call.Args[0]] = true
		for changed := true; changed; {
			changed = false
			for _, b := range fn.Blocks {
				for _, ins := range b.Instrs {
					phi, ok := ins.(*ssa.Phi)
					if !ok {
						break
					}
					in := family[phi]
					for _, e := range phi.Edges {
						if family[e] && !in {
							family[phi], in, changed = true, true, true
						}
					}
					if in {
						for _, e := range phi.Edges {
							if _, isPhi := e.(*ssa.Phi); isPhi && !family[e] {
								family[e], changed = true, true
							}
						}
					}
				}
			}
		}
		// err may live in a variable
		var errAlloc ssa.Value
		for _, r := range *errv.Referrers() {
			if st, ok := r.(*ssa.Store); ok && st.Val == ssa.Value(errv) {
				errAlloc = st.Addr
			}
		}
		type state struct {
			b         *ssa.BasicBlock
			consulted bool
			errValid  bool
		}
		seen := map[state]int{}
		var bad *ssa.Return
		budget := 6000
		var walk func(b, from *ssa.BasicBlock, idx int, consulted, errValid bool, alias map[ssa.Value]bool)
		walk = func(b, from *ssa.BasicBlock, idx int, consulted, errValid bool, alias map[ssa.Value]bool) {
			if budget--; budget < 0 || bad != nil {
				return
			}
			isErr := func(v ssa.Value) bool {
				if alias[v] {
					return true
				}
				if u, ok := v.(*ssa.UnOp); ok && u.Op == token.MUL && errAlloc != nil && u.X == errAlloc && errValid {
					return true
				}
				return false
			}
			if idx == 0 {
				k := state{b, consulted, errValid}
				if seen[k] > 1 {
					return
				}
				seen[k]++
				na := map[ssa.Value]bool{}
				for v := range alias {
					na[v] = true
				}
				alias = na
				for pi, p := range b.Preds {
					if p != from {
						continue
					}
					for _, ins := range b.Instrs {
						phi, ok := ins.(*ssa.Phi)
						if !ok {
							break
						}
						if isErr(phi.Edges[pi]) {
							alias[phi] = true
						} else {
							delete(alias, phi)
						}
					}
				}
			}
			for i := idx; i < len(b.Instrs); i++ {
				ins := b.Instrs[i]
				if ins == ssa.Instruction(call) {
					return // the next read: a new round
				}
				switch x := ins.(type) {
				case *ssa.Phi:
					continue
				case *ssa.Store:
					if errAlloc != nil && x.Addr == errAlloc {
						errValid = isErr(x.Val)
					}
				case *ssa.Panic:
					return
				case *ssa.Return:
					res := effectiveResults(x)
					for _, r := range res {
						if !types.Identical(r.Type(), types.Universe.Lookup("error").Type()) {
							continue
						}
						if isNilConst(r) || isErr(r) || consulted {
							continue
						}
						// an error that is not the io.EOF of this read, raised without a look at the pending line
						if isGlobalLoad(r, "io", "EOF") {
							continue
						}
						switch r.(type) {
						case *ssa.UnOp, *ssa.MakeInterface, *ssa.Call:
							if u, ok := r.(*ssa.UnOp); ok {
								if _, isG := u.X.(*ssa.Global); !isG {
									continue // a stored error (the record's own), not one made for this event
								}
							}
							bad = x
						}
					}
					return
				case *ssa.If:
					take := []int{0, 1}
					if bo, ok := x.Cond.(*ssa.BinOp); ok && (bo.Op == token.EQL || bo.Op == token.NEQ) {
						var other ssa.Value
						if isErr(bo.X) {
							other = bo.Y
						} else if isErr(bo.Y) {
							other = bo.X
						}
						if other != nil {
							switch {
							case isNilConst(other):
								take = []int{map[bool]int{true: 0, false: 1}[bo.Op == token.NEQ]}
							case isGlobalLoad(other, "io", "EOF"):
								take = []int{map[bool]int{true: 0, false: 1}[bo.Op == token.EQL]}
							}
						}
					}
					for _, e := range take {
						walk(b.Succs[e], b, 0, consulted, errValid, alias)
					}
					return
				case *ssa.Jump:
					walk(b.Succs[0], b, 0, consulted, errValid, alias)
					return
				}
				// a look at the accumulator
				if ins != ssa.Instruction(appendCall) {
					for _, op := range ins.Operands(nil) {
						if *op != nil && family[*op] {
							consulted = true
						}
					}
				}
			}
		}
		start := instrIndex(call.Block(), call) + 1
		walk(call.Block(), nil, start, false, true, map[ssa.Value]bool{errv: true})
		if bad != nil {
			c.bad(rule, key, bad.Pos(), "on a path from ReadLine that is taken when the read reports io.EOF, the return at "+c.pos(bad.Pos())+" hands back an error of its own without the accumulator of line fragments having been looked at: an unterminated last line that filled the buffer exactly is pending there, so a file is refused (or its last record lost) only because it lacks the final newline")
		} else {
			c.ok(rule, key, call.Pos(), "at end of input every return of an error other than that io.EOF comes after a look at the pending line")
		}
	}
}

func valueOf(ins ssa.Instruction) ssa.Value {
	v, _ := ins.(ssa.Value)
	return v
}

// ---- headeragree (C01): the '+' line repeats the '@' line ----

// ruleHeaderAgree: with QID set the FASTQ writer repeats the record's label on
// the '+' line, and the reader accepts a '+' line with text only if that text
// equals the whole '@' line after its first byte (identifier and description).
// The two lines are written by one helper called twice; the two calls must
// pass the same things apart from the prefix byte, or the writer's own output
// is refused by the reader for every record that has a description.
func ruleHeaderAgree(c *Ctx, rule string) {
	write := c.fn("io/seqio/fastq", "(*Writer).Write")
	c.Funcs[funcName(write)] = true
	key := funcName(write) + "/plus-line-repeats-the-label"
	type site struct {
		call *ssa.Call
		pos  int
	}
	at, plus := map[*ssa.Function][]site{}, map[*ssa.Function][]site{}
	for _, f := range privateReach(write) {
		for _, b := range f.Blocks {
			for _, ins := range b.Instrs {
				call, ok := ins.(*ssa.Call)
				if !ok {
					continue
				}
				g := call.Call.StaticCallee()
				if g == nil || g.Pkg != write.Pkg {
					continue
				}
				for i, a := range call.Call.Args {
					if k, ok := constIntVal(a); ok && isIntegral(a.Type()) {
						switch k {
						case '@':
							at[g] = append(at[g], site{call, i})
						case '+':
							plus[g] = append(plus[g], site{call, i})
						}
					}
				}
			}
		}
	}
	n := 0
	var bad *ssa.Call
	why := ""
	for g, as := range at {
		for _, a := range as {
			for _, p := range plus[g] {
				if a.pos != p.pos || len(a.call.Call.Args) != len(p.call.Call.Args) {
					continue
				}
				n++
				for i := range a.call.Call.Args {
					if i == a.pos {
						continue
					}
					if !sameArgument(a.call.Call.Args[i], p.call.Call.Args[i], 0) {
						bad = p.call
						why = "argument " + itoa(i) + " is " + symName(p.call.Call.Args[i], nil) + " on the '+' line and " + symName(a.call.Call.Args[i], nil) + " on the '@' line"
					}
				}
			}
		}
	}
	switch {
	case n == 0:
		c.und(rule, key, write.Pos(), "no helper called once with '@' and once with '+' found in the writer")
	case bad != nil:
		c.bad(rule, key, bad.Pos(), "the '+' line is not written from the same things as the '@' line ("+why+"): the reader compares the text after '+' with the whole '@' line, so the writer's own output is refused whenever the two differ (a record with a description)")
	default:
		c.ok(rule, key, write.Pos(), "the helper that writes the label line is given the same arguments for '@' and for '+'")
	}
}

// sameArgument: the two values are one value, equal constants, or the same
// method or function applied to the same things (s.Name() twice).
func sameArgument(a, b ssa.Value, depth int) bool {
	if a == b {
		return true
	}
	if depth > 4 {
		return false
	}
	switch x := a.(type) {
	case *ssa.Const:
		y, ok := b.(*ssa.Const)
		if !ok {
			return false
		}
		if x.Value == nil || y.Value == nil {
			return x.Value == nil && y.Value == nil
		}
		return x.Value.ExactString() == y.Value.ExactString()
	case *ssa.Call:
		y, ok := b.(*ssa.Call)
		if !ok || len(x.Call.Args) != len(y.Call.Args) {
			return false
		}
		if x.Call.IsInvoke() != y.Call.IsInvoke() {
			return false
		}
		if x.Call.IsInvoke() {
			if x.Call.Method != y.Call.Method || !sameArgument(x.Call.Value, y.Call.Value, depth+1) {
				return false
			}
		} else if x.Call.StaticCallee() == nil || x.Call.StaticCallee() != y.Call.StaticCallee() {
			return false
		}
		for i := range x.Call.Args {
			if !sameArgument(x.Call.Args[i], y.Call.Args[i], depth+1) {
				return false
			}
		}
		return true
	case *ssa.MakeInterface:
		y, ok := b.(*ssa.MakeInterface)
		return ok && sameArgument(x.X, y.X, depth+1)
	case *ssa.ChangeInterface:
		y, ok := b.(*ssa.ChangeInterface)
		return ok && sameArgument(x.X, y.X, depth+1)
	case *ssa.Convert:
		y, ok := b.(*ssa.Convert)
		return ok && sameArgument(x.X, y.X, depth+1)
	}
	return sameRead(a, b, 0)
}

// ---- rangeinclusive (C06, C07): Truncate accepts the sequence's own bounds ----

// ruleRangeInclusive: Truncate(dst, src, start, end) takes a half-open range of
// positions; start == src.Start() and end == src.End() are the sequence's own
// bounds and select all of it. Every test in Truncate that rejects the range by
// comparing one of the two position arguments with src.Start() or src.End()
// must therefore be strict in the direction it rejects (start < Start(),
// end > End(), ...). A non-strict test refuses a range that ends exactly at
// the end of the sequence: Multi.Subseq and Multi.Truncate then fail whenever
// the range ends where some row ends.
func ruleRangeInclusive(c *Ctx, rule string) {
	fn := c.fn("seq/sequtils", "Truncate")
	c.Funcs[funcName(fn)] = true
	if len(fn.Params) < 4 {
		c.und(rule, "sequtils.Truncate/range-tests-strict", fn.Pos(), "Truncate does not have the parameters dst, src, start, end")
		return
	}
	src := fn.Params[1]
	pos := map[ssa.Value]string{fn.Params[2]: "start", fn.Params[3]: "end"}
	isBound := func(v ssa.Value) (string, bool) {
		call, ok := v.(*ssa.Call)
		if !ok || !call.Call.IsInvoke() || call.Call.Value != ssa.Value(src) {
			return "", false
		}
		switch call.Call.Method.Name() {
		case "Start", "End":
			return call.Call.Method.Name() + "()", true
		}
		return "", false
	}
	n := 0
	for _, b := range fn.Blocks {
		ifi, ok := b.Instrs[len(b.Instrs)-1].(*ssa.If)
		if !ok {
			continue
		}
		bo, ok := ifi.Cond.(*ssa.BinOp)
		if !ok {
			continue
		}
		var p, bd string
		op := bo.Op
		if name, ok := pos[bo.X]; ok {
			if bn, ok := isBound(bo.Y); ok {
				p, bd = name, bn
			}
		} else if name, ok := pos[bo.Y]; ok {
			if bn, ok := isBound(bo.X); ok {
				p, bd = name, bn
				op = flipOp(op)
			}
		}
		if p == "" {
			continue
		}
		for e := 0; e < 2; e++ {
			if !rejectsFrom(b, b.Succs[e]) {
				continue
			}
			eff := op
			if e == 1 {
				eff = negateOp(op)
			}
			n++
			key := "sequtils.Truncate/range-test-strict#" + itoa(n)
			switch eff {
			case token.LSS, token.GTR:
				c.ok(rule, key, bo.Pos(), "the range is rejected when "+p+" "+eff.String()+" "+bd+": the bound itself is accepted")
			case token.LEQ, token.GEQ:
				c.bad(rule, key, bo.Pos(), "the range is rejected when "+p+" "+eff.String()+" src."+bd+": a range that reaches exactly the sequence's own bound is refused, so truncating to the whole sequence, or an alignment to a range that ends where one of its rows ends, fails with 'index out of range'")
			default:
				c.ok(rule, key, bo.Pos(), "not an ordering test")
			}
		}
	}
	if n == 0 {
		c.und(rule, "sequtils.Truncate/range-tests-strict", fn.Pos(), "no rejection comparing start or end with src.Start() or src.End() found")
	}
}

// ---- kmerspace (C10): positions of the scanned sequence and subscripts of a cut of it are not mixed ----

// ruleKmerSpace: ForEachKmerOf reports positions in the sequence it is given
// and takes its range as subscripts of that sequence. If it cuts the range out
// first (letters := s.Seq[start:end]) the subscripts of the cut are smaller by
// start. Every integer of the function is classed as a subscript of the whole
// sequence (the parameters start and end, anything that subscripts s.Seq
// itself), a subscript of a cut with a low bound (anything that subscripts
// it), or neutral (constants, k, lengths, differences of two of one kind);
// sums with neutrals keep the class and a cut's subscript plus a whole-sequence
// subscript (the low bound) is a whole-sequence subscript again. No comparison
// relates the two kinds, no variable is both, and the position handed to the
// callback is a subscript of the whole sequence. Otherwise the watermark that
// keeps windows off an invalid letter is compared with positions that are off
// by start, and windows overlapping the letter are reported for every range
// that does not begin at 0.
func ruleKmerSpace(c *Ctx, rule string) {
	fn := c.fn("index/kmerindex", "(*Index).ForEachKmerOf")
	c.Funcs[funcName(fn)] = true
	const (
		bot = iota
		neutral
		whole
		cut
		mixed
	)
	name := map[int]string{neutral: "neutral", whole: "a subscript of the whole sequence", cut: "a subscript of the cut", mixed: "both"}
	join := func(a, b int) int {
		switch {
		case a == bot || a == neutral && b != bot:
			return b
		case b == bot || b == neutral:
			return a
		case a == b:
			return a
		}
		return mixed
	}
	// the sequence's letters: loads of the Seq field of the sequence parameter
	isSeqField := func(v ssa.Value) bool {
		ld, ok := v.(*ssa.UnOp)
		if !ok || ld.Op != token.MUL {
			return false
		}
		fa, ok := ld.X.(*ssa.FieldAddr)
		return ok && structFieldName(fa.X.Type(), fa.Field) == "Seq"
	}
	cls := map[ssa.Value]int{}
	anchor := map[ssa.Value]int{}
	var all []ssa.Value
	fns := append([]*ssa.Function{fn}, fn.AnonFuncs...)
	for _, f := range fns {
		for _, b := range f.Blocks {
			for _, ins := range b.Instrs {
				if v, ok := ins.(ssa.Value); ok && isIntegral(v.Type()) {
					all = append(all, v)
				}
				if ia, ok := ins.(*ssa.IndexAddr); ok {
					switch x := ia.X.(type) {
					case *ssa.Slice:
						if isSeqField(x.X) {
							if k, isK := constIntVal(x.Low); x.Low != nil && !(isK && k == 0) {
								anchor[ia.Index] = join(anchor[ia.Index], cut)
							} else {
								anchor[ia.Index] = join(anchor[ia.Index], whole)
							}
						}
					default:
						if isSeqField(ia.X) {
							anchor[ia.Index] = join(anchor[ia.Index], whole)
						}
					}
				}
			}
		}
	}
	for _, p := range fn.Params[1:] {
		if isIntegral(p.Type()) {
			cls[p] = whole
		}
	}
	get := func(v ssa.Value) int {
		if _, ok := v.(*ssa.Const); ok {
			return neutral
		}
		return join(cls[v], anchor[v])
	}
	for changed, rounds := true, 0; changed && rounds < 50; rounds++ {
		changed = false
		for _, v := range all {
			nv := bot
			switch x := v.(type) {
			case *ssa.Convert:
				nv = get(x.X)
			case *ssa.Phi:
				for _, e := range x.Edges {
					nv = join(nv, get(e))
				}
			case *ssa.BinOp:
				a, b := get(x.X), get(x.Y)
				switch x.Op {
				case token.ADD:
					switch {
					case a == bot || b == bot:
					case a == neutral:
						nv = b
					case b == neutral:
						nv = a
					case a == cut && b == whole, a == whole && b == cut:
						nv = whole // a subscript of the cut plus its low bound
					default:
						nv = mixed
					}
				case token.SUB:
					switch {
					case a == bot || b == bot:
					case b == neutral:
						nv = a
					case a == b:
						nv = neutral
					case a == whole && b == cut:
						nv = whole
					case a == whole && b == whole:
						nv = neutral
					default:
						nv = bot
					}
				case token.AND, token.SHL, token.SHR, token.OR, token.MUL, token.QUO, token.REM:
					nv = neutral
				}
			case *ssa.UnOp:
				if x.Op == token.MUL {
					if _, ok := x.X.(*ssa.FieldAddr); ok {
						nv = neutral // k, kMask
					}
					if fv, ok := x.X.(*ssa.FreeVar); ok {
						// a captured variable: what the enclosing function holds
						for i, f := range fv.Parent().FreeVars {
							if f != fv {
								continue
							}
							for _, b := range fv.Parent().Parent().Blocks {
								for _, ins := range b.Instrs {
									if mc, ok := ins.(*ssa.MakeClosure); ok && mc.Fn == ssa.Value(fv.Parent()) {
										if al, ok := mc.Bindings[i].(*ssa.Alloc); ok {
											for _, r := range *al.Referrers() {
												if st, ok := r.(*ssa.Store); ok && st.Addr == ssa.Value(al) {
													nv = join(nv, get(st.Val))
												}
											}
										}
									}
								}
							}
						}
					}
					if al, ok := x.X.(*ssa.Alloc); ok {
						for _, r := range *al.Referrers() {
							if st, ok := r.(*ssa.Store); ok && st.Addr == ssa.Value(al) {
								nv = join(nv, get(st.Val))
							}
						}
					}
				}
			case *ssa.Call:
				if bi, ok := x.Call.Value.(*ssa.Builtin); ok && (bi.Name() == "len" || bi.Name() == "cap") {
					nv = neutral
				} else if x.Call.IsInvoke() || x.Call.StaticCallee() != nil {
					if nm := calleeName(&x.Call); nm == "Len" {
						nv = neutral
					}
				}
			}
			if nv != bot && join(cls[v], nv) != cls[v] {
				cls[v] = join(cls[v], nv)
				changed = true
			}
		}
	}
	n := 0
	keys := map[string]int{}
	for _, f := range fns {
		for _, b := range f.Blocks {
			for _, ins := range b.Instrs {
				switch x := ins.(type) {
				case *ssa.BinOp:
					switch x.Op {
					case token.LSS, token.LEQ, token.GTR, token.GEQ, token.EQL, token.NEQ:
					default:
						continue
					}
					if !isIntegral(x.X.Type()) {
						continue
					}
					a, b := get(x.X), get(x.Y)
					if (a != whole && a != cut && a != mixed) || (b != whole && b != cut && b != mixed) {
						continue
					}
					n++
					key := numberedKey(keys, funcName(fn)+"/comparison-in-one-coordinate-system")
					if a == b && a != mixed {
						c.ok(rule, key, x.Pos(), "both sides are "+name[a])
					} else {
						c.bad(rule, key, x.Pos(), symName(x.X, nil)+" is "+name[a]+" and "+symName(x.Y, nil)+" is "+name[b]+": the two differ by the low bound of the cut, so the test (the watermark that keeps windows off an invalid letter, a loop bound) is wrong for every range that does not begin at 0")
					}
				case *ssa.Call:
					// the callback: its position argument
					if x.Call.IsInvoke() || x.Call.StaticCallee() != nil {
						continue
					}
					if _, isB := x.Call.Value.(*ssa.Builtin); isB {
						continue
					}
					for _, a := range x.Call.Args {
						if !isIntegral(a.Type()) {
							continue
						}
						if _, isConv := a.(*ssa.Convert); isConv {
							continue // the k-mer word
						}
						ca := get(a)
						if ca == bot || ca == neutral {
							continue
						}
						n++
						key := numberedKey(keys, funcName(fn)+"/reported-position")
						if ca == whole {
							c.ok(rule, key, x.Pos(), "the position handed to the callback is a subscript of the whole sequence")
						} else {
							c.bad(rule, key, x.Pos(), "the position handed to the callback is "+name[ca]+": it is off by the start of the range")
						}
					}
				}
			}
		}
	}
	if n == 0 {
		c.und(rule, funcName(fn)+"/coordinates", fn.Pos(), "no comparison or reported position could be classified")
	}
}

func calleeName(cc *ssa.CallCommon) string {
	if cc.IsInvoke() {
		return cc.Method.Name()
	}
	if g := cc.StaticCallee(); g != nil {
		return g.Name()
	}
	return ""
}

// ---- marklast (C17): the complement table is marked after it is filled ----

// ruleMarkLast: NewPairing fills the table form of the complement by copying
// the pairs into it and then sets the high bit on the entries of letters that
// have no complement. A copy (or any other whole-table write) that can run
// after a mark erases the marks: the table then says every unpaired letter is
// its own complement while the method says it has none.
func ruleMarkLast(c *Ctx, rule string) {
	root := c.fn("alphabet", "NewPairing")
	c.Funcs[funcName(root)] = true
	key := funcName(root) + "/table-filled-before-it-is-marked"
	isTable := func(v ssa.Value) bool {
		fa, ok := v.(*ssa.FieldAddr)
		return ok && structFieldName(fa.X.Type(), fa.Field) == "complements"
	}
	var marks []*ssa.Store
	var fills []ssa.Instruction
	for _, fn := range privateReach(root) {
		for _, b := range fn.Blocks {
			for _, ins := range b.Instrs {
				switch x := ins.(type) {
				case *ssa.Store:
					ia, ok := x.Addr.(*ssa.IndexAddr)
					if !ok || !isTable(ia.X) {
						if isTable(x.Addr) {
							fills = append(fills, x) // the table assigned as a whole
						}
						continue
					}
					if setsHighBit(x.Val, 0) {
						marks = append(marks, x)
					}
				case *ssa.Call:
					if cp := builtinCall(x, "copy"); cp != nil {
						if sl, ok := cp.Call.Args[0].(*ssa.Slice); ok && isTable(sl.X) {
							fills = append(fills, x)
						}
					}
				}
			}
		}
	}
	if len(marks) == 0 {
		c.und(rule, key, root.Pos(), "no store that sets the high bit of a table entry found")
		return
	}
	for _, m := range marks {
		for _, f := range fills {
			if f.Parent() == m.Parent() && reachesInstr(m, f) {
				c.bad(rule, key, f.Pos(), "the complement table is written as a whole at "+c.pos(f.Pos())+" after entries have been marked as having no complement ("+c.pos(m.Pos())+"): the marks are overwritten, so ComplementTable() gives every unpaired letter as its own complement while Complement() reports that it has none")
				return
			}
		}
	}
	c.ok(rule, key, root.Pos(), "no whole-table write can follow a mark")
}

// ---- chunkclamp (C19): the last chunk ends where the input ends ----

// ruleChunkClamp: Map cuts its input into chunks with set.Slice(lo, hi). The
// chunk size does not divide every length, so hi has to be clamped to
// set.Len(): the smaller of the chunk's nominal end and the length (a min
// call, or a value chosen under a comparison with Len()). An unclamped end
// reaches past the input on the last chunk — into spare capacity, or a panic
// in the unjoined producer goroutine.
func ruleChunkClamp(c *Ctx, rule string) {
	fn := c.fn("concurrent", "Map")
	c.Funcs[funcName(fn)] = true
	isLen := func(v ssa.Value) bool {
		call, ok := v.(*ssa.Call)
		return ok && call.Call.IsInvoke() && call.Call.Method.Name() == "Len"
	}
	var clamped func(v ssa.Value, blk *ssa.BasicBlock, d int) bool
	clamped = func(v ssa.Value, blk *ssa.BasicBlock, d int) bool {
		if d > 5 {
			return false
		}
		if isLen(v) {
			return true
		}
		switch x := v.(type) {
		case *ssa.Call:
			nm := calleeName(&x.Call)
			if bi, ok := x.Call.Value.(*ssa.Builtin); ok {
				nm = bi.Name()
			}
			if nm == "Min" || nm == "min" || nm == "MinInt" {
				for _, a := range x.Call.Args {
					if isLen(a) {
						return true
					}
					// a variadic helper: the arguments are stored into the array behind the slice
					if sl, ok := a.(*ssa.Slice); ok {
						if al, ok := sl.X.(*ssa.Alloc); ok {
							for _, r := range *al.Referrers() {
								if ia, ok := r.(*ssa.IndexAddr); ok {
									for _, rr := range *ia.Referrers() {
										if st, ok := rr.(*ssa.Store); ok && isLen(st.Val) {
											return true
										}
									}
								}
							}
						}
					}
				}
			}
		case *ssa.Phi:
			// end := lo+size; if end > Len() { end = Len() }
			hasLen := false
			for _, e := range x.Edges {
				if isLen(e) {
					hasLen = true
				}
			}
			return hasLen
		case *ssa.Convert:
			return clamped(x.X, blk, d+1)
		}
		// under a test that found it no larger than the length
		for _, bf := range branchesAt(blk) {
			var op token.Token
			switch {
			case bf.cond.X == v && isLen(bf.cond.Y):
				op = effectiveOp(bf, true)
			case bf.cond.Y == v && isLen(bf.cond.X):
				op = effectiveOp(bf, false)
			default:
				continue
			}
			if op == token.LEQ || op == token.LSS {
				return true
			}
		}
		return false
	}
	n := 0
	var visit func(f *ssa.Function)
	visit = func(f *ssa.Function) {
		for _, b := range f.Blocks {
			for _, ins := range b.Instrs {
				call, ok := ins.(*ssa.Call)
				if !ok || !call.Call.IsInvoke() || call.Call.Method.Name() != "Slice" || len(call.Call.Args) != 2 {
					continue
				}
				n++
				key := funcName(fn) + "/chunk-end-clamped-to-the-length#" + itoa(n)
				if clamped(call.Call.Args[1], b, 0) {
					c.ok(rule, key, call.Pos(), "the end of the chunk is the smaller of its nominal end and the length of the input")
				} else {
					c.bad(rule, key, call.Pos(), "the end of the chunk ("+symName(call.Call.Args[1], nil)+") is not clamped to set.Len(): when the chunk size does not divide the length the last chunk reaches past the input, so the chunks no longer partition it (or the producer goroutine panics with a slice bound out of range)")
				}
			}
		}
		for _, an := range f.AnonFuncs {
			visit(an)
		}
	}
	visit(fn)
	if n == 0 {
		c.und(rule, funcName(fn)+"/chunk-end-clamped-to-the-length", fn.Pos(), "no Slice call on the input found in Map")
	}
}

// setsHighBit: the value is x | 0x80, or chosen between a letter and its marked form (one loop that copies and marks).
func setsHighBit(v ssa.Value, d int) bool {
	if d > 3 {
		return false
	}
	switch x := v.(type) {
	case *ssa.BinOp:
		if x.Op == token.OR {
			if k, isK := constIntVal(x.Y); isK && k == 0x80 {
				return true
			}
			if k, isK := constIntVal(x.X); isK && k == 0x80 {
				return true
			}
		}
	case *ssa.Phi:
		for _, e := range x.Edges {
			if setsHighBit(e, d+1) {
				return true
			}
		}
	case *ssa.Convert:
		return setsHighBit(x.X, d+1)
	}
	return false
}

// ---- dirremoval (C13): the temporary directory is removed with what it holds ----

// ruleDirRemoval: the sorter's temporary directory can hold run files whenever
// it is removed — exhausted runs of a drained cycle stay there until CleanUp
// unless AutoClear is set, also in a later cycle that happens to fit in
// memory. Every removal of m.dir in package morass is therefore os.RemoveAll;
// os.Remove fails with ENOTEMPTY (its error is not looked at) and leaves the
// directory and the files behind.
func ruleDirRemoval(c *Ctx, rule string) {
	sp := c.SPkgs[c.pkg("morass").PkgPath]
	n := 0
	for _, fn := range srcFuncs(sp) {
		for _, b := range fn.Blocks {
			for _, ins := range b.Instrs {
				call, ok := ins.(*ssa.Call)
				if !ok || len(call.Call.Args) != 1 {
					continue
				}
				whole := calleeIs(&call.Call, "os", "RemoveAll")
				single := calleeIs(&call.Call, "os", "Remove")
				if !whole && !single {
					continue
				}
				if !loadOfField(call.Call.Args[0], morassPkg, "Morass", "dir") {
					continue
				}
				n++
				c.Funcs[funcName(fn)] = true
				key := funcName(fn) + "/temporary-directory-removed-with-contents#" + itoa(n)
				if whole {
					c.ok(rule, key, call.Pos(), "os.RemoveAll(m.dir)")
				} else {
					c.bad(rule, key, call.Pos(), "the temporary directory is removed with os.Remove, which fails when it is not empty: run files of an earlier, drained cycle are still there when a later cycle ends on this path, so the directory and the files are left behind (and the error is not reported)")
				}
			}
		}
	}
	if n == 0 {
		c.und(rule, "morass/temporary-directory-removal", token.NoPos, "no removal of m.dir found in package morass")
	}
}

// ---- queryintact (C15): the complement strand is searched on a copy ----

// ruleQueryIntact: PALS.Align(true) searches the reverse complement of the
// query. The sequence it reverse-complements must be a copy on every path: the
// caller's query is aligned again for the other strand (and may be the indexed
// target itself), so reverse-complementing it in place makes every later search
// run on the wrong strand and leaves the caller's data changed.
func ruleQueryIntact(c *Ctx, rule string) {
	for _, name := range []string{"(*PALS).Align", "(*PALS).AlignFrom"} {
		ruleQueryIntactFor(c, rule, c.fn("align/pals", name))
	}
}

func ruleQueryIntactFor(c *Ctx, rule string, root *ssa.Function) {
	c.Funcs[funcName(root)] = true
	n := 0
	for _, fn := range privateReach(root) {
		if fn.Pkg != root.Pkg {
			continue
		}
		for _, b := range fn.Blocks {
			for _, ins := range b.Instrs {
				call, ok := ins.(*ssa.Call)
				if !ok {
					continue
				}
				nm := calleeName(&call.Call)
				if nm != "RevComp" && nm != "Reverse" {
					continue
				}
				var recv ssa.Value
				if call.Call.IsInvoke() {
					recv = call.Call.Value
				} else if len(call.Call.Args) > 0 {
					recv = call.Call.Args[0]
				}
				if recv == nil {
					continue
				}
				n++
				key := funcName(root) + "/" + nm + "-on-a-copy#" + itoa(n)
				var shared ssa.Value
				seen := map[ssa.Value]bool{}
				var walk func(v ssa.Value, d int)
				walk = func(v ssa.Value, d int) {
					if d > 6 || seen[v] || shared != nil {
						return
					}
					seen[v] = true
					switch x := v.(type) {
					case *ssa.Phi:
						for _, e := range x.Edges {
							walk(e, d+1)
						}
					case *ssa.TypeAssert:
						walk(x.X, d+1)
					case *ssa.ChangeInterface:
						walk(x.X, d+1)
					case *ssa.MakeInterface:
						walk(x.X, d+1)
					case *ssa.Call:
						if cn := calleeName(&x.Call); cn == "Clone" || cn == "New" || freshMethods[cn] {
							return // a copy
						}
						shared = v
					case *ssa.UnOp:
						if x.Op == token.MUL {
							if _, ok := x.X.(*ssa.FieldAddr); ok {
								shared = v // a field of the aligner: the caller's sequence
								return
							}
							if al, ok := x.X.(*ssa.Alloc); ok {
								for _, r := range *al.Referrers() {
									if st, ok := r.(*ssa.Store); ok && st.Addr == ssa.Value(al) {
										walk(st.Val, d+1)
									}
								}
								return
							}
						}
						shared = v
					case *ssa.Alloc:
						return
					default:
						shared = v
					}
				}
				walk(recv, 0)
				if shared == nil {
					c.ok(rule, key, call.Pos(), "the sequence is a copy on every path")
				} else {
					c.bad(rule, key, call.Pos(), "on some path the sequence that is reverse-complemented is "+symName(shared, nil)+", the caller's own sequence, not a copy: after a search of the complement strand the query stays reverse-complemented, so the next search (the other strand, a second call, another aligner on the same query) runs on the wrong strand")
				}
			}
		}
	}
	if n == 0 {
		c.und(rule, funcName(root)+"/RevComp-on-a-copy", root.Pos(), "Align reverse-complements nothing")
	}
}

// ---- validateupfront (C09): the global and fitted aligners reject illegal letters whatever the other sequence is ----

// ruleValidateUpFront: NW, NWAffine, Fitted and FittedAffine check every
// letter of each sequence in a loop of its own before the table is filled (the
// border initialisation subscripts the matrix with letter indices, and an empty
// other sequence leaves the fill loop without a single round). For each of the
// two sequences there must be a test `index[seq[i]] < 0` leading to an error
// return that sits in exactly one loop — not inside the nested fill, whose
// inner loop does not run when the other sequence is empty. The local aligners
// validate in the fill only (an illegal letter opposite an empty sequence is
// not reported there, on the pinned tree as well); they are not instances.
func ruleValidateUpFront(c *Ctx, rule string, fns []*ssa.Function) {
	alphaPath := modPath + "/alphabet"
	for _, fn := range fns {
		if len(fn.Params) < 3 {
			continue
		}
		c.Funcs[funcName(fn)] = true
		loops := naturalLoops(fn)
		depth := func(b *ssa.BasicBlock) int {
			n := 0
			for _, l := range loops {
				if l.body[b] {
					n++
				}
			}
			return n
		}
		for pi, name := range map[int]string{1: "reference", 2: "query"} {
			prm := fn.Params[pi]
			key := funcName(fn) + "/" + name + "-letters-checked-in-a-loop-of-their-own"
			best := -1
			for _, b := range fn.Blocks {
				ifi, ok := b.Instrs[len(b.Instrs)-1].(*ssa.If)
				if !ok {
					continue
				}
				bo, ok := ifi.Cond.(*ssa.BinOp)
				if !ok {
					continue
				}
				isLIV := func(v ssa.Value) bool {
					u, ok := v.(*ssa.UnOp)
					if !ok || u.Op != token.MUL {
						return false
					}
					ia, ok := u.X.(*ssa.IndexAddr)
					return ok && isNamed(ia.X.Type(), alphaPath, "Index") && seqBase(ia.Index) == ssa.Value(prm)
				}
				var rejEdge int
				switch {
				case isLIV(bo.X) && bo.Op == token.LSS:
					if k, ok := constIntVal(bo.Y); !ok || k != 0 {
						continue
					}
					rejEdge = 0
				case isLIV(bo.X) && bo.Op == token.GEQ:
					if k, ok := constIntVal(bo.Y); !ok || k != 0 {
						continue
					}
					rejEdge = 1
				default:
					continue
				}
				if !rejectsFrom(b, b.Succs[rejEdge]) {
					continue
				}
				if d := depth(b); best < 0 || d < best {
					best = d
				}
			}
			// the alphabet's own validator called on the sequence outside any loop, its verdict leading to an
			// error return, is a check of every letter up front
			for _, b := range fn.Blocks {
				if depth(b) != 0 {
					continue
				}
				for _, ins := range b.Instrs {
					call, ok := ins.(*ssa.Call)
					if !ok {
						continue
					}
					switch calleeName(&call.Call) {
					case "AllValid", "AllValidQLetter", "Validate":
					default:
						continue
					}
					for _, a := range call.Call.Args {
						if stripConv(a) == ssa.Value(prm) {
							best = 0
						}
					}
				}
			}
			switch {
			case best < 0:
				c.bad(rule, key, fn.Pos(), "no test of the "+name+"'s letter indices leads to an error: an illegal letter is used as a subscript of the matrix")
			case best > 1:
				c.bad(rule, key, fn.Pos(), "the "+name+"'s letters are checked only inside the nested fill loop: when the other sequence is empty the inner loop does not run, so an illegal letter is accepted and an alignment returned without an error (the sibling aligners, and this one on the reference tree, check each sequence in a loop of its own first)")
			default:
				c.ok(rule, key, fn.Pos(), "checked in a loop of its own")
			}
		}
	}
}

// ---- trimcoords (C06): Trim's results and probes are positions, not subscripts ----

// ruleTrimCoords: Trim returns positions of the quality feature — values on
// the scale of q.Start() and q.End() — and probes q.EAt with positions. Every
// integer expression of Trim gets an origin degree: 1 for q.Start()/q.End(),
// 0 for constants, q.Len() and lengths; sums and differences add. A value
// that merges a position with a subscript (a phi with edges of different
// degree) describes nothing for a feature that does not start at 0; each
// result and each argument of EAt has degree 1.
func ruleTrimCoords(c *Ctx, rule string) {
	fn := c.fn("seq/sequtils", "Trim")
	c.Funcs[funcName(fn)] = true
	type deg struct {
		known bool
		d     int
	}
	mixed := map[*ssa.Phi][2]int{}
	busy := map[ssa.Value]bool{}
	var degree func(v ssa.Value, depth int) deg
	degree = func(v ssa.Value, depth int) deg {
		if depth > 14 || busy[v] {
			return deg{}
		}
		busy[v] = true
		defer delete(busy, v)
		switch x := v.(type) {
		case *ssa.Const:
			return deg{true, 0}
		case *ssa.Convert:
			return degree(x.X, depth+1)
		case *ssa.ChangeType:
			return degree(x.X, depth+1)
		case *ssa.BinOp:
			if x.Op == token.ADD || x.Op == token.SUB {
				a, b := degree(x.X, depth+1), degree(x.Y, depth+1)
				if a.known && b.known {
					if x.Op == token.SUB {
						return deg{true, a.d - b.d}
					}
					return deg{true, a.d + b.d}
				}
			}
		case *ssa.Phi:
			var out deg
			unknown := false
			for _, e := range x.Edges {
				if busy[e] {
					continue // loop-carried: judged by the other edges
				}
				de := degree(e, depth+1)
				if !de.known {
					// an edge that only leads back to this phi says nothing
					if valueDependsOnOnly(e, x) {
						continue
					}
					unknown = true
					continue
				}
				if !out.known {
					out = de
				} else if out.d != de.d {
					mixed[x] = [2]int{out.d, de.d}
				}
			}
			if unknown {
				return deg{}
			}
			return out
		case *ssa.Call:
			nm := ""
			if x.Call.IsInvoke() {
				nm = x.Call.Method.Name()
			} else if b, ok := x.Call.Value.(*ssa.Builtin); ok {
				nm = b.Name()
			} else if g := x.Call.StaticCallee(); g != nil {
				nm = g.Name()
			}
			switch nm {
			case "Start", "End":
				if len(x.Call.Args) == 0 || !x.Call.IsInvoke() {
					return deg{true, 1}
				}
			case "Len", "len", "cap":
				return deg{true, 0}
			case "min", "max", "Min", "Max":
				var out deg
				for _, a := range x.Call.Args {
					da := degree(a, depth+1)
					if !da.known {
						return deg{}
					}
					if !out.known {
						out = da
					} else if out.d != da.d {
						return deg{}
					}
				}
				return out
			}
		}
		return deg{}
	}
	judge := func(key string, v ssa.Value, pos token.Pos, what string) {
		for k := range mixed {
			delete(mixed, k)
		}
		d := degree(v, 0)
		if len(mixed) > 0 {
			var first *ssa.Phi
			for p := range mixed {
				if first == nil || p.Pos() < first.Pos() {
					first = p
				}
			}
			m := mixed[first]
			c.bad(rule, key, pos, fmt.Sprintf("%s merges a %s with a %s (variable %s): for a feature that does not start at position 0 the two scales differ by q.Start(), so the window reported is not the window found", what, degName(m[0]), degName(m[1]), first.Comment))
			return
		}
		switch {
		case !d.known:
			c.ok(rule, key, pos, what+" is built from values this rule does not classify; no position is merged with a subscript on the way")
		case d.d == 1:
			c.ok(rule, key, pos, what+" is a position: on the scale of q.Start() and q.End()")
		default:
			c.bad(rule, key, pos, fmt.Sprintf("%s is a %s, not a position: the feature's start has not been added (or was added twice), so for a feature that does not start at position 0 the result lies outside the window found", what, degName(d.d)))
		}
	}
	rets := returnsOf(fn)
	n := 0
	for ri, r := range rets {
		res := effectiveResults(r)
		if len(res) != 2 {
			continue
		}
		for i, nm := range []string{"start", "end"} {
			key := fmt.Sprintf("sequtils.Trim/return#%d/%s-is-a-position", ri+1, nm)
			judge(key, res[i], r.Pos(), "the returned "+nm)
			n++
		}
	}
	k := 0
	for _, b := range fn.Blocks {
		for _, ins := range b.Instrs {
			call, ok := ins.(*ssa.Call)
			if !ok || !call.Call.IsInvoke() || call.Call.Method.Name() != "EAt" || len(call.Call.Args) != 1 {
				continue
			}
			k++
			judge(fmt.Sprintf("sequtils.Trim/EAt#%d/probe-is-a-position", k), call.Call.Args[0], call.Pos(), "the column handed to EAt")
			n++
		}
	}
	if n == 0 {
		c.und(rule, "sequtils.Trim/coordinates", fn.Pos(), "no return of two results and no EAt probe found in Trim")
	}
}

// valueDependsOnOnly: every leaf of v (through sums, differences and phis) is
// a constant or the phi p itself: v says nothing about p's scale beyond p.
func valueDependsOnOnly(v ssa.Value, p *ssa.Phi) bool {
	seen := map[ssa.Value]bool{}
	var walk func(v ssa.Value, d int) bool
	walk = func(v ssa.Value, d int) bool {
		if d > 10 {
			return false
		}
		if v == ssa.Value(p) || seen[v] {
			return true
		}
		seen[v] = true
		switch x := v.(type) {
		case *ssa.Const:
			return true
		case *ssa.BinOp:
			return (x.Op == token.ADD || x.Op == token.SUB) && walk(x.X, d+1) && walk(x.Y, d+1)
		case *ssa.Phi:
			for _, e := range x.Edges {
				if !walk(e, d+1) {
					return false
				}
			}
			return true
		}
		return false
	}
	return walk(v, 0)
}

// ---- qualcount (C03): the quality line that is decoded is the one that was counted ----

// ruleQualCount: the FASTQ reader reports a sequence/quality length mismatch
// as an error. The scores are decoded from one byte slice; that decode is
// reached only on the equal edge of a comparison of the length of that very
// slice with the length of the letters read. A test of another value (the
// line before its blanks were removed) lets through a quality line that has
// the right number of bytes and the wrong number of scores: the record comes
// back without an error, its tail unscored.
func ruleQualCount(c *Ctx, rule string) {
	sp := c.SPkgs[c.pkg("io/seqio/fastq").PkgPath]
	n := 0
	keys := map[string]int{}
	for _, fn := range srcFuncs(sp) {
		for _, b := range fn.Blocks {
			for _, ins := range b.Instrs {
				call, ok := ins.(*ssa.Call)
				if !ok {
					continue
				}
				nm := calleeName(&call.Call)
				if nm != "DecodeToQphred" && nm != "DecodeToQsolexa" {
					continue
				}
				// the byte decoded: an element of a byte slice
				var src ssa.Value
				for _, a := range call.Call.Args {
					if u, ok := a.(*ssa.UnOp); ok && u.Op == token.MUL {
						if ia, ok := u.X.(*ssa.IndexAddr); ok {
							src = ia.X
						}
					}
				}
				if src == nil {
					continue
				}
				n++
				c.Funcs[funcName(fn)] = true
				key := numberedKey(keys, funcName(fn)+"/decoded-line-is-the-counted-line")
				lenOf := func(v ssa.Value) ssa.Value {
					if lc := builtinCall(v, "len"); lc != nil {
						return lc.Call.Args[0]
					}
					return nil
				}
				counted, other := false, false
				var otherPos token.Pos
				for _, bf := range branchesAt(b) {
					x, y := lenOf(bf.cond.X), lenOf(bf.cond.Y)
					if x == nil || y == nil || effectiveOp(bf, true) != token.EQL {
						continue
					}
					if sameRead(x, src, 0) || sameRead(y, src, 0) {
						counted = true
					} else if types.Identical(x.Type(), src.Type()) || types.Identical(y.Type(), src.Type()) {
						other, otherPos = true, bf.cond.Pos()
					}
				}
				switch {
				case counted:
					c.ok(rule, key, call.Pos(), "the scores are decoded from the slice whose length was found equal to the number of letters")
				case other:
					c.bad(rule, key, otherPos, "the length compared with the number of letters is not that of the slice the scores are decoded from (the quality line before its blanks were removed): a quality line with the right number of bytes and fewer scores passes, and the record is returned without the mismatch error")
				default:
					c.bad(rule, key, call.Pos(), "the scores are decoded without the length of the quality line having been found equal to the number of letters: a sequence/quality length mismatch is not reported")
				}
			}
		}
	}
	if n == 0 {
		c.und(rule, "fastq/quality-decode", token.NoPos, "no decode of a quality byte found in the FASTQ reader")
	}
}

// ---- clipordered (C06): a clipped span is sliced only when it is not empty ----

// ruleClipOrdered: Stitch and Compose clip each feature to the sequence —
// Slice(max(s-offset, 0), min(e-offset, len)) — and a feature that lies wholly
// before or after the sequence clips to bounds in the wrong order. Every such
// Slice call is reached only under a test that orders its two bounds (lo < hi,
// lo <= hi) or that found the clipped length positive; without one the call
// panics for a feature outside the sequence instead of contributing nothing.
func ruleClipOrdered(c *Ctx, rule string) {
	n := 0
	for _, name := range []string{"Stitch", "Compose"} {
		root := c.fn("seq/sequtils", name)
		keys := map[string]int{}
		for _, fn := range privateReach(root) {
			for _, b := range fn.Blocks {
				for _, ins := range b.Instrs {
					call, ok := ins.(*ssa.Call)
					if !ok || !call.Call.IsInvoke() || call.Call.Method.Name() != "Slice" || len(call.Call.Args) != 2 {
						continue
					}
					lo, hi := call.Call.Args[0], call.Call.Args[1]
					isCall := func(v ssa.Value, nm string) *ssa.Call {
						cl, ok := v.(*ssa.Call)
						if !ok {
							return nil
						}
						if calleeName(&cl.Call) == nm || builtinCall(cl, nm) != nil {
							return cl
						}
						return nil
					}
					if isCall(lo, "max") == nil || isCall(hi, "min") == nil {
						continue
					}
					n++
					c.Funcs[funcName(fn)] = true
					key := numberedKey(keys, "sequtils."+name+"/clipped-span-sliced-only-when-not-empty")
					// a clipped length: max(0, min(..) - max(..)), or that difference itself
					var clippedLen func(v ssa.Value) bool
					clippedLen = func(v ssa.Value) bool {
						// the difference clamped by a test: l := min(..) - max(..); if l < 0 { l = 0 }
						if ph, ok := v.(*ssa.Phi); ok {
							diff := false
							for _, e := range ph.Edges {
								if k, ok := constIntVal(e); ok && k == 0 {
									continue
								}
								if _, isPhi := e.(*ssa.Phi); isPhi || !clippedLen(e) {
									return false
								}
								diff = true
							}
							return diff
						}
						if mc := isCall(v, "max"); mc != nil {
							for _, a := range mc.Call.Args {
								if bo, ok := a.(*ssa.BinOp); ok && bo.Op == token.SUB && isCall(bo.X, "min") != nil && isCall(bo.Y, "max") != nil {
									return true
								}
							}
							return false
						}
						bo, ok := v.(*ssa.BinOp)
						return ok && bo.Op == token.SUB && isCall(bo.X, "min") != nil && isCall(bo.Y, "max") != nil
					}
					ordered := false
					for _, bf := range branchesAt(b) {
						x, y := bf.cond.X, bf.cond.Y
						switch {
						case sameRead(x, lo, 0) && sameRead(y, hi, 0):
							if op := effectiveOp(bf, true); op == token.LSS || op == token.LEQ {
								ordered = true
							}
						case sameRead(x, hi, 0) && sameRead(y, lo, 0):
							if op := effectiveOp(bf, true); op == token.GTR || op == token.GEQ {
								ordered = true
							}
						case clippedLen(x):
							if k, ok := constIntVal(y); ok {
								op := effectiveOp(bf, true)
								if (k == 0 && (op == token.GTR || op == token.NEQ)) || (k >= 1 && (op == token.GEQ || op == token.GTR)) {
									ordered = true
								}
							}
						case clippedLen(y):
							if k, ok := constIntVal(x); ok {
								op := effectiveOp(bf, false)
								if (k == 0 && (op == token.GTR || op == token.NEQ)) || (k >= 1 && (op == token.GEQ || op == token.GTR)) {
									ordered = true
								}
							}
						}
					}
					if ordered {
						c.ok(rule, key, call.Pos(), "the clipped bounds are handed to Slice only under a test that found them in order (or the clipped length positive)")
					} else {
						c.bad(rule, key, call.Pos(), "the clipped bounds max(..), min(..) are handed to Slice without a test that they are in order: a feature that lies wholly before or after the sequence clips to start > end, and the slice expression panics instead of the feature contributing nothing")
					}
				}
			}
		}
	}
	if n == 0 {
		c.und(rule, "sequtils/clipped-span", token.NoPos, "no Slice call with clipped bounds found in Stitch or Compose")
	}
}

// ---- trapcount (C15): every trapezoid put on the merger's list is counted ----

// ruleTrapCount: FinaliseMerge hands out exactly trapCount trapezoids from the
// head of the list, so a trapezoid linked in without the count going up pushes
// the one at the tail out of the result — a seed region the aligner never
// sees. Insertions are the stores `m.trapList = x.join(m.trapList)` (a retired
// trapezoid) and the calls of prependFrontTo (a trapezoid split in two where
// the query has a run of invalid letters). From each, every path to a return
// or back to the insertion passes an increment of trapCount.
func ruleTrapCount(c *Ctx, rule string) {
	pkg := modPath + "/align/pals/filter"
	sp := c.SPkgs[c.pkg("align/pals/filter").PkgPath]
	n := 0
	keys := map[string]int{}
	for _, fn := range srcFuncs(sp) {
		isInc := func(ins ssa.Instruction) bool {
			st, ok := ins.(*ssa.Store)
			if !ok {
				return false
			}
			if name, ok := fieldOf(st.Addr, pkg, "Merger"); !ok || name != "trapCount" {
				return false
			}
			bo, ok := st.Val.(*ssa.BinOp)
			if !ok || bo.Op != token.ADD {
				return false
			}
			k, isK := constIntVal(bo.Y)
			return isK && k >= 1 && loadOfField(bo.X, pkg, "Merger", "trapCount")
		}
		for _, b := range fn.Blocks {
			for idx, ins := range b.Instrs {
				what := ""
				switch x := ins.(type) {
				case *ssa.Store:
					if name, ok := fieldOf(x.Addr, pkg, "Merger"); ok && name == "trapList" {
						if call, ok := x.Val.(*ssa.Call); ok && calleeName(&call.Call) == "join" {
							for _, a := range call.Call.Args {
								if loadOfField(a, pkg, "Merger", "trapList") {
									what = "a retired trapezoid is put at the head of the list"
								}
							}
						}
					}
				case *ssa.Call:
					if calleeName(&x.Call) == "prependFrontTo" {
						what = "a trapezoid is split in two"
					}
				}
				if what == "" {
					continue
				}
				n++
				c.Funcs[funcName(fn)] = true
				key := numberedKey(keys, funcName(fn)+"/insertion-counted")
				// forward: can a return (or this insertion again) be reached without an increment?
				var escape ssa.Instruction
				seen := map[*ssa.BasicBlock]bool{}
				var walk func(blk *ssa.BasicBlock, from int)
				walk = func(blk *ssa.BasicBlock, from int) {
					if escape != nil {
						return
					}
					for i := from; i < len(blk.Instrs); i++ {
						in := blk.Instrs[i]
						if isInc(in) {
							return
						}
						if in == ins && !(blk == b && from == idx+1 && i < from) {
							escape = in
							return
						}
						if r, ok := in.(*ssa.Return); ok {
							escape = r
							return
						}
					}
					for _, sc := range blk.Succs {
						if sc == b {
							// back to the insertion's block: from its top
							if !seen[sc] {
								seen[sc] = true
								walk(sc, 0)
							}
							continue
						}
						if !seen[sc] {
							seen[sc] = true
							walk(sc, 0)
						}
					}
				}
				walk(b, idx+1)
				if escape == nil {
					c.ok(rule, key, ins.Pos(), "where "+what+", every path on counts it before the function returns or inserts again")
				} else {
					c.bad(rule, key, ins.Pos(), "where "+what+", a path reaches "+c.pos(escape.Pos())+" without trapCount going up: FinaliseMerge hands out trapCount trapezoids from the head of the list, so the one at its tail — a seed region found by the filter — is silently dropped and the repeat it covers is never aligned")
				}
			}
		}
	}
	if n == 0 {
		c.und(rule, "filter.Merger/insertions", token.NoPos, "no insertion into the merger's trapezoid list found")
	}
}

// ---- argroles (C08, C09): the aligner bodies get the reference as reference ----

// ruleArgRoles: the scoring matrix is indexed [reference letter][query
// letter] and need not be symmetric, and the pairs returned name the reference
// first. In each Align method every call of the aligner's body
// (alignLetters / alignQLetters) passes letters taken from the reference
// parameter first and letters taken from the query parameter second; a call
// with the two exchanged (to keep the longer sequence on the columns, say)
// scores under the transposed matrix, whatever is done to the pairs afterwards.
func ruleArgRoles(c *Ctx, rule string) {
	n := 0
	for _, a := range []string{"NW", "NWAffine", "SW", "SWAffine", "Fitted", "FittedAffine"} {
		fn := c.fn("align", a+".Align")
		if len(fn.Params) < 3 {
			c.und(rule, "align."+a+".Align/params", fn.Pos(), "Align does not have a receiver and two sequence parameters")
			continue
		}
		c.Funcs[funcName(fn)] = true
		var root func(v ssa.Value, d int) ssa.Value
		root = func(v ssa.Value, d int) ssa.Value {
			if d > 8 {
				return nil
			}
			switch x := v.(type) {
			case *ssa.Parameter:
				return x
			case *ssa.TypeAssert:
				return root(x.X, d+1)
			case *ssa.Extract:
				return root(x.Tuple, d+1)
			case *ssa.ChangeType:
				return root(x.X, d+1)
			case *ssa.ChangeInterface:
				return root(x.X, d+1)
			case *ssa.MakeInterface:
				return root(x.X, d+1)
			case *ssa.Call:
				if x.Call.IsInvoke() && x.Call.Method.Name() == "Slice" {
					return root(x.Call.Value, d+1)
				}
			case *ssa.Phi:
				var r ssa.Value
				for _, e := range x.Edges {
					re := root(e, d+1)
					if re == nil || (r != nil && re != r) {
						return nil
					}
					r = re
				}
				return r
			}
			return nil
		}
		k := 0
		for _, g := range privateReach(fn) {
			if g != fn {
				continue
			}
			for _, b := range g.Blocks {
				for _, ins := range b.Instrs {
					call, ok := ins.(*ssa.Call)
					if !ok {
						continue
					}
					nm := calleeName(&call.Call)
					if nm != "alignLetters" && nm != "alignQLetters" {
						continue
					}
					args := call.Call.Args
					if len(args) < 3 {
						continue
					}
					// receiver first for a static method call
					r0, r1 := root(args[len(args)-3], 0), root(args[len(args)-2], 0)
					k++
					n++
					key := fmt.Sprintf("align.%s.Align/%s#%d/reference-first", a, nm, k)
					switch {
					case r0 == ssa.Value(fn.Params[1]) && r1 == ssa.Value(fn.Params[2]):
						c.ok(rule, key, call.Pos(), "the body is handed the reference's letters first and the query's second")
					case r0 == ssa.Value(fn.Params[2]) && r1 == ssa.Value(fn.Params[1]):
						c.bad(rule, key, call.Pos(), "the aligner's body is handed the query's letters as the reference and the reference's as the query: the scoring matrix is indexed [reference letter][query letter] and need not be symmetric, so the alignment found (and every score in it) is that of the transposed matrix — inverting the pairs afterwards does not undo that")
					default:
						c.und(rule, key, call.Pos(), "cannot trace the sequences handed to the aligner's body back to Align's parameters")
					}
				}
			}
		}
	}
	if n == 0 {
		c.und(rule, "align/Align-bodies", token.NoPos, "no call of an aligner body found in the Align methods")
	}
}

// ---- emptyalign (C05): an alignment with no columns is reverse-complemented without a subscript ----

// ruleEmptyAlign: RevComp and Reverse of the column-major alignments walk the
// column list from both ends; with no columns the walk does nothing and the
// strand is negated. A call of Rows() (which reads column 0) or a subscript
// of the column list by a constant that every call executes — outside the
// loop and outside the middle-column branch — panics on the empty alignment,
// so applying the operation twice cannot restore it.
func ruleEmptyAlign(c *Ctx, rule string) {
	pkg := modPath + "/seq/alignment"
	n := 0
	for _, name := range []string{"(*Seq).RevComp", "(*Seq).Reverse", "(*QSeq).RevComp", "(*QSeq).Reverse"} {
		fn := c.fn("seq/alignment", name)
		c.Funcs[funcName(fn)] = true
		n++
		key := funcName(fn) + "/no-unconditional-read-of-a-fixed-column"
		var bad ssa.Instruction
		what := ""
		for _, b := range fn.Blocks {
			if len(branchesAtAny(b)) > 0 {
				continue
			}
			inLoop := false
			for _, l := range naturalLoops(fn) {
				if l.body[b] {
					inLoop = true
				}
			}
			if inLoop {
				continue
			}
			for _, ins := range b.Instrs {
				switch x := ins.(type) {
				case *ssa.Call:
					if calleeName(&x.Call) == "Rows" && bad == nil {
						bad, what = x, "Rows() reads column 0"
					}
				case *ssa.IndexAddr:
					if _, isK := constIntVal(x.Index); isK {
						if name, ok := fieldOfAny(x.X); ok && name == "Seq" && bad == nil {
							bad, what = x, "a fixed column of the alignment is subscripted"
						}
						if u, ok := x.X.(*ssa.UnOp); ok && u.Op == token.MUL {
							if name, ok := fieldOf(u.X, pkg, "Seq"); ok && name == "Seq" && bad == nil {
								bad, what = x, "a fixed column of the alignment is subscripted"
							} else if name, ok := fieldOf(u.X, pkg, "QSeq"); ok && name == "Seq" && bad == nil {
								bad, what = x, "a fixed column of the alignment is subscripted"
							}
						}
					}
				}
			}
		}
		if bad != nil {
			c.bad(rule, key, bad.Pos(), what+" on every call, before anything has established that the alignment has a column: for an alignment with no columns the method panics with an index out of range instead of just negating the strand")
		} else {
			c.ok(rule, key, fn.Pos(), "no column is read unless the walk over the columns found one")
		}
	}
	if n == 0 {
		c.und(rule, "alignment/RevComp", token.NoPos, "no alignment RevComp or Reverse found")
	}
}

// ---- nilalphaarg (C09): the query's alphabet is compared before it is used ----

// ruleNilAlphaArg: Align returns ErrNoAlphabet or ErrMismatchedAlphabets for
// sequences without (or with different) alphabets. The reference's alphabet is
// tested for nil; the query's is only ever compared with it. A method called on
// the query's alphabet — in Align or in a private helper it is handed to — is
// reached only where that value is known not to be nil; otherwise a query
// without an alphabet makes the aligner panic instead of returning its error.
func ruleNilAlphaArg(c *Ctx, rule string) {
	n := 0
	for _, a := range []string{"NW", "NWAffine", "SW", "SWAffine", "Fitted", "FittedAffine"} {
		fn := c.fn("align", a+".Align")
		if len(fn.Params) < 3 {
			continue
		}
		c.Funcs[funcName(fn)] = true
		key := "align." + a + ".Align/query-alphabet-not-dereferenced-unchecked"
		n++
		var start []ssa.Value
		for _, b := range fn.Blocks {
			for _, ins := range b.Instrs {
				if call, ok := ins.(*ssa.Call); ok && call.Call.IsInvoke() && call.Call.Method.Name() == "Alphabet" && call.Call.Value == ssa.Value(fn.Params[2]) {
					start = append(start, call)
				}
			}
		}
		var bad ssa.Instruction
		var visit func(v ssa.Value, depth int)
		visit = func(v ssa.Value, depth int) {
			if depth > 2 || v.Referrers() == nil {
				return
			}
			nonNil := func(b *ssa.BasicBlock) bool {
				for _, bf := range branchesAt(b) {
					if bf.cond.X == v && isNilConst(bf.cond.Y) && effectiveOp(bf, true) == token.NEQ {
						return true
					}
					if bf.cond.Y == v && isNilConst(bf.cond.X) && effectiveOp(bf, false) == token.NEQ {
						return true
					}
					// equal to the reference's alphabet, which was found not nil
					if (bf.cond.X == v || bf.cond.Y == v) && !isNilConst(bf.cond.X) && !isNilConst(bf.cond.Y) && effectiveOp(bf, true) == token.EQL {
						return true
					}
				}
				return false
			}
			for _, r := range *v.Referrers() {
				call, ok := r.(*ssa.Call)
				if !ok {
					continue
				}
				if call.Call.IsInvoke() && call.Call.Value == v {
					if !nonNil(call.Block()) && bad == nil {
						bad = call
					}
					continue
				}
				if g := call.Call.StaticCallee(); g != nil && inModule(g) && g.Blocks != nil {
					for i, arg := range call.Call.Args {
						if arg == v && i < len(g.Params) && !nonNil(call.Block()) {
							visit(g.Params[i], depth+1)
						}
					}
				}
			}
		}
		for _, v := range start {
			visit(v, 0)
		}
		switch {
		case len(start) == 0:
			c.ok(rule, key, fn.Pos(), "the query's alphabet is not read here")
		case bad != nil:
			c.bad(rule, key, bad.Pos(), "a method is called on the query's alphabet at "+c.pos(bad.Pos())+" where nothing has established that it is not nil: a query sequence without an alphabet makes the aligner panic with a nil dereference instead of returning ErrMismatchedAlphabets")
		default:
			c.ok(rule, key, fn.Pos(), "the query's alphabet is only compared, or used where it is known not to be nil")
		}
	}
	if n == 0 {
		c.und(rule, "align/Align", token.NoPos, "no Align method found")
	}
}
