// Rule N "closeonce" and the Promise mailbox lockset (rule L) for package concurrent.
package main

import (
	"fmt"
	"go/token"
	"go/types"
	"sort"

	"golang.org/x/tools/go/ssa"
)

// spawnedInLoop: is fn (a closure) started by a go statement that sits in a
// loop of its parent? Returns the go instruction.
func spawnedInLoop(fn *ssa.Function) (*ssa.Go, bool) {
	par := fn.Parent()
	if par == nil {
		return nil, false
	}
	loops := naturalLoops(par)
	for _, b := range par.Blocks {
		for _, ins := range b.Instrs {
			g, ok := ins.(*ssa.Go)
			if !ok {
				continue
			}
			var target *ssa.Function
			if mc, ok := g.Call.Value.(*ssa.MakeClosure); ok {
				target, _ = mc.Fn.(*ssa.Function)
			} else {
				target = g.Call.StaticCallee()
			}
			if target != fn {
				continue
			}
			for _, l := range loops {
				if l.body[b] {
					return g, true
				}
			}
			return g, false
		}
	}
	return nil, false
}

func ruleCloseOnce(c *Ctx, rule, short string) {
	p := c.pkg(short)
	sp := c.SPkgs[p.PkgPath]
	type site struct {
		call *ssa.Call
		fn   *ssa.Function
	}
	var sites []site
	for _, f := range srcFuncs(sp) {
		for _, b := range f.Blocks {
			for _, ins := range b.Instrs {
				if call, ok := ins.(*ssa.Call); ok {
					if bi, ok := call.Call.Value.(*ssa.Builtin); ok && bi.Name() == "close" {
						sites = append(sites, site{call, f})
					}
				}
			}
		}
	}
	sort.Slice(sites, func(i, j int) bool { return sites[i].call.Pos() < sites[j].call.Pos() })
	keyN := map[string]int{}
	for _, s := range sites {
		c.Funcs[funcName(s.fn)] = true
		ch := describeChan(s.call.Call.Args[0])
		k := fmt.Sprintf("%s/close(%s)", funcName(s.fn), ch)
		keyN[k]++
		key := k
		if keyN[k] > 1 {
			key = fmt.Sprintf("%s#%d", k, keyN[k])
		}
		// multi-instance?
		var goIns *ssa.Go
		multi := false
		for a := s.fn; a != nil; a = a.Parent() {
			if g, inLoop := spawnedInLoop(a); g != nil && inLoop {
				goIns, multi = g, true
			}
		}
		if !multi {
			c.ok(rule, key, s.call.Pos(), "single closer: not reachable from a goroutine started in a loop")
			continue
		}
		// (a) inside a sync.Once.Do literal
		onceOK := false
		if s.fn.Parent() != nil {
			for _, b := range s.fn.Parent().Blocks {
				for _, ins := range b.Instrs {
					call, ok := ins.(ssa.CallInstruction)
					if !ok {
						continue
					}
					f := call.Common().StaticCallee()
					if f == nil || f.Name() != "Do" || f.Signature.Recv() == nil || !isNamed(f.Signature.Recv().Type(), "sync", "Once") {
						continue
					}
					for _, a := range call.Common().Args {
						if mc, ok := a.(*ssa.MakeClosure); ok && mc.Fn == s.fn {
							onceOK = true
						}
					}
				}
			}
		}
		if onceOK {
			c.ok(rule, key, s.call.Pos(), "closed inside a sync.Once.Do literal: exactly once whatever order the workers exit in")
			continue
		}
		// (b) control dependent on an atomic decrement reaching zero
		atomicOK := false
		lenGuard := false
		for d := s.call.Block().Idom(); d != nil; d = d.Idom() {
			ifi, ok := d.Instrs[len(d.Instrs)-1].(*ssa.If)
			if !ok {
				continue
			}
			bo, ok := ifi.Cond.(*ssa.BinOp)
			if !ok {
				continue
			}
			for _, side := range []ssa.Value{bo.X, bo.Y} {
				if call, ok := side.(*ssa.Call); ok {
					if f := call.Call.StaticCallee(); f != nil && f.Pkg != nil && f.Pkg.Pkg.Path() == "sync/atomic" {
						other := bo.Y
						if side == bo.Y {
							other = bo.X
						}
						if k, isK := constIntVal(other); isK && k == 0 && bo.Op == token.EQL && forcedEdge(d, s.call.Block()) == 0 {
							atomicOK = true
						}
					}
					if bi, ok := call.Call.Value.(*ssa.Builtin); ok && bi.Name() == "len" {
						lenGuard = true
					}
				}
			}
		}
		if atomicOK {
			c.ok(rule, key, s.call.Pos(), "closed by the goroutine whose atomic decrement reaches zero: exactly one such goroutine")
			continue
		}
		why := fmt.Sprintf("close(%s) runs in every instance of the goroutine started in a loop at %s with no exactly-once guard (sync.Once, atomic counter reaching zero, or a single closer after WaitGroup.Wait)", ch, c.pos(goIns.Pos()))
		if lenGuard {
			why += "; the `len(ch) == n` test after a separate send is not atomic with that send, so two workers that return their tokens together both see a full channel and both close: panic `close of closed channel`, and a worker that has not yet taken its token can still send on the closed channel"
		}
		c.bad(rule, key, s.call.Pos(), why)
	}
}

func describeChan(v ssa.Value) string {
	if u, ok := v.(*ssa.UnOp); ok && u.Op == token.MUL {
		if fa, ok := u.X.(*ssa.FieldAddr); ok {
			if name, ok := anyFieldName(fa); ok {
				return name
			}
		}
	}
	if v.Name() != "" {
		return v.Name()
	}
	return "ch"
}

// rulePromiseLockset: every take/put on the promise's one-slot mailbox
// happens under the promise's mutex; unexported helpers inherit the
// intersection of their callers' locksets.
func rulePromiseLockset(c *Ctx, rule string) {
	pkgPath := modPath + "/concurrent"
	sp := c.SPkgs[c.pkg("concurrent").PkgPath]
	var fns []*ssa.Function
	for _, f := range srcFuncs(sp) {
		if f.Signature.Recv() != nil && isNamed(f.Signature.Recv().Type(), pkgPath, "Promise") {
			fns = append(fns, f)
		}
	}
	// entry locksets of unexported methods: intersection over call sites
	entry := map[*ssa.Function]lockState{}
	for iter := 0; iter < 4; iter++ {
		for _, callee := range fns {
			if callee.Object() != nil && callee.Object().Exported() {
				continue
			}
			var inter lockState
			sitesN := 0
			for _, caller := range fns {
				held := heldAt(caller, pkgPath, "Promise", entry[caller])
				for _, b := range caller.Blocks {
					for _, ins := range b.Instrs {
						ci, ok := ins.(ssa.CallInstruction)
						if !ok || ci.Common().StaticCallee() != callee {
							continue
						}
						sitesN++
						h := held[ins]
						if inter == nil {
							inter = h.clone()
						} else {
							for k := range inter {
								if !h[k] {
									delete(inter, k)
								}
							}
						}
					}
				}
			}
			if sitesN > 0 {
				entry[callee] = inter
				if iter == 3 {
					for k := range inter {
						c.triv(rule+"/entry", funcName(callee)+"/entry-holds-"+k, callee.Pos(), fmt.Sprintf("all %d call sites hold %s", sitesN, k))
					}
				}
			}
		}
	}
	ruleLockset(c, rule, pkgPath, "Promise", map[string]string{"message": "m"}, fns, entry)
}

func anyFieldName(fa *ssa.FieldAddr) (string, bool) {
	pt, ok := fa.X.Type().Underlying().(*types.Pointer)
	if !ok {
		return "", false
	}
	st, ok := pt.Elem().Underlying().(*types.Struct)
	if !ok {
		return "", false
	}
	return st.Field(fa.Field).Name(), true
}
