// Rule N "closeonce" and the Promise mailbox lockset (rule L) for package concurrent.
package main

import (
	"fmt"
	"go/token"
	"go/types"
	"sort"

	"golang.org/x/tools/go/ssa"
)

// spawnedInLoop: is fn (a closure) started by a go statement that sits in a
// loop of its parent? Returns the go instruction.
func spawnedInLoop(fn *ssa.Function) (*ssa.Go, bool) {
	par := fn.Parent()
	if par == nil {
		return nil, false
	}
	loops := naturalLoops(par)
	for _, b := range par.Blocks {
		for _, ins := range b.Instrs {
			g, ok := ins.(*ssa.Go)
			if !ok {
				continue
			}
			var target *ssa.Function
			if mc, ok := g.Call.Value.(*ssa.MakeClosure); ok {
				target, _ = mc.Fn.(*ssa.Function)
			} else {
				target = g.Call.StaticCallee()
			}
			if target != fn {
				continue
			}
			for _, l := range loops {
				if l.body[b] {
					return g, true
				}
			}
			return g, false
		}
	}
	return nil, false
}

func ruleCloseOnce(c *Ctx, rule, short string) {
	p := c.pkg(short)
	sp := c.SPkgs[p.PkgPath]
	type site struct {
		call *ssa.Call
		fn   *ssa.Function
	}
	var sites []site
	for _, f := range srcFuncs(sp) {
		for _, b := range f.Blocks {
			for _, ins := range b.Instrs {
				if call, ok := ins.(*ssa.Call); ok {
					if bi, ok := call.Call.Value.(*ssa.Builtin); ok && bi.Name() == "close" {
						sites = append(sites, site{call, f})
					}
				}
			}
		}
	}
	sort.Slice(sites, func(i, j int) bool { return sites[i].call.Pos() < sites[j].call.Pos() })
	keyN := map[string]int{}
	for _, s := range sites {
		c.Funcs[funcName(s.fn)] = true
		ch := describeChan(s.call.Call.Args[0])
		k := fmt.Sprintf("%s/close(%s)", funcName(s.fn), ch)
		keyN[k]++
		key := k
		if keyN[k] > 1 {
			key = fmt.Sprintf("%s#%d", k, keyN[k])
		}
		// multi-instance?
		var goIns *ssa.Go
		multi := false
		for a := s.fn; a != nil; a = a.Parent() {
			if g, inLoop := spawnedInLoop(a); g != nil && inLoop {
				goIns, multi = g, true
			}
		}
		if !multi {
			c.ok(rule, key, s.call.Pos(), "single closer: not reachable from a goroutine started in a loop")
			continue
		}
		// (a) inside a sync.Once.Do literal
		onceOK := false
		if s.fn.Parent() != nil {
			for _, b := range s.fn.Parent().Blocks {
				for _, ins := range b.Instrs {
					call, ok := ins.(ssa.CallInstruction)
					if !ok {
						continue
					}
					f := call.Common().StaticCallee()
					if f == nil || f.Name() != "Do" || f.Signature.Recv() == nil || !isNamed(f.Signature.Recv().Type(), "sync", "Once") {
						continue
					}
					for _, a := range call.Common().Args {
						if mc, ok := a.(*ssa.MakeClosure); ok && mc.Fn == s.fn {
							onceOK = true
						}
					}
				}
			}
		}
		if onceOK {
			c.ok(rule, key, s.call.Pos(), "closed inside a sync.Once.Do literal: exactly once whatever order the workers exit in")
			continue
		}
		// (b) control dependent on an atomic decrement reaching zero
		atomicOK := false
		lenGuard := false
		for d := s.call.Block().Idom(); d != nil; d = d.Idom() {
			ifi, ok := d.Instrs[len(d.Instrs)-1].(*ssa.If)
			if !ok {
				continue
			}
			bo, ok := ifi.Cond.(*ssa.BinOp)
			if !ok {
				continue
			}
			for _, side := range []ssa.Value{bo.X, bo.Y} {
				if call, ok := side.(*ssa.Call); ok {
					if f := call.Call.StaticCallee(); f != nil && f.Pkg != nil && f.Pkg.Pkg.Path() == "sync/atomic" {
						other := bo.Y
						if side == bo.Y {
							other = bo.X
						}
						if k, isK := constIntVal(other); isK && k == 0 && bo.Op == token.EQL && forcedEdge(d, s.call.Block()) == 0 {
							atomicOK = true
						}
					}
					if bi, ok := call.Call.Value.(*ssa.Builtin); ok && bi.Name() == "len" {
						lenGuard = true
					}
				}
			}
		}
		if atomicOK {
			c.ok(rule, key, s.call.Pos(), "closed by the goroutine whose atomic decrement reaches zero: exactly one such goroutine")
			continue
		}
		why := fmt.Sprintf("close(%s) runs in every instance of the goroutine started in a loop at %s with no exactly-once guard (sync.Once, atomic counter reaching zero, or a single closer after WaitGroup.Wait)", ch, c.pos(goIns.Pos()))
		if lenGuard {
			why += "; the `len(ch) == n` test after a separate send is not atomic with that send, so two workers that return their tokens together both see a full channel and both close: panic `close of closed channel`, and a worker that has not yet taken its token can still send on the closed channel"
		}
		c.bad(rule, key, s.call.Pos(), why)
	}
}

func describeChan(v ssa.Value) string {
	if u, ok := v.(*ssa.UnOp); ok && u.Op == token.MUL {
		if fa, ok := u.X.(*ssa.FieldAddr); ok {
			if name, ok := anyFieldName(fa); ok {
				return name
			}
		}
	}
	if v.Name() != "" {
		return v.Name()
	}
	return "ch"
}

// rulePromiseLockset: every take/put on the promise's one-slot mailbox
// happens under the promise's mutex; unexported helpers inherit the
// intersection of their callers' locksets.
func rulePromiseLockset(c *Ctx, rule string) {
	pkgPath := modPath + "/concurrent"
	sp := c.SPkgs[c.pkg("concurrent").PkgPath]
	var fns []*ssa.Function
	for _, f := range srcFuncs(sp) {
		if f.Signature.Recv() != nil && isNamed(f.Signature.Recv().Type(), pkgPath, "Promise") {
			fns = append(fns, f)
		}
	}
	// entry locksets of unexported methods: intersection over call sites
	entry := map[*ssa.Function]lockState{}
	for iter := 0; iter < 4; iter++ {
		for _, callee := range fns {
			if callee.Object() != nil && callee.Object().Exported() {
				continue
			}
			var inter lockState
			sitesN := 0
			for _, caller := range fns {
				held := heldAt(caller, pkgPath, "Promise", entry[caller])
				for _, b := range caller.Blocks {
					for _, ins := range b.Instrs {
						ci, ok := ins.(ssa.CallInstruction)
						if !ok || ci.Common().StaticCallee() != callee {
							continue
						}
						sitesN++
						h := held[ins]
						if inter == nil {
							inter = h.clone()
						} else {
							for k := range inter {
								if !h[k] {
									delete(inter, k)
								}
							}
						}
					}
				}
			}
			if sitesN > 0 {
				entry[callee] = inter
				if iter == 3 {
					for k := range inter {
						c.triv(rule+"/entry", funcName(callee)+"/entry-holds-"+k, callee.Pos(), fmt.Sprintf("all %d call sites hold %s", sitesN, k))
					}
				}
			}
		}
	}
	ruleLockset(c, rule, pkgPath, "Promise", map[string]string{"message": "m"}, fns, entry)
}

func anyFieldName(fa *ssa.FieldAddr) (string, bool) {
	pt, ok := fa.X.Type().Underlying().(*types.Pointer)
	if !ok {
		return "", false
	}
	st, ok := pt.Elem().Underlying().(*types.Struct)
	if !ok {
		return "", false
	}
	return st.Field(fa.Field).Name(), true
}

// chanField: v is a load of field F of a *Processor (through captured
// variables as well); returns F.
func procField(v ssa.Value) string {
	u, ok := v.(*ssa.UnOp)
	if !ok || u.Op != token.MUL {
		return ""
	}
	fa, ok := u.X.(*ssa.FieldAddr)
	if !ok || !isNamed(fa.X.Type(), modPath+"/concurrent", "Processor") {
		return ""
	}
	name, _ := anyFieldName(fa)
	return name
}

// ruleNoSendAfterDone: the result channel is closed by a single goroutine
// once the workers' WaitGroup is done. A worker therefore must not send on
// that channel after its wg.Done() — counting deferred functions in the
// order they run (last registered first). Otherwise the closer can close
// the channel while the worker is still delivering a result.
func ruleNoSendAfterDone(c *Ctx, rule string) {
	sp := c.SPkgs[c.pkg("concurrent").PkgPath]
	// the channel field closed after wg.Wait()
	closed := ""
	for _, f := range srcFuncs(sp) {
		var sawWait bool
		for _, b := range f.Blocks {
			for _, ins := range b.Instrs {
				if call, ok := ins.(*ssa.Call); ok {
					if g := call.Call.StaticCallee(); g != nil && g.Name() == "Wait" && g.Signature.Recv() != nil && isNamed(g.Signature.Recv().Type(), "sync", "WaitGroup") && f.Parent() != nil {
						sawWait = true
					}
					if bi, ok := call.Call.Value.(*ssa.Builtin); ok && bi.Name() == "close" && sawWait {
						if n := procField(call.Call.Args[0]); n != "" {
							closed = n
						}
					}
				}
			}
		}
	}
	if closed == "" {
		c.triv(rule, "concurrent/closer-after-wait", token.NoPos, "no channel is closed by a goroutine after WaitGroup.Wait (other closing discipline; see closeonce)")
		return
	}
	isDone := func(ins ssa.Instruction) bool {
		ci, ok := ins.(ssa.CallInstruction)
		if !ok {
			return false
		}
		g := ci.Common().StaticCallee()
		return g != nil && g.Name() == "Done" && g.Signature.Recv() != nil && isNamed(g.Signature.Recv().Type(), "sync", "WaitGroup")
	}
	isSend := func(ins ssa.Instruction) bool {
		s, ok := ins.(*ssa.Send)
		return ok && procField(s.Chan) == closed
	}
	find := func(f *ssa.Function, pred func(ssa.Instruction) bool) []ssa.Instruction {
		var out []ssa.Instruction
		for _, b := range f.Blocks {
			for _, ins := range b.Instrs {
				if _, isDefer := ins.(*ssa.Defer); isDefer {
					continue
				}
				if pred(ins) {
					out = append(out, ins)
				}
			}
		}
		return out
	}
	n := 0
	// the goroutine bodies of the package: function literals and named functions started with go
	var targets []*ssa.Function
	seenT := map[*ssa.Function]bool{}
	for _, f := range srcFuncs(sp) {
		for _, b := range f.Blocks {
			for _, ins := range b.Instrs {
				gi, ok := ins.(*ssa.Go)
				if !ok {
					continue
				}
				var t *ssa.Function
				if mc, ok := gi.Call.Value.(*ssa.MakeClosure); ok {
					t, _ = mc.Fn.(*ssa.Function)
				} else if sc := gi.Call.StaticCallee(); sc != nil && sc.Pkg == sp {
					t = sc
				}
				if t != nil && !seenT[t] && t.Blocks != nil {
					seenT[t] = true
					targets = append(targets, t)
				}
			}
		}
	}
	for _, g := range targets {
		// execution segments: body, then deferred calls last-registered first; a
		// deferred closure is a segment of its own, a directly deferred call
		// (defer wg.Done()) is a segment consisting of that call
		type segment struct {
			fn     *ssa.Function
			direct *ssa.Defer
		}
		var defers []segment
		for _, b := range g.Blocks {
			for _, ins := range b.Instrs {
				if d, ok := ins.(*ssa.Defer); ok {
					if mc, ok := d.Call.Value.(*ssa.MakeClosure); ok {
						if df, ok := mc.Fn.(*ssa.Function); ok {
							defers = append(defers, segment{fn: df})
							continue
						}
					}
					// a deferred method of the package (defer p.exit()) is a segment like a deferred literal
					if sc := d.Call.StaticCallee(); sc != nil && sc.Pkg == sp && sc.Blocks != nil {
						defers = append(defers, segment{fn: sc})
						continue
					}
					defers = append(defers, segment{direct: d})
				}
			}
		}
		segl := []segment{{fn: g}}
		for i := len(defers) - 1; i >= 0; i-- {
			segl = append(segl, defers[i])
		}
		var segs []*ssa.Function
		doneSeg := -1
		var doneIns ssa.Instruction
		for i, s := range segl {
			segs = append(segs, s.fn)
			if doneSeg >= 0 {
				continue
			}
			if s.direct != nil {
				if isDone(s.direct) {
					doneSeg, doneIns = i, s.direct
				}
				continue
			}
			if d := find(s.fn, isDone); len(d) > 0 {
				doneSeg, doneIns = i, d[0]
			}
		}
		if doneSeg < 0 {
			continue
		}
		n++
		c.Funcs[funcName(g)] = true
		key := fmt.Sprintf("%s/no-send-on-%s-after-Done", funcName(g), closed)
		var late ssa.Instruction
		for i, s := range segs {
			if s == nil {
				continue
			}
			for _, snd := range find(s, isSend) {
				if i > doneSeg || (i == doneSeg && doneIns.Parent() == s && instrAfter(doneIns, snd)) {
					late = snd
				}
			}
		}
		if late != nil {
			c.bad(rule, key, late.Pos(), fmt.Sprintf("the worker can send on %s at %s after its wg.Done() at %s (deferred functions run last-registered first): the closer goroutine, released by that Done, may close the channel first — panic: send on closed channel", closed, c.pos(late.Pos()), c.pos(doneIns.Pos())))
		} else {
			c.ok(rule, key, doneIns.Pos(), "every send on "+closed+" precedes the worker's wg.Done() in execution order, deferred functions included")
		}
	}
	if n == 0 {
		c.und(rule, "concurrent/worker-done", token.NoPos, "no goroutine calling WaitGroup.Done found")
	}
}

// ruleBroadcast: every put into the promise's mailbox by a settling
// function is followed, on every path to its return, by Cond.Broadcast — a
// Signal wakes only one of several waiters and the rest sleep forever.
func ruleBroadcast(c *Ctx, rule string) {
	pkgPath := modPath + "/concurrent"
	sp := c.SPkgs[c.pkg("concurrent").PkgPath]
	// is there a condition variable at all?
	usesCond := false
	n := 0
	condCall := func(ins ssa.Instruction, name string) bool {
		ci, ok := ins.(ssa.CallInstruction)
		if !ok {
			return false
		}
		g := ci.Common().StaticCallee()
		return g != nil && g.Name() == name && g.Signature.Recv() != nil && isNamed(g.Signature.Recv().Type(), "sync", "Cond")
	}
	for _, f := range srcFuncs(sp) {
		for _, b := range f.Blocks {
			for _, ins := range b.Instrs {
				if condCall(ins, "Wait") {
					usesCond = true
				}
			}
		}
	}
	if !usesCond {
		c.triv(rule, "concurrent.Promise/no-condition-variable", token.NoPos, "waiters do not sleep on a condition variable")
		return
	}
	for _, f := range srcFuncs(sp) {
		if f.Signature.Recv() == nil || !isNamed(f.Signature.Recv().Type(), pkgPath, "Promise") {
			continue
		}
		// waiters themselves re-put without needing to wake anybody: skip functions that Wait on the cond
		waits := false
		for _, b := range f.Blocks {
			for _, ins := range b.Instrs {
				if condCall(ins, "Wait") {
					waits = true
				}
				if condCall(ins, "Signal") {
					n++
					c.bad(rule, fmt.Sprintf("%s/Signal#%d", funcName(f), n), ins.Pos(), "Cond.Signal wakes a single waiter; any number of goroutines may be blocked in Wait on an unset promise, and the woken waiter does not wake the others: they block forever")
				}
			}
		}
		if waits {
			continue
		}
		for _, b := range f.Blocks {
			for _, ins := range b.Instrs {
				snd, ok := ins.(*ssa.Send)
				if !ok {
					continue
				}
				u, ok := snd.Chan.(*ssa.UnOp)
				if !ok {
					continue
				}
				if name, ok := fieldOf(u.X, pkgPath, "Promise"); !ok || name != "message" {
					continue
				}
				n++
				c.Funcs[funcName(f)] = true
				key := fmt.Sprintf("%s/put-then-Broadcast", funcName(f))
				okAll := true
				deferred := false
				for _, di := range f.Blocks[0].Instrs {
					if d, ok := di.(*ssa.Defer); ok && condCall(d, "Broadcast") {
						deferred = true
					}
				}
				for _, rb := range f.Blocks {
					ret, isRet := rb.Instrs[len(rb.Instrs)-1].(*ssa.Return)
					if !isRet || !reachesInstr(snd, ret) || deferred {
						continue
					}
					if !mustPassBetween(snd, ret, func(i ssa.Instruction) bool { return condCall(i, "Broadcast") }) {
						okAll = false
					}
				}
				if okAll {
					c.ok(rule, key, snd.Pos(), "every path from the put to the return broadcasts on the condition variable")
				} else {
					c.bad(rule, key, snd.Pos(), "a message is put into the mailbox but some path returns without Cond.Broadcast: goroutines already blocked in Wait are never woken")
				}
			}
		}
	}
}

// ruleCloseBySender: a channel created in a function and sent on by a
// goroutine that the function starts must not be closed by the function
// itself (directly or in a deferred call): the goroutine may be blocked in,
// or about to perform, a send — panic: send on closed channel.
func ruleCloseBySender(c *Ctx, rule, short string) {
	sp := c.SPkgs[c.pkg(short).PkgPath]
	n := 0
	for _, f := range srcFuncs(sp) {
		// channels made here
		for _, b := range f.Blocks {
			for _, ins := range b.Instrs {
				mk, ok := ins.(*ssa.MakeChan)
				if !ok {
					continue
				}
				// goroutine closures started by f that send on it (through the captured variable)
				sender := ""
				for _, an := range f.AnonFuncs {
					isGo := false
					for _, fb := range f.Blocks {
						for _, fi := range fb.Instrs {
							if g, ok := fi.(*ssa.Go); ok {
								if mc, ok := g.Call.Value.(*ssa.MakeClosure); ok && mc.Fn == an {
									isGo = true
								}
							}
						}
					}
					if !isGo {
						continue
					}
					for _, ab := range an.Blocks {
						for _, ai := range ab.Instrs {
							if s, ok := ai.(*ssa.Send); ok && chanOrigin(s.Chan, f) == ssa.Value(mk) {
								sender = funcName(an)
							}
						}
					}
				}
				if sender == "" {
					continue
				}
				n++
				key := fmt.Sprintf("%s/chan#%d-not-closed-under-its-sender", funcName(f), n)
				var closer ssa.Instruction
				check := func(fn *ssa.Function) {
					for _, cb := range fn.Blocks {
						for _, ci := range cb.Instrs {
							var cc *ssa.CallCommon
							switch x := ci.(type) {
							case *ssa.Call:
								cc = &x.Call
							case *ssa.Defer:
								cc = &x.Call
							}
							if cc == nil {
								continue
							}
							if bi, ok := cc.Value.(*ssa.Builtin); ok && bi.Name() == "close" && chanOrigin(cc.Args[0], f) == ssa.Value(mk) {
								closer = ci
							}
						}
					}
				}
				check(f)
				for _, an := range f.AnonFuncs {
					if funcName(an) != sender {
						check(an)
					}
				}
				if closer != nil && closer.Parent() == f {
					// joined first? a WaitGroup.Wait or a receive that dominates the close
					joined := false
					for _, jb := range f.Blocks {
						for _, ji := range jb.Instrs {
							isJoin := false
							if call, ok := ji.(*ssa.Call); ok {
								if g := call.Call.StaticCallee(); g != nil && g.Name() == "Wait" && g.Signature.Recv() != nil && isNamed(g.Signature.Recv().Type(), "sync", "WaitGroup") {
									isJoin = true
								}
							}
							if u, ok := ji.(*ssa.UnOp); ok && u.Op == token.ARROW && chanOrigin(u.X, f) != ssa.Value(mk) {
								isJoin = true
							}
							if _, isDefer := closer.(*ssa.Defer); isJoin && !isDefer && jb.Dominates(closer.Block()) && (jb != closer.Block() || instrIndex(jb, ji) < instrIndex(closer.Block(), closer)) {
								joined = true
							}
						}
					}
					if joined {
						c.ok(rule, key, closer.Pos(), "closed by the parent only after it has joined the sending goroutine")
						continue
					}
				}
				if closer != nil {
					c.bad(rule, key, closer.Pos(), "the channel made at "+c.pos(mk.Pos())+" is sent on by the goroutine "+sender+" but closed here by another party: when the function returns early (an operation failed) that goroutine is still blocked in its send and panics with `send on closed channel`")
				} else {
					c.ok(rule, key, mk.Pos(), "only sent on by "+sender+"; nobody else closes it")
				}
			}
		}
	}
	if n == 0 {
		c.triv(rule, short+"/no-function-local-channel-with-goroutine-sender", token.NoPos, "no function-local channel is sent on by a goroutine the function starts")
	}
}

// chanOrigin follows a channel value back to the MakeChan in outer (through
// the cell it is captured in).
func chanOrigin(v ssa.Value, outer *ssa.Function) ssa.Value {
	for i := 0; i < 6; i++ {
		switch x := v.(type) {
		case *ssa.MakeChan:
			return x
		case *ssa.ChangeType:
			v = x.X
		case *ssa.UnOp:
			if x.Op != token.MUL {
				return nil
			}
			v = x.X
		case *ssa.FreeVar:
			// the i-th binding of the closure: find the MakeClosure in outer
			fn := x.Parent()
			idx := -1
			for k, fv := range fn.FreeVars {
				if fv == x {
					idx = k
				}
			}
			var bound ssa.Value
			for _, b := range outer.Blocks {
				for _, ins := range b.Instrs {
					if mc, ok := ins.(*ssa.MakeClosure); ok && mc.Fn == fn && idx >= 0 && idx < len(mc.Bindings) {
						bound = mc.Bindings[idx]
					}
				}
			}
			if bound == nil {
				return nil
			}
			v = bound
		case *ssa.Alloc:
			// the cell: what is stored into it?
			var stored ssa.Value
			for _, r := range *x.Referrers() {
				if st, ok := r.(*ssa.Store); ok && st.Addr == x {
					stored = st.Val
				}
			}
			if stored == nil {
				return nil
			}
			v = stored
		default:
			return nil
		}
	}
	return nil
}
