// Rule C "lineio": line readers do not lose or mis-assemble data.
package main

import (
	"fmt"
	"go/constant"
	"go/token"
	"go/types"
	"sort"
	"strings"

	"golang.org/x/tools/go/ssa"
)

func isBufioMethod(call *ssa.Call, names ...string) bool {
	f := call.Call.StaticCallee()
	if f == nil || f.Signature.Recv() == nil || !isNamed(f.Signature.Recv().Type(), "bufio", "Reader") {
		return false
	}
	for _, n := range names {
		if f.Name() == n {
			return true
		}
	}
	return false
}

func extractOf(call *ssa.Call, idx int) *ssa.Extract {
	for _, r := range *call.Referrers() {
		if e, ok := r.(*ssa.Extract); ok && e.Tuple == call && e.Index == idx {
			return e
		}
	}
	return nil
}

func isNilConst(v ssa.Value) bool {
	c, ok := v.(*ssa.Const)
	return ok && c.Value == nil
}

func isGlobalLoad(v ssa.Value, pkg, name string) bool {
	u, ok := v.(*ssa.UnOp)
	if !ok || u.Op != token.MUL {
		return false
	}
	g, ok := u.X.(*ssa.Global)
	return ok && g.Pkg != nil && g.Pkg.Pkg.Path() == pkg && g.Name() == name
}

// lineCalls lists calls of (*bufio.Reader).<names> in the packages' functions.
func lineCalls(c *Ctx, shorts []string, names ...string) []*ssa.Call {
	var out []*ssa.Call
	for _, s := range shorts {
		p := c.pkg(s)
		for _, f := range srcFuncs(c.SPkgs[p.PkgPath]) {
			for _, b := range f.Blocks {
				for _, ins := range b.Instrs {
					if call, ok := ins.(*ssa.Call); ok && isBufioMethod(call, names...) {
						out = append(out, call)
						c.Funcs[funcName(f)] = true
					}
				}
			}
		}
	}
	sort.Slice(out, func(i, j int) bool { return out[i].Pos() < out[j].Pos() })
	return out
}

// ruleDataOnEOF (C1): the bytes returned together with io.EOF by
// ReadBytes/ReadString must be looked at before any return.
func ruleDataOnEOF(c *Ctx, rule string, shorts ...string) {
	keyN := map[string]int{}
	for _, call := range lineCalls(c, shorts, "ReadBytes", "ReadString", "ReadSlice") {
		f := call.Parent()
		key := funcName(f) + "/" + call.Call.StaticCallee().Name()
		keyN[key]++
		if keyN[key] > 1 {
			key = fmt.Sprintf("%s#%d", key, keyN[key])
		}
		data, errv := extractOf(call, 0), extractOf(call, 1)
		if data == nil {
			c.bad(rule, key, call.Pos(), "the data result is discarded outright")
			continue
		}
		if errv == nil {
			c.bad(rule, key, call.Pos(), "the error result is discarded")
			continue
		}
		// err may be spilled to an alloc (named result whose address a defer takes)
		var errAlloc ssa.Value
		for _, r := range *errv.Referrers() {
			if st, ok := r.(*ssa.Store); ok && st.Val == errv {
				errAlloc = st.Addr
			}
		}
		isErr := func(v ssa.Value, valid bool) bool {
			if v == errv {
				return true
			}
			if u, ok := v.(*ssa.UnOp); ok && u.Op == token.MUL && errAlloc != nil && u.X == errAlloc && valid {
				return true
			}
			return false
		}
		alias := map[ssa.Value]bool{data: true}
		type state struct {
			b     *ssa.BasicBlock
			valid bool
		}
		seen := map[state]bool{}
		var leak *ssa.Return
		var walk func(b *ssa.BasicBlock, start int, valid bool)
		walk = func(b *ssa.BasicBlock, start int, valid bool) {
			if leak != nil {
				return
			}
			if start == 0 {
				st := state{b, valid}
				if seen[st] {
					return
				}
				seen[st] = true
			}
			for i := start; i < len(b.Instrs); i++ {
				ins := b.Instrs[i]
				if phi, ok := ins.(*ssa.Phi); ok {
					for _, e := range phi.Edges {
						if alias[e] {
							alias[phi] = true
						}
					}
					continue
				}
				uses := false
				for _, op := range ins.Operands(nil) {
					if *op != nil && alias[*op] {
						uses = true
					}
				}
				if uses {
					return // the data is consulted on this path
				}
				switch ins := ins.(type) {
				case *ssa.Store:
					if errAlloc != nil && ins.Addr == errAlloc && ins.Val != errv {
						valid = false
					}
				case *ssa.Return:
					leak = ins
					return
				case *ssa.If:
					take := []int{0, 1}
					if bo, ok := ins.Cond.(*ssa.BinOp); ok && (bo.Op == token.EQL || bo.Op == token.NEQ) {
						var other ssa.Value
						if isErr(bo.X, valid) {
							other = bo.Y
						} else if isErr(bo.Y, valid) {
							other = bo.X
						}
						if other != nil {
							switch {
							case isNilConst(other): // err is io.EOF, hence non-nil
								if bo.Op == token.NEQ {
									take = []int{0}
								} else {
									take = []int{1}
								}
							case isGlobalLoad(other, "io", "EOF"):
								if bo.Op == token.EQL {
									take = []int{0}
								} else {
									take = []int{1}
								}
							}
						}
					}
					for _, t := range take {
						walk(b.Succs[t], 0, valid)
					}
					return
				case *ssa.Panic:
					return
				}
			}
			for _, s := range b.Succs {
				walk(s, 0, valid)
			}
		}
		// start right after the call in its block
		idx := 0
		for i, ins := range call.Block().Instrs {
			if ins == call {
				idx = i + 1
			}
		}
		walk(call.Block(), idx, true)
		if leak != nil {
			c.bad(rule, key, call.Pos(), fmt.Sprintf("on the err == io.EOF path the function returns at %s without ever looking at the bytes read: a final line without a terminator is silently dropped", c.pos(leak.Pos())))
		} else {
			c.ok(rule, key, call.Pos(), "every path consistent with err == io.EOF consults the bytes read before returning")
		}
	}
}

// ruleNormalise (C2): every flow from a ReadBytes result to a field
// splitter or a module parser passes through a whitespace/CR trim.
func ruleNormalise(c *Ctx, rule string, shorts ...string) {
	trims := map[string]bool{"TrimSpace": true, "TrimRight": true, "TrimSuffix": true, "Trim": true, "TrimRightFunc": true, "TrimFunc": true, "Fields": true}
	keyN := map[string]int{}
	for _, call := range lineCalls(c, shorts, "ReadBytes", "ReadString", "ReadSlice") {
		f := call.Parent()
		key := funcName(f) + "/" + call.Call.StaticCallee().Name()
		keyN[key]++
		if keyN[key] > 1 {
			key = fmt.Sprintf("%s#%d", key, keyN[key])
		}
		data := extractOf(call, 0)
		if data == nil {
			continue
		}
		raw := map[ssa.Value]bool{data: true}
		work := []ssa.Value{data}
		var sink ssa.Instruction
		sinkWhat := ""
		trimmed := 0
		for len(work) > 0 {
			v := work[0]
			work = work[1:]
			for _, r := range *v.Referrers() {
				switch r := r.(type) {
				case *ssa.Phi, *ssa.Slice, *ssa.Convert, *ssa.ChangeType:
					rv := r.(ssa.Value)
					if !raw[rv] {
						raw[rv] = true
						work = append(work, rv)
					}
				case ssa.CallInstruction:
					cc := r.Common()
					if _, isB := cc.Value.(*ssa.Builtin); isB {
						continue
					}
					callee := cc.StaticCallee()
					if callee != nil && callee.Pkg != nil {
						pp := callee.Pkg.Pkg.Path()
						if (pp == "bytes" || pp == "strings") && trims[callee.Name()] {
							switch callee.Name() {
							case "TrimSpace", "Fields":
								trimmed++
								continue
							case "TrimRight", "Trim":
								// the cutset must cover both CR and LF
								if k, ok := cc.Args[1].(*ssa.Const); ok && k.Value != nil && strings.Contains(constant.StringVal(k.Value), "\r") && strings.Contains(constant.StringVal(k.Value), "\n") {
									trimmed++
									continue
								}
							}
							// a trim that does not remove CR: the result is still raw
							if rv, ok := r.(ssa.Value); ok && !raw[rv] {
								raw[rv] = true
								work = append(work, rv)
							}
							continue
						}
						if (pp == "bytes" || pp == "strings") && splitters[callee.Name()] {
							sink, sinkWhat = r, pp+"."+callee.Name()
							continue
						}
						if inModule(callee) {
							sink, sinkWhat = r, funcName(callee)
							continue
						}
					}
				}
			}
		}
		if sink != nil {
			c.bad(rule, key, sink.Pos(), "the line reaches "+sinkWhat+" without bytes.TrimSpace (or a CR/LF trim): CRLF-terminated input parses differently from LF input")
		} else if trimmed == 0 {
			c.und(rule, key, call.Pos(), "no trim and no splitter found on the data flow from the line")
		} else {
			c.ok(rule, key, call.Pos(), fmt.Sprintf("the raw line flows only into %d trim call(s) before any splitter or parser", trimmed))
		}
	}
}

// ruleFragments (C3): ReadLine fragments are joined before classification
// and bufio's internal buffer is not retained.
func ruleFragments(c *Ctx, rule string, shorts ...string) {
	for _, call := range lineCalls(c, shorts, "ReadLine") {
		f := call.Parent()
		key := funcName(f) + "/ReadLine"
		buf, isPrefix := extractOf(call, 0), extractOf(call, 1)
		if buf == nil {
			c.bad(rule, key+"/buffer", call.Pos(), "the line fragment is discarded")
			continue
		}
		// (c) buf only feeds append/copy/string conversions
		var app *ssa.Call
		badUse := ""
		for _, r := range *buf.Referrers() {
			switch r := r.(type) {
			case *ssa.Call:
				if b, ok := r.Call.Value.(*ssa.Builtin); ok {
					switch b.Name() {
					case "append":
						if len(r.Call.Args) == 2 && r.Call.Args[1] == buf && r.Call.Args[0] != buf {
							app = r
							continue
						}
					case "copy":
						if r.Call.Args[1] == buf {
							continue
						}
					case "len":
						continue
					}
				}
				badUse = "passed to " + r.Call.Value.Name()
			case *ssa.Convert:
				if b, ok := r.Type().Underlying().(*types.Basic); ok && b.Kind() == types.String {
					continue
				}
				badUse = "converted"
			case *ssa.DebugRef:
			default:
				badUse = fmt.Sprintf("used by %T", r)
			}
		}
		if badUse != "" {
			c.bad(rule, key+"/buffer", call.Pos(), "the slice returned by ReadLine aliases bufio's internal buffer and is "+badUse+" instead of being copied by append: it is overwritten by the next read, and fragments of a long line are not joined")
		} else if app == nil {
			c.bad(rule, key+"/buffer", call.Pos(), "the line fragment is never appended to an accumulator")
		} else {
			c.ok(rule, key+"/buffer", call.Pos(), "the fragment is only the variadic source of append (copied, not retained)")
		}
		// (a) isPrefix decides a branch
		var ifi *ssa.If
		neg := false
		if isPrefix != nil {
			for _, r := range *isPrefix.Referrers() {
				switch r := r.(type) {
				case *ssa.If:
					ifi = r
				case *ssa.UnOp:
					if r.Op == token.NOT {
						for _, rr := range *r.Referrers() {
							if x, ok := rr.(*ssa.If); ok {
								ifi, neg = x, true
							}
						}
					}
				}
			}
		}
		if ifi == nil && isPrefix != nil {
			// the flag drives the loop that gathers the fragments (for more := true; more; { buff, more, err = ReadLine() ... }):
			// a phi that takes it over the back edge is what the loop tests
			for _, r := range *isPrefix.Referrers() {
				phi, ok := r.(*ssa.Phi)
				if !ok {
					continue
				}
				for _, rr := range *phi.Referrers() {
					if x, ok := rr.(*ssa.If); ok {
						ifi = x
					}
				}
			}
		}
		if ifi == nil {
			c.bad(rule, key+"/isPrefix", call.Pos(), "isPrefix is not tested: a physical line longer than bufio's buffer is classified fragment by fragment")
			continue
		}
		c.ok(rule, key+"/isPrefix", isPrefix.Pos(), "isPrefix decides a branch")
		// every way back to the ReadLine call goes through the isPrefix test: a chunk
		// that is skipped before the test loses the information that the line ended
		{
			bypass := false
			if ifi.Block() != call.Block() {
				for _, s := range call.Block().Succs {
					if reaches(s, call.Block(), ifi.Block()) {
						bypass = true
					}
				}
			}
			if bypass {
				c.bad(rule, key+"/everychunk", call.Pos(), "some path returns to ReadLine for the next chunk without testing isPrefix: when a physical line is an exact multiple of bufio's buffer its empty terminating chunk is skipped, the end of the line goes unnoticed, and the next physical line (e.g. the next record's header) is glued onto it")
			} else {
				c.ok(rule, key+"/everychunk", call.Pos(), "every path back to ReadLine passes the isPrefix test")
			}
		}
		// (b) the isPrefix edge returns to the ReadLine call without any call in between
		edge := 0
		if neg {
			edge = 1
		}
		b := ifi.Block().Succs[edge]
		prev := ifi.Block()
		okPath, why := true, ""
		for steps := 0; b != call.Block(); steps++ {
			if steps > 8 || len(b.Succs) != 1 {
				okPath, why = false, "the isPrefix branch does not lead straight back to the ReadLine call"
				break
			}
			for _, ins := range b.Instrs {
				switch ins.(type) {
				case *ssa.Phi, *ssa.Jump, *ssa.DebugRef:
				default:
					okPath, why = false, fmt.Sprintf("the isPrefix branch executes %T before reading the next fragment", ins)
				}
			}
			prev, b = b, b.Succs[0]
		}
		if okPath {
			for _, ins := range b.Instrs {
				if ins == call {
					break
				}
				switch ins.(type) {
				case *ssa.Phi, *ssa.FieldAddr, *ssa.UnOp, *ssa.DebugRef, *ssa.Alloc:
				default:
					okPath, why = false, fmt.Sprintf("%T is executed on a partial line before the next ReadLine", ins)
				}
			}
		}
		if !okPath {
			c.bad(rule, key+"/continue", call.Pos(), why)
			continue
		}
		c.ok(rule, key+"/continue", call.Pos(), "on isPrefix the loop goes straight back to ReadLine: no classification of a partial line")
		// (e) the accumulator carries the appended fragment around the loop
		if app != nil {
			acc, ok := app.Call.Args[0].(*ssa.Phi)
			if ok && acc.Block() != call.Block() {
				// the test sits at the head of an inner loop that gathers the fragments and the read in its
				// body: the accumulator is that loop's phi and takes the append result over its back edge
				var inner *ssaLoop
				for _, l := range naturalLoops(call.Parent()) {
					if l.body[call.Block()] && (inner == nil || len(l.body) < len(inner.body)) {
						inner = l
					}
				}
				if inner != nil && acc.Block() == inner.head {
					carried, other := false, false
					for _, lf := range headerLeaves(inner, acc) {
						switch lf.v {
						case ssa.Value(app):
							carried = true
						case ssa.Value(acc):
						default:
							other = true
						}
					}
					if carried && !other {
						c.ok(rule, key+"/accumulate", app.Pos(), "the accumulator phi of the gathering loop takes the append result over the back edge")
					} else {
						c.bad(rule, key+"/accumulate", app.Pos(), "over the back edge of the loop that gathers the fragments the accumulator does not carry the appended fragment: earlier fragments of a long line are lost")
					}
					continue
				}
			}
			if !ok || acc.Block() != call.Block() {
				c.und(rule, key+"/accumulate", app.Pos(), "the accumulator is not a loop-carried local; idiom not understood")
				continue
			}
			pi := -1
			for i, p := range call.Block().Preds {
				if p == prev {
					pi = i
				}
			}
			if pi < 0 || acc.Edges[pi] != app {
				c.bad(rule, key+"/accumulate", app.Pos(), "on the isPrefix back edge the accumulator does not carry the appended fragment: earlier fragments of a long line are lost")
			} else {
				c.ok(rule, key+"/accumulate", app.Pos(), "the accumulator phi takes the append result on the isPrefix back edge")
			}
		}
	}
}
