// Property registry: which rules decide which clause of which property.
package main

func init() {
	register(&propDef{
		ID: "C17",
		Explanation: "tables/alphabet: for each built-in alphabet the constructor arguments are read as constants (go/types constant values, through Must* wrappers and package-level variables) and checked against every clause the property states about definitions: letters distinct ASCII (up to case for case-insensitive alphabets); pairing strings equal length, ASCII, involutive, case preserving; every letter of the alphabet, in both cases, is paired with a letter of the alphabet; in four-letter alphabets index(complement(l)) == 3-index(l); the gap letter, when part of the alphabet, has index 0.",
		NotDecided:  "that newAlphabet/NewPairing/NewComplementor build the lookup tables these definitions describe, AllValid positions, constructor rejection of bad definitions (value-level behaviour).",
		Assumptions: []string{"the constructors interpret (letters, pairing s, pairing c, gap, caseSensitive) positionally as their parameter names say"},
		Run: func(c *Ctx) {
			c.guard("tables/alphabet", func() { ruleAlphabets(c) })
		},
	})
	register(&propDef{
		ID: "C18",
		Explanation: "tables/quality: every Encoding constant other than None has a case in the decode switch and in the Encode switch of its own scale (Phred-offset encodings: Encoding.DecodeToQphred and Qphred.Encode; Solexa: Encoding.DecodeToQsolexa and Qsolexa.Encode); per encoding the additive constant of Encode equals the subtractive constant of Decode, no scale conversion is applied in between, and bound+offset == '~' so the offset covers exactly the printable range.",
		NotDecided:  "error probabilities, rounding, the Phred<->Solexa conversion tables, and the byte-level arithmetic inside each case (value-level).",
		Assumptions: []string{"Encode's guarded `q += K` and Decode's `x - K` are the only offset arithmetic in their cases (otherwise UNDECIDED)"},
		Run: func(c *Ctx) {
			c.guard("tables/quality", func() { ruleQuality(c) })
		},
	})
	register(&propDef{
		ID: "C03",
		Explanation: "guardidx: every constant index (direct, sub-slice, or through a helper summarised as indexing parameter i at parameter j) into a vector produced by bytes|strings.Split*/Fields in packages bed and gff is dominated, on every path, by a length guard that proves the index in range (producer facts + dominating len comparisons; helpers' vector parameters take the minimum bound over their call sites). panicval: from every function that defers a recover-to-error converter (handlePanic), every explicit panic reachable through the call graph carries a value that implements error and is not a runtime.Error, or is conditional on `param == const` and that value is excluded by dominating comparisons at every call site on the way.",
		NotDecided:  "termination and the one-call-per-line bound (GFF metadata recursion), nil dereferences, failed type assertions, (nil, nil) returns, the FASTQ length check; FASTA/FASTQ readers have no converter (their only reachable explicit panic, Encoding.DecodeTo* default, is configuration-guarded).",
		Assumptions: []string{"runtime index panics other than on split-field vectors are out of scope", "a converter re-panics exactly non-error and runtime.Error values (checked structurally)"},
		Run: func(c *Ctx) {
			c.guard("guardidx", func() { ruleGuardIdx(c, "guardidx", "io/featio/bed", "io/featio/gff"); c.floor("guardidx", 50) })
			c.guard("panicval", func() {
				rulePanicVal(c, "panicval", "io/featio/bed", "io/featio/gff")
				c.floor("panicval/root", 6)
				c.floor("panicval/converter", 2)
				c.floor("panicval", 12+6+2)
			})
		},
	})
	register(&propDef{
		ID: "C04",
		Explanation: "lineio/eofdata: for every (*bufio.Reader).ReadBytes/ReadString call in bed and gff, an edge-sensitive forward search over the SSA CFG that follows only branches consistent with err == io.EOF (err followed through the alloc it is spilled to) must not reach a return before some instruction consults the bytes read — otherwise the unterminated final line is dropped. lineio/normalise: the raw line flows only into bytes.TrimSpace (or another trim) before any splitter or module parser, so CRLF and LF parse alike. lineio/fragments: for every ReadLine call in fasta and fastq, isPrefix decides a branch whose true edge goes straight back to the ReadLine call, the fragment is only the variadic source of append (never retained), and the loop-carried accumulator takes the append result on that edge.",
		NotDecided:  "blank-line and trailing-blank handling as behaviour, equality of records under re-wrapping (value-level).",
		Assumptions: []string{"bufio.Reader.ReadBytes returns the data read before an error together with that error; ReadLine never returns both data and an error and its buffer is only valid until the next read"},
		Run: func(c *Ctx) {
			feat := []string{"io/featio/bed", "io/featio/gff"}
			seqs := []string{"io/seqio/fasta", "io/seqio/fastq"}
			c.guard("lineio/eofdata", func() { ruleDataOnEOF(c, "lineio/eofdata", feat...); c.floor("lineio/eofdata", 3) })
			c.guard("lineio/normalise", func() { ruleNormalise(c, "lineio/normalise", feat...); c.floor("lineio/normalise", 3) })
			c.guard("lineio/fragments", func() { ruleFragments(c, "lineio/fragments", seqs...); c.floor("lineio/fragments", 8) })
			c.guard("lineio/eofdata", func() { ruleDataOnEOF(c, "lineio/eofdata", seqs...) })
		},
	})
	register(&propDef{
		ID: "C01",
		Explanation: "TODO",
		Run: func(c *Ctx) {
			c.guard("bytecount", func() { ruleByteCount(c, "bytecount", "io/seqio/fasta", "io/seqio/fastq"); c.floor("bytecount", 14) })
		},
	})
	register(&propDef{
		ID: "C02",
		Explanation: "TODO",
		Run: func(c *Ctx) {
			c.guard("bytecount", func() { ruleByteCount(c, "bytecount", "io/featio/bed", "io/featio/gff"); c.floor("bytecount", 28) })
		},
	})
}
