// Property registry: which rules decide which clause of which property.
package main

import "golang.org/x/tools/go/ssa"

func init() {
	register(&propDef{
		ID:          "C16",
		Explanation: "pilemerge: in Piler.merge every interval matched by the tree query is collected for replacement, hands its images to the merged interval, extends both ends of the merged interval, and is deleted (in a loop over the collected list) from the queried tree before the merged interval is inserted into that same tree — conservation of member features across merges. pileadd: Piler.Add looks the pair up in both orientations (two look-ups whose 2-element keys hold the same two values in swapped order) before the first change to the trees, merges both features, and records the pair on every successful return.",
		NotDecided:  "that piles are exactly the connected components, disjointness, order independence, the overlap-slack arithmetic of pileInterval.Overlap/Range, the Piles filter (properties of the interval tree's contents at run time).",
		Assumptions: []string{"interval.IntTree.DoMatching calls the callback for every overlapping interval; Delete/Insert behave as their names say"},
		Run: func(c *Ctx) {
			c.guard("pilemerge", func() { rulePileMerge(c, "pilemerge"); c.floor("pilemerge", 2) })
			c.guard("pileadd", func() { rulePileAdd(c, "pileadd"); c.floor("pileadd", 2) })
			c.guard("pileimages", func() { rulePileImages(c, "pileimages"); c.floor("pileimages", 2) })
			c.guard("overlapclosed", func() { ruleOverlapClosed(c, "overlapclosed"); c.floor("overlapclosed", 1) })
			c.guard("intervalcoherent", func() { ruleIntervalCoherent(c, "intervalcoherent", "align/pals"); c.floor("intervalcoherent", 3) })
		},
	})
	register(&propDef{
		ID:          "C17",
		Explanation: "tables/alphabet: for each built-in alphabet the constructor arguments are read as constants (go/types constant values, through Must* wrappers and package-level variables) and checked against every clause the property states about definitions: letters distinct ASCII (up to case for case-insensitive alphabets); pairing strings equal length, ASCII, involutive, case preserving; every letter of the alphabet, in both cases, is paired with a letter of the alphabet; in four-letter alphabets index(complement(l)) == 3-index(l); the gap letter, when part of the alphabet, has index 0. bijection: NewPairing tests pair[pair[x]] == x for the letters of both definition strings. casefold: in the case-insensitive branch of newAlphabet every string ranged over or indexed to fill the tables derives from strings.ToLower/ToUpper of the definition. tablefill: every loop whose counter indexes a fixed-size lookup table (index, pair, ok, complements) covers the whole table.",
		NotDecided:  "that newAlphabet/NewPairing/NewComplementor build the lookup tables these definitions describe, AllValid positions, constructor rejection of bad definitions (value-level behaviour).",
		Assumptions: []string{"the constructors interpret (letters, pairing s, pairing c, gap, caseSensitive) positionally as their parameter names say"},
		Run: func(c *Ctx) {
			c.guard("tables/alphabet", func() { ruleAlphabets(c) })
			c.guard("tablefill", func() { ruleTableFill(c, "tablefill", "newAlphabet", "NewPairing"); c.floor("tablefill", 2) })
			c.guard("bijection", func() { ruleBijection(c, "bijection"); c.floor("bijection", 2) })
			c.guard("casefold", func() { ruleCaseFold(c, "casefold"); c.floor("casefold", 2) })
			c.guard("compmethod", func() { ruleCompMethod(c, "compmethod"); c.floor("compmethod", 1) })
			c.guard("asciicheck", func() { ruleASCIICheck(c, "asciicheck"); c.floor("asciicheck", 2) })
			c.guard("norunes", func() { ruleNoRunes(c, "norunes"); c.floor("norunes", 2) })
			c.guard("indexinit", func() { ruleIndexInit(c, "indexinit"); c.floor("indexinit", 1) })
		},
	})
	register(&propDef{
		ID:          "C18",
		Explanation: "tables/quality: every Encoding constant other than None has a case in the decode switch and in the Encode switch of its own scale (Phred-offset encodings: Encoding.DecodeToQphred and Qphred.Encode; Solexa: Encoding.DecodeToQsolexa and Qsolexa.Encode); per encoding the additive constant of Encode equals the subtractive constant of Decode, no scale conversion is applied in between, and bound+offset == '~' so the offset covers exactly the printable range. The Solexa-scale Encode guard must be evaluated on the signed score (negative printable scores receive the offset), and only Illumina1_5 may clamp low bytes. signround: a float converted to the signed Solexa score is rounded symmetrically (+0.5 and -0.5 selected by sign, or math.Round).",
		NotDecided:  "error probabilities, rounding, the Phred<->Solexa conversion tables, and the byte-level arithmetic inside each case (value-level).",
		Assumptions: []string{"Encode's guarded `q += K` and Decode's `x - K` are the only offset arithmetic in their cases (otherwise UNDECIDED)"},
		Run: func(c *Ctx) {
			c.guard("signround", func() { ruleSignRound(c, "signround"); c.floor("signround", 2) })
			c.guard("scorespace", func() { ruleScoreSpace(c, "scorespace", "Ephred", "Esolexa"); c.floor("scorespace", 2) })
			c.guard("tableshift", func() {
				ruleTableShift(c, "tableshift", "phredETable", "solexaETable", "phredSolexaTable", "solexaPhredTable")
				c.floor("tableshift", 2)
			})
			c.guard("convformula", func() { ruleConvFormula(c, "convformula"); c.floor("convformula", 2) })
			c.guard("scalepath", func() { ruleScalePath(c, "scalepath"); c.floor("scalepath", 2) })
			c.guard("clampfirst", func() { ruleClampFirst(c, "clampfirst"); c.floor("clampfirst", 1) })
			c.guard("decodeswitch", func() { ruleDecodeSwitch(c, "decodeswitch"); c.floor("decodeswitch", 2) })
			c.guard("tables/quality", func() { ruleQuality(c) })
		},
	})
	register(&propDef{
		ID:          "C03",
		Explanation: "guardidx: every constant index (direct, sub-slice, or through a helper summarised as indexing parameter i at parameter j) into a vector produced by bytes|strings.Split*/Fields in packages bed and gff is dominated, on every path, by a length guard that proves the index in range (producer facts + dominating len comparisons; helpers' vector parameters take the minimum bound over their call sites). panicval: from every function that defers a recover-to-error converter (handlePanic), every explicit panic reachable through the call graph carries a value that implements error and is not a runtime.Error, or is conditional on `param == const` and that value is excluded by dominating comparisons at every call site on the way. lineio/eofhang: with the reader at end of input (no bytes, io.EOF) no path whose branches are all decided by that condition returns to the read (the loop would never end). lencheck: every store of a quality score into the FASTQ sequence buffer is dominated by the sequence/quality length comparison (or an index bound), so a longer quality line yields the mismatch error, not an index panic. taintsize: an integer parsed from the input reaches a make() size, a slice bound or an index only after being bounded below and above by dominating comparisons (a negative or huge column would otherwise raise a runtime.Error that the recover handler re-panics).",
		NotDecided:  "termination and the one-call-per-line bound (GFF metadata recursion), nil dereferences, failed type assertions, (nil, nil) returns, the FASTQ length check; FASTA/FASTQ readers have no converter (their only reachable explicit panic, Encoding.DecodeTo* default, is configuration-guarded).",
		Assumptions: []string{"runtime index panics other than on split-field vectors are out of scope", "a converter re-panics exactly non-error and runtime.Error values (checked structurally)"},
		Run: func(c *Ctx) {
			c.guard("guardidx", func() { ruleGuardIdx(c, "guardidx", "io/featio/bed", "io/featio/gff"); c.floor("guardidx", 16) })
			c.guard("taintsize", func() { ruleTaintSize(c, "taintsize", "io/featio/bed", "io/featio/gff"); c.floor("taintsize", 1) })
			c.guard("lencheck", func() { ruleLenCheck(c, "lencheck"); c.floor("lencheck", 1) })
			c.guard("sentinel", func() { ruleSentinel(c, "sentinel", "io/featio/bed", "io/featio/gff"); c.floor("sentinel", 1) })
			c.guard("recovercover", func() {
				ruleRecoverCover(c, "recovercover", "io/featio/bed", "io/featio/gff")
				c.floor("recovercover", 2)
			})
			c.guard("arrayrange", func() { ruleArrayRange(c, "arrayrange", "alphabet"); c.floor("arrayrange", 2) })
			c.guard("eofspin", func() { ruleEOFSpin(c, "eofspin", "io/seqio/fasta", "io/seqio/fastq"); c.floor("eofspin", 2) })
			c.guard("byteidx", func() {
				ruleByteIdx(c, "byteidx", "io/featio/bed", "io/featio/gff", "io/seqio/fasta", "io/seqio/fastq")
				c.floor("byteidx", 2)
			})
			c.guard("lineio/eofhang", func() {
				ruleEOFPaths(c, "lineio/eofhang", "", "io/featio/bed", "io/featio/gff")
				c.floor("lineio/eofhang", 2)
			})
			c.guard("panicval", func() {
				rulePanicVal(c, "panicval", "io/featio/bed", "io/featio/gff")
				c.floor("panicval/root", 2)
				c.floor("panicval/converter", 2)
				c.floor("panicval", 6)
			})
		},
	})
	register(&propDef{
		ID:          "C04",
		Explanation: "lineio/eofdata: for every (*bufio.Reader).ReadBytes/ReadString call in bed and gff, an edge-sensitive forward search over the SSA CFG that follows only branches consistent with err == io.EOF (err followed through the alloc it is spilled to) must not reach a return before some instruction consults the bytes read — otherwise the unterminated final line is dropped. lineio/normalise: the raw line flows only into bytes.TrimSpace (or another trim) before any splitter or module parser, so CRLF and LF parse alike. lineio/fragments: for every ReadLine call in fasta and fastq, isPrefix decides a branch whose true edge goes straight back to the ReadLine call, the fragment is only the variadic source of append (never retained), and the loop-carried accumulator takes the append result on that edge. bufalias: as C02, for all four readers. lineio/eofclean: no return hands out a non-nil record together with the io.EOF that ended the final unterminated line (a caller reading until the first error would drop it).",
		NotDecided:  "blank-line and trailing-blank handling as behaviour, equality of records under re-wrapping (value-level).",
		Assumptions: []string{"bufio.Reader.ReadBytes returns the data read before an error together with that error; ReadLine never returns both data and an error and its buffer is only valid until the next read"},
		Run: func(c *Ctx) {
			feat := []string{"io/featio/bed", "io/featio/gff"}
			seqs := []string{"io/seqio/fasta", "io/seqio/fastq"}
			c.guard("lineio/eofdata", func() { ruleDataOnEOF(c, "lineio/eofdata", feat...); c.floor("lineio/eofdata", 2) })
			c.guard("lineio/normalise", func() { ruleNormalise(c, "lineio/normalise", feat...); c.floor("lineio/normalise", 2) })
			c.guard("lineio/fragments", func() { ruleFragments(c, "lineio/fragments", seqs...); c.floor("lineio/fragments", 3) })
			c.guard("lineio/eofdata", func() { ruleDataOnEOF(c, "lineio/eofdata", seqs...) })
			c.guard("lineio/rawline", func() { ruleRawLine(c, "lineio/rawline", seqs...); c.floor("lineio/rawline", 2) })
			c.guard("lineio/pendingeof", func() { rulePendingEOF(c, "lineio/pendingeof", seqs...); c.floor("lineio/pendingeof", 2) })
			c.guard("linelimit", func() {
				ruleLineLimit(c, "linelimit", "io/featio/bed", "io/featio/gff", "io/seqio/fasta", "io/seqio/fastq")
			})
			c.guard("bufalias", func() {
				ruleBufAlias(c, "bufalias", append(append([]string{}, feat...), seqs...)...)
				c.floor("bufalias", 2)
			})
			c.guard("lineio/eofclean", func() { ruleEOFPaths(c, "", "lineio/eofclean", feat...); c.floor("lineio/eofclean", 2) })
		},
	})
	register(&propDef{
		ID:          "C01",
		Explanation: "bytecount: forward dataflow over go/cfg of fasta.(*Writer).Write, fastq.(*Writer).Write and writeHeader (and any other (int, error) method of a type with an io.Writer field): after every emitting call (io.Writer.Write, io.WriteString, fmt.Fprint*, module (int, error) writers) its count is pending until added to the result; a pending count at a success return, a plain assignment overwriting accumulated bytes, or a discarded count is a violation (returns inside `if err != nil` are error exits). lineio/fragments: both readers join ReadLine fragments before classifying a line and never retain bufio's buffer (physical lines > 4096 bytes). tables/markers: the constants the writers emit ('>' / '@' / '+' / \"+\\n\") equal the constants the readers classify on. tables/quality: Qphred.Encode and Encoding.DecodeToQphred agree on the offset of every Phred-offset encoding. prefixstrip: a record prefix that lines are classified on with HasPrefix is removed by length or TrimPrefix, never by a cutset trim (names that begin with the prefix character survive). lineio/fragments everychunk: every path back to ReadLine passes the isPrefix test. directsink: NewWriter stores the caller's io.Writer itself (no buffering wrapper), so reported counts are bytes emitted.",
		NotDecided:  "that parsed names, descriptions, letters and scores equal what was written (value-level); header splitting; the four-state FASTQ classifier; empty sequences.",
		Assumptions: []string{"fmt.Fprint*/io.Writer.Write/io.WriteString report the bytes they wrote", "returns inside `if err != nil` are error exits whose count is not part of the property"},
		Run: func(c *Ctx) {
			seqs := []string{"io/seqio/fasta", "io/seqio/fastq"}
			c.guard("bytecount", func() { ruleByteCount(c, "bytecount", seqs...); c.floor("bytecount", 2) })
			c.guard("lineio/fragments", func() { ruleFragments(c, "lineio/fragments", seqs...); c.floor("lineio/fragments", 3) })
			c.guard("tables/markers", func() { ruleMarkers(c); c.floor("tables/markers", 2) })
			c.guard("tables/quality", func() { ruleQuality(c) })
			c.guard("directsink", func() { ruleDirectSink(c, "directsink", seqs...); c.floor("directsink", 2) })
			c.guard("prefixstrip", func() { rulePrefixStrip(c, "prefixstrip", seqs...); c.floor("prefixstrip", 2) })
			c.guard("bareplus", func() { ruleBarePlus(c, "bareplus"); c.floor("bareplus", 1) })
			c.guard("overflowwidth", func() { ruleOverflowWidth(c, "overflowwidth"); c.floor("overflowwidth", 1) })
			c.guard("linelimit", func() { ruleLineLimit(c, "linelimit", seqs...) })
			c.guard("fresh/clonedeep", func() {
				ruleCloneDeep(c, "fresh/clonedeep", "seq/linear", "(*Seq).Clone")
				ruleCloneDeep(c, "fresh/clonedeep", "seq/linear", "(*QSeq).Clone")
				c.floor("fresh/clonedeep", 2)
			})
		},
	})
	register(&propDef{
		ID:          "C02",
		Explanation: "convpair: in package gff the start/end fields are derived from the Start()/End() methods; every value parsed from text (strconv.* or a same-package parse helper, followed through := locals) that is stored into a start field is the direct result of feat.OneToZero, values stored into end fields are not converted; every fmt.Fprint* argument in a gff.Writer method that reads a start field or calls .Start() is wrapped in feat.ZeroToOne, end reads are not converted — so GFF text is 1-based inclusive and features 0-based half-open on every path. bytecount: as C01, for bed.(*Writer).Write (incl. its deferred newline closure), gff.(*Writer).Write (incl. the deferred closure and the inline-sequence branch), WriteMetaData, WriteComment. bufalias: any view of bufio's internal buffer (ReadSlice/ReadLine/Peek result and everything sliced, trimmed or split from it) is dead before the reader is read again — checked interprocedurally through callee summaries — and never stored. zerocolour: the BED writer's \"0\" colour spelling is selected by a test that includes the alpha component (the reader maps \"0\" to RGBA{} and \"r,g,b\" to alpha 0xff). directsink: as C01 for the bed/gff writers. noskip: bed.Reader.Read and gff.Reader.Read read another line without a record or error only when the current line is blank or starts with '#'.",
		NotDecided:  "equality of every field after a round trip, float formatting, attribute splitting, BED column-prefix semantics (reflect-driven format).",
		Assumptions: []string{"feat.OneToZero/ZeroToOne implement the 1-based/0-based pair (their bodies are value-level)", "fmt.Fprint* report the bytes they wrote"},
		Run: func(c *Ctx) {
			c.guard("convpair", func() { ruleConvPair(c, "convpair"); c.floor("convpair", 4) })
			c.guard("bufalias", func() { ruleBufAlias(c, "bufalias", "io/featio/bed", "io/featio/gff"); c.floor("bufalias", 2) })
			c.guard("directsink", func() { ruleDirectSink(c, "directsink", "io/featio/bed", "io/featio/gff"); c.floor("directsink", 2) })
			c.guard("noskip", func() {
				ruleNoSkip(c, "noskip", [][2]string{{"io/featio/bed", "(*Reader).Read"}, {"io/featio/gff", "(*Reader).Read"}})
				c.floor("noskip", 2)
			})
			c.guard("zerocolour", func() { ruleZeroColour(c, "zerocolour"); c.floor("zerocolour", 1) })
			c.guard("splitsep", func() { ruleSplitSep(c, "splitsep"); c.floor("splitsep", 2) })
			c.guard("spancheck", func() { ruleSpanCheck(c, "spancheck") })
			c.guard("attrsplit", func() { ruleAttrSplit(c, "attrsplit"); c.floor("attrsplit", 1) })
			c.guard("linelimit", func() { ruleLineLimit(c, "linelimit", "io/featio/bed", "io/featio/gff") })
			c.guard("intervalcoherent", func() {
				ruleIntervalCoherent(c, "intervalcoherent", "io/featio/bed", "io/featio/gff")
				c.floor("intervalcoherent", 3)
			})
			c.guard("bytecount", func() { ruleByteCount(c, "bytecount", "io/featio/bed", "io/featio/gff"); c.floor("bytecount", 5) })
		},
	})
	cloneTargets := [][2]string{
		{"seq/linear", "(*Seq).Clone"}, {"seq/linear", "(*QSeq).Clone"},
		{"seq/alignment", "(*Seq).Clone"}, {"seq/alignment", "(*QSeq).Clone"},
		{"seq/alignment", "Row.Clone"}, {"seq/alignment", "QRow.Clone"},
		{"seq/multi", "(*Multi).Clone"},
	}
	register(&propDef{
		ID:          "C05",
		Explanation: "fresh/clonedeep: in every Clone() of linear.Seq/QSeq, alignment.Seq/QSeq/Row/QRow and multi.Multi, each slice-typed field of the returned object (found from the struct type, not by name) is assigned a freshly allocated value, and when its elements own storage (slices, or sequences behind an interface) every element stored is itself a fresh copy; interface/func typed fields are shared by design and exempt by type. loopdep: the offset each row receives in Multi.RevComp and Multi.Reverse depends on the loop's row variable — necessary for mirroring rows of unequal extent about the alignment's span. loopdep/span-taken-before-loop: no Start/End/Len of the alignment is evaluated inside the loop that re-offsets the rows (earlier iterations have already moved rows). qtravel: where RevComp/Reverse of linear.QSeq and alignment.QSeq store the letter field of elements they also store the quality field (or swap whole elements). The loop rules follow a helper method called once per row.",
		NotDecided:  "that RevComp equals reverse-then-complement, involution, that qualities travel with letters, the middle element, strand negation (value-level).",
		Assumptions: []string{"append(T(nil), x...), make, composite literals, X.Make(..) and Clone()/CloneAnnotation() results are newly allocated; Append/Copy chains stay in the storage of their root"},
		Run: func(c *Ctx) {
			c.guard("fresh/clonedeep", func() {
				for _, t := range cloneTargets {
					ruleCloneDeep(c, "fresh/clonedeep", t[0], t[1])
				}
				c.floor("fresh/clonedeep", 3)
			})
			c.guard("qtravel", func() {
				ruleQTravel(c, "qtravel", [][2]string{{"seq/linear", "(*QSeq).RevComp"}, {"seq/linear", "(*QSeq).Reverse"}, {"seq/alignment", "(*QSeq).RevComp"}, {"seq/alignment", "(*QSeq).Reverse"}})
				c.floor("qtravel", 2)
			})
			c.guard("mirror", func() { ruleMirrorTerms(c, "mirror", "(*Multi).RevComp", "(*Multi).Reverse"); c.floor("mirror", 2) })
			c.guard("getterpure", func() { ruleGetterPure(c, "getterpure"); c.floor("getterpure", 3) })
			c.guard("rangeself", func() {
				ruleRangeSelf(c, "rangeself", [][2]string{{"seq/alignment", "(*Seq).RevComp"}, {"seq/alignment", "(*Seq).Reverse"}, {"seq/alignment", "(*QSeq).RevComp"}, {"seq/alignment", "(*QSeq).Reverse"}})
				c.floor("rangeself", 2)
			})
			c.guard("intervalcoherent", func() {
				ruleIntervalCoherent(c, "intervalcoherent", "seq/linear", "seq/alignment", "seq/multi")
				c.floor("intervalcoherent", 2)
			})
			c.guard("strandneg", func() {
				ruleStrandNeg(c, "strandneg", [][2]string{{"seq/linear", "(*Seq).RevComp"}, {"seq/linear", "(*QSeq).RevComp"}, {"seq/alignment", "(*Seq).RevComp"}, {"seq/alignment", "(*QSeq).RevComp"}, {"seq/alignment", "Row.RevComp"}, {"seq/alignment", "QRow.RevComp"}})
				c.floor("strandneg", 2)
			})
			c.guard("loopdep", func() {
				ruleLoopDep(c, "loopdep", "seq/multi", "(*Multi).RevComp", "SetOffset")
				ruleLoopDep(c, "loopdep", "seq/multi", "(*Multi).Reverse", "SetOffset")
				c.floor("loopdep", 2)
			})
		},
	})
	register(&propDef{
		ID:          "C06",
		Explanation: "fresh/freshdst: in sequtils.Join, Truncate, Stitch and Compose the argument of every SetSlice (on the destination and on the scratch reverser) is classified FRESH (X.Make(..) roots with Append/Copy chains, make, element stores of fresh values) unless the call sits in the then-branch of `dst == src` — so when destination and source differ the result shares no storage with the source and the source is never reversed in place. mustpass: in Compose, a must-dataflow over go/cfg (facts reset at the loop head) shows that every path reaching the append of the scratch reverser's slice has, in the same iteration, installed the current segment (SetSlice) and reversed it (RevComp|Reverse). runningend: in Stitch the test that chooses between extending the current span and opening a new one reads the running end that the extend branch updates with max(). runningend also requires the updated span to be the object the span list holds (element address or appended pointer, not a local copy). qtravel: as C05 (Compose reverses quality sequences through these methods).",
		NotDecided:  "positional correctness of slice bounds, clipping arithmetic, Stitch's interval merge, Trim's optimality, error-not-panic for out-of-range arguments (value-level).",
		Assumptions: []string{"alphabet.Slice.Make allocates; Append/Copy write into their receiver's storage or a grown copy of it"},
		Run: func(c *Ctx) {
			c.guard("fresh/freshdst", func() {
				ruleFreshDst(c, "fresh/freshdst", "Join", "Truncate", "Stitch", "Compose")
				c.floor("fresh/freshdst", 2)
			})
			c.guard("slicebounds", func() { ruleSliceBounds(c, "slicebounds"); c.floor("slicebounds", 2) })
			c.guard("parallelidx", func() { ruleParallelIdx(c, "parallelidx"); c.floor("parallelidx", 1) })
			c.guard("trimwindow", func() { ruleTrimWindow(c, "trimwindow"); c.floor("trimwindow", 2) })
			c.guard("nonneglen", func() { ruleNonNegLen(c, "nonneglen", "Truncate", "Stitch", "Compose"); c.floor("nonneglen", 2) })
			c.guard("intervalcoherent", func() {
				ruleIntervalCoherent(c, "intervalcoherent", "seq/linear", "seq/alignment", "seq/multi")
				c.floor("intervalcoherent", 2)
			})
			c.guard("mustpass", func() { ruleScratchReverse(c, "mustpass"); c.floor("mustpass", 1) })
			c.guard("qtravel", func() {
				ruleQTravel(c, "qtravel", [][2]string{{"seq/linear", "(*QSeq).RevComp"}, {"seq/linear", "(*QSeq).Reverse"}, {"seq/alignment", "(*QSeq).RevComp"}, {"seq/alignment", "(*QSeq).Reverse"}})
				c.floor("qtravel", 2)
			})
			c.guard("runningend", func() { ruleRunningEnd(c, "runningend"); c.floor("runningend", 1) })
		},
	})
	register(&propDef{
		ID:          "C07",
		Explanation: "fresh/retain: AppendColumns/AppendEach of alignment.Seq, alignment.QSeq, multi.Multi and multi.Set.AppendEach never store a slice-typed caller value into receiver storage — directly, as an append element, by spreading a slice of slices, or by passing it (or a loop-reused scratch buffer) to a method summarised as retaining its parameter (summaries computed for every method of seq/alignment, seq/multi, seq/linear). fresh/clonedeep: as C05 (Clone is deep). fresh/periter: a slice installed in the container inside a loop (append element, element store, SetSlice argument — AppendColumns/AppendEach and Multi.Flush) is allocated in that iteration, not carved with a 2-index slice from a loop-external buffer (pieces would overlap in spare capacity). padfromends: Multi.Flush pads a row by a difference of like coordinates (Start-Start or End-End), never of lengths.",
		NotDecided:  "row-view = column-view equality, Delete/Flush/Subseq semantics, consensus (value-level).",
		Assumptions: []string{"append(dst, xs...) copies the elements of xs; it retains xs only when the elements themselves are slices"},
		Run: func(c *Ctx) {
			c.guard("fresh/retain", func() {
				ruleRetain(c, "fresh/retain", [][2]string{
					{"seq/alignment", "(*Seq).AppendColumns"}, {"seq/alignment", "(*Seq).AppendEach"},
					{"seq/alignment", "(*QSeq).AppendColumns"}, {"seq/alignment", "(*QSeq).AppendEach"},
					{"seq/multi", "(*Multi).AppendColumns"}, {"seq/multi", "(*Multi).AppendEach"},
					{"seq/multi", "Set.AppendEach"},
				}, "seq/alignment", "seq/multi", "seq/linear")
				c.floor("fresh/retain", 2)
			})
			c.guard("padfromends", func() { rulePadFromEnds(c, "padfromends"); c.floor("padfromends", 2) })
			c.guard("stalebuf", func() {
				ruleStaleBuf(c, "stalebuf", [][2]string{{"seq/alignment", "(*Seq).AppendEach"}, {"seq/alignment", "(*QSeq).AppendEach"}})
				c.floor("stalebuf", 2)
			})
			c.guard("flagcases", func() { ruleFlagCases(c, "flagcases"); c.floor("flagcases", 1) })
			c.guard("foldinit", func() {
				ruleFoldInit(c, "foldinit", [][2]string{{"seq/multi", "(*Multi).Start"}, {"seq/multi", "(*Multi).End"}})
				c.floor("foldinit", 2)
			})
			c.guard("nilfunc", func() { ruleNilFunc(c, "nilfunc"); c.floor("nilfunc", 1) })
			c.guard("reflectnew", func() { ruleReflectNew(c, "reflectnew", "seq/multi", "seq/alignment", "seq/linear", "seq/sequtils") })
			c.guard("intervalcoherent", func() {
				ruleIntervalCoherent(c, "intervalcoherent", "seq/linear", "seq/alignment", "seq/multi")
				c.floor("intervalcoherent", 2)
			})
			c.guard("fillwatermark", func() {
				ruleFillWatermark(c, "fillwatermark", [][2]string{{"alphabet", "Letter.Repeat"}, {"alphabet", "QLetter.Repeat"}})
				c.floor("fillwatermark", 2)
			})
			c.guard("fresh/periter", func() {
				for _, t := range [][2]string{
					{"seq/alignment", "(*Seq).AppendColumns"}, {"seq/alignment", "(*Seq).AppendEach"},
					{"seq/alignment", "(*QSeq).AppendColumns"}, {"seq/alignment", "(*QSeq).AppendEach"},
					{"seq/multi", "(*Multi).AppendColumns"}, {"seq/multi", "(*Multi).AppendEach"},
					{"seq/multi", "(*Multi).Flush"},
				} {
					rulePerIter(c, "fresh/periter", t[0], t[1])
				}
				c.floor("fresh/periter", 2)
			})
			c.guard("fresh/clonedeep", func() {
				for _, t := range cloneTargets {
					ruleCloneDeep(c, "fresh/clonedeep", t[0], t[1])
				}
				c.floor("fresh/clonedeep", 3)
			})
		},
	})
	aligners := []string{"NW", "SW", "Fitted", "NWAffine", "SWAffine", "FittedAffine"}
	// which gap models need initialised base cases: global alignments pay for leading gaps in
	// both sequences; fitted alignments pay for leading query letters (row 0) and, in the affine
	// variant, need the gap layers of column 0 closed off; local alignments start at zero anywhere.
	borderRow := map[string]bool{"NW": true, "NWAffine": true, "Fitted": true, "FittedAffine": true}
	borderCol := map[string]bool{"NW": true, "NWAffine": true, "FittedAffine": true}
	register(&propDef{
		ID:          "C09",
		Explanation: "sibling: for each of the six aligners, alignLetters and alignQLetters are compared as typed ASTs after canonicalisation (locals numbered by first use, alphabet.QLetters -> alphabet.Letters, X[e].L on a QLetters sequence -> X[e], *QLetters helper names -> *Letters, string literal contents and comments ignored): they must be the same program, which is the project's own mechanism for 'quality-carrying sequences give the same pairs'. argcheck: all twelve variants return ErrMatrixWrongSize under a comparison with alpha.Len() and ErrMatrixNotSquare inside the row loop before any table is indexed, and all six Align entry points return the four argument errors. livguard: every letter-index value (load from an alphabet.Index table) that flows through arithmetic into a subscript or a conversion to unsigned is sign-checked first: by a dominating comparison of that very value with 0, by an earlier loop over the same sequence whose negative edge returns and whose header dominates the use, or by a dominating AllValid/Validate call. livguard loop coverage: an earlier validating loop counts only if its check runs on every iteration and the linear forms of its index, bound and start value prove that it sweeps positions 0..len-1 of the same sequence. stride: in every subscript of the flattened matrix la[r*let+q] the index of a reference letter is multiplied by the row stride and the index of a query letter is not.",
		NotDecided:  "path monotonicity, score bookkeeping, Format (value-level); that a validation loop covers every position (its bounds are value-level; the repository's validated-in-the-fill-loop idiom is accepted as is).",
		Assumptions: []string{"alphabet.Index tables hold -1 exactly for letters outside the alphabet"},
		Run: func(c *Ctx) {
			c.guard("sibling", func() { ruleSibling(c, "sibling", aligners); c.floor("sibling", 2) })
			c.guard("argcheck", func() { ruleArgCheck(c, "argcheck", aligners); c.floor("argcheck", 16) })
			c.guard("livguard", func() {
				var fns []*ssa.Function
				for _, a := range aligners {
					fns = append(fns, c.fn("align", a+".alignLetters"), c.fn("align", a+".alignQLetters"))
				}
				ruleLIVGuard(c, "livguard", fns)
				c.floor("livguard", 20)
			})
			c.guard("stride", func() {
				var fns []*ssa.Function
				for _, a := range aligners {
					fns = append(fns, c.fn("align", a+".alignLetters"), c.fn("align", a+".alignQLetters"))
				}
				ruleStride(c, "stride", fns)
				c.floor("stride", 33)
				ruleDPStep(c, "dpstep", fns)
				c.floor("dpstep", 20)
			})
			c.guard("bordercover", func() {
				var fns []*ssa.Function
				for _, a := range aligners {
					fns = append(fns, c.fn("align", a+".alignLetters"), c.fn("align", a+".alignQLetters"))
				}
				ruleBorderCover(c, "bordercover", fns, borderRow, borderCol)
				c.floor("bordercover", 4)
			})
			c.guard("emitnotscore", func() {
				var fns []*ssa.Function
				for _, a := range aligners {
					fns = append(fns, c.fn("align", a+".alignLetters"), c.fn("align", a+".alignQLetters"))
				}
				ruleEmitNotScore(c, "emitnotscore", fns)
				ruleTableZero(c, "tablezero", fns)
				c.floor("emitnotscore", 4)
				c.floor("tablezero", 4)
			})
			c.guard("fillwatermark", func() {
				ruleFillWatermark(c, "fillwatermark", [][2]string{{"alphabet", "Letter.Repeat"}, {"alphabet", "QLetter.Repeat"}})
				c.floor("fillwatermark", 2)
			})
		},
	})
	register(&propDef{
		ID:          "C08",
		Explanation: "dpstep: in all twelve align functions, wherever a score-matrix entry is added to DP-table cells (fill recurrences, affine layers through max2/max3/add, and traceback tests), the predecessor offset and the letters scored agree — p-c-1 with a[r][q], p-c with a[r][gap], p-1 with a[gap][q] (offsets decomposed against p = i*c+j, letters from the role of the letter index in the matrix subscript). stride: reference-letter indices select rows and query-letter indices columns of the flattened matrix. sibling: the Letters and QLetters variants are the same program. These are necessary conditions of the recurrences computing optimal scores; optimality itself (a maximum over exponentially many alignments) is value-level.",
		NotDecided:  "that the maximum is taken over all three moves, the border initialisation values, tie-breaking in the traceback, the affine layer switching logic, SW's zero floor and end-cell choice, the fitted end-row selection — i.e. optimality as such.",
		Assumptions: []string{"p = i*c+j addresses row i, column j of the table; rows are reference positions"},
		Run: func(c *Ctx) {
			fnsOf := func() []*ssa.Function {
				var fns []*ssa.Function
				for _, a := range aligners {
					fns = append(fns, c.fn("align", a+".alignLetters"), c.fn("align", a+".alignQLetters"))
				}
				return fns
			}
			c.guard("dpstep", func() { ruleDPStep(c, "dpstep", fnsOf()); c.floor("dpstep", 20) })
			c.guard("stride", func() { ruleStride(c, "stride", fnsOf()); c.floor("stride", 33) })
			c.guard("sibling", func() { ruleSibling(c, "sibling", aligners); c.floor("sibling", 2) })
			c.guard("bordercover", func() { ruleBorderCover(c, "bordercover", fnsOf(), borderRow, borderCol); c.floor("bordercover", 4) })
			c.guard("tablezero", func() { ruleTableZero(c, "tablezero", fnsOf()); c.floor("tablezero", 4) })
			c.guard("argmaxlayer", func() { ruleArgmaxLayer(c, "argmaxlayer", fnsOf()); c.floor("argmaxlayer", 2) })
			c.guard("delegatefamily", func() { ruleDelegateFamily(c, "delegatefamily", aligners) })
		},
	})
	register(&propDef{
		ID:          "C10",
		Explanation: "livguard: in kmerindex every base code looked up through the alphabet index table ((*Index).ForEachKmerOf, KmerOf, (*Index).KmerOf or whichever functions index an alphabet.Index) is sign-checked by a dominating comparison before it is converted to the unsigned k-mer word — necessary for 'no invalid letter inside a reported k-mer'. This decides one guard, not the index's correctness. maskguard: kMask is Pow4(k)-1 and a k-mer is rejected exactly when it is > kMask. watermark: on the invalid-letter branch of ForEachKmerOf the value carried out equals the letter's position + 1 (difference of two linear forms in the same loop counter). tablefill: the alphabet's index table is initialised over its whole length (the scanner trusts negative entries for every non-letter byte). indexspace: every call site of ForEachKmerOf passes slice indices — not Start()/End() coordinates — for the parameters it uses as subscripts of s.Seq.",
		NotDecided:  "the `high` watermark arithmetic, prefix-sum/bucket bounds, masks, GC/complement bit tricks, equality of reported positions with true occurrences (all value-level).",
		Assumptions: []string{"alphabet.Index tables hold -1 exactly for letters outside the alphabet"},
		Run: func(c *Ctx) {
			c.guard("livguard", func() {
				p := c.pkg("index/kmerindex")
				ruleLIVGuard(c, "livguard", srcFuncs(c.SPkgs[p.PkgPath]))
				c.floor("livguard", 2)
			})
			// the k-mer scanner trusts the alphabet's index table to be negative for every non-letter byte
			c.guard("tablefill", func() { ruleTableFill(c, "tablefill", "newAlphabet"); c.floor("tablefill", 1) })
			c.guard("maskguard", func() { ruleMaskGuard(c, "maskguard"); c.floor("maskguard", 2) })
			c.guard("indexspace", func() { ruleIndexSpace(c, "indexspace"); c.floor("indexspace", 2) })
			c.guard("watermark", func() {
				ruleWatermark(c, "watermark", c.fn("index/kmerindex", "(*Index).ForEachKmerOf"))
				c.floor("watermark", 1)
			})
			c.guard("demandedbits", func() { ruleDemandedBits(c, "demandedbits"); c.floor("demandedbits", 3) })
			c.guard("minrange", func() { ruleMinRange(c, "minrange") })
			c.guard("windowpos", func() { ruleWindowPos(c, "windowpos"); c.floor("windowpos", 1) })
			c.guard("noexpose", func() { ruleNoExpose(c, "noexpose"); c.floor("noexpose", 1) })
			c.guard("preloadbound", func() { rulePreloadBound(c, "preloadbound"); c.floor("preloadbound", 1) })
			c.guard("casefold", func() { ruleCaseFold(c, "casefold"); c.floor("casefold", 2) })
			c.guard("indexinit", func() { ruleIndexInit(c, "indexinit"); c.floor("indexinit", 1) })
		},
	})
	register(&propDef{
		ID:          "C11",
		Explanation: "reset: the per-cycle state of Morass is computed as the fields written by Push, write, Finalise, Pull and their package-local callees (pos, len, fast, chunk, files, _err). For each such field, either Clear stores it on every path to its `return nil` (must-pass over the SSA CFG; the comm-clause assignment of a select counts only for its branch), or Finalise stores it on every path before reading it and Push/write never read it. Otherwise a value from the previous cycle survives Clear. gojoin (as C12): Finalise joins the background writers before it reads state they produce, so the in-memory/spilled decision cannot depend on writer progress. pooldrain: Clear takes a buffer back from the fixed-capacity pool in which every cycle parks one.",
		NotDecided:  "sortedness, multiset equality, Pos/Len arithmetic (value-level).",
		Assumptions: []string{"the API protocol: Push* Finalise Pull* Clear per cycle"},
		Run: func(c *Ctx) {
			c.guard("reset", func() { ruleReset(c, "reset"); c.floor("reset", 2) })
			c.guard("pooldrain", func() { rulePoolDrain(c, "pooldrain"); c.floor("pooldrain", 1) })
			c.guard("poolnil", func() { rulePoolNil(c, "poolnil"); c.floor("poolnil", 2) })
			c.guard("poolmove", func() { rulePoolMove(c, "poolmove"); c.floor("poolmove", 3) })
			c.guard("removeowner", func() { ruleRemoveOwner(c, "removeowner"); c.floor("removeowner", 2) })
			c.guard("cycleowner", func() { ruleCycleOwner(c, "cycleowner"); c.floor("cycleowner", 1) })
			c.guard("errslot", func() { ruleErrSlot(c, "errslot"); c.floor("errslot/sticky", 1); c.floor("errslot/propagate", 2) })
			// whether a cycle is in-memory or spilled must not be decided from state the
			// background writers are still producing: Finalise joins before reading it
			c.guard("gojoin", func() { ruleMorassJoin(c, "gojoin"); c.floor("gojoin", 1) })
		},
	})
	register(&propDef{
		ID:          "C12",
		Explanation: "gojoin: for every go statement in package morass whose spawned function (transitively) writes Morass fields that Finalise reads, a sync.WaitGroup field joins it: Add dominates the go statement, the spawned function defers Done in its entry block, Wait dominates every read of the shared fields in Finalise, and err() is consulted on every path from Wait to `return nil`. lockset: in all code reachable from the background writer (and in setErr/err) every access to files holds filesLock and every access to _err holds errLock (must-hold lockset dataflow over the SSA CFG).",
		NotDecided:  "absence of every data race (no happens-before model of channels beyond these idioms), deadlock freedom of the pool/writable protocol.",
		Assumptions: []string{"Pull and Clear run after Finalise returned (the API protocol), so their unlocked accesses are ordered after the join", "sync.WaitGroup / sync.Mutex semantics"},
		Run: func(c *Ctx) {
			c.guard("gojoin", func() { ruleMorassJoin(c, "gojoin"); c.floor("gojoin", 1) })
			c.guard("lockset", func() { ruleMorassLockset(c, "lockset"); c.floor("lockset", 2) })
			c.guard("errslot", func() { ruleErrSlot(c, "errslot"); c.floor("errslot/sticky", 1) })
			c.guard("poolreturn", func() { rulePoolReturn(c, "poolreturn"); c.floor("poolreturn", 1) })
			c.guard("cycleowner", func() { ruleCycleOwner(c, "cycleowner"); c.floor("cycleowner", 1) })
			c.guard("reset", func() { ruleReset(c, "reset"); c.floor("reset", 2) })
			c.guard("pooldrain", func() { rulePoolDrain(c, "pooldrain"); c.floor("pooldrain", 1) })
		},
	})
	register(&propDef{
		ID:          "C13",
		Explanation: "errslot/sticky: outside Clear/New every setErr call stores a value proven non-nil by a dominating `x != nil` test (or setErr only stores into an empty slot), so a later success cannot erase a recorded error. errslot/propagate: the error result of every ioutil.TempFile / gob Encode / Decode / os.File Sync / Seek call flows to a return or to setErr, and Push and Finalise consult err() on every path to `return nil`. residue: every end-of-data branch of Pull (assignment of io.EOF) is dominated by a test of AutoClear and by a test of AutoClean; CleanUp calls os.RemoveAll(m.dir). filepairing: after a successful temporary-file creation every path registers the file in m.files (or removes it) before returning, so a failed write cannot leave an untracked run file.",
		NotDecided:  "that the delivered values are right after a fault; Close/Remove errors (not in the property's list); what the AutoClear/AutoClean branches remove (value-level).",
		Assumptions: []string{"an error that reaches a return or the slot is reported by a subsequent Push/Finalise/Pull"},
		Run: func(c *Ctx) {
			c.guard("errslot", func() { ruleErrSlot(c, "errslot"); c.floor("errslot/sticky", 1); c.floor("errslot/propagate", 2) })
			c.guard("residue", func() { ruleResidue(c, "residue"); c.floor("residue", 3) })
			c.guard("filepairing", func() { ruleTempFilePairing(c, "filepairing"); c.floor("filepairing", 1) })
			c.guard("runretire", func() { ruleRunRetire(c, "runretire"); c.floor("runretire", 1) })
			c.guard("reset", func() { ruleReset(c, "reset"); c.floor("reset", 2) })
			c.guard("removeowner", func() { ruleRemoveOwner(c, "removeowner"); c.floor("removeowner", 2) })
			c.guard("gojoin", func() { ruleMorassJoin(c, "gojoin"); c.floor("gojoin", 1) })
		},
	})
	register(&propDef{
		ID:          "C19",
		Explanation: "closeonce: every close(ch) in package concurrent is classified by its enclosing function: if that function (or a closure ancestor, e.g. the deferred exit function of a worker) is started by a go statement inside a loop, the close must sit in a sync.Once.Do literal or be control-dependent on an atomic decrement reaching zero; a `len(ch) == n` test after a separate send is not accepted. Closers that are not loop-spawned (including a dedicated closer after WaitGroup.Wait) are single-instance and accepted. lockset: every access to the Promise mailbox (field message) happens with the promise's mutex m held on every path (must-hold lockset over the SSA CFG; unexported helpers take the intersection of their call sites' locksets; sync.Cond.Wait keeps the lock). sendafterdone: a worker never sends on the result channel after its wg.Done(), counting deferred functions in the order they run. broadcast: every mailbox put by a settling function is followed on every path by Cond.Broadcast; Cond.Signal is rejected. closebysender: a function-local channel that a goroutine started by the function sends on is never closed by the function itself.",
		NotDecided:  "exactly one result per operation, Map's partition arithmetic, deadlock freedom in general, that Wait eventually returns (liveness).",
		Assumptions: []string{"sync.Mutex/Cond/Once/WaitGroup semantics", "a goroutine literal started outside any loop runs once per call of its parent"},
		Run: func(c *Ctx) {
			c.guard("closeonce", func() { ruleCloseOnce(c, "closeonce", "concurrent"); c.floor("closeonce", 2) })
			c.guard("lockset", func() { rulePromiseLockset(c, "lockset"); c.floor("lockset", 2) })
			c.guard("sendafterdone", func() { ruleNoSendAfterDone(c, "sendafterdone"); c.floor("sendafterdone", 1) })
			c.guard("closebysender", func() { ruleCloseBySender(c, "closebysender", "concurrent"); c.floor("closebysender", 1) })
			c.guard("broadcast", func() { ruleBroadcast(c, "broadcast"); c.floor("broadcast", 1) })
			c.guard("mailbox", func() {
				ruleMailbox(c, "mailbox", "(*Promise).fulfill", "(*Promise).fail", "(*Promise).Wait")
				c.floor("mailbox", 3)
			})
			c.guard("closerspawn", func() { ruleCloserSpawn(c, "closerspawn"); c.floor("closerspawn", 1) })
			c.guard("addbeforego", func() { ruleAddBeforeGo(c, "addbeforego"); c.floor("addbeforego", 1) })
			c.guard("tokencap", func() { ruleTokenCap(c, "tokencap"); c.floor("tokencap", 1) })
			c.guard("operationrecover", func() { ruleOperationRecover(c, "operationrecover"); c.floor("operationrecover", 1) })
		},
	})
	register(&propDef{
		ID:          "C20",
		Explanation: "appendalias: for every append whose first argument is a parameter (or receiver) slice in package feat/gene, if the result is mutated in place (sort.Sort/Stable/Slice, element store) while the parameter itself is still returned afterwards, a rejected update has already touched the caller's backing array (cap > len); building on fresh storage or on p[:len(p):len(p)] is accepted. commitlast: in NonCodingTranscript.SetExons, CodingTranscript.SetExons and Gene.SetFeatures no store to a receiver field can be followed (CFG reachability) by a return of a non-nil error. fresh/sortedfresh: Exons.Add sorts and returns newly allocated storage, never the receiver or the caller's variadic slice. orientwalk: an orientation multiplied into a composed orientation has been compared with NotOriented on every path.",
		NotDecided:  "tiling of exons/introns/UTR/CDS, additive/multiplicative composition of positions and orientations, inverse of the 1-/0-based pair (value-level).",
		Assumptions: []string{"append reuses spare capacity of its first argument"},
		Run: func(c *Ctx) {
			c.guard("appendalias", func() { ruleAppendAlias(c, "appendalias", "feat/gene"); c.floor("appendalias", 1) })
			c.guard("orientwalk", func() {
				ruleOrientWalk(c, "orientwalk", "BaseOrientationOf", "OrientationWithin")
				c.floor("orientwalk", 2)
			})
			c.guard("fresh/sortedfresh", func() {
				ruleSortedFresh(c, "fresh/sortedfresh", "feat/gene", "Exons.Add")
				c.floor("fresh/sortedfresh", 2)
			})
			c.guard("exonoverlap", func() { ruleExonOverlap(c, "exonoverlap"); c.floor("exonoverlap", 1) })
			c.guard("zerostart", func() { ruleZeroStart(c, "zerostart"); c.floor("zerostart", 1) })
			c.guard("intronperpair", func() { ruleIntronPerPair(c, "intronperpair"); c.floor("intronperpair", 1) })
			c.guard("locpairwise", func() { ruleLocPairwise(c, "locpairwise"); c.floor("locpairwise", 1) })
			c.guard("querypure", func() { ruleQueryPure(c, "querypure"); c.floor("querypure", 2) })
			c.guard("intervalcoherent", func() { ruleIntervalCoherent(c, "intervalcoherent", "feat/gene"); c.floor("intervalcoherent", 2) })
			c.guard("commitlast", func() {
				ruleCommitLast(c, "commitlast", "feat/gene", "(*NonCodingTranscript).SetExons")
				ruleCommitLast(c, "commitlast", "feat/gene", "(*CodingTranscript).SetExons")
				ruleCommitLast(c, "commitlast", "feat/gene", "(*Gene).SetFeatures")
				c.floor("commitlast", 2)
			})
		},
	})
	register(&propDef{
		ID:          "C14",
		Explanation: "tables/ukkonen: the return expression of filter.MinWordsPerFilterHit is normalised as a polynomial over its parameters (straight-line locals substituted) and must equal n + 1 - k*e - k; every call passes (minimum match length, word size, error bound) in those roles (roles derived from filter.New's field initialisers). emitguard: each of the addHit call sites is reached exactly on the edge where tube.Count >= minKmersPerHit (inclusive; SSA dominating branches with polarity), and every reset of a tube's Count to a constant is preceded on every path by a comparison of Count with minKmersPerHit (or the tube is known empty). A higher or exclusive threshold, or a retirement without the test, is a guaranteed false negative. gridperiod: the recycling tick is re-armed with the same field tubeIndex divides by. runstate: f.tubes is assigned a newly made slice on every path before the k-mer scan. gojoin (as C12): hits pushed to the sorter cannot be lost to an unjoined background writer.",
		NotDecided:  "tube geometry, ticker recycling, diagonal arithmetic — i.e. the no-false-negative theorem itself (value-level). This decides two necessary conditions only.",
		Assumptions: []string{"Rasmussen/Stoye/Myers: U(n,q,e) = n + 1 - q(e+1) q-grams are shared by any e-match of length n"},
		Run: func(c *Ctx) {
			c.guard("tables/ukkonen", func() { ruleUkkonen(c, "tables/ukkonen"); c.floor("tables/ukkonen", 2) })
			c.guard("emitguard", func() { ruleFilterEmit(c, "emitguard"); c.floor("emitguard", 2) })
			// the filter's hits are handed to a morass sorter: none may be lost between Push and Pull
			c.guard("gojoin", func() { ruleMorassJoin(c, "gojoin"); c.floor("gojoin", 1) })
			c.guard("gridperiod", func() { ruleGridPeriod(c, "gridperiod"); c.floor("gridperiod", 1) })
			c.guard("tubeend", func() { ruleTubeEnd(c, "tubeend"); c.floor("tubeend", 1) })
			c.guard("kmerdist", func() { ruleKmerDist(c, "kmerdist"); c.floor("kmerdist", 1) })
			c.guard("flushrange", func() { ruleFlushRange(c, "flushrange"); c.floor("flushrange", 2) })
			c.guard("tubecap", func() { ruleTubeCap(c, "tubecap"); c.floor("tubecap", 1) })
			c.guard("ringindex", func() { ruleRingIndex(c, "ringindex"); c.floor("ringindex", 3) })
			c.guard("runstate", func() { ruleRunState(c, "runstate"); c.floor("runstate", 1) })
		},
	})
	register(&propDef{
		ID:          "C15",
		Explanation: "emitguard: the only send on the DP kernel's result channel is in alignRecursion and is reached solely over edges on which both extents (Bepos-Bbpos, Aepos-Abpos) are >= minLen and the error estimate is <= maxDiff (SSA dominating branches with polarity, operands identified by field), the hit's Error field is assigned that same tested value on a dominating path, and AlignTraps wires minLen from the aligner's minimum hit length and maxDiff as 1 - minId. runstate: the filter's tube states are re-made on every Filter call before the scan (stale counts of the other strand's pass would be mistaken for matches). The trapezoid pre-filter in AlignTraps compares the trapezoid height with the word size k only.",
		NotDecided:  "score <= optimal global score of the hit regions, in-bounds coordinates, recall of planted repeats, self-match suppression (value-level). This decides one clause only.",
		Assumptions: []string{"the kernel's Hit fields Abpos/Aepos/Bbpos/Bepos are the hit's begin/end positions on the two sequences"},
		Run: func(c *Ctx) {
			c.guard("emitguard", func() { ruleDPEmit(c, "emitguard"); c.floor("emitguard", 2) })
			c.guard("dupclass", func() { ruleDupClass(c, "dupclass"); c.floor("dupclass", 2) })
			c.guard("ownedfilter", func() { ruleOwnedFilter(c, "ownedfilter"); c.floor("ownedfilter", 2) })
			c.guard("selfguard", func() { ruleSelfGuard(c, "selfguard"); c.floor("selfguard", 1) })
			c.guard("intersectminmax", func() { ruleIntersectMinMax(c, "intersectminmax"); c.floor("intersectminmax", 2) })
			c.guard("stalecount", func() { ruleStaleCount(c, "stalecount"); c.floor("stalecount", 1) })
			c.guard("paramwire", func() { ruleParamWire(c, "paramwire"); c.floor("paramwire", 2) })
			c.guard("runstate", func() { ruleRunState(c, "runstate"); c.floor("runstate", 1) })
		},
	})
}
