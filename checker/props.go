// Property registry: which rules decide which clause of which property.
package main

func init() {
	register(&propDef{
		ID: "C17",
		Explanation: "tables/alphabet: for each built-in alphabet the constructor arguments are read as constants (go/types constant values, through Must* wrappers and package-level variables) and checked against every clause the property states about definitions: letters distinct ASCII (up to case for case-insensitive alphabets); pairing strings equal length, ASCII, involutive, case preserving; every letter of the alphabet, in both cases, is paired with a letter of the alphabet; in four-letter alphabets index(complement(l)) == 3-index(l); the gap letter, when part of the alphabet, has index 0.",
		NotDecided:  "that newAlphabet/NewPairing/NewComplementor build the lookup tables these definitions describe, AllValid positions, constructor rejection of bad definitions (value-level behaviour).",
		Assumptions: []string{"the constructors interpret (letters, pairing s, pairing c, gap, caseSensitive) positionally as their parameter names say"},
		Run: func(c *Ctx) {
			c.guard("tables/alphabet", func() { ruleAlphabets(c) })
		},
	})
	register(&propDef{
		ID: "C18",
		Explanation: "tables/quality: every Encoding constant other than None has a case in the decode switch and in the Encode switch of its own scale (Phred-offset encodings: Encoding.DecodeToQphred and Qphred.Encode; Solexa: Encoding.DecodeToQsolexa and Qsolexa.Encode); per encoding the additive constant of Encode equals the subtractive constant of Decode, no scale conversion is applied in between, and bound+offset == '~' so the offset covers exactly the printable range.",
		NotDecided:  "error probabilities, rounding, the Phred<->Solexa conversion tables, and the byte-level arithmetic inside each case (value-level).",
		Assumptions: []string{"Encode's guarded `q += K` and Decode's `x - K` are the only offset arithmetic in their cases (otherwise UNDECIDED)"},
		Run: func(c *Ctx) {
			c.guard("tables/quality", func() { ruleQuality(c) })
		},
	})
}
