package main

// Fault and benign variants for the rules added in round 11.
func init() {
	const (
		fitL = "align/fitted_letters.go"
		fitQ = "align/fitted_qletters.go"
		nwaL = "align/nw_affine_letters.go"
		faL  = "align/fitted_affine_letters.go"
	)
	add := func(prop string, vs ...variant) { selftests[prop] = append(selftests[prop], vs...) }

	add("C15",
		variant{Name: "covered-mark-at-the-relative-index", File: "align/pals/dp/kernel.go", Find: "k.covered[k.slot+1+i] = true", Replace: "k.covered[i] = true", Rule: "rangeoffset", Key: "dp.(*kernel).alignRecursion/covered-mark-is-absolute"},
		variant{Name: "benign-covered-mark-offset-hoisted", File: "align/pals/dp/kernel.go", Find: "k.covered[k.slot+1+i] = true", Replace: "k.covered[i+k.slot+1] = true"},
	)
	add("C09",
		variant{Name: "fitted-scan-reads-before-the-query", File: fitL, Find: "\tfor j > 0 {\n\t\tqVal = index[qSeq[j-1]]", Replace: "\tfor {\n\t\tqVal = index[qSeq[j-1]]", Rule: "seqbounds", Key: "align.(Fitted).alignLetters/qSeq[len(qSeq) - 1]"},
		variant{Name: "nwaffine-first-row-unconditional", File: nwaL, Find: "\tif c > 1 {\n\t\ttable[1] = [3]int{", Replace: "\tif c > 0 {\n\t\ttable[1] = [3]int{", Rule: "seqbounds", Key: "align.(NWAffine).alignLetters/qSeq[0]#2"},
		variant{Name: "fittedaffine-first-column-guarded-by-the-wrong-length", File: faL, Find: "\tif r > 1 {\n\t\ttable[c] = [3]int{", Replace: "\tif c > 1 {\n\t\ttable[c] = [3]int{", Rule: "seqbounds", Key: "align.(FittedAffine).alignLetters/table[len(qSeq) + 1]"},
		variant{Name: "benign-fitted-scan-bound-turned-round", File: fitL, Find: "\tfor j > 0 {\n\t\tqVal = index[qSeq[j-1]]", Replace: "\tfor 1 <= j {\n\t\tqVal = index[qSeq[j-1]]",
			More: []edit{{fitQ, "\tfor j > 0 {\n\t\tqVal = index[qSeq[j-1].L]", "\tfor 1 <= j {\n\t\tqVal = index[qSeq[j-1].L]"}}},
		variant{Name: "benign-nwaffine-first-row-guarded-by-the-query-length", File: nwaL, Find: "\tif c > 1 {\n\t\ttable[1] = [3]int{", Replace: "\tif qSeq.Len() != 0 {\n\t\ttable[1] = [3]int{",
			More: []edit{{"align/nw_affine_qletters.go", "\tif c > 1 {\n\t\ttable[1] = [3]int{", "\tif qSeq.Len() != 0 {\n\t\ttable[1] = [3]int{"}}},
	)
}
