// Rule D "bytecount": a writer's returned count includes every byte it
// emitted, on every success path (forward dataflow over go/cfg).
package main

import (
	"fmt"
	"go/ast"
	"go/token"
	"go/types"
	"sort"
	"strings"

	"golang.org/x/tools/go/cfg"
	"golang.org/x/tools/go/packages"
)

type emitSite struct {
	call   *ast.CallExpr
	name   string
	length int // -1 unknown
	key    string
	bad    string
	badErr string // the count is missing at an error exit
}

type bcAnalysis struct {
	c     *Ctx
	p     *packages.Package
	rule  string
	fname string
	nVar  types.Object
	sites map[*ast.CallExpr]*emitSite
	order []*emitSite
}

func isIntErrTuple(t types.Type) bool {
	tup, ok := t.(*types.Tuple)
	if !ok || tup.Len() != 2 {
		return false
	}
	b, ok := tup.At(0).Type().Underlying().(*types.Basic)
	return ok && b.Kind() == types.Int && types.Identical(tup.At(1).Type(), types.Universe.Lookup("error").Type())
}

// litLen returns the byte length of a literal write argument, or -1.
func litLen(p *packages.Package, e ast.Expr) int {
	e = unparen(e)
	if s, ok := constStr(p, e); ok {
		return len(s)
	}
	switch x := e.(type) {
	case *ast.CompositeLit:
		if _, ok := p.TypesInfo.Types[x].Type.Underlying().(*types.Slice); ok {
			for _, el := range x.Elts {
				if _, kv := el.(*ast.KeyValueExpr); kv {
					return -1
				}
			}
			return len(x.Elts)
		}
	case *ast.CallExpr: // conversion []byte("..")
		if len(x.Args) == 1 {
			if tv, ok := p.TypesInfo.Types[x.Fun]; ok && tv.IsType() {
				if s, ok := constStr(p, x.Args[0]); ok {
					return len(s)
				}
			}
		}
	}
	return -1
}

// emitting recognises calls that write bytes and report how many.
func (a *bcAnalysis) emitting(call *ast.CallExpr) *emitSite {
	if s, ok := a.sites[call]; ok {
		return s
	}
	tv, ok := a.p.TypesInfo.Types[call]
	if !ok || !isIntErrTuple(tv.Type) {
		return nil
	}
	f, ok := calleeOf(a.p, call).(*types.Func)
	if !ok || f.Pkg() == nil {
		return nil
	}
	s := &emitSite{call: call, length: -1}
	sig := f.Type().(*types.Signature)
	switch {
	case f.Pkg().Path() == "io" && f.Name() == "Write" && sig.Recv() != nil:
		s.name = "io.Writer.Write"
		if len(call.Args) == 1 {
			s.length = litLen(a.p, call.Args[0])
		}
	case f.Pkg().Path() == "io" && f.Name() == "WriteString":
		s.name = "io.WriteString"
		if len(call.Args) == 2 {
			s.length = litLen(a.p, call.Args[1])
		}
	case f.Pkg().Path() == "fmt" && (f.Name() == "Fprintf" || f.Name() == "Fprint" || f.Name() == "Fprintln"):
		s.name = "fmt." + f.Name()
	case strings.HasPrefix(f.Pkg().Path(), modPath):
		s.name = f.Pkg().Name() + "." + f.Name()
	default:
		// any other (int, error) call on an io.Writer-like method named Write
		if f.Name() == "Write" && sig.Recv() != nil {
			s.name = f.FullName()
		} else {
			return nil
		}
	}
	a.sites[call] = s
	a.order = append(a.order, s)
	return s
}

type bcState struct {
	pending map[interface{}]*emitSite // types.Object (count variable) or *emitSite (dropped literal count)
	nHas    bool
}

func (s *bcState) clone() *bcState {
	n := &bcState{pending: map[interface{}]*emitSite{}, nHas: s.nHas}
	for k, v := range s.pending {
		n.pending[k] = v
	}
	return n
}

func (s *bcState) merge(o *bcState) bool {
	ch := false
	for k, v := range o.pending {
		if _, ok := s.pending[k]; !ok {
			s.pending[k] = v
			ch = true
		}
	}
	if o.nHas && !s.nHas {
		s.nHas = true
		ch = true
	}
	return ch
}

func (a *bcAnalysis) mark(s *emitSite, why string) {
	if s.bad == "" {
		s.bad = why
	}
}

func (a *bcAnalysis) isN(e ast.Expr) bool {
	id, ok := unparen(e).(*ast.Ident)
	return ok && a.nVar != nil && a.p.TypesInfo.ObjectOf(id) == a.nVar
}

// foldExpr folds pending counts named in an additive expression.
func (a *bcAnalysis) foldExpr(st *bcState, e ast.Expr) {
	e = unparen(e)
	switch x := e.(type) {
	case *ast.BinaryExpr:
		if x.Op == token.ADD {
			a.foldExpr(st, x.X)
			a.foldExpr(st, x.Y)
		}
	case *ast.Ident:
		if o := a.p.TypesInfo.ObjectOf(x); o != nil {
			delete(st.pending, o)
		}
	case *ast.CallExpr:
		if id, ok := x.Fun.(*ast.Ident); ok && id.Name == "len" {
			a.foldLiteral(st, -1)
		}
	case *ast.BasicLit:
		if k, ok := constInt(a.p, x); ok {
			a.foldLiteral(st, int(k))
		}
	default:
		if k, ok := constInt(a.p, e); ok {
			a.foldLiteral(st, int(k))
		}
	}
}

func (a *bcAnalysis) foldLiteral(st *bcState, k int) {
	var cand []*emitSite
	for key, s := range st.pending {
		if ks, ok := key.(*emitSite); ok && ks == s {
			cand = append(cand, s)
		}
	}
	sort.Slice(cand, func(i, j int) bool { return cand[i].call.Pos() < cand[j].call.Pos() })
	for _, s := range cand {
		if k < 0 || s.length < 0 || s.length == k {
			delete(st.pending, s)
			return
		}
	}
	if len(cand) > 0 {
		s := cand[0]
		a.mark(s, fmt.Sprintf("%d byte(s) are emitted but the count is advanced by %d", s.length, k))
		delete(st.pending, s)
	}
}

func (a *bcAnalysis) assignEmit(st *bcState, lhs0 ast.Expr, s *emitSite, tok token.Token) {
	id, ok := unparen(lhs0).(*ast.Ident)
	switch {
	case !ok:
		a.mark(s, "the count is assigned to something the rule cannot follow")
	case id.Name == "_":
		st.pending[s] = s
	case a.isN(id):
		if tok == token.ADD_ASSIGN {
			st.nHas = true
			return
		}
		if st.nHas || len(st.pending) > 0 {
			a.mark(s, "plain assignment of this call's count to the result overwrites the bytes already counted")
		}
		st.nHas = true
	default:
		o := a.p.TypesInfo.ObjectOf(id)
		if old, dup := st.pending[o]; dup && old != s {
			a.mark(old, "its count is overwritten before it was added to the result")
		}
		st.pending[o] = s
	}
}

func (a *bcAnalysis) transfer(st *bcState, n ast.Node, par map[ast.Node]ast.Node, root ast.Node, isClosure bool) {
	switch x := n.(type) {
	case *ast.AssignStmt:
		if len(x.Rhs) == 1 {
			if call, ok := unparen(x.Rhs[0]).(*ast.CallExpr); ok {
				if s := a.emitting(call); s != nil && len(x.Lhs) == 2 {
					a.assignEmit(st, x.Lhs[0], s, x.Tok)
					return
				}
			}
		}
		if len(x.Lhs) == 1 && len(x.Rhs) == 1 && a.isN(x.Lhs[0]) {
			switch x.Tok {
			case token.ADD_ASSIGN:
				a.foldExpr(st, x.Rhs[0])
				st.nHas = true
			case token.ASSIGN:
				// n = n + x
				if be, ok := unparen(x.Rhs[0]).(*ast.BinaryExpr); ok && be.Op == token.ADD && (a.isN(be.X) || a.isN(be.Y)) {
					a.foldExpr(st, be)
					st.nHas = true
				}
			}
		}
	case *ast.IncDecStmt:
		if a.isN(x.X) && x.Tok == token.INC {
			a.foldLiteral(st, 1)
			st.nHas = true
		}
	case *ast.ExprStmt:
		if call, ok := unparen(x.X).(*ast.CallExpr); ok {
			if s := a.emitting(call); s != nil {
				a.mark(s, "the call's byte count is discarded")
			}
		}
	case *ast.ReturnStmt:
		if isClosure {
			// exits of a deferred closure: error exits exempt
			if !inErrBranch(a.p, par, x, root) {
				a.exitCheck(st)
			}
			return
		}
		if len(x.Results) == 1 {
			if call, ok := unparen(x.Results[0]).(*ast.CallExpr); ok {
				if s := a.emitting(call); s != nil {
					if st.nHas || len(st.pending) > 0 {
						a.mark(s, "returning this call's count directly drops the bytes already counted")
					}
					return
				}
			}
		}
		errExit := inErrBranch(a.p, par, x, root)
		if len(x.Results) == 2 {
			// an explicit non-nil, non-variable error value is an error exit
			switch e := unparen(x.Results[1]).(type) {
			case *ast.Ident:
				if e.Name != "nil" {
					if _, isVar := a.p.TypesInfo.ObjectOf(e).(*types.Var); !isVar {
						errExit = true
					} else if v := a.p.TypesInfo.ObjectOf(e).(*types.Var); v.Parent() == a.p.Types.Scope() {
						errExit = true // package-level error value
					}
				}
			default:
				errExit = true
			}
			if !errExit {
				a.foldExpr(st, x.Results[0])
				if !a.isN(x.Results[0]) {
					if be, ok := unparen(x.Results[0]).(*ast.BinaryExpr); !(ok && (a.isN(be.X) || a.isN(be.Y))) && st.nHas {
						for _, s := range a.order {
							if s.bad == "" {
								a.mark(s, "a success return does not return the accumulated count")
								break
							}
						}
					}
				}
			}
		}
		if !errExit {
			a.exitCheck(st)
		} else {
			a.errExitCheck(st, x)
		}
	}
}

// errExitCheck: an error exit still reports what was emitted — a failing
// write may have put part of its bytes on the wire, and the bytes of the
// writes before it are certainly there.
func (a *bcAnalysis) errExitCheck(st *bcState, ret *ast.ReturnStmt) {
	// a bare return (named results) or `return n, err`: the count handed out is the accumulator
	if len(ret.Results) == 2 && !a.isN(ret.Results[0]) {
		if be, ok := unparen(ret.Results[0]).(*ast.BinaryExpr); ok && be.Op == token.ADD {
			st = st.clone()
			a.foldExpr(st, be)
		} else if id, ok := unparen(ret.Results[0]).(*ast.Ident); ok && len(st.pending) == 1 && !st.nHas {
			// `return _n, err` of the only write so far
			if o := a.p.TypesInfo.ObjectOf(id); st.pending[o] != nil {
				return
			}
		}
	}
	for k, s := range st.pending {
		if _, isVar := k.(types.Object); isVar && s.badErr == "" {
			s.badErr = "its byte count has not been added to the result at the error exit at " + a.c.pos(ret.Pos())
		}
	}
}

func (a *bcAnalysis) exitCheck(st *bcState) {
	for _, s := range st.pending {
		a.mark(s, "its byte count is still not added to the result at a success return")
	}
}

// run analyses one body (function or deferred closure).
func (a *bcAnalysis) run(body *ast.BlockStmt, isClosure bool) {
	g := newCFG(a.p, body)
	par := parents(body)
	in := map[*cfg.Block]*bcState{}
	in[g.Blocks[0]] = &bcState{pending: map[interface{}]*emitSite{}}
	work := []*cfg.Block{g.Blocks[0]}
	for len(work) > 0 {
		b := work[0]
		work = work[1:]
		st := in[b].clone()
		for _, n := range b.Nodes {
			a.transfer(st, n, par, body, isClosure)
		}
		if len(b.Succs) == 0 {
			// falling off the end of a closure / function
			if len(b.Nodes) == 0 || !isReturn(b.Nodes[len(b.Nodes)-1]) {
				if b.Live {
					a.exitCheck(st)
				}
			}
		}
		for _, s := range b.Succs {
			if in[s] == nil {
				in[s] = st.clone()
				work = append(work, s)
			} else if in[s].merge(st) {
				work = append(work, s)
			}
		}
	}
	// deferred closures
	ast.Inspect(body, func(n ast.Node) bool {
		if d, ok := n.(*ast.DeferStmt); ok {
			if fl, ok := d.Call.Fun.(*ast.FuncLit); ok {
				a.run(fl.Body, true)
			}
			return false
		}
		if _, ok := n.(*ast.FuncLit); ok {
			return false
		}
		return true
	})
}

func isReturn(n ast.Node) bool {
	_, ok := n.(*ast.ReturnStmt)
	return ok
}

// ruleByteCount analyses every method with results (int, error) whose
// receiver type has an io.Writer field, in the given packages.
func ruleByteCount(c *Ctx, rule string, shorts ...string) { ruleByteCountErr(c, rule, "", shorts...) }

// ruleByteCountErr also reports, under rule onErr, counts missing at error exits.
func ruleByteCountErr(c *Ctx, rule, onErr string, shorts ...string) {
	nfun := 0
	for _, short := range shorts {
		p := c.pkg(short)
		for _, file := range p.Syntax {
			for _, d := range file.Decls {
				fd, ok := d.(*ast.FuncDecl)
				if !ok || fd.Body == nil || fd.Recv == nil {
					continue
				}
				fo := p.TypesInfo.Defs[fd.Name].(*types.Func)
				sig := fo.Type().(*types.Signature)
				if !isIntErrTuple(sig.Results()) || !hasWriterField(sig.Recv().Type()) {
					continue
				}
				nfun++
				recv := sig.Recv().Type()
				rn := types.TypeString(recv, func(*types.Package) string { return "" })
				fname := p.Types.Name() + ".(" + rn + ")." + fd.Name.Name
				c.Funcs[fname] = true
				a := &bcAnalysis{c: c, p: p, rule: rule, fname: fname, sites: map[*ast.CallExpr]*emitSite{}}
				if sig.Results().At(0).Name() != "" {
					a.nVar = sig.Results().At(0)
				}
				a.run(fd.Body, false)
				sort.Slice(a.order, func(i, j int) bool { return a.order[i].call.Pos() < a.order[j].call.Pos() })
				cnt := map[string]int{}
				for _, s := range a.order {
					cnt[s.name]++
					key := fmt.Sprintf("%s/emit %s#%d", fname, s.name, cnt[s.name])
					if rule != "" {
						if s.bad != "" {
							c.bad(rule, key, s.call.Pos(), s.bad+": the returned byte count differs from the bytes emitted ("+exprStr(c.Fset, s.call)+")")
						} else {
							c.ok(rule, key, s.call.Pos(), "count reaches the result on every success path")
						}
					}
					if onErr != "" {
						if s.badErr != "" {
							c.bad(onErr, key, s.call.Pos(), s.badErr+": a write that fails part-way (a full disk, a closed pipe) has emitted the bytes it reports, and they are missing from the count the caller gets with the error ("+exprStr(c.Fset, s.call)+")")
						} else {
							c.ok(onErr, key, s.call.Pos(), "count reaches the result on every error exit as well")
						}
					}
				}
				if len(a.order) == 0 && rule != "" {
					c.triv(rule, fname+"/no-emitting-call", fd.Pos(), "no emitting call in this method")
				}
			}
		}
	}
	if nfun == 0 {
		if rule == "" {
			rule = onErr
		}
		c.und(rule, "writers", token.NoPos, "no (int, error) writer methods found")
	}
}

func hasWriterField(t types.Type) bool {
	if p, ok := t.(*types.Pointer); ok {
		t = p.Elem()
	}
	st, ok := t.Underlying().(*types.Struct)
	if !ok {
		return false
	}
	for i := 0; i < st.NumFields(); i++ {
		ft := st.Field(i).Type()
		if isNamed(ft, "io", "Writer") || isNamed(ft, "bufio", "Writer") {
			return true
		}
	}
	return false
}

// ruleDirectSink: the format writers hand every byte straight to the
// destination the caller supplied. If the constructor wraps the destination
// (bufio.NewWriter, ...), the counts the Write methods return are counts of
// bytes *buffered*; when the destination fails they differ from the bytes
// actually emitted.
func ruleDirectSink(c *Ctx, rule string, shorts ...string) {
	for _, short := range shorts {
		fd, p := c.decl(short, "NewWriter")
		key := p.Types.Name() + ".NewWriter/destination-stored-unwrapped"
		var wparam types.Object
		for _, fl := range fd.Type.Params.List {
			if tv, ok := p.TypesInfo.Types[fl.Type]; ok && isNamed(tv.Type, "io", "Writer") && len(fl.Names) > 0 {
				wparam = p.TypesInfo.Defs[fl.Names[0]]
			}
		}
		if wparam == nil {
			c.und(rule, key, fd.Pos(), "NewWriter has no io.Writer parameter")
			continue
		}
		verdict, pos := "", fd.Pos()
		ast.Inspect(fd.Body, func(n ast.Node) bool {
			kv, ok := n.(*ast.KeyValueExpr)
			if !ok {
				return true
			}
			id, ok := kv.Key.(*ast.Ident)
			if !ok {
				return true
			}
			fo, ok := p.TypesInfo.Uses[id].(*types.Var)
			if !ok || !fo.IsField() {
				return true
			}
			ft := fo.Type()
			if !(isNamed(ft, "io", "Writer") || isNamed(ft, "bufio", "Writer")) {
				return true
			}
			pos = kv.Pos()
			val := unparen(kv.Value)
			// follow a local that was assigned the parameter
			for d := 0; d < 3; d++ {
				vid, ok := val.(*ast.Ident)
				if !ok || p.TypesInfo.Uses[vid] == wparam {
					break
				}
				var def ast.Expr
				ast.Inspect(fd.Body, func(m ast.Node) bool {
					if as, ok := m.(*ast.AssignStmt); ok && len(as.Lhs) == len(as.Rhs) {
						for i, l := range as.Lhs {
							if lid, ok := l.(*ast.Ident); ok && p.TypesInfo.ObjectOf(lid) == p.TypesInfo.Uses[vid] {
								def = as.Rhs[i]
							}
						}
					}
					return true
				})
				if def == nil {
					break
				}
				val = unparen(def)
			}
			mentions := false
			ast.Inspect(val, func(m ast.Node) bool {
				if id, ok := m.(*ast.Ident); ok && p.TypesInfo.Uses[id] == wparam {
					mentions = true
				}
				return true
			})
			call, isCall := val.(*ast.CallExpr)
			isConv := false
			if isCall {
				if tv, ok := p.TypesInfo.Types[call.Fun]; ok && tv.IsType() {
					isConv = true
				}
			}
			switch {
			case isCall && !isConv && mentions:
				verdict = "wrapped: " + exprStr(c.Fset, val)
			case mentions:
				verdict = "ok"
			default:
				verdict = "?"
			}
			return true
		})
		switch {
		case verdict == "ok":
			c.ok(rule, key, pos, "the writer field is the caller's io.Writer itself")
		case verdict == "" || verdict == "?":
			c.und(rule, key, pos, "cannot see how NewWriter initialises its writer field from the destination")
		default:
			c.bad(rule, key, pos, "the destination is "+verdict+" — the Write methods then count bytes accepted by the wrapper, not bytes emitted: when the underlying writer fails or short-writes, the returned count exceeds what reached it")
		}
	}
}
