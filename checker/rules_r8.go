// Rules added after the eighth round of seeded changes (DESIGN §10.7).
package main

import (
	"fmt"
	"go/token"
	"go/types"
	"strings"

	"golang.org/x/tools/go/ssa"
)

// ---- commentplaceholder (C02): a comment is never written into the attribute column ----

func ruleCommentPlaceholder(c *Ctx, rule string) {
	pkg := modPath + "/io/featio/gff"
	key := "gff.(*Writer).Write/attribute-column-before-comment"
	entry := c.fn("io/featio/gff", "(*Writer).Write")
	c.Funcs[funcName(entry)] = true
	mentions := func(call *ssa.Call, field string) bool {
		found := false
		var walk func(v ssa.Value, d int)
		walk = func(v ssa.Value, d int) {
			if d > 6 || found {
				return
			}
			if loadOfField(v, pkg, "Feature", field) {
				found = true
				return
			}
			switch x := v.(type) {
			case *ssa.MakeInterface:
				walk(x.X, d+1)
			case *ssa.Slice:
				walk(x.X, d+1)
			case *ssa.Alloc:
				for _, r := range *x.Referrers() {
					if ia, ok := r.(*ssa.IndexAddr); ok {
						for _, rr := range *ia.Referrers() {
							if st, ok := rr.(*ssa.Store); ok {
								walk(st.Val, d+1)
							}
						}
					}
				}
			}
		}
		for _, a := range call.Call.Args {
			walk(a, 0)
		}
		return found
	}
	var comment *ssa.Call
	isAttrColumn := func(i ssa.Instruction) bool {
		call, ok := i.(*ssa.Call)
		if !ok {
			return false
		}
		if sf := call.Call.StaticCallee(); sf != nil && sf.Pkg != nil && sf.Pkg.Pkg.Path() == "fmt" && strings.HasPrefix(sf.Name(), "Fprint") {
			return mentions(call, "FeatAttributes")
		}
		// the bare tab that stands for an empty attribute column
		if call.Call.IsInvoke() && call.Call.Method.Name() == "Write" && len(call.Call.Args) == 1 {
			if b := byteSliceLiteral(call.Call.Args[0]); string(b) == "\t" {
				return true
			}
		}
		return false
	}
	// the function that writes the comment column: Write itself or a helper it hands the feature to
	var fn *ssa.Function
	for _, f := range pkgReach(entry) {
		for _, b := range f.Blocks {
			for _, ins := range b.Instrs {
				if call, ok := ins.(*ssa.Call); ok {
					if sf := call.Call.StaticCallee(); sf != nil && sf.Pkg != nil && sf.Pkg.Pkg.Path() == "fmt" && strings.HasPrefix(sf.Name(), "Fprint") && mentions(call, "Comments") {
						comment, fn = call, f
					}
				}
			}
		}
	}
	if comment == nil {
		c.und(rule, key, entry.Pos(), "the write of the comment column was not found")
		return
	}
	c.Funcs[funcName(fn)] = true
	if everyFeasiblePathPasses(fn, comment, isAttrColumn) {
		c.ok(rule, key, comment.Pos(), "every path to the comment has written the attribute column or its tab placeholder")
	} else {
		c.bad(rule, key, comment.Pos(), "the comment can be written without the attribute column (or the bare tab that stands for an empty one) before it: for a feature with a comment and no attributes the comment lands in column nine and reads back as an attribute")
	}
}

// ---- truncatestrict (C06, C07): an empty range is a linear truncation ----

func ruleTruncateStrict(c *Ctx, rule string) {
	fn := c.fn("seq/sequtils", "Truncate")
	c.Funcs[funcName(fn)] = true
	key := "sequtils.Truncate/wrapped-branch-only-for-start>end"
	start, end := fn.Params[2], fn.Params[3]
	// the assertion to Conformationer marks the wrapped branch
	var mark ssa.Instruction
	for _, b := range fn.Blocks {
		for _, ins := range b.Instrs {
			if ta, ok := ins.(*ssa.TypeAssert); ok {
				if n, ok := ta.AssertedType.(*types.Named); ok && n.Obj().Name() == "Conformationer" {
					mark = ins
				}
			}
		}
	}
	if mark == nil {
		// the wrapped case may have been moved into a helper: the call is the mark
		isAssert := func(i ssa.Instruction) bool {
			ta, ok := i.(*ssa.TypeAssert)
			if !ok {
				return false
			}
			n, ok := ta.AssertedType.(*types.Named)
			return ok && n.Obj().Name() == "Conformationer"
		}
		for _, b := range fn.Blocks {
			for _, ins := range b.Instrs {
				if call, ok := ins.(*ssa.Call); ok {
					if g := call.Call.StaticCallee(); g != nil && g.Pkg == fn.Pkg && g.Blocks != nil && containsVia(g, isAssert) {
						mark = ins
					}
				}
			}
		}
	}
	if mark == nil {
		c.und(rule, key, fn.Pos(), "the wrapped branch was not found")
		return
	}
	strict := false
	for _, bf := range branchesAt(mark.Block()) {
		var op token.Token
		switch {
		case bf.cond.X == ssa.Value(start) && bf.cond.Y == ssa.Value(end):
			op = effectiveOp(bf, true)
		case bf.cond.X == ssa.Value(end) && bf.cond.Y == ssa.Value(start):
			op = effectiveOp(bf, false)
		default:
			continue
		}
		if op == token.GTR {
			strict = true
		}
	}
	if strict {
		c.ok(rule, key, mark.Pos(), "the wrapped (circular) branch is entered only with start > end")
	} else {
		c.bad(rule, key, mark.Pos(), "the wrapped (circular) branch is not entered under start > end: a range with start == end — zero columns, which every row covers — is treated as wrapping around, and a linear sequence answers it with an error instead of an empty result")
	}
}

// ---- borderletter (C08, C09): cell k of a border stands for letter k-1 ----

func ruleBorderLetter(c *Ctx, rule string, fns []*ssa.Function) {
	n := 0
	for _, fn := range fns {
		loops := naturalLoops(fn)
		depth := func(b *ssa.BasicBlock) int {
			d := 0
			for _, l := range loops {
				if l.body[b] {
					d++
				}
			}
			return d
		}
		isSeq := func(v ssa.Value) bool { return v == ssa.Value(fn.Params[1]) || v == ssa.Value(fn.Params[2]) }
		cnt := 0
		for _, b := range fn.Blocks {
			if depth(b) != 1 {
				continue
			}
			for _, ins := range b.Instrs {
				st, ok := ins.(*ssa.Store)
				if !ok {
					continue
				}
				// a store into the table (possibly into a layer of a cell) at a subscript linear in the loop counter
				addr := st.Addr
				if ia2, ok := addr.(*ssa.IndexAddr); ok {
					if _, isArr := ia2.X.Type().Underlying().(*types.Pointer); isArr {
						if inner, ok := ia2.X.(*ssa.IndexAddr); ok {
							addr = inner
						}
					}
				}
				ia, ok := addr.(*ssa.IndexAddr)
				if !ok {
					continue
				}
				cellPhi, cellOff, ok := linearIn(ia.Index)
				if !ok {
					continue
				}
				// the letter read on the way to the stored value
				var letter *ssa.IndexAddr
				seen := map[ssa.Value]bool{}
				var walk func(v ssa.Value, d int)
				walk = func(v ssa.Value, d int) {
					if d > 10 || seen[v] || letter != nil {
						return
					}
					seen[v] = true
					switch x := v.(type) {
					case *ssa.BinOp:
						walk(x.X, d+1)
						walk(x.Y, d+1)
					case *ssa.UnOp:
						walk(x.X, d+1)
					case *ssa.Convert:
						walk(x.X, d+1)
					case *ssa.Field:
						walk(x.X, d+1)
					case *ssa.FieldAddr:
						walk(x.X, d+1)
					case *ssa.IndexAddr:
						if isSeq(x.X) {
							letter = x
							return
						}
						walk(x.Index, d+1)
					case *ssa.Index:
						walk(x.Index, d+1)
					}
				}
				walk(st.Val, 0)
				// a composite cell stored as a whole: look at the element stores into the spilled literal
				if letter == nil {
					if ld, ok := st.Val.(*ssa.UnOp); ok {
						if al, ok := ld.X.(*ssa.Alloc); ok {
							for _, r := range *al.Referrers() {
								if e, ok := r.(*ssa.IndexAddr); ok {
									for _, rr := range *e.Referrers() {
										if s2, ok := rr.(*ssa.Store); ok {
											walk(s2.Val, 0)
										}
									}
								}
							}
						}
					}
				}
				if letter == nil {
					continue
				}
				letPhi, letOff, ok := linearIn(letter.Index)
				if !ok || letPhi != cellPhi {
					continue
				}
				cnt++
				n++
				c.Funcs[funcName(fn)] = true
				key := fmt.Sprintf("%s/first-row-cell-letter#%d", funcName(fn), cnt)
				if cellOff-letOff == 1 {
					c.ok(rule, key, st.Pos(), fmt.Sprintf("cell %s%+d of the border is charged with letter %s%+d", cellPhi.Comment, cellOff, letPhi.Comment, letOff))
				} else {
					c.bad(rule, key, st.Pos(), fmt.Sprintf("cell %s%+d of the first row is charged with the gap score of letter %s%+d, not of the letter that column stands for (cell k aligns letter k-1): with gap scores that differ by letter the border values, and so the optimum, are wrong for alignments that begin with query letters opposite gaps", cellPhi.Comment, cellOff, letPhi.Comment, letOff))
				}
			}
		}
	}
	if n == 0 {
		c.und(rule, "align/border-letters", token.NoPos, "no border initialisation charged per letter was found")
	}
}

// ---- firstcellguard (C09): only the very first traceback cell suppresses a block boundary ----

func ruleFirstCellGuard(c *Ctx, rule string, fns []*ssa.Function) {
	n := 0
	for _, fn := range fns {
		loops := naturalLoops(fn)
		cnt := 0
		for _, l := range loops {
			// the traceback loop: its header tests two counters against 0
			var cnts []*ssa.Phi
			for _, ins := range l.head.Instrs {
				if p, ok := ins.(*ssa.Phi); ok && (p.Comment == "i" || p.Comment == "j") {
					cnts = append(cnts, p)
				}
			}
			if len(cnts) != 2 {
				continue
			}
			for _, b := range fn.Blocks {
				if !l.body[b] {
					continue
				}
				for _, ins := range b.Instrs {
					al, ok := ins.(*ssa.Alloc)
					if !ok || !strings.HasSuffix(typeString(al.Type()), "featPair") {
						continue
					}
					// the score the pair is given: whether a segment is closed cannot depend on it (a block
					// whose scores happen to sum to zero is a block all the same)
					var scoreVal ssa.Value
					for _, r := range *al.Referrers() {
						if fa, ok := r.(*ssa.FieldAddr); ok && structFieldName(fa.X.Type(), fa.Field) == "score" {
							for _, rr := range *fa.Referrers() {
								if st, ok := rr.(*ssa.Store); ok && st.Addr == ssa.Value(fa) {
									scoreVal = st.Val
								}
							}
						}
					}
					for _, bf := range branchesAt(b) {
						if !l.body[bf.cond.Block()] {
							continue
						}
						if scoreVal != nil && (bf.cond.X == scoreVal || bf.cond.Y == scoreVal) {
							cnt++
							n++
							c.Funcs[funcName(fn)] = true
							c.bad(rule, fmt.Sprintf("%s/boundary-guard#%d", funcName(fn), cnt), bf.cond.Pos(), "the emission of a block boundary in the traceback depends on the score accumulated for the open segment ("+symName(bf.cond.X, nil)+" "+bf.cond.Op.String()+" "+symName(bf.cond.Y, nil)+"): a block whose letter scores sum to that value is not closed when a gap run starts, and is merged with the gap into one pair that is neither a block nor a gap")
							continue
						}
						// the loop's own continuation test is not a guard of the emission
						exits := false
						for _, r := range *bf.cond.Referrers() {
							if ifi, ok := r.(*ssa.If); ok {
								for _, s := range ifi.Block().Succs {
									if !l.body[s] {
										exits = true
									}
								}
							}
						}
						if exits {
							continue
						}
						f := linOf(bf.cond.X, nil).add(linOf(bf.cond.Y, nil), -1)
						hasI, hasJ := false, false
						for a := range f.coef {
							if strings.Contains(a, "φi") {
								hasI = true
							}
							if strings.Contains(a, "φj") {
								hasJ = true
							}
						}
						if !hasI && !hasJ {
							continue
						}
						cnt++
						n++
						c.Funcs[funcName(fn)] = true
						key := fmt.Sprintf("%s/boundary-guard#%d", funcName(fn), cnt)
						if hasI && hasJ {
							c.ok(rule, key, bf.cond.Pos(), "the guard identifies a single cell (both coordinates)")
						} else {
							c.bad(rule, key, bf.cond.Pos(), "the emission of a block boundary in the traceback is suppressed by a test of one coordinate only ("+f.String()+" "+bf.cond.Op.String()+" 0): that holds along a whole row or column, not just at the cell the traceback starts from, so a change between the two kinds of gap on the last row or column is not emitted and the two gaps merge into one pair that is neither a block nor a gap")
						}
					}
				}
			}
		}
	}
	if n == 0 {
		c.triv(rule, "align/boundary-guards", token.NoPos, "no block boundary in a traceback is guarded by a coordinate test")
	}
}

// ---- samestrand (C15): the merger clips against the sequence that was filtered ----

func ruleSameStrand(c *Ctx, rule string) {
	fn := c.fn("align/pals", "(*PALS).Align")
	c.Funcs[funcName(fn)] = true
	key := "pals.(*PALS).Align/merger-and-filter-see-one-query"
	var filtered, merged ssa.Value
	var pos token.Pos
	for _, pf := range privateReach(fn) {
		for _, b := range pf.Blocks {
			for _, ins := range b.Instrs {
				call, ok := ins.(*ssa.Call)
				if !ok {
					continue
				}
				sf := call.Call.StaticCallee()
				if sf == nil {
					continue
				}
				switch {
				case sf.Name() == "Filter" && strings.HasSuffix(funcName(sf), "Filter).Filter"):
					filtered = callerArg(call.Call.Args[1], fn)
				case sf.Name() == "NewMerger":
					merged, pos = callerArg(call.Call.Args[1], fn), call.Pos()
				}
			}
		}
	}
	switch {
	case filtered == nil || merged == nil:
		c.und(rule, key, fn.Pos(), "the Filter and NewMerger calls were not both found")
	case filtered == merged:
		c.ok(rule, key, pos, "NewMerger receives the very value that was filtered")
	default:
		c.bad(rule, key, pos, "the merger is built on "+symName(merged, &linEnv{allocAsName: true})+" while the filter scanned "+symName(filtered, &linEnv{allocAsName: true})+": on the complement strand the merger then clips trapezoids against the runs of non-alphabet letters of the forward query, at mirror-image coordinates, and a repeat that lies opposite such a run is lost")
	}
}

// everyFeasiblePathPasses is everyPathPasses with one refinement: a path does
// not take contradictory edges of two conditionals that test the same
// expression (same canonical name of the operands, e.g. f.Comments != "").
func everyFeasiblePathPasses(fn *ssa.Function, target ssa.Instruction, stop func(ssa.Instruction) bool) bool {
	env := &linEnv{allocAsName: true}
	condKey := func(bo *ssa.BinOp) (string, bool) {
		switch bo.Op {
		case token.EQL, token.NEQ:
		default:
			return "", false
		}
		k := symName(bo.X, env) + "==" + symName(bo.Y, env)
		return k, bo.Op == token.EQL
	}
	type state struct {
		b     *ssa.BasicBlock
		facts string
	}
	seen := map[state]bool{}
	var walk func(b *ssa.BasicBlock, facts map[string]bool) bool
	walk = func(b *ssa.BasicBlock, facts map[string]bool) bool {
		var ks []string
		for k, v := range facts {
			ks = append(ks, fmt.Sprintf("%s=%v", k, v))
		}
		sortStrings(ks)
		st := state{b, strings.Join(ks, ";")}
		if seen[st] {
			return false
		}
		seen[st] = true
		for _, ins := range b.Instrs {
			if ins == target {
				return true
			}
			if stop(ins) {
				return false
			}
		}
		var bo *ssa.BinOp
		if ifi, ok := b.Instrs[len(b.Instrs)-1].(*ssa.If); ok {
			bo, _ = ifi.Cond.(*ssa.BinOp)
		}
		for e, s := range b.Succs {
			nf := facts
			if bo != nil {
				if k, isEq := condKey(bo); k != "" {
					holds := (e == 0) == isEq // the equality holds on this edge
					if v, known := facts[k]; known && v != holds {
						continue // contradicts an earlier decision on the same expression
					}
					nf = map[string]bool{}
					for kk, vv := range facts {
						nf[kk] = vv
					}
					nf[k] = holds
				}
			}
			if walk(s, nf) {
				return true
			}
		}
		return false
	}
	return !walk(fn.Blocks[0], map[string]bool{})
}

func sortStrings(s []string) {
	for i := 1; i < len(s); i++ {
		for j := i; j > 0 && s[j] < s[j-1]; j-- {
			s[j], s[j-1] = s[j-1], s[j]
		}
	}
}
