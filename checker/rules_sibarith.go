// siblingarith: the plain and the quality-carrying implementation of one
// method (linear.Seq/QSeq, alignment.Seq/QSeq, alignment.Row/QRow) compute
// the same subscripts, slice bounds and integer comparisons.
package main

import (
	"fmt"
	"go/token"
	"go/types"
	"sort"
	"strings"

	"golang.org/x/tools/go/ssa"
)

// arithSkeleton collects the linear forms of every subscript, slice bound,
// make size and integer comparison of fn (closures included), with the
// receiver renamed to "recv".
func arithSkeleton(fn *ssa.Function) map[string]int {
	out := map[string]int{}
	recv := ""
	if fn.Signature.Recv() != nil && len(fn.Params) > 0 {
		recv = fn.Params[0].Name()
	}
	env := &linEnv{forms: map[*ssa.Parameter]lin{}, names: map[*ssa.Parameter]string{}, allocAsName: true}
	norm := func(l lin) string {
		s := l.String()
		if recv != "" {
			s = strings.Replace(s, "&"+recv+".", "recv.", -1)
			s = strings.Replace(s, recv+".", "recv.", -1)
		}
		s = strings.Replace(s, "&", "", -1)
		// SSA register names are per function: erase them
		f := strings.FieldsFunc(s, func(r rune) bool { return r == ' ' })
		for i, w := range f {
			if j := strings.Index(w, "@"); j >= 0 {
				f[i] = "tmp"
			}
			if strings.HasPrefix(w, "φ") {
				if j := strings.Index(w, "/"); j >= 0 {
					f[i] = w[:j]
				}
			}
		}
		return strings.Join(f, " ")
	}
	var visit func(f *ssa.Function)
	visit = func(f *ssa.Function) {
		for _, b := range f.Blocks {
			for _, ins := range b.Instrs {
				switch x := ins.(type) {
				case *ssa.IndexAddr:
					if !isIntegral(x.Index.Type()) || isLetterish(x.Index.Type()) {
						continue // a table looked up by a letter
					}
					out["index "+norm(linOf(x.Index, env))] = 1
				case *ssa.Index:
					if !isIntegral(x.Index.Type()) || isLetterish(x.Index.Type()) {
						continue
					}
					out["index "+norm(linOf(x.Index, env))] = 1
				case *ssa.Slice:
					lo, hi := "0", "len"
					if x.Low != nil {
						lo = norm(linOf(x.Low, env))
					}
					if x.High != nil {
						hi = norm(linOf(x.High, env))
					}
					out["slice ["+lo+" : "+hi+"]"] = 1
				case *ssa.Return:
					for _, r := range x.Results {
						if l := linOf(r, env); isIntegral(r.Type()) && !isLetterish(r.Type()) && !l.isConst() {
							out["return "+norm(l)] = 1
						}
					}
				case *ssa.MakeSlice:
					out["make "+norm(linOf(x.Len, env))+" cap "+norm(linOf(x.Cap, env))] = 1
				case *ssa.BinOp:
					switch x.Op {
					case token.LSS, token.LEQ, token.GTR, token.GEQ, token.EQL, token.NEQ:
						if isIntegral(x.X.Type()) && isIntegral(x.Y.Type()) {
							d := linOf(x.X, env).add(linOf(x.Y, env), -1)
							op := x.Op
							// canonical orientation: first coefficient positive
							if leadingNegative(d) {
								d = d.scale(-1)
								op = flipOp(op)
							}
							out["cmp "+norm(d)+" "+op.String()+" 0"] = 1
						}
					}
				}
			}
		}
		for _, an := range f.AnonFuncs {
			visit(an)
		}
	}
	visit(fn)
	// only arithmetic on the method's own integer arguments (positions, row numbers) and integer results are
	// compared: allocation and copying idioms (make+copy, append to nil) legitimately differ between siblings
	ints := map[string]bool{}
	for i, p := range fn.Params {
		if (i > 0 || fn.Signature.Recv() == nil) && isIntegral(p.Type()) {
			ints[p.Name()] = true
		}
	}
	for k := range out {
		if strings.HasPrefix(k, "return ") {
			continue
		}
		mentions := false
		for _, w := range strings.FieldsFunc(k, func(r rune) bool {
			return !(r == '_' || r >= 'a' && r <= 'z' || r >= 'A' && r <= 'Z' || r >= '0' && r <= '9' || r == '.')
		}) {
			if ints[w] {
				mentions = true
			}
		}
		if !mentions {
			delete(out, k)
		}
	}
	// artefacts of `for … range`: the hidden counter and its exit test
	for k := range out {
		// the quality threshold exists only on the quality-carrying side
		// loop counters and temporaries depend on how a loop happens to be written; only closed forms in
		// parameters and fields are compared
		if strings.Contains(k, "φ") || strings.Contains(k, "tmp") || strings.Contains(k, ".Threshold") {
			delete(out, k)
		}
	}
	return out
}

func isLetterish(t types.Type) bool {
	n, ok := t.(*types.Named)
	return ok && (n.Obj().Name() == "Letter" || n.Obj().Name() == "Qphred" || n.Obj().Name() == "Qsolexa")
}

func leadingNegative(l lin) bool {
	var names []string
	for s := range l.coef {
		names = append(names, s)
	}
	sort.Strings(names)
	if len(names) == 0 {
		return l.k < 0
	}
	return l.coef[names[0]] < 0
}

type siblingPair struct {
	short, a, b string
	cross       map[string]string // method of a -> differently named counterpart of b
}

func ruleSiblingArith(c *Ctx, rule string, pairs []siblingPair, except map[string]string) {
	n := 0
	for _, sp := range pairs {
		pkg := c.SPkgs[c.pkg(sp.short).PkgPath]
		methods := func(name string) map[string]*ssa.Function {
			out := map[string]*ssa.Function{}
			m, ok := pkg.Members[name].(*ssa.Type)
			if !ok {
				return out
			}
			for _, typ := range []types.Type{m.Type(), types.NewPointer(m.Type())} {
				ms := c.Prog.MethodSets.MethodSet(typ)
				for i := 0; i < ms.Len(); i++ {
					f := c.Prog.MethodValue(ms.At(i))
					if f != nil && f.Synthetic == "" && f.Pkg == pkg {
						out[f.Name()] = f
					}
				}
			}
			return out
		}
		ma, mb := methods(sp.a), methods(sp.b)
		var names []string
		for name := range ma {
			other := name
			if o, ok := sp.cross[name]; ok {
				other = o
			}
			if mb[other] != nil {
				names = append(names, name)
			}
		}
		sort.Strings(names)
		for _, name := range names {
			other := name
			if o, ok := sp.cross[name]; ok {
				other = o
			}
			fa, fb := ma[name], mb[other]
			key := fmt.Sprintf("%s.%s/%s.%s", shortPkg(pkg.Pkg.Path()), sp.a, sp.b, name)
			if why, ok := except[key]; ok {
				c.triv(rule, key, fa.Pos(), "exempt: "+why)
				continue
			}
			sa, sb := arithSkeleton(fa), arithSkeleton(fb)
			if len(sa) == 0 && len(sb) == 0 {
				continue
			}
			n++
			c.Funcs[funcName(fa)] = true
			c.Funcs[funcName(fb)] = true
			var diff []string
			for k, v := range sa {
				if sb[k] != v {
					diff = append(diff, fmt.Sprintf("`%s` only in %s", k, sp.a))
				}
			}
			for k, v := range sb {
				if _, ok := sa[k]; !ok {
					_ = v
					diff = append(diff, fmt.Sprintf("`%s` only in %s", k, sp.b))
				}
			}
			sort.Strings(diff)
			if len(diff) == 0 {
				c.ok(rule, key, fa.Pos(), fmt.Sprintf("%d subscript/bound/comparison forms agree", len(sa)))
			} else {
				c.bad(rule, key, fb.Pos(), "the plain and the quality-carrying implementation of "+name+" compute different subscripts, bounds or comparisons ("+strings.Join(diff, "; ")+"): the two types hold the same positions and differ only in the element type, so one of them addresses other letters than the other for the same arguments")
			}
		}
	}
	if n == 0 {
		c.und(rule, "siblingarith", token.NoPos, "no sibling methods with integer arithmetic found")
	}
}
