package main

// Registrations and explanations of the rules added after the sixth round of
// seeded changes (DESIGN.md §10.5).
func init() {
	headers := [][2]string{{"io/seqio/fasta", "(*Reader).header"}, {"io/seqio/fastq", "(*Reader).readHeader"}}
	addRule("C01", "verbatimdesc", 2, func(c *Ctx, r string) { ruleVerbatimDesc(c, r, headers) })
	addRule("C04", "verbatimdesc", 2, func(c *Ctx, r string) { ruleVerbatimDesc(c, r, headers) })
	addRule("C02", "columnsparsed", 1, ruleColumnsParsed)
	addRule("C02", "floatnarrow", 1, ruleFloatNarrow)
	addRule("C03", "strconvonly", 2, func(c *Ctx, r string) { ruleStrconvOnly(c, r, "io/featio/bed", "io/featio/gff") })
	addRule("C03", "loopidx", 1, func(c *Ctx, r string) {
		ruleLoopIdx(c, r, "io/featio/bed", "io/featio/gff", "io/seqio/fasta", "io/seqio/fastq")
	})
	appenders := [][2]string{{"seq/linear", "(*Seq).AppendLetters"}, {"seq/linear", "(*Seq).AppendQLetters"}, {"seq/linear", "(*QSeq).AppendLetters"}, {"seq/linear", "(*QSeq).AppendQLetters"}}
	addRule("C04", "appendtail", 2, func(c *Ctx, r string) { ruleAppendTail(c, r, appenders) })
	addRule("C01", "appendtail", 2, func(c *Ctx, r string) { ruleAppendTail(c, r, appenders) })
	addRule("C04", "blankaftertrim", 1, ruleBlankAfterTrim)
	addRule("C05", "offsetroundtrip", 2, func(c *Ctx, r string) { ruleOffsetRoundTrip(c, r, "seq/linear", "seq/alignment", "seq/multi") })
	addRule("C07", "offsetroundtrip", 2, func(c *Ctx, r string) { ruleOffsetRoundTrip(c, r, "seq/linear", "seq/alignment", "seq/multi") })
	addRule("C06", "joinearly", 1, ruleJoinEarly)
	addRule("C06", "conformlinear", 1, ruleConformLinear)
	addRule("C07", "ownoffset", 2, func(c *Ctx, r string) { ruleOwnOffset(c, r, "seq/linear", "seq/alignment") })
	cols := [][2]string{{"seq/multi", "(*Multi).Column"}, {"seq/multi", "(*Multi).ColumnQL"}}
	addRule("C07", "rangepanic", 2, func(c *Ctx, r string) { ruleRangePanic(c, r, cols) })
	var nws [][2]string
	for _, a := range []string{"NW", "NWAffine", "SW", "SWAffine", "Fitted", "FittedAffine"} {
		nws = append(nws, [2]string{"align", a + ".alignLetters"}, [2]string{"align", a + ".alignQLetters"})
	}
	addRule("C09", "lastblock", 4, func(c *Ctx, r string) { ruleLastBlock(c, r, nws) })
	addRule("C10", "foreignseq", 1, ruleForeignSeq)
	addRule("C10", "queryreadonly", 2, func(c *Ctx, r string) {
		ruleQueryReadOnly(c, r, map[string]bool{"Build": true, "buildKmerTable": true})
	})
	for _, id := range []string{"C11", "C13", "C14"} {
		addRule(id, "freshdecode", 2, ruleFreshDecode)
	}
	addRule("C11", "lockset", 2, ruleMorassLockset)
	addRule("C12", "poolnil", 2, rulePoolNil)
	addRule("C14", "hitpushed", 1, ruleHitPushed)
	addRule("C15", "codesign", 1, ruleCodeSign)
	addRule("C15", "clipmid", 2, ruleClipMid)
	addRule("C17", "nocache", 2, ruleNoCache)
	addRule("C17", "pairingcomplete", 1, rulePairingComplete)
	addRule("C18", "fillnobreak", 2, ruleFillNoBreak)
	addRule("C18", "tableinit", 2, ruleTableInit)
	addRule("C19", "waitloop", 1, ruleWaitLoop)
	addRule("C19", "chunkpositive", 1, ruleChunkPositive)
	addRule("C20", "chainwalk", 1, ruleChainWalk)
	addRule("C20", "regionforward", 3, ruleRegionForward)

	extra := map[string]string{
		"C01": "verbatimdesc: the text the FASTA/FASTQ header parsers hand to SetName/SetDescription is a sliced or trimmed part of the header line, with no other call in between. bytecount/onerror: the bytecount dataflow also holds at error exits (a named count must have been added before any return). appendtail: as C04.",
		"C02": "columnsparsed: no path to a return of the parsed feature in gff.Reader.Read avoids both the store of the comment column and every edge that bounds the column count from above. floatnarrow: gff.Writer converts no float to an integer unless it is bounded on both sides. bytecount/onerror: as C01 for the bed/gff writers.",
		"C03": "strconvonly: the number returned by a numeric column helper of bed/gff is a strconv result (or a constant) on every path. loopidx: a []byte subscript that is a loop-carried counter is compared with a length in the loop header or on the way to the access.",
		"C04": "appendtail: element stores in the Append methods of linear.Seq/QSeq are offset by a length. blankaftertrim: every prefix classification of a line in fasta.Reader.Read is reached with len != 0 established for that value. verbatimdesc: as C01.",
		"C05": "offsetroundtrip: for Row/QRow, Start() after SetOffset(o) is o (substitution of the stored value into Start's linear form).",
		"C06": "joinearly: Join returns success without SetSlice only over an emptiness test of its src argument. conformlinear: every success return of Truncate passes the ConformationSetter assertion.",
		"C07": "ownoffset: a position parameter becomes a subscript of X.Seq only as pos - X.Offset (helpers inlined). rangepanic: no return of Multi.Column/ColumnQL is reachable without pos >= m.Start() and pos < m.End(). offsetroundtrip: as C05.",
		"C09": "lastblock: the block pair appended after the NW traceback loop is not control-dependent on a comparison of its own coordinates.",
		"C10": "foreignseq: ForEachKmerOf never reads the indexed sequence. queryreadonly: only Build/buildKmerTable store into index state.",
		"C11": "freshdecode: every gob decode target in morass is an interface slot, a per-iteration local or a reflect.New of the same function. lockset: as C12.",
		"C12": "poolnil: as C11.",
		"C13": "freshdecode: as C11.",
		"C14": "hitpushed: every non-error return of addHit has passed morass.Push. freshdecode: as C11 (the filter's hits travel through the sorter).",
		"C15": "codesign: equality of two letter codes decides a match only together with a sign test. clipmid: trapezoid.clip takes the diagonal limits from the mid row (Bottom+Top)/2 of the clipped zone.",
		"C17": "nocache: constructors use no package-level mutable state. pairingcomplete: every success return of NewPairing has passed the fill of the complements table.",
		"C18": "fillnobreak: loops that fill a 256-entry table leave only through their header. tableinit: the tables behind the Qphred/Qsolexa methods are stored only by the package initialiser.",
		"C19": "waitloop: Cond.Wait sits in a loop with a conditional exit. chunkpositive: the chunk size multiplying Map's loop counters is a rounded-up quotient or clamped to >= 1.",
		"C20": "chainwalk: PositionWithin reports a located position only over an edge `== ref`. regionforward: CodingTranscript builds its regions with the constant Forward orientation.",
	}
	for id, s := range extra {
		if p := props[id]; p != nil {
			p.Explanation += " " + s
		}
	}
}

func init() {
	addRule("C01", "bytecount/onerror", 3, func(c *Ctx, r string) {
		ruleByteCountErr(c, "", r, "io/seqio/fasta", "io/seqio/fastq")
	})
	addRule("C02", "bytecount/onerror", 6, func(c *Ctx, r string) {
		ruleByteCountErr(c, "", r, "io/featio/bed", "io/featio/gff")
	})
}

var seqSiblings = []siblingPair{
	{"seq/linear", "Seq", "QSeq", map[string]string{"AppendLetters": "AppendQLetters", "AppendQLetters": "AppendLetters"}},
	{"seq/alignment", "Seq", "QSeq", map[string]string{"Column": "ColumnQL", "ColumnQL": "Column"}},
	{"seq/alignment", "Row", "QRow", nil},
}

var seqSiblingExcept = map[string]string{
	"seq/linear.Seq/QSeq.String":          "QSeq builds the letters into a byte slice, Seq converts its Letters directly",
	"seq/alignment.Row/QRow.Clone":        "Row.Clone carries three diagnostic panics on the row number that QRow.Clone does not have",
	"seq/alignment.Row/QRow.Conformation": "Row answers with the alignment's conformation, QRow with the row's own (by design of the two types)",
}

func init() {
	for _, id := range []string{"C05", "C06", "C07"} {
		addRule(id, "siblingarith", 3, func(c *Ctx, r string) { ruleSiblingArith(c, r, seqSiblings, seqSiblingExcept) })
	}
}
