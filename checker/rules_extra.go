// Rules added after the first round of independently seeded changes
// (DESIGN.md §9): each is a structural necessary condition that a missed
// change violated.
package main

import (
	"fmt"
	"go/constant"
	"go/token"
	"go/types"

	"golang.org/x/tools/go/ssa"
)

// fieldLoadID identifies "a load of field F of struct type T" behind
// conversions, so two sites can be compared for reading the same field.
func fieldLoadID(v ssa.Value) string {
	for i := 0; i < 6; i++ {
		switch x := v.(type) {
		case *ssa.Convert:
			v = x.X
		case *ssa.ChangeType:
			v = x.X
		case *ssa.UnOp:
			if x.Op != token.MUL {
				return ""
			}
			if fa, ok := x.X.(*ssa.FieldAddr); ok {
				if name, ok := anyFieldName(fa); ok {
					return types.TypeString(fa.X.Type(), nil) + "." + name
				}
			}
			return ""
		default:
			return ""
		}
	}
	return ""
}

// rulePrefixStrip: a record prefix that lines are classified on with
// bytes.HasPrefix is removed by length (line[len(P):]) or TrimPrefix — never
// by a cutset trim, which strips every leading occurrence of its characters
// (names that themselves begin with '>' would lose them).
func rulePrefixStrip(c *Ctx, rule string, shorts ...string) {
	for _, short := range shorts {
		p := c.pkg(short)
		fns := srcFuncs(c.SPkgs[p.PkgPath])
		prefixes := map[string]bool{}
		for _, f := range fns {
			for _, b := range f.Blocks {
				for _, ins := range b.Instrs {
					call, ok := ins.(*ssa.Call)
					if !ok {
						continue
					}
					if calleeIs(&call.Call, "bytes", "HasPrefix") || calleeIs(&call.Call, "strings", "HasPrefix") {
						if id := fieldLoadID(call.Call.Args[1]); id != "" {
							prefixes[id] = true
						}
					}
				}
			}
		}
		n := 0
		for _, f := range fns {
			for _, b := range f.Blocks {
				for _, ins := range b.Instrs {
					call, ok := ins.(*ssa.Call)
					if !ok {
						continue
					}
					callee := call.Call.StaticCallee()
					if callee == nil || callee.Pkg == nil {
						continue
					}
					pp := callee.Pkg.Pkg.Path()
					if pp != "bytes" && pp != "strings" {
						continue
					}
					switch callee.Name() {
					case "TrimLeft", "TrimRight", "Trim":
					default:
						continue
					}
					id := fieldLoadID(call.Call.Args[1])
					if id == "" || !prefixes[id] {
						continue
					}
					n++
					c.Funcs[funcName(f)] = true
					c.bad(rule, fmt.Sprintf("%s/%s.%s(cutset=%s)", funcName(f), pp, callee.Name(), id[len(id)-min(len(id), 20):]), call.Pos(),
						"the record prefix the reader classifies lines on is removed with a cutset trim: every leading occurrence of its characters is stripped, so a name that itself begins with the prefix character does not survive a write-then-read")
				}
			}
		}
		key := p.Types.Name() + "/prefix-removed-by-length"
		if len(prefixes) == 0 {
			c.triv(rule, key, token.NoPos, "no HasPrefix classification on a reader field in this package")
		} else if n == 0 {
			c.ok(rule, key, token.NoPos, fmt.Sprintf("%d classified prefix field(s); none is used as the cutset of a Trim/TrimLeft/TrimRight", len(prefixes)))
		}
	}
}

func min(a, b int) int {
	if a < b {
		return a
	}
	return b
}

// ---- bufalias: views of bufio's internal buffer are dead after the next read ----

var bufioReads = map[string]bool{"ReadBytes": true, "ReadSlice": true, "ReadLine": true, "ReadString": true, "Read": true, "ReadByte": true, "ReadRune": true, "Peek": true, "Discard": true, "WriteTo": true}

type bufAlias struct {
	c     *Ctx
	reads map[*ssa.Function]int // 0 unknown, 1 computing, 2 no, 3 yes
	memo  map[string]string
	pos   map[string]token.Pos
}

func isBufioRead(cc *ssa.CallCommon) bool {
	f := cc.StaticCallee()
	return f != nil && f.Signature.Recv() != nil && isNamed(f.Signature.Recv().Type(), "bufio", "Reader") && bufioReads[f.Name()]
}

func (ba *bufAlias) readsTransitively(f *ssa.Function) bool {
	switch ba.reads[f] {
	case 1, 2:
		return false
	case 3:
		return true
	}
	ba.reads[f] = 1
	res := false
	for _, b := range f.Blocks {
		for _, ins := range b.Instrs {
			ci, ok := ins.(ssa.CallInstruction)
			if !ok {
				continue
			}
			if isBufioRead(ci.Common()) {
				res = true
			} else if g := ci.Common().StaticCallee(); g != nil && inModule(g) && g.Blocks != nil && ba.readsTransitively(g) {
				res = true
			}
		}
	}
	if res {
		ba.reads[f] = 3
	} else {
		ba.reads[f] = 2
	}
	return res
}

func (ba *bufAlias) isReadEvent(ins ssa.Instruction) bool {
	ci, ok := ins.(ssa.CallInstruction)
	if !ok {
		return false
	}
	if isBufioRead(ci.Common()) {
		return true
	}
	g := ci.Common().StaticCallee()
	return g != nil && inModule(g) && g.Blocks != nil && ba.readsTransitively(g)
}

var viewFuncs = map[string]bool{"TrimSpace": true, "Trim": true, "TrimLeft": true, "TrimRight": true, "TrimPrefix": true, "TrimSuffix": true, "TrimFunc": true, "TrimLeftFunc": true, "TrimRightFunc": true, "Split": true, "SplitN": true, "SplitAfter": true, "SplitAfterN": true, "Fields": true, "FieldsFunc": true}

// views returns the values that alias the storage of roots, each with the
// instruction since which it has been a live alias on every path (the root
// read for direct views, the merge point for values that went through a phi).
func (ba *bufAlias) views(roots []ssa.Value, def ssa.Instruction) map[ssa.Value]ssa.Instruction {
	t := map[ssa.Value]ssa.Instruction{}
	type item struct {
		v     ssa.Value
		since ssa.Instruction
	}
	var work []item
	for _, r := range roots {
		work = append(work, item{r, def})
	}
	for len(work) > 0 {
		it := work[0]
		work = work[1:]
		v := it.v
		if _, seen := t[v]; seen {
			continue
		}
		t[v] = it.since
		refs := v.Referrers()
		if refs == nil {
			continue
		}
		for _, r := range *refs {
			switch r := r.(type) {
			case *ssa.Slice:
				if r.X == v {
					work = append(work, item{r, it.since})
				}
			case *ssa.ChangeType:
				work = append(work, item{r, it.since})
			case *ssa.Phi:
				work = append(work, item{r, r})
			case *ssa.IndexAddr:
				if r.X == v {
					if sl, isSl := v.Type().Underlying().(*types.Slice); isSl {
						if _, ok := sl.Elem().Underlying().(*types.Slice); ok {
							work = append(work, item{r, it.since}) // element of a vector of views
						}
					}
				}
			case *ssa.UnOp:
				if r.Op == token.MUL && r.X == v {
					if _, isIA := v.(*ssa.IndexAddr); isIA {
						work = append(work, item{r, it.since})
					}
				}
			case *ssa.Call:
				if bi, ok := r.Call.Value.(*ssa.Builtin); ok {
					if bi.Name() == "append" && len(r.Call.Args) > 0 && r.Call.Args[0] == v {
						work = append(work, item{r, it.since})
					}
					continue
				}
				g := r.Call.StaticCallee()
				if g == nil || g.Pkg == nil {
					continue
				}
				pp := g.Pkg.Pkg.Path()
				if (pp == "bytes" || pp == "strings") && viewFuncs[g.Name()] && len(r.Call.Args) > 0 && r.Call.Args[0] == v {
					work = append(work, item{r, it.since})
				}
			}
		}
	}
	return t
}

func instrAfter(e, u ssa.Instruction) bool { return instrAfterAvoid(e, u, nil) }

// instrAfterAvoid: u can execute after e on a path that does not pass
// through block avoid (the block that redefines the value of interest).
func instrAfterAvoid(e, u ssa.Instruction, avoid *ssa.BasicBlock) bool {
	if e.Block() == u.Block() && instrIndex(e.Block(), e) < instrIndex(u.Block(), u) {
		return true
	}
	for _, s := range e.Block().Succs {
		if s == avoid {
			continue
		}
		if reaches(s, u.Block(), avoid) {
			return true
		}
	}
	return false
}

// check reports the first use of a view after a read event (or a retention).
func (ba *bufAlias) check(f *ssa.Function, roots []ssa.Value, def ssa.Instruction, depth int) (string, token.Pos) {
	t := ba.views(roots, def)
	var events []ssa.Instruction
	for _, b := range f.Blocks {
		for _, ins := range b.Instrs {
			if ins != def && ba.isReadEvent(ins) {
				events = append(events, ins)
			}
		}
	}
	for v, since := range t {
		refs := v.Referrers()
		if refs == nil {
			continue
		}
		for _, r := range *refs {
			switch u := r.(type) {
			case *ssa.Phi, *ssa.DebugRef:
				continue
			case *ssa.Store:
				if u.Val == v {
					if _, isAlloc := u.Addr.(*ssa.Alloc); !isAlloc {
						return "a view of bufio's internal buffer is stored (" + ba.c.pos(u.Pos()) + ") and outlives the read that produced it", u.Pos()
					}
				}
			case ssa.CallInstruction:
				g := u.Common().StaticCallee()
				if g != nil && inModule(g) && g.Blocks != nil && depth < 4 {
					for i, a := range u.Common().Args {
						if a == v && i < len(g.Params) {
							key := fmt.Sprintf("%p/%d", g, i)
							why, seen := ba.memo[key]
							if !seen {
								ba.memo[key] = ""
								w, p := ba.check(g, []ssa.Value{g.Params[i]}, nil, depth+1)
								ba.memo[key], ba.pos[key] = w, p
								why = w
							}
							if why != "" {
								return why, ba.pos[key]
							}
						}
					}
				}
			}
			// an ordinary use after some read event
			for _, e := range events {
				if e == r {
					continue
				}
				var redef *ssa.BasicBlock
				if def != nil {
					redef = def.Block()
				}
				if since != nil && !instrAfterAvoid(since, e, redef) {
					continue
				}
				if instrAfterAvoid(e, r, redef) {
					return fmt.Sprintf("in %s a view of bufio's internal buffer is used at %s after the reader was read again at %s: the bytes it points at have been overwritten or shifted", funcName(f), ba.c.pos(r.Pos()), ba.c.pos(e.Pos())), r.Pos()
				}
			}
		}
	}
	return "", token.NoPos
}

// ruleBufAlias: every ReadSlice/ReadLine result (and every view sliced,
// trimmed or split from it) is dead before the reader is read again and is
// never stored.
func ruleBufAlias(c *Ctx, rule string, shorts ...string) {
	ba := &bufAlias{c: c, reads: map[*ssa.Function]int{}, memo: map[string]string{}, pos: map[string]token.Pos{}}
	for _, short := range shorts {
		p := c.pkg(short)
		n := 0
		for _, f := range srcFuncs(c.SPkgs[p.PkgPath]) {
			for _, b := range f.Blocks {
				for _, ins := range b.Instrs {
					call, ok := ins.(*ssa.Call)
					if !ok || !isBufioMethod(call, "ReadSlice", "ReadLine", "Peek") {
						continue
					}
					data := extractOf(call, 0)
					if data == nil {
						continue
					}
					n++
					c.Funcs[funcName(f)] = true
					key := fmt.Sprintf("%s/%s-view#%d", funcName(f), call.Call.StaticCallee().Name(), n)
					if why, pos := ba.check(f, []ssa.Value{data}, call, 0); why != "" {
						c.bad(rule, key, pos, why)
					} else {
						c.ok(rule, key, call.Pos(), "the buffer view is consumed (copied or parsed) before the reader is read again and is never stored")
					}
				}
			}
		}
		if n == 0 {
			c.triv(rule, p.Types.Name()+"/no-buffer-view-reads", token.NoPos, "this package reads lines with copying reads only (no ReadSlice/ReadLine/Peek)")
		}
	}
}

// ---- EOF path exploration: hang at EOF, record returned together with io.EOF ----

type eofState struct {
	errAlias  map[ssa.Value]bool
	dataAlias map[ssa.Value]bool // values that are empty whenever the data read is empty
	valid     bool               // the spilled err variable still holds the read's error
}

func (s *eofState) clone() *eofState {
	n := &eofState{errAlias: map[ssa.Value]bool{}, dataAlias: map[ssa.Value]bool{}, valid: s.valid}
	for k := range s.errAlias {
		n.errAlias[k] = true
	}
	for k := range s.dataAlias {
		n.dataAlias[k] = true
	}
	return n
}

// eofExplore walks the SSA CFG from a ReadBytes-like call along the edges
// consistent with err == io.EOF and with the data being empty / non-empty.
// It reports (a) a path that comes back to the read with everything it
// branched on decided by those assumptions (the reader is at EOF for good, so
// the loop never ends), (b) a return that hands out a non-nil record together
// with that io.EOF.
func eofExplore(call *ssa.Call, dataEmpty bool) (hang bool, hangVia token.Pos, dirty *ssa.Return) {
	data, errv := extractOf(call, 0), extractOf(call, 1)
	if errv == nil {
		return
	}
	var errAlloc ssa.Value
	for _, r := range *errv.Referrers() {
		if st, ok := r.(*ssa.Store); ok && st.Val == errv {
			errAlloc = st.Addr
		}
	}
	start := &eofState{errAlias: map[ssa.Value]bool{errv: true}, dataAlias: map[ssa.Value]bool{}, valid: true}
	if data != nil {
		start.dataAlias[data] = true
	}
	isErr := func(st *eofState, v ssa.Value) bool {
		if st.errAlias[v] {
			return true
		}
		if u, ok := v.(*ssa.UnOp); ok && u.Op == token.MUL && errAlloc != nil && u.X == errAlloc && st.valid {
			return true
		}
		return false
	}
	type key struct {
		b     *ssa.BasicBlock
		valid bool
		nErr  int
	}
	seen := map[key]int{}
	budget := 4000
	var walk func(b *ssa.BasicBlock, from *ssa.BasicBlock, idx int, st *eofState, decided bool)
	walk = func(b *ssa.BasicBlock, from *ssa.BasicBlock, idx int, st *eofState, decided bool) {
		if budget--; budget < 0 || hang && dirty != nil {
			return
		}
		if idx == 0 {
			k := key{b, st.valid, len(st.errAlias)}
			if seen[k] > 2 {
				return
			}
			seen[k]++
			// path-sensitive phis
			pi := -1
			for i, p := range b.Preds {
				if p == from {
					pi = i
				}
			}
			for _, ins := range b.Instrs {
				phi, ok := ins.(*ssa.Phi)
				if !ok {
					break
				}
				if pi >= 0 {
					e := phi.Edges[pi]
					if st.errAlias[e] {
						st.errAlias[phi] = true
					} else {
						delete(st.errAlias, phi)
					}
					if st.dataAlias[e] {
						st.dataAlias[phi] = true
					} else {
						delete(st.dataAlias, phi)
					}
				}
			}
		}
		for i := idx; i < len(b.Instrs); i++ {
			switch ins := b.Instrs[i].(type) {
			case *ssa.Call:
				if ins == call && i >= idx && !(b == call.Block() && from == nil) {
					if decided && dataEmpty {
						hang = true
						hangVia = from.Instrs[len(from.Instrs)-1].Pos()
					}
					return
				}
				// views that are empty when the data is empty
				if g := ins.Call.StaticCallee(); g != nil && g.Pkg != nil && (g.Pkg.Pkg.Path() == "bytes" || g.Pkg.Pkg.Path() == "strings") && viewFuncs[g.Name()] && len(ins.Call.Args) > 0 && st.dataAlias[ins.Call.Args[0]] {
					st.dataAlias[ins] = true
				}
			case *ssa.Slice:
				if st.dataAlias[ins.X] {
					st.dataAlias[ins] = true
				}
			case *ssa.Store:
				if errAlloc != nil && ins.Addr == errAlloc {
					st.valid = isErr(st, ins.Val) || ins.Val == errv
				}
			case *ssa.Return:
				if !dataEmpty && dirty == nil {
					hasEOF, hasRec := false, false
					for _, r := range ins.Results {
						if types.Identical(r.Type(), types.Universe.Lookup("error").Type()) {
							if isErr(st, r) {
								hasEOF = true
							}
						} else if !isNilConst(r) {
							hasRec = true
						}
					}
					if hasEOF && hasRec {
						dirty = ins
					}
				}
				return
			case *ssa.Panic:
				return
			case *ssa.If:
				take := []int{0, 1}
				known := false
				if bo, ok := ins.Cond.(*ssa.BinOp); ok {
					// err tests
					if bo.Op == token.EQL || bo.Op == token.NEQ {
						var other ssa.Value
						if isErr(st, bo.X) {
							other = bo.Y
						} else if isErr(st, bo.Y) {
							other = bo.X
						}
						if other != nil {
							switch {
							case isNilConst(other):
								known = true
								take = []int{map[bool]int{true: 0, false: 1}[bo.Op == token.NEQ]}
							case isGlobalLoad(other, "io", "EOF"):
								known = true
								take = []int{map[bool]int{true: 0, false: 1}[bo.Op == token.EQL]}
							}
						}
					}
					// len(data) tests
					if !known {
						if lc := builtinCall(bo.X, "len"); lc != nil && st.dataAlias[lc.Call.Args[0]] {
							if k, ok := constIntVal(bo.Y); ok && k == 0 {
								var truth, decidedHere bool
								switch bo.Op {
								case token.EQL:
									truth, decidedHere = dataEmpty, true
								case token.NEQ, token.GTR:
									truth, decidedHere = !dataEmpty, true
								}
								// a trimmed view of non-empty data may still be empty: only the raw data decides
								if decidedHere && (dataEmpty || lc.Call.Args[0] == ssa.Value(data)) {
									known = true
									take = []int{map[bool]int{true: 0, false: 1}[truth]}
								}
							}
						}
					}
				}
				for _, t := range take {
					walk(b.Succs[t], b, 0, st.clone(), decided && known)
				}
				return
			}
		}
		for _, s := range b.Succs {
			walk(s, b, 0, st.clone(), decided)
		}
	}
	idx := 0
	for i, ins := range call.Block().Instrs {
		if ins == call {
			idx = i + 1
		}
	}
	walk(call.Block(), nil, idx, start, true)
	return
}

func ruleEOFPaths(c *Ctx, ruleHang, ruleClean string, shorts ...string) {
	keyN := map[string]int{}
	for _, call := range lineCalls(c, shorts, "ReadBytes", "ReadString", "ReadSlice") {
		f := call.Parent()
		key := funcName(f) + "/" + call.Call.StaticCallee().Name()
		keyN[key]++
		if keyN[key] > 1 {
			key = fmt.Sprintf("%s#%d", key, keyN[key])
		}
		if ruleHang != "" {
			hang, via, _ := eofExplore(call, true)
			if hang {
				c.bad(ruleHang, key, call.Pos(), fmt.Sprintf("when the reader is at end of input (ReadBytes returns no bytes and io.EOF) control comes back to this read (via %s) on a path decided entirely by that condition, and the reader stays at EOF: Read never returns", c.pos(via)))
			} else {
				c.ok(ruleHang, key, call.Pos(), "at end of input (no bytes, io.EOF) every decided path leaves the read loop")
			}
		}
		if ruleClean != "" {
			_, _, dirty := eofExplore(call, false)
			if dirty != nil {
				c.bad(ruleClean, key, dirty.Pos(), fmt.Sprintf("on the path that accepts an unterminated final line the function returns a non-nil record together with the io.EOF of that read (return at %s): a caller that reads until the first error drops the last record", c.pos(dirty.Pos())))
			} else {
				c.ok(ruleClean, key, call.Pos(), "no return hands out a record together with the io.EOF that ended the final unterminated line")
			}
		}
	}
}

// ---- lencheck: quality scores are stored only after the length check ----------

// ruleLenCheck: in the FASTQ reader every store into the Q field of an
// element seqBuff[i] is dominated by a comparison that bounds i by
// len(seqBuff): either len(x) == len(seqBuff) for the line being ranged
// over, or i < len(seqBuff) itself. Otherwise a quality line longer than
// the sequence indexes past the buffer and panics instead of yielding the
// "length mismatch" error.
func ruleLenCheck(c *Ctx, rule string) {
	fn := c.fn("io/seqio/fastq", "(*Reader).Read")
	n := 0
	for _, b := range fn.Blocks {
		for _, ins := range b.Instrs {
			st, ok := ins.(*ssa.Store)
			if !ok {
				continue
			}
			fa, ok := st.Addr.(*ssa.FieldAddr)
			if !ok {
				continue
			}
			name, _ := anyFieldName(fa)
			ia, ok := fa.X.(*ssa.IndexAddr)
			if !ok || name != "Q" || !isNamed(fa.X.Type().Underlying().(*types.Pointer).Elem(), modPath+"/alphabet", "QLetter") {
				continue
			}
			n++
			key := fmt.Sprintf("fastq.(*Reader).Read/store-Q#%d", n)
			S, idx := ia.X, ia.Index
			isLenS := func(v ssa.Value) bool {
				lc := builtinCall(v, "len")
				return lc != nil && lc.Call.Args[0] == S
			}
			ok2 := false
			why := ""
			for _, bf := range branchesAt(b) {
				x, y := bf.cond.X, bf.cond.Y
				switch {
				case isLenS(x) && builtinCall(y, "len") != nil, isLenS(y) && builtinCall(x, "len") != nil:
					if effectiveOp(bf, true) == token.EQL {
						ok2, why = true, "dominated by the check that the quality line and the sequence have equal length"
					}
				case x == idx && isLenS(y):
					if effectiveOp(bf, true) == token.LSS {
						ok2, why = true, "dominated by index < len(buffer)"
					}
				case y == idx && isLenS(x):
					if effectiveOp(bf, false) == token.LSS {
						ok2, why = true, "dominated by index < len(buffer)"
					}
				}
			}
			if ok2 {
				c.ok(rule, key, st.Pos(), why)
			} else {
				c.bad(rule, key, st.Pos(), "a quality score is stored into the sequence buffer before the sequence/quality length comparison: a quality line with more symbols than the sequence indexes past the buffer and Read panics instead of reporting the length mismatch")
			}
		}
	}
	if n == 0 {
		c.und(rule, "fastq.(*Reader).Read/store-Q", fn.Pos(), "no store of a quality score into the sequence buffer found")
	}
}

// ---- maskguard: the k-mer range guard accepts the largest word ------------------

// ruleMaskGuard: Index.kMask is 4^k-1, the largest valid k-mer; every branch
// that rejects a k-mer by comparing it with kMask must reject exactly
// kmer > kMask, otherwise the all-t word (or more) is treated as out of range
// and its positions are never reported.
func ruleMaskGuard(c *Ctx, rule string) {
	pkg := modPath + "/index/kmerindex"
	p := c.pkg("index/kmerindex")
	// wiring: kMask = Pow4(k) - 1
	wired := ""
	n := 0
	for _, f := range srcFuncs(c.SPkgs[p.PkgPath]) {
		for _, b := range f.Blocks {
			for _, ins := range b.Instrs {
				if st, ok := ins.(*ssa.Store); ok {
					if name, ok := fieldOf(st.Addr, pkg, "Index"); ok && name == "kMask" {
						v := stripConv(st.Val)
						if bo, ok := v.(*ssa.BinOp); ok && bo.Op == token.SUB {
							if k, ok := constIntVal(bo.Y); ok && k == 1 {
								if call, ok := stripConv(bo.X).(*ssa.Call); ok && call.Call.StaticCallee() != nil && call.Call.StaticCallee().Name() == "Pow4" {
									wired = "ok"
								}
							}
						}
						if wired == "" {
							wired = "bad"
						}
					}
				}
				ifi, ok := ins.(*ssa.If)
				if !ok {
					continue
				}
				bo, ok := ifi.Cond.(*ssa.BinOp)
				if !ok {
					continue
				}
				maskLeft := loadOfField(bo.X, pkg, "Index", "kMask")
				maskRight := loadOfField(bo.Y, pkg, "Index", "kMask")
				if !maskLeft && !maskRight {
					continue
				}
				for e := 0; e < 2; e++ {
					if !returnsOnly(b.Succs[e]) {
						continue
					}
					// does that edge return a non-nil error?
					rejects := false
					var walk func(x *ssa.BasicBlock, d int)
					walk = func(x *ssa.BasicBlock, d int) {
						if d > 4 {
							return
						}
						if ret, ok := x.Instrs[len(x.Instrs)-1].(*ssa.Return); ok {
							for _, r := range ret.Results {
								if types.Identical(r.Type(), types.Universe.Lookup("error").Type()) && !isNilConst(r) {
									rejects = true
								}
							}
						}
						for _, s := range x.Succs {
							walk(s, d+1)
						}
					}
					walk(b.Succs[e], 0)
					if !rejects {
						continue
					}
					n++
					c.Funcs[funcName(f)] = true
					key := fmt.Sprintf("%s/reject-above-kMask#%d", funcName(f), n)
					op := effectiveOp(branchFact{bo, e}, maskRight) // relation kmer ? kMask on the rejecting edge
					if op == token.GTR {
						c.ok(rule, key, bo.Pos(), "a k-mer is rejected exactly when it exceeds kMask (= 4^k-1, the largest word)")
					} else {
						c.bad(rule, key, bo.Pos(), "a k-mer is rejected when kmer "+op.String()+" kMask: kMask = 4^k-1 is itself a valid word (all t), so its positions are never reported")
					}
				}
			}
		}
	}
	switch wired {
	case "ok":
		c.ok(rule, "kmerindex.New/kMask=Pow4(k)-1", token.NoPos, "kMask is initialised to the largest k-mer")
	case "bad":
		c.bad(rule, "kmerindex.New/kMask=Pow4(k)-1", token.NoPos, "kMask is not initialised to Pow4(k)-1")
	default:
		c.und(rule, "kmerindex.New/kMask=Pow4(k)-1", token.NoPos, "no store to Index.kMask found")
	}
	if n == 0 {
		c.und(rule, "kmerindex/reject-above-kMask", token.NoPos, "no range guard against kMask found")
	}
}

// ---- tempfile pairing: every created run file is registered (or removed) ---------

// ruleTempFilePairing: after a successful ioutil.TempFile/os.CreateTemp in
// package morass every path to a return passes through the registration of
// the file in m.files (so Clear/AutoClear/CleanUp close and remove it) or
// through its removal. A path that returns without either leaves an
// untracked, unclosed run file behind.
func ruleTempFilePairing(c *Ctx, rule string) {
	sp := c.SPkgs[c.pkg("morass").PkgPath]
	n := 0
	for _, f := range srcFuncs(sp) {
		for _, b := range f.Blocks {
			for _, ins := range b.Instrs {
				call, ok := ins.(*ssa.Call)
				if !ok {
					continue
				}
				g := call.Call.StaticCallee()
				if g == nil || g.Pkg == nil || !((g.Pkg.Pkg.Path() == "io/ioutil" && g.Name() == "TempFile") || (g.Pkg.Pkg.Path() == "os" && g.Name() == "CreateTemp")) {
					continue
				}
				n++
				c.Funcs[funcName(f)] = true
				key := fmt.Sprintf("%s/%s#%d-registered-on-every-path", funcName(f), g.Name(), n)
				errv := extractOf(call, 1)
				registers := func(i ssa.Instruction) bool {
					if st, ok := i.(*ssa.Store); ok {
						if name, ok := fieldOf(st.Addr, morassPkg, "Morass"); ok && name == "files" {
							return true
						}
					}
					if cl, ok := i.(*ssa.Call); ok && calleeIs(&cl.Call, "os", "Remove") {
						return true
					}
					return false
				}
				var leak *ssa.Return
				for _, rb := range f.Blocks {
					ret, ok := rb.Instrs[len(rb.Instrs)-1].(*ssa.Return)
					if !ok || !reachesInstr(call, ret) {
						continue
					}
					// exempt: the creation failed on this path
					failed := false
					if errv != nil {
						for _, bf := range branchesAt(rb) {
							if (isValueOrFreshLoad(bf.cond.X, errv) && isNilConst(bf.cond.Y)) || (isValueOrFreshLoad(bf.cond.Y, errv) && isNilConst(bf.cond.X)) {
								if effectiveOp(bf, true) == token.NEQ {
									failed = true
								}
							}
						}
					}
					if failed {
						continue
					}
					if !mustPassBetween(call, ret, viaCalls(registers)) {
						leak = ret
					}
				}
				if leak != nil {
					c.bad(rule, key, call.Pos(), fmt.Sprintf("a path from the successful creation of the run file to the return at %s neither registers the file in m.files nor removes it: after a failed write the file is untracked and unclosed, so Clear, AutoClear and a later drain leave it in the temporary directory", c.pos(leak.Pos())))
				} else {
					c.ok(rule, key, call.Pos(), "every path after a successful creation registers the file in m.files (or removes it) before returning")
				}
			}
		}
	}
	if n == 0 {
		c.und(rule, "morass/TempFile", token.NoPos, "no temporary-file creation found in package morass")
	}
}

// ---- running end: the span-merge test reads what the merge branch updates -------

// ruleRunningEnd: in sequtils.Stitch the branch that extends the current
// span stores span.e = max(span.e, f.End()); the test that decides between
// extending and opening a new span must compare the next start with that
// running end. Comparing with the previous feature's end instead opens a
// new span inside a region an earlier, longer feature already covers, and
// its letters are emitted twice.
func ruleRunningEnd(c *Ctx, rule string) {
	root := c.fn("seq/sequtils", "Stitch")
	n := 0
	for _, fn := range privateReach(root) {
		for _, b := range fn.Blocks {
			for _, ins := range b.Instrs {
				st, ok := ins.(*ssa.Store)
				if !ok {
					continue
				}
				fa, ok := st.Addr.(*ssa.FieldAddr)
				if !ok {
					continue
				}
				sameField := func(v ssa.Value) bool {
					u, ok := v.(*ssa.UnOp)
					if !ok || u.Op != token.MUL {
						return false
					}
					f2, ok := u.X.(*ssa.FieldAddr)
					return ok && f2.Field == fa.Field && types.Identical(f2.X.Type(), fa.X.Type())
				}
				// a running end: x.e = max(x.e, v), or x.e = v under the test v > x.e
				running := false
				if call, ok := st.Val.(*ssa.Call); ok && call.Call.StaticCallee() != nil && call.Call.StaticCallee().Name() == "max" {
					for _, a := range call.Call.Args {
						if sameField(a) {
							running = true
						}
					}
				}
				for _, bf := range branchesAt(b) {
					if (bf.cond.X == st.Val && sameField(bf.cond.Y)) || (bf.cond.Y == st.Val && sameField(bf.cond.X)) {
						running = true
					}
				}
				if !running {
					continue
				}
				n++
				key := fmt.Sprintf("sequtils.Stitch/merge-test-reads-running-end#%d", n)
				// the test that selects the extending branch reads that running end (comparing it with
				// something other than the value being stored)
				found := false
				for _, bf := range branchesAt(b) {
					if (sameField(bf.cond.X) && bf.cond.Y != st.Val) || (sameField(bf.cond.Y) && bf.cond.X != st.Val) {
						found = true
					}
				}
				// the struct that is updated must be the one the span list holds: an element
				// address, or a pointer that is itself appended to a list of pointers
				aliased := true
				why := ""
				switch base := fa.X.(type) {
				case *ssa.IndexAddr:
				case *ssa.Alloc:
					// a local struct value: is it (only) copied by value into the list?
					if !base.Heap {
						aliased, why = false, "a local copy"
					} else {
						// heap cell created by &T{...}/new: fine if the pointer itself is appended
						aliased = pointerAppended(base)
						why = "a heap cell whose pointer is never appended to a list"
					}
				default:
					// a loop-carried pointer: one of its sources must be appended as a pointer or be an element address
					aliased = pointerSourceHeld(fa.X, 0)
					why = "a pointer that is neither an element address nor appended to the span list"
				}
				if found && !aliased {
					c.bad(rule, key, st.Pos(), "the running end is updated in "+why+": the span already appended to the list keeps its old end, so positions added by a later overlapping feature that ends beyond it are dropped from the stitched result")
					continue
				}
				if found {
					c.ok(rule, key, st.Pos(), "the extend-or-open test compares against the running end that this branch updates")
				} else {
					c.bad(rule, key, st.Pos(), "the branch that extends the current span updates its running end with max(), but the test that selects this branch never reads that running end: a feature nested in a longer one resets the comparison, so a later feature still inside the longer one opens a new span and its letters are stitched twice")
				}
			}
		}
	}
	if n == 0 {
		// the running end kept in a local of a gathering loop: for i++; i < len(ff) && ff[i].Start() <= e; i++ { if fe := ...; fe > e { e = fe } }
		for _, fn := range privateReach(root) {
			for _, l := range naturalLoops(fn) {
				for _, ins := range l.head.Instrs {
					e, ok := ins.(*ssa.Phi)
					if !ok || !isIntegral(e.Type()) {
						continue
					}
					// updated as a running maximum on the way round
					running := false
					for _, leaf := range headerLeaves(l, e) {
						if x, ok := leaf.v.(*ssa.Call); ok {
							if nm := calleeName(&x.Call); nm == "max" || builtinCall(x, "max") != nil {
								for _, a := range x.Call.Args {
									if a == ssa.Value(e) {
										running = true
									}
								}
							}
						}
						{
							if leaf.v == ssa.Value(e) || leaf.from == nil {
								continue
							}
							for _, bf := range branchesAt(leaf.from) {
								if (bf.cond.X == leaf.v && bf.cond.Y == ssa.Value(e)) || (bf.cond.Y == leaf.v && bf.cond.X == ssa.Value(e)) {
									running = true
								}
							}
							for _, bf := range factsOnEdge(leaf.from, leaf.to) {
								if (bf.cond.X == leaf.v && bf.cond.Y == ssa.Value(e)) || (bf.cond.Y == leaf.v && bf.cond.X == ssa.Value(e)) {
									running = true
								}
							}
						}
					}
					if !running {
						continue
					}
					// and a test that leaves the loop reads it
					reads := false
					for b := range l.body {
						ifi, ok := b.Instrs[len(b.Instrs)-1].(*ssa.If)
						if !ok {
							continue
						}
						bo, ok := ifi.Cond.(*ssa.BinOp)
						if !ok || (bo.X != ssa.Value(e) && bo.Y != ssa.Value(e)) {
							continue
						}
						for _, sc := range b.Succs {
							if !l.body[sc] {
								reads = true
							}
						}
					}
					n++
					key := fmt.Sprintf("sequtils.Stitch/merge-test-reads-running-end#%d", n)
					if reads {
						c.ok(rule, key, e.Pos(), "the loop that gathers a run of overlapping features stops on a comparison with the running end it keeps")
					} else {
						c.bad(rule, key, e.Pos(), "a running end is kept while features are gathered, but the test that ends the run never reads it: a feature nested in a longer one resets the comparison, so a later feature still inside the longer one opens a new span and its letters are stitched twice")
					}
				}
			}
		}
	}
	if n == 0 {
		c.und(rule, "sequtils.Stitch/merge-test-reads-running-end", root.Pos(), "no running-end update (x.e = max(x.e, ...)) found")
	}
}

// ---- bijection: NewPairing checks the involution for both definition strings ----

func ruleBijection(c *Ctx, rule string) {
	fn := c.fn("alphabet", "NewPairing")
	pkg := modPath + "/alphabet"
	if len(fn.Params) != 2 {
		c.und(rule, "alphabet.NewPairing/params", fn.Pos(), "expected two definition strings")
		return
	}
	var origin func(v ssa.Value, d int) *ssa.Parameter
	origin = func(v ssa.Value, d int) *ssa.Parameter {
		if d > 8 {
			return nil
		}
		switch x := v.(type) {
		case *ssa.Parameter:
			return x
		case *ssa.Convert:
			return origin(x.X, d+1)
		case *ssa.ChangeType:
			return origin(x.X, d+1)
		case *ssa.Extract:
			if nx, ok := x.Tuple.(*ssa.Next); ok {
				if r, ok := nx.Iter.(*ssa.Range); ok {
					return origin(r.X, d+1)
				}
			}
		case *ssa.Lookup:
			return origin(x.X, d+1)
		case *ssa.Index:
			return origin(x.X, d+1)
		case *ssa.UnOp:
			if x.Op == token.MUL {
				if ia, ok := x.X.(*ssa.IndexAddr); ok {
					return origin(ia.X, d+1)
				}
			}
		case *ssa.Phi:
			for _, e := range x.Edges {
				if p := origin(e, d+1); p != nil {
					return p
				}
			}
		}
		return nil
	}
	pairLoad := func(v ssa.Value) (idx ssa.Value, ok bool) { // v = p.pair[idx]
		u, isU := v.(*ssa.UnOp)
		if !isU || u.Op != token.MUL {
			return nil, false
		}
		ia, isIA := u.X.(*ssa.IndexAddr)
		if !isIA || !loadOfField(ia.X, pkg, "Pairing", "pair") {
			return nil, false
		}
		return ia.Index, true
	}
	seen := map[*ssa.Parameter]bool{}
	weak := map[*ssa.Parameter]token.Pos{}
	n := 0
	for _, b := range fn.Blocks {
		ifi, ok := b.Instrs[len(b.Instrs)-1].(*ssa.If)
		if !ok {
			continue
		}
		bo, ok := ifi.Cond.(*ssa.BinOp)
		if !ok || (bo.Op != token.NEQ && bo.Op != token.EQL) {
			continue
		}
		for _, side := range []ssa.Value{bo.X, bo.Y} {
			if i1, ok := pairLoad(side); ok {
				if i2, ok := pairLoad(stripConv(i1)); ok { // pair[pair[x]]
					if p := origin(stripConv(i2), 0); p != nil {
						seen[p] = true
						n++
						// a mismatch on this side alone must reject: the edge on which the round trip fails leads
						// straight to the error, not to a second test that can still let the definition through
						mismatch := 0
						if bo.Op == token.EQL {
							mismatch = 1
						}
						if !rejectsFrom(b, b.Succs[mismatch]) {
							weak[p] = bo.Pos()
						}
					}
				}
			}
		}
	}
	// the test may be made by a predicate of the package (p.involutes(l)): a function whose result is the
	// comparison of pair[pair[x]] with its parameter x
	for _, b := range fn.Blocks {
		for _, ins := range b.Instrs {
			call, ok := ins.(*ssa.Call)
			if !ok {
				continue
			}
			h := call.Call.StaticCallee()
			if h == nil || h.Pkg != fn.Pkg || len(h.Blocks) != 1 {
				continue
			}
			ret, ok := h.Blocks[0].Instrs[len(h.Blocks[0].Instrs)-1].(*ssa.Return)
			if !ok || len(ret.Results) != 1 {
				continue
			}
			bo, ok := ret.Results[0].(*ssa.BinOp)
			if !ok || (bo.Op != token.NEQ && bo.Op != token.EQL) {
				continue
			}
			// the table may be handed to the predicate as an argument (isInvolutionAt(p.pair, l))
			pairLoad := func(v ssa.Value) (ssa.Value, bool) {
				if idx, ok := pairLoad(v); ok {
					return idx, true
				}
				u, isU := v.(*ssa.UnOp)
				if !isU || u.Op != token.MUL {
					return nil, false
				}
				ia, isIA := u.X.(*ssa.IndexAddr)
				if !isIA {
					return nil, false
				}
				tp, isP := ia.X.(*ssa.Parameter)
				if !isP {
					return nil, false
				}
				for pi, q := range h.Params {
					if q == tp && pi < len(call.Call.Args) && loadOfField(call.Call.Args[pi], pkg, "Pairing", "pair") {
						return ia.Index, true
					}
				}
				return nil, false
			}
			for _, side := range []ssa.Value{bo.X, bo.Y} {
				if i1, ok := pairLoad(side); ok {
					if i2, ok := pairLoad(stripConv(i1)); ok {
						if hp, ok := stripConv(i2).(*ssa.Parameter); ok {
							for pi, q := range h.Params {
								if q == hp && pi < len(call.Call.Args) {
									if p := origin(stripConv(call.Call.Args[pi]), 0); p != nil {
										seen[p] = true
										n++
									}
								}
							}
						}
					}
				}
			}
		}
	}
	for _, prm := range fn.Params {
		key := "alphabet.NewPairing/involution-checked-for-" + prm.Name()
		if pos, isWeak := weak[prm]; isWeak {
			c.bad(rule, key, pos, "a failed round trip pair[pair[x]] != x for a letter of definition string "+prm.Name()+" does not reject the definition by itself: the error is returned only if another test fails as well, so a pairing that is one-directional on this side (\"a\"->\"t\" without \"t\"->\"a\") is accepted and its complement is not an involution")
		} else if seen[prm] {
			c.ok(rule, key, fn.Pos(), "pair[pair[x]] == x is tested for the letters of this definition string")
		} else {
			c.bad(rule, key, fn.Pos(), "the round trip pair[pair[x]] == x is not tested for the letters of definition string "+prm.Name()+": one-directional or many-to-one pairings such as (\"ac\",\"tg\") or (\"ab\",\"cc\") are accepted, and their complement is not an involution")
		}
	}
	_ = n
}

// ---- taintsize: numbers parsed from input never size an allocation unchecked -----

// ruleTaintSize: an integer parsed from the input text (strconv.* results and
// the values the package's own parse helpers return) reaches a make() size, a
// slice bound or an index only after it was bounded below and above by
// dominating comparisons. Otherwise a negative or huge column value makes
// the runtime panic (makeslice: len out of range / index out of range) — a
// runtime.Error that the readers' recover handler deliberately re-panics.
func ruleTaintSize(c *Ctx, rule string, shorts ...string) {
	var fns []*ssa.Function
	for _, short := range shorts {
		fns = append(fns, srcFuncs(c.SPkgs[c.pkg(short).PkgPath])...)
	}
	inSet := map[*ssa.Function]bool{}
	for _, f := range fns {
		inSet[f] = true
	}
	tainted := map[ssa.Value]bool{}
	retTainted := map[*ssa.Function]bool{}
	isInt := func(t types.Type) bool {
		b, ok := t.Underlying().(*types.Basic)
		return ok && b.Info()&types.IsInteger != 0
	}
	for changed := true; changed; {
		changed = false
		mark := func(v ssa.Value) {
			if v != nil && !tainted[v] {
				tainted[v] = true
				changed = true
			}
		}
		for _, f := range fns {
			for _, b := range f.Blocks {
				for _, ins := range b.Instrs {
					switch x := ins.(type) {
					case *ssa.Call:
						g := x.Call.StaticCallee()
						if g != nil && g.Pkg != nil && g.Pkg.Pkg.Path() == "strconv" {
							if tup, ok := x.Type().(*types.Tuple); ok && tup.Len() >= 1 && isInt(tup.At(0).Type()) {
								if e := extractOf(x, 0); e != nil {
									mark(e)
								}
							} else if isInt(x.Type()) {
								mark(x)
							}
						}
						if g != nil && inSet[g] {
							if retTainted[g] && isInt(x.Type()) {
								mark(x)
							}
							for i, a := range x.Call.Args {
								if tainted[a] && i < len(g.Params) {
									mark(g.Params[i])
								}
							}
						}
					case *ssa.Convert:
						if tainted[x.X] && isInt(x.Type()) {
							mark(x)
						}
					case *ssa.BinOp:
						switch x.Op {
						case token.ADD, token.SUB, token.MUL, token.QUO, token.SHL:
							if tainted[x.X] || tainted[x.Y] {
								mark(x)
							}
						}
					case *ssa.Phi:
						for i, e := range x.Edges {
							if tainted[e] && !boundedOnEdge(e, x.Block().Preds[i], x.Block()) {
								mark(x)
							}
						}
					case *ssa.Return:
						for _, r := range x.Results {
							if tainted[r] && !retTainted[f] {
								retTainted[f] = true
								changed = true
							}
						}
					}
				}
			}
		}
	}
	bounded := func(v ssa.Value, at *ssa.BasicBlock) bool {
		lower, upper := false, false
		for _, bf := range branchesAt(at) {
			var op token.Token
			var other ssa.Value
			switch {
			case bf.cond.X == v:
				op, other = effectiveOp(bf, true), bf.cond.Y
			case bf.cond.Y == v:
				op, other = effectiveOp(bf, false), bf.cond.X
			default:
				continue
			}
			_ = other
			switch op {
			case token.GEQ, token.GTR:
				lower = true
			case token.LSS, token.LEQ:
				upper = true
			case token.EQL:
				lower, upper = true, true
			}
		}
		return lower && upper
	}
	n := 0
	for _, f := range fns {
		for _, b := range f.Blocks {
			for _, ins := range b.Instrs {
				var uses []ssa.Value
				what := ""
				switch x := ins.(type) {
				case *ssa.MakeSlice:
					uses, what = []ssa.Value{x.Len, x.Cap}, "make() size"
				case *ssa.MakeMap:
					uses, what = []ssa.Value{x.Reserve}, "make(map) size hint"
				case *ssa.MakeChan:
					uses, what = []ssa.Value{x.Size}, "make(chan) size"
				case *ssa.Slice:
					uses, what = []ssa.Value{x.Low, x.High, x.Max}, "slice bound"
				case *ssa.IndexAddr:
					uses, what = []ssa.Value{x.Index}, "index"
				}
				for _, u := range uses {
					if u == nil || !tainted[u] {
						continue
					}
					n++
					c.Funcs[funcName(f)] = true
					key := fmt.Sprintf("%s/parsed-number-as-%s#%d", funcName(f), what, n)
					if bounded(u, b) {
						c.ok(rule, key, ins.Pos(), "the parsed value is bounded below and above by dominating comparisons")
					} else {
						c.bad(rule, key, ins.Pos(), "a number parsed from the input is used as a "+what+" without having been bounded on both sides: a negative or huge column value makes the runtime panic (a runtime.Error, which the reader's recover handler re-panics) instead of producing a parse error")
					}
				}
			}
		}
	}
	if n == 0 {
		c.triv(rule, "featio/no-parsed-number-sizes-anything", token.NoPos, fmt.Sprintf("%d parsed integer values tracked; none reaches a make() size, slice bound or index", len(tainted)))
	}
}

// pointerAppended: the address v (an Alloc) is passed to append as an element.
func pointerAppended(v ssa.Value) bool {
	refs := v.Referrers()
	if refs == nil {
		return false
	}
	for _, r := range *refs {
		switch x := r.(type) {
		case *ssa.Store:
			// stored into the backing array of a variadic append ([]*T{v}...)
			if x.Val == v {
				if ia, ok := x.Addr.(*ssa.IndexAddr); ok {
					if _, ok := ia.X.(*ssa.Alloc); ok {
						return true
					}
				}
				if _, ok := x.Addr.(*ssa.IndexAddr); ok {
					return true
				}
			}
		case *ssa.Phi:
			if pointerAppended(x) {
				return true
			}
		}
	}
	return false
}

func pointerSourceHeld(v ssa.Value, depth int) bool {
	if depth > 4 {
		return false
	}
	switch x := v.(type) {
	case *ssa.IndexAddr:
		return true
	case *ssa.Alloc:
		return x.Heap && pointerAppended(x)
	case *ssa.Phi:
		for _, e := range x.Edges {
			if pointerSourceHeld(e, depth+1) {
				return true
			}
		}
	case *ssa.UnOp:
		// a pointer loaded from a list element
		if x.Op == token.MUL {
			if _, ok := x.X.(*ssa.IndexAddr); ok {
				return true
			}
		}
	}
	return false
}

// ---- qtravel: qualities move with their letters ---------------------------------

// ruleQTravel: in RevComp/Reverse of the quality-carrying sequence types,
// whenever the letter field L of an element is stored, the quality field Q of
// an element is stored too (or whole elements are swapped): qualities travel
// with their letters.
func ruleQTravel(c *Ctx, rule string, targets [][2]string) {
	for _, t := range targets {
		fn := c.fn(t[0], t[1])
		key := funcName(fn) + "/Q-stored-wherever-L-is"
		fields := map[string]token.Pos{}
		whole := false
		var blocks []*ssa.BasicBlock
		for _, g := range privateReach(fn) { // the method and the private helpers it hands the columns to
			if g.Pkg == fn.Pkg {
				blocks = append(blocks, g.Blocks...)
			}
		}
		for _, b := range blocks {
			for _, ins := range b.Instrs {
				st, ok := ins.(*ssa.Store)
				if !ok {
					continue
				}
				switch a := st.Addr.(type) {
				case *ssa.FieldAddr:
					if ia, ok := a.X.(*ssa.IndexAddr); ok {
						_ = ia
						if isNamed(a.X.Type().Underlying().(*types.Pointer).Elem(), modPath+"/alphabet", "QLetter") {
							name, _ := anyFieldName(a)
							fields[name] = st.Pos()
						}
					}
				case *ssa.IndexAddr:
					if pt, ok := a.Type().Underlying().(*types.Pointer); ok {
						el := pt.Elem()
						if sl, ok := el.Underlying().(*types.Slice); ok {
							el = sl.Elem() // a whole column of quality letters
						}
						if isNamed(el, modPath+"/alphabet", "QLetter") {
							whole = true
						}
					}
				}
			}
		}
		_, hasL := fields["L"]
		_, hasQ := fields["Q"]
		switch {
		case hasL && !hasQ && !whole:
			c.bad(rule, key, fields["L"], "the letters of the elements are rewritten field by field but their quality scores are never stored: after the reversal each letter carries the quality of the letter that used to be at its new position")
		case hasL || whole:
			c.ok(rule, key, fn.Pos(), "quality scores are stored together with the letters (field-wise or as whole elements)")
		default:
			c.und(rule, key, fn.Pos(), "the method stores no QLetter element; idiom not understood")
		}
	}
}

// ---- tablefill: loops that fill a lookup table cover the whole table -------------

// tableLen: number of entries of the table behind an IndexAddr base, if it
// is an array or a slice made with a constant length in fn.
func tableLen(base ssa.Value, fn *ssa.Function) (int64, bool) {
	if pt, ok := base.Type().Underlying().(*types.Pointer); ok {
		if arr, ok := pt.Elem().Underlying().(*types.Array); ok {
			return arr.Len(), true
		}
	}
	switch x := base.(type) {
	case *ssa.MakeSlice:
		return constIntVal(x.Len)
	case *ssa.UnOp:
		if x.Op == token.MUL {
			if fa, ok := x.X.(*ssa.FieldAddr); ok {
				// a slice-typed field: look for the make() stored into it in this function
				for _, b := range fn.Blocks {
					for _, ins := range b.Instrs {
						if st, ok := ins.(*ssa.Store); ok {
							if f2, ok := st.Addr.(*ssa.FieldAddr); ok && f2.Field == fa.Field && types.Identical(f2.X.Type(), fa.X.Type()) {
								switch mk := st.Val.(type) {
								case *ssa.MakeSlice:
									return constIntVal(mk.Len)
								case *ssa.Slice: // make with constant size: new [N]T; slice [:N]
									return tableLen(mk, fn)
								}
							}
						}
					}
				}
				// composite literal &T{f: make(...)} stores through the fresh object
			}
		}
	case *ssa.Slice:
		if x.Low == nil {
			if x.High == nil {
				return tableLen(x.X, fn)
			}
			return constIntVal(x.High)
		}
	}
	return 0, false
}

// ruleTableFill: in the alphabet constructors, a loop whose counter indexes
// a fixed-size lookup table (stores table[i] = ...) runs over the whole
// table: its bound equals the table's length. A narrower bound leaves the
// upper entries with their zero value — index 0 ("valid letter a") for bytes
// that must be invalid, or an unflagged complement entry.
func ruleTableFill(c *Ctx, rule string, names ...string) {
	for _, name := range names {
		fn := c.fn("alphabet", name)
		loops := naturalLoops(fn)
		n := 0
		seen := map[*ssa.Phi]bool{}
		for _, b := range fn.Blocks {
			for _, ins := range b.Instrs {
				st, ok := ins.(*ssa.Store)
				if !ok {
					continue
				}
				ia, ok := st.Addr.(*ssa.IndexAddr)
				if !ok {
					continue
				}
				phi, a, ok := linearIn(ia.Index)
				if !ok {
					continue
				}
				N, ok := tableLen(ia.X, fn)
				if !ok || N < 2 {
					continue
				}
				head := phi.Block()
				var drive *ssaLoop
				for _, lp := range loops {
					if lp.head == head {
						drive = lp
					}
				}
				if drive == nil || seen[phi] {
					continue
				}
				ifi, ok := head.Instrs[len(head.Instrs)-1].(*ssa.If)
				if !ok {
					continue
				}
				bo, ok := ifi.Cond.(*ssa.BinOp)
				if !ok || bo.Op != token.LSS {
					continue
				}
				cphi, d, ok := linearIn(bo.X)
				if !ok || cphi != phi {
					continue
				}
				// the bound
				var B int64
				okB := false
				if k, isK := constIntVal(bo.Y); isK {
					B, okB = k, true
				} else if lc := builtinCall(bo.Y, "len"); lc != nil {
					B, okB = tableLen(lc.Call.Args[0], fn)
				}
				var s0 int64
				found := false
				for i, p := range head.Preds {
					if !drive.body[p] {
						if k, ok := constIntVal(phi.Edges[i]); ok {
							s0, found = k, true
						}
					}
				}
				if !okB || !found {
					continue
				}
				seen[phi] = true
				n++
				first, last := s0+a, B-1-d+a
				key := fmt.Sprintf("alphabet.%s/table-fill-loop#%d", name, n)
				if first == 0 && last == N-1 {
					c.ok(rule, key, st.Pos(), fmt.Sprintf("the loop writes entries 0..%d of a %d-entry table", last, N))
				} else {
					c.bad(rule, key, st.Pos(), fmt.Sprintf("the loop writes entries %d..%d of a %d-entry table: the remaining entries keep their zero value (index 0 / unflagged) although they must be marked invalid", first, last, N))
				}
			}
		}
		if n == 0 {
			c.und(rule, "alphabet."+name+"/table-fill-loop", fn.Pos(), "no counter-indexed table fill found")
		}
	}
}

// ---- indexspace: slice indices are not sequence coordinates -----------------------

// ruleIndexSpace: a parameter of ForEachKmerOf that is used as a subscript
// of s.Seq is a slice index, not a position in sequence coordinates (the
// function does not subtract the sequence's offset). Every call site in the
// module must therefore pass indices: a value obtained from the sequence's
// Start()/End() (coordinates) is off by the offset whenever that is non-zero.
func ruleIndexSpace(c *Ctx, rule string) {
	fn := c.fn("index/kmerindex", "(*Index).ForEachKmerOf")
	// parameters that (through the loop counters they initialise or bound) index s.Seq
	idxParam := map[int]bool{}
	{
		for _, rd := range seqReadsOf(fn) {
			ia := struct{ Index ssa.Value }{rd.index}
			// the counter: a phi seeded from a parameter, and bounded by a parameter
			if phi, _, ok := linearIn(ia.Index); ok {
				var walk func(v ssa.Value, d int)
				seen := map[ssa.Value]bool{}
				walk = func(v ssa.Value, d int) {
					if d > 6 || seen[v] {
						return
					}
					seen[v] = true
					switch x := v.(type) {
					case *ssa.Parameter:
						if i := paramIndex(fn, x); i >= 0 {
							idxParam[i] = true
						}
					case *ssa.Phi:
						for _, e := range x.Edges {
							walk(e, d+1)
						}
					case *ssa.BinOp:
						walk(x.X, d+1)
						walk(x.Y, d+1)
					}
				}
				walk(phi, 0)
				// the loop bound compared with the counter
				if ifi, ok := phi.Block().Instrs[len(phi.Block().Instrs)-1].(*ssa.If); ok {
					if bo, ok := ifi.Cond.(*ssa.BinOp); ok {
						walk(bo.Y, 0)
					}
				}
			}
		}
	}
	// parameters used as the bounds of a cut of the letters (letters := s.Seq[start:end]) are subscripts too
	for _, b := range fn.Blocks {
		for _, ins := range b.Instrs {
			sl, ok := ins.(*ssa.Slice)
			if !ok {
				continue
			}
			ld, ok := sl.X.(*ssa.UnOp)
			if !ok || ld.Op != token.MUL {
				continue
			}
			fa, ok := ld.X.(*ssa.FieldAddr)
			if !ok || structFieldName(fa.X.Type(), fa.Field) != "Seq" {
				continue
			}
			for _, bd := range []ssa.Value{sl.Low, sl.High} {
				if prm, ok := bd.(*ssa.Parameter); ok {
					if i := paramIndex(fn, prm); i >= 0 {
						idxParam[i] = true
					}
				}
			}
		}
	}
	// integer parameters only
	for i := range idxParam {
		if b, ok := fn.Params[i].Type().Underlying().(*types.Basic); !ok || b.Info()&types.IsInteger == 0 {
			delete(idxParam, i)
		}
	}
	if len(idxParam) == 0 {
		c.und(rule, "kmerindex.(*Index).ForEachKmerOf/index-parameters", fn.Pos(), "no parameter of ForEachKmerOf is used to index s.Seq")
		return
	}
	isCoordinate := func(v ssa.Value) string {
		v = stripConv(v)
		call, ok := v.(*ssa.Call)
		if !ok {
			return ""
		}
		name := ""
		if call.Call.IsInvoke() {
			name = call.Call.Method.Name()
		} else if g := call.Call.StaticCallee(); g != nil && g.Signature.Recv() != nil {
			name = g.Name()
		}
		if name == "Start" || name == "End" {
			return name + "()"
		}
		return ""
	}
	n := 0
	for _, pkg := range c.Prog.AllPackages() {
		if !inModulePkg(pkg) {
			continue
		}
		for _, f := range srcFuncs(pkg) {
			for _, b := range f.Blocks {
				for _, ins := range b.Instrs {
					ci, ok := ins.(ssa.CallInstruction)
					if !ok || ci.Common().StaticCallee() != fn {
						continue
					}
					for i := range idxParam {
						if i >= len(ci.Common().Args) {
							continue
						}
						n++
						c.Funcs[funcName(f)] = true
						key := fmt.Sprintf("%s/ForEachKmerOf-arg-%s#%d", funcName(f), fn.Params[i].Name(), n)
						if what := isCoordinate(ci.Common().Args[i]); what != "" {
							c.bad(rule, key, ins.Pos(), "ForEachKmerOf uses its "+fn.Params[i].Name()+" parameter as a subscript of s.Seq, but this call passes the sequence's "+what+", a position in sequence coordinates: for a sequence with a non-zero offset the first windows are skipped and the scan runs past the end of the letters")
						} else {
							c.ok(rule, key, ins.Pos(), "passes a slice index (not a Start()/End() coordinate)")
						}
					}
				}
			}
		}
	}
	if n == 0 {
		c.und(rule, "kmerindex/ForEachKmerOf-call-sites", fn.Pos(), "no static call of ForEachKmerOf found")
	}
}

func inModulePkg(p *ssa.Package) bool {
	return p != nil && p.Pkg != nil && (p.Pkg.Path() == modPath || len(p.Pkg.Path()) > len(modPath) && p.Pkg.Path()[:len(modPath)+1] == modPath+"/")
}

// ---- pooldrain: the buffer parked in the pool each cycle is taken back -----------

// rulePoolDrain: every cycle parks one sort buffer in m.pool that nobody
// receives during the cycle (the synchronous last write of Finalise, or the
// exhausted in-memory chunk in Pull). The pool has a small fixed capacity, so
// the per-cycle reset must take a buffer back out; otherwise the third cycle
// blocks forever on the send.
func rulePoolDrain(c *Ctx, rule string) {
	clear := c.fn("morass", "(*Morass).Clear")
	recvs := 0
	for _, cf := range pkgReach(clear) {
		for _, b := range cf.Blocks {
			for _, ins := range b.Instrs {
				switch x := ins.(type) {
				case *ssa.UnOp:
					if x.Op == token.ARROW && loadOfField(x.X, morassPkg, "Morass", "pool") {
						recvs++
					}
				case *ssa.Select:
					for _, st := range x.States {
						if st.Dir == types.RecvOnly && loadOfField(st.Chan, morassPkg, "Morass", "pool") {
							recvs++
						}
					}
				}
			}
		}
	}
	// sends that are not matched inside the cycle: count sends on pool in the package
	sends := 0
	for _, f := range srcFuncs(clear.Pkg) {
		for _, b := range f.Blocks {
			for _, ins := range b.Instrs {
				if s, ok := ins.(*ssa.Send); ok && loadOfField(s.Chan, morassPkg, "Morass", "pool") {
					sends++
				}
			}
		}
	}
	key := "morass.(*Morass).Clear/takes-a-buffer-from-pool"
	switch {
	case sends == 0:
		c.triv(rule, key, clear.Pos(), "nothing is ever parked in a pool")
	case recvs > 0:
		c.ok(rule, key, clear.Pos(), fmt.Sprintf("Clear receives from the pool (%d send sites park buffers there)", sends))
	default:
		c.bad(rule, key, clear.Pos(), fmt.Sprintf("buffers are parked in m.pool at %d sites each cycle but Clear never receives from it: the fixed-capacity pool fills up and, from the third cycle on, the send in Pull (in-memory cycle) or in the chunk writer (Finalise then waits forever) blocks", sends))
	}
}

// ---- noskip: a record line is discarded only if blank or a '#' comment ------------

// ruleNoSkip: in the one-line-per-record readers (bed.Reader.Read,
// gff.Reader.Read) every point from which another line is read without the
// current one having produced a record or an error — a loop back to the read,
// a self-call, a call of a function that calls Read again — is reached only
// when the current line is empty or starts with '#'. Any other content test
// can match a valid record (a chromosome named "tracker_1"), which is then
// written but never read back.
func ruleNoSkip(c *Ctx, rule string, targets [][2]string) {
	for _, t := range targets {
		fn := c.fn(t[0], t[1])
		// functions that can reach fn again
		reachesFn := map[*ssa.Function]bool{}
		var reach func(g *ssa.Function, seen map[*ssa.Function]bool) bool
		reach = func(g *ssa.Function, seen map[*ssa.Function]bool) bool {
			if g == fn {
				return true
			}
			if seen[g] || g.Blocks == nil || !inModule(g) {
				return false
			}
			seen[g] = true
			for _, b := range g.Blocks {
				for _, ins := range b.Instrs {
					if ci, ok := ins.(ssa.CallInstruction); ok {
						if h := ci.Common().StaticCallee(); h != nil && reach(h, seen) {
							return true
						}
					}
				}
			}
			return false
		}
		var readCall *ssa.Call
		for _, b := range fn.Blocks {
			for _, ins := range b.Instrs {
				if call, ok := ins.(*ssa.Call); ok && isBufioMethod(call, "ReadBytes", "ReadString", "ReadSlice", "ReadLine") {
					readCall = call
				}
			}
		}
		if readCall == nil {
			// the read may sit in a helper of the reader that hands the line back (nextLine)
			for _, b := range fn.Blocks {
				for _, ins := range b.Instrs {
					call, ok := ins.(*ssa.Call)
					if !ok {
						continue
					}
					h := call.Call.StaticCallee()
					if h == nil || h.Pkg != fn.Pkg || h == fn || h.Blocks == nil || h.Signature.Results().Len() == 0 || !isByteSlice(h.Signature.Results().At(0).Type()) {
						continue
					}
					for _, hb := range h.Blocks {
						for _, hi := range hb.Instrs {
							if hc, ok := hi.(*ssa.Call); ok && isBufioMethod(hc, "ReadBytes", "ReadString", "ReadSlice", "ReadLine") && readCall == nil {
								readCall = call
							}
						}
					}
				}
			}
		}
		if readCall == nil {
			c.und(rule, funcName(fn)+"/read", fn.Pos(), "no line read found")
			continue
		}
		// re-read points
		type point struct {
			blk *ssa.BasicBlock
			pos token.Pos
			how string
			own *branchFact // the latch's own branch towards the loop head
		}
		var pts []point
		for _, b := range fn.Blocks {
			for _, ins := range b.Instrs {
				if ci, ok := ins.(ssa.CallInstruction); ok {
					if h := ci.Common().StaticCallee(); h != nil && inModule(h) {
						if _, known := reachesFn[h]; !known {
							reachesFn[h] = reach(h, map[*ssa.Function]bool{})
						}
						if reachesFn[h] {
							pts = append(pts, point{blk: b, pos: ins.Pos(), how: "calls " + funcName(h) + ", which reads the next line"})
						}
					}
				}
			}
		}
		for _, lp := range naturalLoops(fn) {
			if !lp.body[readCall.Block()] {
				continue
			}
			// the loop is steered by a flag (for isFeature := false; !isFeature; { ... isFeature = line[0] != '#' }):
			// one point per value the flag receives inside the loop that lets the loop go round again
			if ifh, ok := lp.head.Instrs[len(lp.head.Instrs)-1].(*ssa.If); ok {
				cond, contWhen := ifh.Cond, lp.body[lp.head.Succs[0]] && lp.head.Succs[0] != lp.head
				if u, ok := cond.(*ssa.UnOp); ok && u.Op == token.NOT {
					cond, contWhen = u.X, !contWhen
				}
				if flag, ok := cond.(*ssa.Phi); ok && flag.Block() == lp.head {
					for _, lf := range headerLeaves(lp, flag) {
						switch v := lf.v.(type) {
						case *ssa.Const:
							if v.Value != nil && v.Value.Kind() == constant.Bool && constant.BoolVal(v.Value) == contWhen {
								pts = append(pts, point{blk: lf.from, pos: readCall.Pos(), how: "loops back to the read"})
							}
						case *ssa.BinOp:
							e := 1
							if contWhen {
								e = 0
							}
							pts = append(pts, point{blk: lf.from, pos: readCall.Pos(), how: "loops back to the read", own: &branchFact{v, e}})
						default:
							pt := point{blk: lf.from, pos: readCall.Pos(), how: "loops back to the read"}
							// an empty case: the value comes straight from the block that tested the case
							if ifi, ok := lf.from.Instrs[len(lf.from.Instrs)-1].(*ssa.If); ok {
								if bo, ok := ifi.Cond.(*ssa.BinOp); ok {
									for e, sblk := range lf.from.Succs {
										if sblk == lf.to {
											pt.own = &branchFact{bo, e}
										}
									}
								}
							}
							pts = append(pts, pt)
						}
					}
					continue
				}
			}
			for _, p := range lp.head.Preds {
				if lp.body[p] {
					pt := point{blk: p, pos: readCall.Pos(), how: "loops back to the read"}
					if ifi, ok := p.Instrs[len(p.Instrs)-1].(*ssa.If); ok {
						if bo, ok := ifi.Cond.(*ssa.BinOp); ok {
							for e, sblk := range p.Succs {
								if sblk == lp.head {
									pt.own = &branchFact{bo, e}
								}
							}
						}
					}
					pts = append(pts, pt)
				}
			}
		}
		lineViews := (&bufAlias{}).views([]ssa.Value{extractOf(readCall, 0)}, readCall)
		isView := func(v ssa.Value) bool { _, ok := lineViews[v]; return ok }
		n := 0
		for _, pt := range pts {
			n++
			key := fmt.Sprintf("%s/next-line-without-record#%d", funcName(fn), n)
			okSkip := false
			facts := branchesAt(pt.blk)
			if pt.own != nil {
				facts = append(facts, *pt.own)
			}
			for _, bf := range facts {
				x, y := bf.cond.X, bf.cond.Y
				// len(line) == 0
				if lc := builtinCall(x, "len"); lc != nil && isView(lc.Call.Args[0]) {
					if k, ok := constIntVal(y); ok && k == 0 && effectiveOp(bf, true) == token.EQL {
						okSkip = true
					}
				}
				// line[0] == '#'
				if u, ok := x.(*ssa.UnOp); ok && u.Op == token.MUL {
					if ia, ok := u.X.(*ssa.IndexAddr); ok && isView(ia.X) {
						if i0, ok := constIntVal(ia.Index); ok && i0 == 0 {
							if k, ok := constIntVal(y); ok && k == '#' && effectiveOp(bf, true) == token.EQL {
								okSkip = true
							}
						}
					}
				}
			}
			// HasPrefix(line, "#…") true on the way
			for d := pt.blk; d != nil; d = d.Idom() {
				ifi, ok := d.Instrs[len(d.Instrs)-1].(*ssa.If)
				if !ok || d == pt.blk && len(d.Succs) == 2 {
					continue
				}
				call, ok := ifi.Cond.(*ssa.Call)
				if !ok || !(calleeIs(&call.Call, "bytes", "HasPrefix") || calleeIs(&call.Call, "strings", "HasPrefix")) || !isView(call.Call.Args[0]) {
					continue
				}
				if forcedEdge(d, pt.blk) != 0 {
					continue
				}
				if lit := byteSliceLiteral(call.Call.Args[1]); len(lit) > 0 && lit[0] == '#' {
					okSkip = true
				}
			}
			if okSkip {
				c.ok(rule, key, pt.pos, "the next line is read only after the current one was found blank or a '#' comment/directive")
			} else {
				c.bad(rule, key, pt.pos, "this point "+pt.how+" although the current line is neither blank nor a '#' line on every path here: a well-formed record whose text happens to satisfy the test is written by the writer but silently skipped by the reader")
			}
		}
		if n == 0 {
			c.ok(rule, funcName(fn)+"/one-line-per-call", fn.Pos(), "Read never reads a second line: every line yields a record or an error")
		}
	}
}

// byteSliceLiteral recovers the constant bytes of []byte("…") / []byte{…}.
func byteSliceLiteral(v ssa.Value) []byte {
	switch x := v.(type) {
	case *ssa.Convert:
		if k, ok := x.X.(*ssa.Const); ok && k.Value != nil && k.Value.Kind() == constant.String {
			return []byte(constant.StringVal(k.Value))
		}
	case *ssa.Slice:
		if a, ok := x.X.(*ssa.Alloc); ok {
			out := []byte{}
			for _, r := range *a.Referrers() {
				if ia, ok := r.(*ssa.IndexAddr); ok {
					for _, rr := range *ia.Referrers() {
						if st, ok := rr.(*ssa.Store); ok {
							if i, ok := constIntVal(ia.Index); ok {
								if k, ok := constIntVal(st.Val); ok {
									for int64(len(out)) <= i {
										out = append(out, 0)
									}
									out[i] = byte(k)
								}
							}
						}
					}
				}
			}
			return out
		}
	case *ssa.Const:
		if x.Value != nil && x.Value.Kind() == constant.String {
			return []byte(constant.StringVal(x.Value))
		}
	case *ssa.UnOp:
		// a package-level variable holding the literal (var metaPrefix = []byte("##")) that nothing writes
		g, ok := x.X.(*ssa.Global)
		if !ok || x.Op != token.MUL || g.Pkg == nil {
			return nil
		}
		init := g.Pkg.Func("init")
		if init == nil || storedOutsideInit(g, init) {
			return nil
		}
		var val ssa.Value
		n := 0
		for _, b := range init.Blocks {
			for _, ins := range b.Instrs {
				if st, ok := ins.(*ssa.Store); ok && st.Addr == ssa.Value(g) {
					val = st.Val
					n++
				}
			}
		}
		if n != 1 {
			return nil
		}
		// no element of it is written through a loaded copy of the slice
		for _, m := range g.Pkg.Members {
			fn, ok := m.(*ssa.Function)
			if !ok {
				continue
			}
			fns := append([]*ssa.Function{fn}, fn.AnonFuncs...)
			for _, f := range fns {
				for _, b := range f.Blocks {
					for _, ins := range b.Instrs {
						st, ok := ins.(*ssa.Store)
						if !ok {
							continue
						}
						if ia, ok := st.Addr.(*ssa.IndexAddr); ok {
							if ld, ok := ia.X.(*ssa.UnOp); ok && ld.X == ssa.Value(g) {
								return nil
							}
						}
					}
				}
			}
		}
		return byteSliceLiteral(val)
	}
	return nil
}

// ---- padfromends: Flush pads by a difference of like coordinates ------------------

// rulePadFromEnds: the number of fill letters Flush gives a row is the
// distance between the alignment's edge and the row's edge on the same side:
// a difference of two Start() values or of two End() values. A difference of
// lengths agrees with it only when all rows start at the same offset.
func rulePadFromEnds(c *Ctx, rule string) {
	fn := c.fn("seq/multi", "(*Multi).Flush")
	reach := pkgReach(fn) // Flush and the private helpers it hands rows to
	var coord func(v ssa.Value, d int) string
	coord = func(v ssa.Value, d int) string {
		if d > 6 {
			return "?"
		}
		switch x := v.(type) {
		case *ssa.Parameter:
			// what the callers pass
			res := ""
			pi := paramIndex(x.Parent(), x)
			for _, g := range reach {
				for _, b := range g.Blocks {
					for _, ins := range b.Instrs {
						if ci, ok := ins.(ssa.CallInstruction); ok && ci.Common().StaticCallee() == x.Parent() && pi >= 0 && pi < len(ci.Common().Args) {
							k := coord(ci.Common().Args[pi], d+1)
							if res == "" {
								res = k
							} else if res != k {
								return "?"
							}
						}
					}
				}
			}
			if res == "" {
				return "?"
			}
			return res
		case *ssa.Call:
			name := ""
			if x.Call.IsInvoke() {
				name = x.Call.Method.Name()
			} else if g := x.Call.StaticCallee(); g != nil {
				name = g.Name()
			}
			switch name {
			case "Start", "End", "Len":
				return name
			}
			return "?"
		case *ssa.Phi:
			res := ""
			for _, e := range x.Edges {
				k := coord(e, d+1)
				if res == "" {
					res = k
				} else if res != k {
					return "?"
				}
			}
			return res
		case *ssa.Convert:
			return coord(x.X, d+1)
		}
		return "?"
	}
	n := 0
	for _, rf := range reach {
		for _, b := range rf.Blocks {
			for _, ins := range b.Instrs {
				call, ok := ins.(*ssa.Call)
				if !ok {
					continue
				}
				g := call.Call.StaticCallee()
				if g == nil || g.Name() != "Repeat" || len(call.Call.Args) < 2 {
					continue
				}
				n++
				key := fmt.Sprintf("multi.(*Multi).Flush/pad-length#%d", n)
				cnt := callerArg(call.Call.Args[len(call.Call.Args)-1], fn) // a helper's count parameter: what Flush passes
				bo, ok := cnt.(*ssa.BinOp)
				if !ok || bo.Op != token.SUB {
					c.und(rule, key, call.Pos(), "the pad length is not a difference")
					continue
				}
				l, r := coord(bo.X, 0), coord(bo.Y, 0)
				// a row is padded as soon as it is one column short: the guard on the way to the padding admits
				// a pad length of 1
				guardBlocks := []*ssa.BasicBlock{call.Block()}
				if prm, ok := call.Call.Args[len(call.Call.Args)-1].(*ssa.Parameter); ok {
					for _, g := range reach {
						for _, gb := range g.Blocks {
							for _, gi := range gb.Instrs {
								if ci, ok := gi.(ssa.CallInstruction); ok && ci.Common().StaticCallee() == prm.Parent() {
									guardBlocks = append(guardBlocks, gb)
								}
							}
						}
					}
				}
				cntForm := linOf(cnt, nil)
				tooStrict := int64(0)
				for _, gb := range guardBlocks {
					for _, bf := range branchesAt(gb) {
						f, ok := strictForm(bf.cond, bf.edge, nil)
						if !ok {
							continue
						}
						// f < 0 with f = K - 1 - cnt means cnt >= K
						if sum := f.add(cntForm, 1); sum.isConst() && sum.k+1 > 1 {
							tooStrict = sum.k + 1
						}
					}
				}
				if tooStrict > 0 {
					c.bad(rule, key, call.Pos(), fmt.Sprintf("the padding is done only when the row is at least %d columns short: a row exactly one column short of the alignment's edge is left as it is, so the alignment is not flush after Flush and a column at that edge has fewer letters than there are rows", tooStrict))
					continue
				}
				switch {
				case (l == "Start" && r == "Start") || (l == "End" && r == "End"):
					c.ok(rule, key, call.Pos(), "pad length = difference of two "+l+"() coordinates")
				case l == "Len" || r == "Len":
					c.bad(rule, key, call.Pos(), "the pad length is computed from lengths ("+l+"() - "+r+"()) instead of the distance between the alignment's edge and the row's edge: rows that do not start where the alignment starts are over-padded by their offset, so the alignment grows and is still not flush")
				default:
					c.und(rule, key, call.Pos(), "cannot tell what the pad length is a difference of ("+l+", "+r+")")
				}
			}
		}
	}
	if n == 0 {
		c.und(rule, "multi.(*Multi).Flush/pad-length", fn.Pos(), "no Repeat(...) padding found")
	}
}

// ---- signround: rounding to a signed score is symmetric about zero ----------------

// ruleSignRound: a float converted to the signed Solexa score type is first
// rounded to nearest in a sign-aware way: both `+ 0.5` and `- 0.5` reach the
// conversion (selected by the sign), or math.Round is used. `+ 0.5` alone
// followed by the truncating conversion rounds negative values towards zero.
func ruleSignRound(c *Ctx, rule string) {
	p := c.pkg("alphabet")
	n := 0
	nPhred := 0
	for _, f := range srcFuncs(c.SPkgs[p.PkgPath]) {
		for _, b := range f.Blocks {
			for _, ins := range b.Instrs {
				cv, ok := ins.(*ssa.Convert)
				if !ok || !(isNamed(cv.Type(), p.PkgPath, "Qsolexa") || isNamed(cv.Type(), p.PkgPath, "Qphred")) {
					continue
				}
				if bt, ok := cv.X.Type().Underlying().(*types.Basic); !ok || bt.Info()&types.IsFloat == 0 {
					continue
				}
				unsigned := isNamed(cv.Type(), p.PkgPath, "Qphred")
				c.Funcs[funcName(f)] = true
				var key string
				if unsigned {
					nPhred++
					key = fmt.Sprintf("%s/float-to-Qphred#%d", funcName(f), nPhred)
				} else {
					n++
					key = fmt.Sprintf("%s/float-to-Qsolexa#%d", funcName(f), n)
				}
				plus, minus, round := false, false, false
				var halves []*ssa.BinOp
				seen := map[ssa.Value]bool{}
				var walk func(v ssa.Value, d int)
				walk = func(v ssa.Value, d int) {
					if d > 8 || seen[v] {
						return
					}
					seen[v] = true
					switch x := v.(type) {
					case *ssa.Phi:
						for _, e := range x.Edges {
							walk(e, d+1)
						}
					case *ssa.BinOp:
						// Q + math.Copysign(0.5, Q): half a unit with the sign of the value being rounded
						if x.Op == token.ADD {
							for i, side := range []ssa.Value{x.X, x.Y} {
								other := []ssa.Value{x.Y, x.X}[i]
								call, ok := side.(*ssa.Call)
								if !ok {
									continue
								}
								g := call.Call.StaticCallee()
								if g == nil || g.Pkg == nil || g.Pkg.Pkg.Path() != "math" || g.Name() != "Copysign" {
									continue
								}
								if k, ok := call.Call.Args[0].(*ssa.Const); ok && k.Value != nil && k.Value.ExactString() == "1/2" {
									if call.Call.Args[1] == other {
										round = true
									} else {
										plus = true // the sign is taken from something else: no better than a fixed half
									}
								}
							}
						}
						if k, ok := x.Y.(*ssa.Const); ok && k.Value != nil && k.Value.ExactString() == "1/2" {
							if x.Op == token.ADD {
								plus = true
								halves = append(halves, x)
							}
							if x.Op == token.SUB {
								minus = true
								halves = append(halves, x)
							}
						}
					case *ssa.Call:
						// a helper of the module that does the rounding: what it returns
						if g := x.Call.StaticCallee(); g != nil && inModule(g) && g.Blocks != nil && g.Signature.Results().Len() == 1 {
							for _, r := range returnsOf(g) {
								walk(r.Results[0], d+1)
							}
						}
						if g := x.Call.StaticCallee(); g != nil && g.Pkg != nil && g.Pkg.Pkg.Path() == "math" {
							switch g.Name() {
							case "Min", "Max":
								// a clamp: what is being clamped
								for _, a := range x.Call.Args {
									walk(a, d+1)
								}
							case "Round", "RoundToEven":
								round = true
							case "Floor", "Ceil":
								// Floor(x+0.5) and Ceil(x-0.5) round to nearest for either sign
								if bo, ok := x.Call.Args[0].(*ssa.BinOp); ok {
									if k, ok := bo.Y.(*ssa.Const); ok && k.Value != nil && k.Value.ExactString() == "1/2" {
										if (g.Name() == "Floor" && bo.Op == token.ADD) || (g.Name() == "Ceil" && bo.Op == token.SUB) {
											round = true
										}
									}
								}
							}
						}
					}
				}
				walk(cv.X, 0)
				// when the half is chosen by a test, the test must be on the sign of the value being rounded
				wrongTest := ""
				if plus && minus && !round {
					for _, h := range halves {
						for d := h.Block().Idom(); d != nil; d = d.Idom() {
							if ifi, ok := d.Instrs[len(d.Instrs)-1].(*ssa.If); ok {
								if bo, ok := ifi.Cond.(*ssa.BinOp); ok && bo.X != h.X && bo.Y != h.X {
									wrongTest = symName(bo.X, nil)
								}
								break
							}
						}
					}
				}
				// one half only, added on the arm of a sign test of the value being rounded (two returns:
				// `if !(Q > 0) { return T(Q - 0.5) }; return T(Q + 0.5)`)
				if !round && plus != minus && len(halves) > 0 {
					signed := true
					for _, h := range halves {
						okHere := false
						for _, bf := range branchesAt(cv.Block()) {
							var op token.Token
							switch {
							case bf.cond.X == h.X:
								if k, isK := bf.cond.Y.(*ssa.Const); !isK || k.Value == nil || constant.Sign(constant.ToFloat(k.Value)) != 0 {
									continue
								}
								op = effectiveOp(bf, true)
							case bf.cond.Y == h.X:
								if k, isK := bf.cond.X.(*ssa.Const); !isK || k.Value == nil || constant.Sign(constant.ToFloat(k.Value)) != 0 {
									continue
								}
								op = effectiveOp(bf, false)
							default:
								continue
							}
							if h.Op == token.ADD && (op == token.GTR || op == token.GEQ) {
								okHere = true
							}
							if h.Op == token.SUB && (op == token.LSS || op == token.LEQ) {
								okHere = true
							}
						}
						if !okHere {
							signed = false
						}
					}
					if signed {
						round = true
					}
				}
				switch {
				case unsigned && (round || plus):
					c.ok(rule, key, cv.Pos(), "half a unit is added (or the value rounded) before the truncating conversion to the unsigned Phred score")
				case unsigned:
					c.bad(rule, key, cv.Pos(), "a float is truncated to the Phred score without adding 0.5 first: the conversion rounds down, so a converted score is not the analytic value rounded to the nearest integer (Solexa 9 becomes Phred 9 instead of 10)")
				case wrongTest != "":
					c.bad(rule, key, cv.Pos(), "the half added before truncation is chosen by a test on "+wrongTest+", not on the sign of the value being rounded: negative values then get +0.5 and are rounded towards zero (−5.87 becomes −5), so the low entries of the conversion are not the analytic value rounded to nearest")
				case round || (plus && minus):
					c.ok(rule, key, cv.Pos(), "rounded to nearest symmetrically before the truncating conversion")
				case plus:
					c.bad(rule, key, cv.Pos(), "a float is converted to the signed Solexa score after adding 0.5 only: negative values are rounded towards zero (−5.87 becomes −5), so conversions of low scores are not the analytically converted value rounded to the nearest integer")
				default:
					c.bad(rule, key, cv.Pos(), "a float is truncated to the signed Solexa score without rounding to nearest")
				}
			}
		}
	}
	if n == 0 {
		c.und(rule, "alphabet/float-to-Qsolexa", token.NoPos, "no float to Qsolexa conversion found")
	}
}

// factsOnEdge: the branch facts that hold when control goes from pred to succ.
func factsOnEdge(pred, succ *ssa.BasicBlock) []branchFact {
	facts := branchesAt(pred)
	if ifi, ok := pred.Instrs[len(pred.Instrs)-1].(*ssa.If); ok {
		if bo, ok := ifi.Cond.(*ssa.BinOp); ok {
			for e, s := range pred.Succs {
				if s == succ {
					facts = append(facts, branchFact{bo, e})
				}
			}
		}
	}
	return facts
}

// boundedOnEdge: v is bounded below and above whenever control flows pred -> succ
// (the clamp idiom: `if n < 0 || n > max { n = max }` keeps n only on the bounded edge).
func boundedOnEdge(v ssa.Value, pred, succ *ssa.BasicBlock) bool {
	lower, upper := false, false
	for _, bf := range factsOnEdge(pred, succ) {
		var op token.Token
		switch {
		case bf.cond.X == v:
			op = effectiveOp(bf, true)
		case bf.cond.Y == v:
			op = effectiveOp(bf, false)
		default:
			continue
		}
		switch op {
		case token.GEQ, token.GTR:
			lower = true
		case token.LSS, token.LEQ:
			upper = true
		case token.EQL:
			lower, upper = true, true
		}
	}
	return lower && upper
}

// isValueOrFreshLoad: v is the value itself, or a load of a local variable
// made in the block where the value was stored into it, after that store and
// before any other store to the variable (err is a variable a deferred closure
// captures: `tf, err = TempFile(); if err != nil`).
func isValueOrFreshLoad(v, stored ssa.Value) bool {
	if v == stored {
		return true
	}
	ld, ok := v.(*ssa.UnOp)
	if !ok || ld.Op != token.MUL {
		return false
	}
	al, ok := ld.X.(*ssa.Alloc)
	if !ok {
		return false
	}
	seenStore := false
	for _, ins := range ld.Block().Instrs {
		if ins == ssa.Instruction(ld) {
			return seenStore
		}
		if st, ok := ins.(*ssa.Store); ok && st.Addr == ssa.Value(al) {
			seenStore = st.Val == stored
		}
	}
	return false
}
