package main

import (
	"strings"

	"golang.org/x/tools/go/callgraph"
	"golang.org/x/tools/go/callgraph/cha"
	"golang.org/x/tools/go/callgraph/vta"
	"golang.org/x/tools/go/ssa"
	"golang.org/x/tools/go/ssa/ssautil"
)

type cgraph struct {
	g    *callgraph.Graph
	kind string
}

// graph returns the whole-program call graph: CHA in the quick tier, CHA
// refined by VTA in the thorough tier (x/tools v0.29.0 has no go/pointer).
func (c *Ctx) graph() *cgraph {
	if c.cg != nil {
		return c.cg
	}
	g := cha.CallGraph(c.Prog)
	kind := "cha"
	if c.VTA {
		g = vta.CallGraph(ssautil.AllFunctions(c.Prog), g)
		kind = "vta"
	}
	cg := &cgraph{g: g, kind: kind}
	c.cg = cg
	return cg
}

func inModule(f *ssa.Function) bool {
	if f == nil {
		return false
	}
	p := f.Pkg
	if p == nil && f.Parent() != nil {
		p = f.Parent().Pkg
	}
	if p == nil {
		// instantiations / wrappers: use the origin
		if o := f.Origin(); o != nil && o.Pkg != nil {
			p = o.Pkg
		}
	}
	return p != nil && strings.HasPrefix(p.Pkg.Path(), modPath)
}

// calleesOf resolves a call site to module functions: the static callee when
// there is one, otherwise the call graph's edges for that site.
func (c *Ctx) calleesOf(site ssa.CallInstruction) []*ssa.Function {
	if f := site.Common().StaticCallee(); f != nil {
		if inModule(f) && f.Blocks != nil {
			return []*ssa.Function{f}
		}
		return nil
	}
	n := c.graph().g.Nodes[site.Parent()]
	if n == nil {
		return nil
	}
	var out []*ssa.Function
	for _, e := range n.Out {
		if e.Site == site && inModule(e.Callee.Func) && e.Callee.Func.Blocks != nil {
			out = append(out, e.Callee.Func)
		}
	}
	return out
}

// reachableFrom returns module functions reachable from root, with BFS
// parents for path reports. Function values created by MakeClosure (and
// function-typed references) are treated as called.
func (c *Ctx) reachableFrom(root *ssa.Function, stop func(*ssa.Function) bool) (order []*ssa.Function, parent map[*ssa.Function]*ssa.Function) {
	parent = map[*ssa.Function]*ssa.Function{root: nil}
	queue := []*ssa.Function{root}
	for len(queue) > 0 {
		f := queue[0]
		queue = queue[1:]
		order = append(order, f)
		visit := func(g *ssa.Function) {
			if g == nil || g.Blocks == nil || !inModule(g) {
				return
			}
			if _, seen := parent[g]; seen {
				return
			}
			if stop != nil && stop(g) {
				return
			}
			parent[g] = f
			queue = append(queue, g)
		}
		for _, b := range f.Blocks {
			for _, ins := range b.Instrs {
				switch ins := ins.(type) {
				case ssa.CallInstruction:
					for _, g := range c.calleesOf(ins) {
						visit(g)
					}
				case *ssa.MakeClosure:
					if g, ok := ins.Fn.(*ssa.Function); ok {
						visit(g)
					}
				}
			}
		}
	}
	return order, parent
}

func pathTo(parent map[*ssa.Function]*ssa.Function, f *ssa.Function) string {
	var names []string
	for x := f; x != nil; x = parent[x] {
		names = append([]string{funcName(x)}, names...)
	}
	return strings.Join(names, " -> ")
}
