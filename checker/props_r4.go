package main

// Explanations of the rules added after the fourth round of seeded changes
// (DESIGN.md §10.3), appended to the registered properties.
func init() {
	extra := map[string]string{
		"C01": "tables/markers also requires both FASTQ header lines to be written by the same routine (the reader compares the text after '+' with the whole '@' line).",
		"C02": "spancheck: where a gff reader rejects a line by comparing the parsed start and end columns, the normal form of the test is end - start1 < 0 (emptiness of [start1-1, end)). linelimit: no bed/gff reader obtains its lines from a bufio.Scanner with the default 64 KiB token limit.",
		"C03": "recovercover: from bed/gff Reader.Read every call path to a package function containing an explicit panic passes a function that defers handlePanic. arrayrange: a subscript of a fixed-size array in package alphabet that is an unguarded affine function of one small-typed value (a byte, an int8 score) takes every value of its exact interval; the interval must lie inside the array.",
		"C04": "linelimit: as C02, for all four readers.",
		"C06": "parallelidx: a loop in Compose that ranges over one slice and indexes another with the same counter requires the ranged slice to be make([]T, len(other)) (or vice versa), not a list built by conditional appends. trimwindow: in Trim the returned start is initialised from q.Start() and takes new values only at the join where the returned end does (the start of a window is committed with its end). nonneglen: every length/capacity handed to Make in Truncate, Stitch and Compose is non-negative by construction (constant, length, max with zero, sums, clamp) or by the dominating range checks (difference constraints).",
		"C07": "flagcases: every path through IsFlush's row loop to the next row carries, for the start and for the end, the unset-flag edge or the equal-coordinate edge. fillwatermark: the prefix-doubling copy loops of Letter.Repeat/QLetter.Repeat end only on watermark >= len(r). reflectnew: no row is created by reflect.New(reflect.TypeOf(v)) of an interface value whose module implementations are pointers (a pointer to a pointer has no methods; the assertion to the row interface panics).",
		"C08": "tablezero: the DP table (the slice stored into at i*c+j) is a fresh make() or explicitly cleared. argmaxlayer: where the traceback chooses its start layer at the final cell it does so by a running maximum (comparison against the best so far), not by two comparisons against the same third layer.",
		"C09": "emitnotscore: no emission of a finished block in a traceback is conditional on the block's accumulated score being non-zero. tablezero: as C08.",
		"C10": "noexpose: no exported method of Index returns (a sub-slice of) the internal pos/finger tables. preloadbound: the exit test of the preload loop implies that the first reported position is >= start (difference constraints). windowpos: position + k - 1 equals the subscript of the letter just shifted in (initial values of the two counters as linear forms, equal steps).",
		"C11": "errslot (as C13): an I/O error swallowed by the writer loses values silently in spilled cycles.",
		"C12": "pooldrain (as C11): a Clear that does not take its buffer from the pool lets a third buffer circulate through the two-slot pool and the next cycle's hand-back blocks.",
		"C13": "gojoin (as C12): the error slot is consulted after the writers have been joined. errslot/propagate also covers any Write/WriteString/Flush/Sync/Seek/Read/Encode/Decode call on a non-module type (a buffering layer put between the sorter and its files).",
		"C14": "tubeend now requires the retired diagonal to be q - MaxError. flushrange: the final tubeEnd and the flush bounds are computed from the last scanned position Qlen - k; the flush starts at the tube of diagonal last + 1 - MaxError (or up to MaxError higher) and reaches at least Tlen + last. tubecap: the ring has at least floor((Tlen + TubeOffset + MaxError - 2)/TubeOffset) + 1 slots for all parameters (linear form before the division).",
		"C15": "selfguard: the self-comparison guard of MergeFilterHit has the normal form -Diagonal - MaxError - 1 < 0 on its discarding edge. paramwire: every dp.NewAligner call takes k from WordSize, minLength from MinHitLength and minId from MinId.",
		"C16": "pileadd with a single look-up: the orientation must be chosen by tests that read every field of the key's element type (otherwise features differing only in an unread field are not ordered). pilemerge: the insertion of the merged interval is on every path from the tree query to a return.",
		"C17": "compmethod: Pairing.Complement returns pair[l], ok[l] (not values recovered from the flagged table). indexinit: a loop filling the index table with -1 dominates every return of an alphabet from newAlphabet.",
		"C18": "convformula: the logarithm in phredSolexaTable is taken of 10^(Q/10) - 1 and in solexaPhredTable of 10^(Q/10) + 1. tableshift: each score table's fill loop stores the entry for score s at index s+c and every lookup reads index score+c. scalepath: seq/quality's QEncode/QDecode use the sequence's own scale with no Qphred<->Qsolexa conversion. Decode offsets taken from a niladic helper method of Encoding are evaluated per encoding.",
		"C19": "addbeforego: every go statement whose goroutine (including its deferred functions) calls WaitGroup.Done is dominated by a WaitGroup.Add in the same loop iteration (or by an Add of a non-constant amount before the loop).",
		"C20": "zerostart: buildExonsFor rejects exactly when the exon set's Start() != 0. querypure: the region/coordinate queries of transcripts and genes (UTR5, UTR3, CDS, Exons, Introns, Orientation, Start, End, Len) and their same-receiver callees store into no receiver field.",
	}
	ic := " intervalcoherent: for every type of the property's packages with straight-line Start(), End() and Len() methods the symbolic linear forms satisfy End - Start - Len == 0."
	for _, id := range []string{"C02", "C05", "C06", "C07", "C16", "C20"} {
		extra[id] += ic
	}
	for id, s := range extra {
		if p := props[id]; p != nil {
			p.Explanation += " " + s
		}
	}
}
