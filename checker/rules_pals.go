// Rules J (formula/wiring) and P (emitguard) for the PALS filter and the
// banded DP kernel.
package main

import (
	"fmt"
	"go/ast"
	"go/constant"
	"go/token"
	"go/types"
	"sort"
	"strings"

	"golang.org/x/tools/go/packages"
	"golang.org/x/tools/go/ssa"
)

// ---- polynomial normal form ------------------------------------------------------

type poly map[string]int64 // monomial (sorted param names joined by *) -> coefficient

func polyConst(k int64) poly { return poly{"": k} }

func (p poly) add(q poly, sign int64) poly {
	r := poly{}
	for m, c := range p {
		r[m] += c
	}
	for m, c := range q {
		r[m] += sign * c
	}
	for m, c := range r {
		if c == 0 {
			delete(r, m)
		}
	}
	return r
}

func (p poly) mul(q poly) poly {
	r := poly{}
	for m1, c1 := range p {
		for m2, c2 := range q {
			var vars []string
			if m1 != "" {
				vars = append(vars, strings.Split(m1, "*")...)
			}
			if m2 != "" {
				vars = append(vars, strings.Split(m2, "*")...)
			}
			sort.Strings(vars)
			r[strings.Join(vars, "*")] += c1 * c2
		}
	}
	for m, c := range r {
		if c == 0 {
			delete(r, m)
		}
	}
	return r
}

func (p poly) String() string {
	var ms []string
	for m := range p {
		ms = append(ms, m)
	}
	sort.Strings(ms)
	var parts []string
	for _, m := range ms {
		if m == "" {
			parts = append(parts, fmt.Sprint(p[m]))
		} else {
			parts = append(parts, fmt.Sprintf("%+d*%s", p[m], m))
		}
	}
	return strings.Join(parts, " ")
}

func polyEqual(a, b poly) bool {
	if len(a) != len(b) {
		return false
	}
	for m, c := range a {
		if b[m] != c {
			return false
		}
	}
	return true
}

// polyOf normalises an integer expression over role-named variables.
func polyOf(p *packages.Package, e ast.Expr, env map[types.Object]poly) (poly, bool) {
	e = unparen(e)
	if k, ok := constInt(p, e); ok {
		return polyConst(k), true
	}
	switch x := e.(type) {
	case *ast.Ident:
		if q, ok := env[p.TypesInfo.ObjectOf(x)]; ok {
			return q, true
		}
	case *ast.UnaryExpr:
		if x.Op == token.SUB {
			q, ok := polyOf(p, x.X, env)
			return polyConst(0).add(q, -1), ok
		}
		if x.Op == token.ADD {
			return polyOf(p, x.X, env)
		}
	case *ast.BinaryExpr:
		a, ok1 := polyOf(p, x.X, env)
		b, ok2 := polyOf(p, x.Y, env)
		if !ok1 || !ok2 {
			return nil, false
		}
		switch x.Op {
		case token.ADD:
			return a.add(b, 1), true
		case token.SUB:
			return a.add(b, -1), true
		case token.MUL:
			return a.mul(b), true
		}
	case *ast.CallExpr: // int(x) conversions
		if tv, ok := p.TypesInfo.Types[x.Fun]; ok && tv.IsType() && len(x.Args) == 1 {
			return polyOf(p, x.Args[0], env)
		}
	}
	return nil, false
}

// ruleUkkonen: MinWordsPerFilterHit(n, k, e) == n + 1 - k*(e+1), and it is
// called with (match length, word size, error bound) in those roles.
func ruleUkkonen(c *Ctx, rule string) {
	fd, p := c.decl("align/pals/filter", "MinWordsPerFilterHit")
	key := "filter.MinWordsPerFilterHit/formula"
	var params []types.Object
	for _, fl := range fd.Type.Params.List {
		for _, n := range fl.Names {
			params = append(params, p.TypesInfo.Defs[n])
		}
	}
	if len(params) != 3 {
		c.und(rule, key, fd.Pos(), "expected three parameters (hit length, word length, max errors)")
		return
	}
	env := map[types.Object]poly{params[0]: {"n": 1}, params[1]: {"k": 1}, params[2]: {"e": 1}}
	var got poly
	okForm := true
	for _, st := range fd.Body.List {
		switch s := st.(type) {
		case *ast.AssignStmt:
			if len(s.Lhs) == 1 && len(s.Rhs) == 1 && (s.Tok == token.DEFINE || s.Tok == token.ASSIGN) {
				if id, ok := s.Lhs[0].(*ast.Ident); ok {
					if q, ok := polyOf(p, s.Rhs[0], env); ok {
						env[p.TypesInfo.ObjectOf(id)] = q
						continue
					}
				}
			}
			okForm = false
		case *ast.ReturnStmt:
			if len(s.Results) == 1 {
				got, okForm = polyOf(p, s.Results[0], env)
			} else {
				okForm = false
			}
		default:
			okForm = false
		}
	}
	want := poly{"": 1, "n": 1, "k": -1, "e*k": -1}
	switch {
	case !okForm || got == nil:
		c.und(rule, key, fd.Pos(), "the body is not straight-line integer arithmetic over its parameters")
	case polyEqual(got, want):
		c.ok(rule, key, fd.Pos(), "normal form "+got.String()+" == n + 1 - k*(e+1) (Ukkonen's q-gram lemma)")
	default:
		c.bad(rule, key, fd.Pos(), "the threshold normalises to "+got.String()+", not to n + 1 - k*(e+1) = "+want.String()+": a larger threshold discards tubes that contain an epsilon-match (false negatives), a smaller one is not the stated filter")
	}
	// wiring: roles of the fields passed at the call site(s)
	newFd, _ := c.decl("align/pals/filter", "New")
	role := map[types.Object]string{}
	ast.Inspect(newFd.Body, func(n ast.Node) bool {
		kv, ok := n.(*ast.KeyValueExpr)
		if !ok {
			return true
		}
		id, ok := kv.Key.(*ast.Ident)
		if !ok {
			return true
		}
		fo := p.TypesInfo.Uses[id]
		switch v := unparen(kv.Value).(type) {
		case *ast.SelectorExpr:
			switch v.Sel.Name {
			case "MinMatch":
				role[fo] = "n"
			case "MaxError":
				role[fo] = "e"
			}
		case *ast.CallExpr:
			if f, ok := calleeOf(p, v).(*types.Func); ok && f.Name() == "K" {
				role[fo] = "k"
			}
		}
		return true
	})
	target := p.TypesInfo.Defs[fd.Name]
	nCalls := 0
	for _, file := range p.Syntax {
		ast.Inspect(file, func(n ast.Node) bool {
			call, ok := n.(*ast.CallExpr)
			if !ok || calleeOf(p, call) != target || len(call.Args) != 3 {
				return true
			}
			nCalls++
			wkey := fmt.Sprintf("filter.MinWordsPerFilterHit/call#%d-roles", nCalls)
			var roles []string
			for _, a := range call.Args {
				r := "?"
				if sel, ok := unparen(a).(*ast.SelectorExpr); ok {
					if s := p.TypesInfo.Selections[sel]; s != nil {
						if rr, ok := role[s.Obj()]; ok {
							r = rr
						}
					}
				}
				roles = append(roles, r)
			}
			if strings.Join(roles, ",") == "n,k,e" {
				c.ok(rule, wkey, call.Pos(), "called with (minimum match length, word size, error bound) in that order")
			} else if strings.Contains(strings.Join(roles, ","), "?") {
				c.und(rule, wkey, call.Pos(), "cannot resolve the roles of the arguments ("+strings.Join(roles, ",")+")")
			} else {
				c.bad(rule, wkey, call.Pos(), "the threshold is computed from ("+strings.Join(roles, ",")+") instead of (n,k,e)")
			}
			return true
		})
	}
	if nCalls == 0 {
		c.und(rule, "filter.MinWordsPerFilterHit/call-roles", fd.Pos(), "the threshold function is never called in package filter")
	}
}

// ---- emit guards (filter) --------------------------------------------------------

// loadOfField: v is a load of <something>.<name> where the struct is pkg.typ.
func loadOfField(v ssa.Value, pkg, typ, name string) bool {
	u, ok := v.(*ssa.UnOp)
	if !ok || u.Op != token.MUL {
		return false
	}
	n, ok := fieldOf(u.X, pkg, typ)
	return ok && n == name
}

type branchFact struct {
	cond *ssa.BinOp
	edge int // 0 = condition true on the way, 1 = false
}

// branchesAt: comparisons that every path to blk has passed, with polarity.
func branchesAt(blk *ssa.BasicBlock) []branchFact {
	var out []branchFact
	for d := blk.Idom(); d != nil; d = d.Idom() {
		ifi, ok := d.Instrs[len(d.Instrs)-1].(*ssa.If)
		if !ok {
			continue
		}
		bo, ok := ifi.Cond.(*ssa.BinOp)
		if !ok {
			// a condition computed as a value (x/tools v0.29 evaluates `case a && b:` of a switch
			// without a tag into a phi of booleans): the comparisons its truth implies
			if e := forcedEdge(d, blk); e >= 0 {
				out = append(out, boolFacts(ifi.Cond, e == 0, 0)...)
			}
			continue
		}
		if e := forcedEdge(d, blk); e >= 0 {
			out = append(out, branchFact{bo, e})
		}
	}
	return out
}

// boolFacts: the comparisons that hold when the boolean value v has the given
// truth: v itself if it is a comparison, the operand of a negation, and for the
// phi that go/ssa builds for a && b (false from the block that tested a, b's
// value from the block behind it) both conjuncts when it is true — dually both
// disjuncts of a || b when it is false.
func boolFacts(v ssa.Value, truth bool, depth int) []branchFact {
	if depth > 4 {
		return nil
	}
	edge := 1
	if truth {
		edge = 0
	}
	switch x := v.(type) {
	case *ssa.BinOp:
		switch x.Op {
		case token.EQL, token.NEQ, token.LSS, token.LEQ, token.GTR, token.GEQ:
			return []branchFact{{x, edge}}
		}
	case *ssa.UnOp:
		if x.Op == token.NOT {
			return boolFacts(x.X, !truth, depth+1)
		}
	case *ssa.Extract:
		if call, ok := x.Tuple.(*ssa.Call); ok {
			return predicateFacts(call, x.Index, truth, depth)
		}
	case *ssa.Call:
		return predicateFacts(x, 0, truth, depth)
	case *ssa.Phi:
		if len(x.Edges) != 2 {
			return nil
		}
		for i := 0; i < 2; i++ {
			k, ok := x.Edges[i].(*ssa.Const)
			if !ok || k.Value == nil || k.Value.Kind() != constant.Bool || constant.BoolVal(k.Value) == truth {
				continue
			}
			// the constant edge cannot have been taken: the value is the other edge's
			a, bb := x.Block().Preds[i], x.Block().Preds[1-i]
			if len(bb.Preds) != 1 || bb.Preds[0] != a {
				continue
			}
			ifa, ok := a.Instrs[len(a.Instrs)-1].(*ssa.If)
			if !ok {
				continue
			}
			out := boolFacts(x.Edges[1-i], truth, depth+1)
			out = append(out, boolFacts(ifa.Cond, a.Succs[0] == bb, depth+1)...)
			return out
		}
	}
	return nil
}

// predicateFacts: the comparisons that hold in the callee when result idx of a
// call to a private predicate of the module (acceptable() (float64, bool)) is
// true: the predicate has exactly one return that can hand back true; what
// dominates that return holds, and so does the returned condition itself. The
// facts are over the callee's values (loads of the same fields, as a rule).
var predicateBusy = map[*ssa.Function]bool{}

func predicateFacts(call *ssa.Call, idx int, truth bool, depth int) []branchFact {
	g := call.Call.StaticCallee()
	if !truth || g == nil || g.Blocks == nil || g.Pkg == nil || !inModulePkg(g.Pkg) || predicateBusy[g] {
		return nil
	}
	if g.Object() != nil && g.Object().Exported() {
		return nil
	}
	predicateBusy[g] = true
	defer delete(predicateBusy, g)
	var only *ssa.Return
	var val ssa.Value
	for _, r := range returnsOf(g) {
		res := effectiveResults(r)
		if idx >= len(res) {
			return nil
		}
		if k, ok := res[idx].(*ssa.Const); ok && k.Value != nil && k.Value.Kind() == constant.Bool && !constant.BoolVal(k.Value) {
			continue
		}
		if only != nil {
			return nil
		}
		only, val = r, res[idx]
	}
	if only == nil {
		return nil
	}
	out := branchesAt(only.Block())
	if _, isK := val.(*ssa.Const); !isK {
		out = append(out, boolFacts(val, true, depth+1)...)
	}
	return out
}

// relation of (X ? Y) effective on the edge, normalised so that `left` is on the left.
func effectiveOp(bf branchFact, leftIsX bool) token.Token {
	op := bf.cond.Op
	if bf.edge == 1 {
		op = negateOp(op)
	}
	if !leftIsX {
		op = flipOp(op)
	}
	return op
}

func ruleFilterEmit(c *Ctx, rule string) {
	pkg := modPath + "/align/pals/filter"
	sp := c.SPkgs[c.pkg("align/pals/filter").PkgPath]
	addHit := c.fn("align/pals/filter", "(*Filter).addHit")
	isCount := func(v ssa.Value) bool { return loadOfField(v, pkg, "tubeState", "Count") }
	isMin := func(v ssa.Value) bool { return loadOfField(v, pkg, "Filter", "minKmersPerHit") }
	nEmit, nReset := 0, 0
	for _, fn := range srcFuncs(sp) {
		for _, b := range fn.Blocks {
			for _, ins := range b.Instrs {
				switch x := ins.(type) {
				case *ssa.Call:
					if x.Call.StaticCallee() != addHit {
						continue
					}
					nEmit++
					c.Funcs[funcName(fn)] = true
					key := fmt.Sprintf("%s/addHit", funcName(fn))
					verdict := ""
					for _, bf := range branchesAt(b) {
						var op token.Token
						switch {
						case isCount(bf.cond.X) && isMin(bf.cond.Y):
							op = effectiveOp(bf, true)
						case isMin(bf.cond.X) && isCount(bf.cond.Y):
							op = effectiveOp(bf, false)
						default:
							continue
						}
						if op == token.GEQ {
							verdict = "ok"
						} else {
							verdict = "the tube is emitted only when Count " + op.String() + " minKmersPerHit"
						}
					}
					switch verdict {
					case "ok":
						c.ok(rule, key, x.Pos(), "emitted on exactly the edge where Count >= minKmersPerHit (inclusive)")
					case "":
						c.bad(rule, key, x.Pos(), "this emission is not controlled by a comparison of the tube's Count with minKmersPerHit itself: a tube holding exactly the q-gram threshold is not guaranteed to be reported (false negative) or tubes below it are")
					default:
						c.bad(rule, key, x.Pos(), verdict+": a tube holding exactly the q-gram threshold is dropped, which loses epsilon-matches the filter must report")
					}
				case *ssa.Store:
					// retiring a tube: Count reset to a constant
					name, ok := fieldOf(x.Addr, pkg, "tubeState")
					if !ok || name != "Count" {
						continue
					}
					if _, isConst := constIntVal(x.Val); !isConst {
						continue
					}
					nReset++
					c.Funcs[funcName(fn)] = true
					ord := 1
					for _, ob := range fn.Blocks {
						for _, oi := range ob.Instrs {
							if os, ok := oi.(*ssa.Store); ok && os != x && os.Pos() < x.Pos() {
								if on, ok := fieldOf(os.Addr, pkg, "tubeState"); ok && on == "Count" {
									if _, isK := constIntVal(os.Val); isK {
										ord++
									}
								}
							}
						}
					}
					key := fmt.Sprintf("%s/reset-Count#%d", funcName(fn), ord)
					// every path to the reset has compared Count with the threshold, or has found the tube empty
					isCmp := func(i ssa.Instruction) bool {
						bo, ok := i.(*ssa.BinOp)
						return ok && ((isCount(bo.X) && isMin(bo.Y)) || (isMin(bo.X) && isCount(bo.Y)))
					}
					isEmptyEdge := func(bf branchFact) bool {
						k, isK := constIntVal(bf.cond.Y)
						return isK && k == 0 && isCount(bf.cond.X) && effectiveOp(bf, true) == token.EQL
					}
					empty := false
					for _, bf := range branchesAt(b) {
						if isEmptyEdge(bf) {
							empty = true
						}
					}
					tested := everyPathPasses(fn, x, viaCalls(isCmp), isEmptyEdge)
					reachesAddHit := func(f *ssa.Function) bool {
						for _, g := range privateReach(f) {
							for _, gb := range g.Blocks {
								for _, gi := range gb.Instrs {
									if gc, ok := gi.(*ssa.Call); ok && gc.Call.StaticCallee() == addHit {
										return true
									}
								}
							}
						}
						return false
					}
					reports := reachesAddHit(fn)
					// the reset sits in a small helper of the package (tube.restart(q)): what matters is what every
					// caller has done before calling it
					if !tested && !empty && fn.Object() != nil && !fn.Object().Exported() {
						sites, all, allReport, allEmpty := 0, true, true, true
						for _, g := range srcFuncs(sp) {
							for _, gb := range g.Blocks {
								for _, gi := range gb.Instrs {
									ci, ok := gi.(*ssa.Call)
									if !ok || ci.Call.StaticCallee() != fn {
										continue
									}
									sites++
									if !everyPathPasses(g, ci, viaCalls(isCmp), isEmptyEdge) {
										all = false
									}
									if !reachesAddHit(g) {
										allReport = false
									}
									e := false
									for _, bf := range branchesAt(gb) {
										if isEmptyEdge(bf) {
											e = true
										}
									}
									if !e {
										allEmpty = false
									}
								}
							}
						}
						if sites > 0 {
							tested, reports = all, allReport
							empty = allEmpty
						}
					}
					switch {
					case empty:
						c.triv(rule, key, x.Pos(), "the tube is known to be empty here")
					case tested && !reports:
						c.bad(rule, key, x.Pos(), "a tube is retired here after its Count was compared with minKmersPerHit, but nothing this function executes calls addHit: a run that reached the threshold is discarded without being reported")
					case tested:
						c.ok(rule, key, x.Pos(), "every path that retires the tube has compared its Count with minKmersPerHit")
					default:
						c.bad(rule, key, x.Pos(), "a tube's Count is reset on a path that never compared it with minKmersPerHit: a run that reached the threshold is discarded without being reported")
					}
				}
			}
		}
	}
	if nEmit < 1 || nReset < 1 {
		c.und(rule, "filter/addHit-sites", token.NoPos, fmt.Sprintf("found %d emission sites and %d retirements of a tube, expected at least one of each", nEmit, nReset))
	}
}

// ---- emit guard (dp kernel) --------------------------------------------------------

func ruleDPEmit(c *Ctx, rule string) {
	pkg := modPath + "/align/pals/dp"
	fn := c.fn("align/pals/dp", "(*kernel).alignRecursion")
	var sends []*ssa.Send
	// the acceptance test and the emission may sit in a private helper that alignRecursion calls
	inReach := map[*ssa.Function]bool{}
	for _, g := range privateReach(fn) {
		inReach[g] = true
	}
	for _, f := range srcFuncs(c.SPkgs[c.pkg("align/pals/dp").PkgPath]) {
		for _, b := range f.Blocks {
			for _, ins := range b.Instrs {
				if s, ok := ins.(*ssa.Send); ok && loadOfField(s.Chan, pkg, "kernel", "result") {
					if !inReach[f] {
						c.bad(rule, funcName(f)+"/send-result", s.Pos(), "a hit is emitted outside alignRecursion's acceptance test")
					}
					sends = append(sends, s)
				}
			}
		}
	}
	if len(sends) == 0 {
		c.und(rule, "dp.(*kernel).alignRecursion/send-result", fn.Pos(), "no send on k.result found")
		return
	}
	hitField := func(v ssa.Value) string {
		u, ok := v.(*ssa.UnOp)
		if !ok || u.Op != token.MUL {
			return ""
		}
		if n, ok := fieldOf(u.X, pkg, "Hit"); ok {
			return n
		}
		return ""
	}
	extent := func(v ssa.Value) string {
		bo, ok := v.(*ssa.BinOp)
		if !ok || bo.Op != token.SUB {
			return ""
		}
		return hitField(bo.X) + "-" + hitField(bo.Y)
	}
	for i, s := range sends {
		if !inReach[s.Parent()] {
			continue
		}
		sfn := s.Parent()
		pre := fmt.Sprintf("dp.(*kernel).alignRecursion/send#%d", i+1)
		got := map[string]token.Token{}
		var identity ssa.Value
		for _, bf := range branchesAt(s.Block()) {
			x, y := bf.cond.X, bf.cond.Y
			switch {
			case loadOfField(y, pkg, "kernel", "minLen") && extent(x) != "":
				got[extent(x)] = effectiveOp(bf, true)
			case loadOfField(x, pkg, "kernel", "minLen") && extent(y) != "":
				got[extent(y)] = effectiveOp(bf, false)
			case loadOfField(y, pkg, "kernel", "maxDiff"):
				got["identity"] = effectiveOp(bf, true)
				identity = x
			case loadOfField(x, pkg, "kernel", "maxDiff"):
				got["identity"] = effectiveOp(bf, false)
				identity = y
			}
		}
		for _, ext := range []string{"Bepos-Bbpos", "Aepos-Abpos"} {
			key := pre + "/" + ext + ">=minLen"
			if op, ok := got[ext]; ok && (op == token.GEQ) {
				c.ok(rule, key, s.Pos(), "the hit is emitted only on the edge where this extent >= minLen")
			} else if ok {
				c.bad(rule, key, s.Pos(), "the hit is emitted when "+ext+" "+op.String()+" minLen, not >= minLen")
			} else {
				c.bad(rule, key, s.Pos(), "no dominating test of "+ext+" against minLen: hits shorter than the minimum hit length on that sequence can be emitted")
			}
		}
		key := pre + "/identity<=maxDiff"
		if op, ok := got["identity"]; ok && op == token.LEQ {
			c.ok(rule, key, s.Pos(), "the hit is emitted only on the edge where identity <= maxDiff")
		} else if ok {
			c.bad(rule, key, s.Pos(), "the hit is emitted when identity "+op.String()+" maxDiff")
		} else {
			c.bad(rule, key, s.Pos(), "no dominating test of the error estimate against maxDiff: hits below the minimum identity are emitted")
		}
		// Error is assigned that identity before the send
		key = pre + "/Error=identity"
		okStore := false
		for _, b := range sfn.Blocks {
			for _, ins := range b.Instrs {
				st, ok := ins.(*ssa.Store)
				if !ok {
					continue
				}
				if n, ok := fieldOf(st.Addr, pkg, "Hit"); ok && n == "Error" && identity != nil && (st.Val == identity || returnedAs(identity, st.Val)) {
					if b.Dominates(s.Block()) {
						okStore = true
					}
				}
			}
		}
		if okStore {
			c.ok(rule, key, s.Pos(), "the reported Error is the value that passed the test")
		} else {
			c.bad(rule, key, s.Pos(), "the hit's Error field is not assigned the tested error estimate on every path to the emission")
		}
	}
	// wiring in AlignTraps: minLen <- minHitLength, maxDiff <- 1 - minId
	at := c.fn("align/pals/dp", "(*Aligner).AlignTraps")
	wired := map[string]string{}
	for _, b := range at.Blocks {
		for _, ins := range b.Instrs {
			st, ok := ins.(*ssa.Store)
			if !ok {
				continue
			}
			n, ok := fieldOf(st.Addr, pkg, "kernel")
			if !ok {
				continue
			}
			switch n {
			case "minLen":
				if loadOfField(st.Val, pkg, "Aligner", "minHitLength") {
					wired[n] = "ok"
				} else {
					wired[n] = "bad"
				}
			case "maxDiff":
				if bo, ok := st.Val.(*ssa.BinOp); ok && bo.Op == token.SUB && loadOfField(bo.Y, pkg, "Aligner", "minId") {
					if k, ok := bo.X.(*ssa.Const); ok && k.Value != nil && k.Value.ExactString() == "1" {
						wired[n] = "ok"
					}
				}
				if wired[n] == "" {
					wired[n] = "bad"
				}
			}
		}
	}
	// the pre-filter before alignRecursion: a trapezoid spans only the shared k-mers
	// (the DP extends beyond them), so it may be skipped only when it is shorter than
	// the word size k — never by comparing it with the minimum hit length
	arec := c.fn("align/pals/dp", "(*kernel).alignRecursion")
	for _, b := range at.Blocks {
		for _, ins := range b.Instrs {
			call, ok := ins.(*ssa.Call)
			if !ok || call.Call.StaticCallee() != arec {
				continue
			}
			key := "dp.(*Aligner).AlignTraps/trapezoid-prefilter"
			verdict := ""
			for _, bf := range branchesAt(b) {
				for _, side := range []ssa.Value{bf.cond.X, bf.cond.Y} {
					if u, ok := side.(*ssa.UnOp); ok && u.Op == token.MUL {
						if name, ok := fieldOf(u.X, pkg, "Aligner"); ok {
							if name == "k" {
								if verdict == "" {
									verdict = "ok"
								}
							} else {
								verdict = name
							}
						}
					}
				}
			}
			switch verdict {
			case "ok":
				c.ok(rule, key, call.Pos(), "trapezoids are skipped only by comparison with the word size k")
			case "":
				c.triv(rule, key, call.Pos(), "no size pre-filter before alignRecursion")
			default:
				c.bad(rule, key, call.Pos(), "trapezoids are skipped by comparing their height with the aligner's "+verdict+" instead of the word size k: a repeat just over the minimum length with mismatches near its ends yields a trapezoid shorter than the minimum length, which is then never aligned although the alignment itself is long enough")
			}
		}
	}
	for _, n := range []string{"minLen", "maxDiff"} {
		key := "dp.(*Aligner).AlignTraps/wire-" + n
		switch wired[n] {
		case "ok":
			c.ok(rule, key, at.Pos(), map[string]string{"minLen": "minLen is the aligner's minimum hit length", "maxDiff": "maxDiff is 1 - minId"}[n])
		case "bad":
			c.bad(rule, key, at.Pos(), map[string]string{"minLen": "the kernel's minLen is not wired from the aligner's minimum hit length", "maxDiff": "the kernel's maxDiff is not 1 - minId"}[n])
		default:
			c.und(rule, key, at.Pos(), "no store to kernel."+n+" found in AlignTraps")
		}
	}
}

// ruleGridPeriod: tubes are spaced tubeOffset diagonals apart (tubeIndex
// divides by that field), so the recycling tick that retires one tube per
// period must be re-armed with the same field; any other period lets the
// tick drift across the tube grid and skips tubes without ending them.
func ruleGridPeriod(c *Ctx, rule string) {
	pkg := modPath + "/align/pals/filter"
	ti := c.fn("align/pals/filter", "(*Filter).tubeIndex")
	divisor := ""
	for _, b := range ti.Blocks {
		for _, ins := range b.Instrs {
			if bo, ok := ins.(*ssa.BinOp); ok && bo.Op == token.QUO {
				if u, ok := bo.Y.(*ssa.UnOp); ok && u.Op == token.MUL {
					if n, ok := fieldOf(u.X, pkg, "Filter"); ok {
						divisor = n
					}
				}
			}
		}
	}
	if divisor == "" {
		c.und(rule, "filter.(*Filter).tubeIndex/divisor", ti.Pos(), "tubeIndex does not divide by a Filter field")
		return
	}
	flt := c.fn("align/pals/filter", "(*Filter).Filter")
	n := 0
	for _, f := range append([]*ssa.Function{flt}, flt.AnonFuncs...) {
		for _, b := range f.Blocks {
			for _, ins := range b.Instrs {
				st, ok := ins.(*ssa.Store)
				if !ok {
					continue
				}
				// a store to the captured ticker, on the edge where the ticker was found to be 0
				rearm := false
				period := st.Val
				for _, bf := range branchesAt(b) {
					if effectiveOp(bf, true) != token.EQL {
						continue
					}
					if k, ok := constIntVal(bf.cond.Y); ok && k == 0 {
						// count-down: the compared value derives from a load of the same cell
						if sameCellValue(bf.cond.X, st.Addr) {
							rearm = true
						}
						continue
					}
					// count-up: a counter has reached the mark held in this cell, and the mark is moved on by the period
					if sameCellValue(bf.cond.X, st.Addr) || sameCellValue(bf.cond.Y, st.Addr) {
						if add, ok := st.Val.(*ssa.BinOp); ok && add.Op == token.ADD {
							switch {
							case sameCellValue(add.X, st.Addr):
								rearm, period = true, add.Y
							case sameCellValue(add.Y, st.Addr):
								rearm, period = true, add.X
							}
						}
					}
				}
				if !rearm {
					continue
				}
				n++
				key := fmt.Sprintf("filter.(*Filter).Filter/tick-rearm#%d", n)
				if fieldValue(period, pkg, "Filter", divisor, flt, 0) {
					c.ok(rule, key, st.Pos(), "the tick is re-armed with "+divisor+", the spacing tubeIndex divides by")
				} else {
					c.bad(rule, key, st.Pos(), "the recycling tick is re-armed with something other than "+divisor+" (the tube spacing used by tubeIndex): the tick drifts across the tube grid, periodically steps over a tube without ending it, and that tube's pending match is emitted under the wrong diagonal or lost")
				}
			}
		}
	}
	if n == 0 {
		c.und(rule, "filter.(*Filter).Filter/tick-rearm", flt.Pos(), "no re-arm of the recycling tick found")
	}
}

// sameCellValue: v was computed from a load of the cell addr (directly, or
// the value just stored into it: `if ticker--; ticker == 0`).
func sameCellValue(v ssa.Value, addr ssa.Value) bool {
	for i := 0; i < 4; i++ {
		switch x := v.(type) {
		case *ssa.UnOp:
			if x.Op == token.MUL && x.X == addr {
				return true
			}
			return false
		case *ssa.BinOp:
			v = x.X
		default:
			return false
		}
	}
	return false
}

// ruleRunState: every call of Filter.Filter starts from freshly zeroed tube
// states — the store of a new slice into f.tubes dominates the k-mer scan.
// Reusing the buffer keeps counts and query intervals of the previous pass
// (the final flush only clears tubes that reached the threshold), which
// corrupts the hits of the complement-strand pass.
func ruleRunState(c *Ctx, rule string) {
	pkg := modPath + "/align/pals/filter"
	flt := c.fn("align/pals/filter", "(*Filter).Filter")
	var scan *ssa.Call
	var stores []*ssa.Store
	for _, b := range flt.Blocks {
		for _, ins := range b.Instrs {
			if call, ok := ins.(*ssa.Call); ok {
				if g := call.Call.StaticCallee(); g != nil && g.Name() == "ForEachKmerOf" {
					scan = call
				}
			}
			if st, ok := ins.(*ssa.Store); ok {
				if n, ok := fieldOf(st.Addr, pkg, "Filter"); ok && n == "tubes" {
					if _, isMake := st.Val.(*ssa.MakeSlice); isMake {
						stores = append(stores, st)
					}
				}
			}
		}
	}
	key := "filter.(*Filter).Filter/tubes-fresh-per-run"
	if scan == nil {
		c.und(rule, key, flt.Pos(), "no k-mer scan (ForEachKmerOf) found in Filter")
		return
	}
	for _, st := range stores {
		if st.Block().Dominates(scan.Block()) && (st.Block() != scan.Block() || instrIndex(st.Block(), st) < instrIndex(scan.Block(), scan)) {
			c.ok(rule, key, st.Pos(), "f.tubes is assigned a newly made (zeroed) slice on every path before the scan")
			return
		}
	}
	c.bad(rule, key, scan.Pos(), "some path reaches the k-mer scan without assigning f.tubes a newly made slice: tube counts and query intervals left by the previous Filter call (the other strand) are mistaken for matches of this one, and planted repeats are lost or reported on wrong diagonals")
}

// fieldValue: v is a load of pkg.typ.field, possibly through a local or a
// captured variable that was assigned that load.
func fieldValue(v ssa.Value, pkg, typ, field string, outer *ssa.Function, depth int) bool {
	if depth > 4 {
		return false
	}
	if loadOfField(v, pkg, typ, field) {
		return true
	}
	switch x := v.(type) {
	case *ssa.Convert:
		return fieldValue(x.X, pkg, typ, field, outer, depth+1)
	case *ssa.Phi:
		for _, e := range x.Edges {
			if !fieldValue(e, pkg, typ, field, outer, depth+1) {
				return false
			}
		}
		return len(x.Edges) > 0
	case *ssa.UnOp:
		if x.Op != token.MUL {
			return false
		}
		var cell ssa.Value = x.X
		if fv, ok := cell.(*ssa.FreeVar); ok {
			fn := fv.Parent()
			idx := -1
			for k, f := range fn.FreeVars {
				if f == fv {
					idx = k
				}
			}
			cell = nil
			for _, b := range outer.Blocks {
				for _, ins := range b.Instrs {
					if mc, ok := ins.(*ssa.MakeClosure); ok && mc.Fn == fn && idx >= 0 && idx < len(mc.Bindings) {
						cell = mc.Bindings[idx]
					}
				}
			}
		}
		if a, ok := cell.(*ssa.Alloc); ok {
			all, n := true, 0
			for _, r := range *a.Referrers() {
				if st, ok := r.(*ssa.Store); ok && st.Addr == ssa.Value(a) {
					n++
					if !fieldValue(st.Val, pkg, typ, field, outer, depth+1) {
						all = false
					}
				}
			}
			return all && n > 0
		}
	}
	return false
}

// returnedAs: got is the result of a call to v's function at the position
// where that function returns v (the value computed and tested in a private
// helper, handed back to the caller).
func returnedAs(v, got ssa.Value) bool {
	ins, ok := v.(ssa.Instruction)
	if !ok || ins.Parent() == nil {
		return false
	}
	g := ins.Parent()
	var call *ssa.Call
	idx := 0
	switch x := got.(type) {
	case *ssa.Extract:
		call, _ = x.Tuple.(*ssa.Call)
		idx = x.Index
	case *ssa.Call:
		call = x
	}
	if call == nil || call.Call.StaticCallee() != g {
		return false
	}
	found := false
	for _, r := range returnsOf(g) {
		res := effectiveResults(r)
		if idx >= len(res) {
			return false
		}
		if res[idx] == v {
			found = true
			continue
		}
		// other returns hand back a constant next to a refusal
		if _, isK := res[idx].(*ssa.Const); !isK {
			return false
		}
	}
	return found
}
