package main

import "golang.org/x/tools/go/ssa"

// Registrations and explanations of the rules added in round 11 (DESIGN.md §10.10).
func init() {
	aligners := func(c *Ctx, names ...string) []*ssa.Function {
		var fns []*ssa.Function
		for _, a := range names {
			fns = append(fns, c.fn("align", a+".alignLetters"), c.fn("align", a+".alignQLetters"))
		}
		return fns
	}
	all := []string{"NW", "NWAffine", "SW", "SWAffine", "Fitted", "FittedAffine"}
	entries := func(c *Ctx) []*ssa.Function {
		var fns []*ssa.Function
		for _, a := range all {
			fns = append(fns, c.fn("align", a+".Align"))
		}
		return fns
	}
	addRule("C08", "firstcellguard", 0, func(c *Ctx, r string) { ruleFirstCellGuard(c, r, aligners(c, all...)) })
	addRule("C08", "endcellplain", 2, func(c *Ctx, r string) { ruleEndCellPlain(c, r, aligners(c, "SW", "SWAffine")) })
	addRule("C09", "tracelayer", 2, func(c *Ctx, r string) { ruleTraceLayer(c, r, aligners(c, "NWAffine", "SWAffine", "FittedAffine")) })
	addRule("C09", "nilalpha", 6, func(c *Ctx, r string) { ruleNilAlpha(c, r, entries(c)) })
	addRule("C09", "repeatlen", 2, ruleRepeatLen)
	addRule("C09", "seqbounds", 12, func(c *Ctx, r string) { ruleSeqBounds(c, r, aligners(c, all...)) })

	addRule("C03", "recorderr", 4, func(c *Ctx, r string) {
		ruleRecOrErr(c, r, "io/featio/gff", "io/featio/bed", "io/seqio/fasta", "io/seqio/fastq")
	})
	for _, id := range []string{"C01", "C03"} {
		addRule(id, "reusedview", 1, func(c *Ctx, r string) { ruleReusedView(c, r, "io/seqio/fasta", "io/seqio/fastq") })
	}

	addRule("C05", "strandflip", 2, func(c *Ctx, r string) { ruleStrandFlip(c, r, "seq/linear", "seq/alignment", "seq/multi") })

	addRule("C06", "coordspace", 3, ruleCoordSpace)
	addRule("C07", "carvecap", 0, func(c *Ctx, r string) { ruleCarveCap(c, r, "seq/alignment", "seq/multi") })
	addRule("C07", "thresholdagree", 2, func(c *Ctx, r string) { ruleThresholdAgree(c, r, "seq", "seq/linear", "seq/alignment", "seq/multi") })

	for _, id := range []string{"C11", "C12"} {
		addRule(id, "capkept", 1, ruleCapKept)
	}

	addRule("C15", "rangeoffset", 1, ruleRangeOffset)
	addRule("C19", "closeowner", 1, ruleCloseOwner)

	extra := map[string]string{
		"C15": "rangeoffset: the covered mark in alignRecursion is made at the sub-slice's low bound plus the range counter, i.e. at the absolute number of the trapezoid examined.",
		"C19": "closeowner: the work queue that Map's unjoined producer goroutine sends on is closed by nothing else that Map reaches (close, Processor.Close on the processor built on it, deferred functions): otherwise a failing chunk makes the pending send hit a closed channel.",
		"C11": "capkept: every slice of m.chunk that is stored back into the field, parked in the pool or handed to the writer starts at 0, so buffers in circulation keep capacity chunkSize (the spill and in-memory decisions compare with cap).",
		"C12": "capkept: as C11.",
		"C06": "coordspace: in Truncate, Stitch and Compose every integer expression gets an origin degree (1 for positions: Start(), End(), start/end arguments; 0 for lengths and subscripts; sums and differences add); the arguments of each min/max agree and the bounds handed to Slice and Make have degree 0.",
		"C07": "carvecap: a column stored into an alignment that is cut out of a block shared with other columns is cut with a capacity limit. thresholdagree: every comparison of a letter's quality with a display threshold (Threshold field or QFilter parameter) treats Q == threshold as good, so the column view and the row view (through the QFilter) agree at the boundary.",
		"C05": "strandflip: nothing a RevComp method that records a strand calls on the way writes a Strand field (Reverse sets None, after which the negation no longer is the opposite of the original strand).",
		"C01": "reusedview: as C03.",
		"C03": "recorderr: no return of Read or of a helper it calls hands back a nil record together with an error that is a nil constant or known nil on the paths into the return. reusedview: in a reader loop that truncates its line buffer to [:0] and refills it, no other byte slice carried to the next round is a view of that buffer (itself, a sub-slice, a bytes.Trim* result, an append onto it): the saved '@' label must be a copy, or the comparison with the '+' line compares the line with itself.",
		"C08": "firstcellguard (as C09: a block boundary in the traceback is suppressed only at the single first cell; suppressing it by one coordinate merges two gap runs into one pair). endcellplain: the Smith-Waterman fills record the best end cell (score, row and column taken together) under comparisons of the cell's score only.",
		"C09": "tracelayer: an affine traceback compares a cell of a variable layer with predecessor formulas only where the current layer has been tested (open finding on today's tree, see known_findings.txt). nilalpha: every method invoked on the result of an Alphabet() call in an aligner's entry point is dominated by a comparison that found that value non-nil. repeatlen: Letter.Repeat and QLetter.Repeat (the gap runs of Format) return the slice made with length count, never one grown by append. seqbounds: every subscript of the two sequence arguments of an aligner body, and every straight-line subscript of its table, whose position is a linear function of the two sequence lengths (inside a loop: in the first round, with the counters at their initial values) lies within bounds for all lengths, zero included, that pass the comparisons dominating it (decided exhaustively for lengths 0..5; the forms have unit coefficients). An aligner that reads rSeq[0], qSeq[len-1] or table[1] unconditionally panics on an empty sequence instead of returning pairs or an error.",
	}
	for id, s := range extra {
		if p := props[id]; p != nil {
			p.Explanation += " " + s
		}
	}
}
