// A small partial evaluator over SSA: a function is run with some arguments
// constant and one symbolic (x), following only the branches the constants
// decide and forking on comparisons of an affine form of x with a constant.
// It yields, per feasible path, the guards met and the value returned as
// a*x + k (or "unknown"). Used to read tables that the code spells as a switch,
// an if chain, a helper call or a delegation — whatever it compiles to.
package main

import (
	"go/constant"
	"go/token"
	"go/types"

	"golang.org/x/tools/go/ssa"
)

type aval struct {
	known bool
	coef  int64  // of the symbol
	k     int64  // constant part
	conv  string // the symbol is what this conversion method returned (a different scale)
	// what was handed to that conversion: the original symbol plus pre (known only if preOK)
	pre   int64
	preOK bool
}

func (a aval) isConst() bool { return a.known && a.coef == 0 }

type pguard struct {
	lhs      aval
	op       token.Token // lhs op c
	c        int64
	unsigned bool // the comparison was made on an unsigned type
}

type poutcome struct {
	guards []pguard
	res    aval
	all    []aval // every result, for callees that return a tuple (offset, ok)
	panics bool
	noRes  bool // returns nothing evaluable
}

type peval struct {
	convNames map[string]bool // methods whose result is a fresh symbol on another scale
	maxPaths  int
	paths     int
}

func (pe *peval) run(fn *ssa.Function, args []aval, depth int) []poutcome {
	var out []poutcome
	if fn.Blocks == nil || depth > 3 {
		return []poutcome{{noRes: true}}
	}
	type frame struct {
		env    map[ssa.Value]aval
		guards []pguard
	}
	var walkAt func(b, from *ssa.BasicBlock, fr frame, visited map[*ssa.BasicBlock]int, start int)
	walk := func(b, from *ssa.BasicBlock, fr frame, visited map[*ssa.BasicBlock]int) {
		walkAt(b, from, fr, visited, 0)
	}
	walkAt = func(b, from *ssa.BasicBlock, fr frame, visited map[*ssa.BasicBlock]int, start int) {
		if pe.paths > pe.maxPaths || (start == 0 && visited[b] > 1) {
			out = append(out, poutcome{guards: fr.guards, noRes: true})
			return
		}
		if start == 0 {
			visited[b]++
			defer func() { visited[b]-- }()
		}
		val := func(v ssa.Value) aval {
			if k, ok := constIntVal(v); ok {
				return aval{known: true, k: k}
			}
			if k, ok := constBoolVal(v); ok {
				return aval{known: true, k: k}
			}
			if a, ok := fr.env[v]; ok {
				return a
			}
			return aval{}
		}
		for _, ins := range b.Instrs[start:] {
			switch x := ins.(type) {
			case *ssa.Phi:
				for i, p := range b.Preds {
					if p == from {
						fr.env[x] = val(x.Edges[i])
					}
				}
			case *ssa.Convert:
				if isIntegral(x.Type()) && isIntegral(x.X.Type()) {
					fr.env[x] = val(x.X)
				}
			case *ssa.ChangeType:
				fr.env[x] = val(x.X)
			case *ssa.Field:
				// a field of an entry of a package-level table of records, loaded as a whole (l := layouts[e]; l.max)
				if ld, ok := x.X.(*ssa.UnOp); ok && ld.Op == token.MUL {
					if ia, ok := ld.X.(*ssa.IndexAddr); ok {
						if g, ok := ia.X.(*ssa.Global); ok {
							if idx := val(ia.Index); idx.isConst() {
								if k, ok := globalRecordEntry(g, idx.k, x.Field); ok {
									fr.env[x] = aval{known: true, k: k}
								}
							}
						}
					}
				}
			case *ssa.UnOp:
				if x.Op == token.NOT {
					if a := val(x.X); a.isConst() {
						fr.env[x] = aval{known: true, k: 1 - a.k}
					}
				}
				// a field of an entry of a package-level table of records (layouts[e].offset)
				if x.Op == token.MUL {
					if fa, ok := x.X.(*ssa.FieldAddr); ok {
						// ... copied to a local first (l := layouts[e]; l.max)
						if al, ok := fa.X.(*ssa.Alloc); ok {
							var only *ssa.Store
							n := 0
							for _, r := range *al.Referrers() {
								if st, ok := r.(*ssa.Store); ok && st.Addr == ssa.Value(al) {
									only = st
									n++
								}
							}
							if n == 1 {
								if ld, ok := only.Val.(*ssa.UnOp); ok && ld.Op == token.MUL {
									if ia, ok := ld.X.(*ssa.IndexAddr); ok {
										if g, ok := ia.X.(*ssa.Global); ok {
											if idx := val(ia.Index); idx.isConst() {
												if k, ok := globalRecordEntry(g, idx.k, fa.Field); ok {
													fr.env[x] = aval{known: true, k: k}
												}
											}
										}
									}
								}
							}
						}
						if ia, ok := fa.X.(*ssa.IndexAddr); ok {
							if g, ok := ia.X.(*ssa.Global); ok {
								if idx := val(ia.Index); idx.isConst() {
									if k, ok := globalRecordEntry(g, idx.k, fa.Field); ok {
										fr.env[x] = aval{known: true, k: k}
									}
								}
							}
						}
					}
				}
				// an entry of a package-level table of constants at a known subscript (encodingOffsets[e])
				if x.Op == token.MUL {
					if ia, ok := x.X.(*ssa.IndexAddr); ok {
						if g, ok := ia.X.(*ssa.Global); ok {
							if idx := val(ia.Index); idx.isConst() {
								if k, ok := globalTableEntry(g, idx.k); ok {
									fr.env[x] = aval{known: true, k: k}
								}
							}
						}
					}
				}
			case *ssa.BinOp:
				a, c := val(x.X), val(x.Y)
				switch x.Op {
				case token.ADD, token.SUB:
					if a.known && c.known && (a.coef == 0 || c.coef == 0) && (a.conv == "" || c.coef == 0) {
						s := int64(1)
						if x.Op == token.SUB {
							s = -1
						}
						r := aval{known: true, coef: a.coef + s*c.coef, k: a.k + s*c.k, conv: a.conv}
						if c.coef != 0 {
							r.conv = c.conv
						}
						fr.env[x] = r
					}
				}
			case *ssa.Call:
				sf := x.Call.StaticCallee()
				if sf == nil {
					continue
				}
				if pe.convNames[sf.Name()] && sf.Signature.Recv() != nil {
					nv := aval{known: true, coef: 1, conv: sf.Name()}
					if len(x.Call.Args) > 0 {
						if in := val(x.Call.Args[0]); in.known && in.coef == 1 && in.conv == "" {
							nv.pre, nv.preOK = in.k, true
						}
					}
					fr.env[x] = nv
					continue
				}
				if inModule(sf) && sf.Blocks != nil && len(sf.Params) == len(x.Call.Args) {
					var as []aval
					for _, a := range x.Call.Args {
						as = append(as, val(a))
					}
					sub := pe.run(sf, as, depth+1)
					// a callee with one evaluable outcome behaves like an expression; several fork the path
					var live []poutcome
					for _, o := range sub {
						if o.panics {
							out = append(out, poutcome{guards: append(append([]pguard{}, fr.guards...), o.guards...), panics: true})
							continue
						}
						live = append(live, o)
					}
					setTuple := func(env map[ssa.Value]aval, o poutcome) {
						if len(o.all) < 2 || x.Referrers() == nil {
							return
						}
						for _, r := range *x.Referrers() {
							if ex, ok := r.(*ssa.Extract); ok && ex.Index < len(o.all) && o.all[ex.Index].known {
								env[ex] = o.all[ex.Index]
							}
						}
					}
					if len(live) == 1 && (!live[0].noRes || len(live[0].all) > 1) {
						fr.guards = append(fr.guards, live[0].guards...)
						if !live[0].noRes {
							fr.env[x] = live[0].res
						}
						setTuple(fr.env, live[0])
						continue
					}
					if len(live) > 1 {
						// fork: continue the rest of this block once per callee outcome
						next := instrIndex(b, x) + 1
						for _, o := range live {
							pe.paths++
							nf := frame{env: map[ssa.Value]aval{}, guards: append(append([]pguard{}, fr.guards...), o.guards...)}
							for k, v := range fr.env {
								nf.env[k] = v
							}
							if !o.noRes {
								nf.env[x] = o.res
							}
							setTuple(nf.env, o)
							walkAt(b, from, nf, visited, next)
						}
						return
					}
				}
			}
		}
		pe.finish(b, nil, fr.env, fr.guards, &out, func(nb *ssa.BasicBlock, env map[ssa.Value]aval, g []pguard) {
			walk(nb, b, frame{env, g}, visited)
		})
	}
	env := map[ssa.Value]aval{}
	for i, p := range fn.Params {
		if i < len(args) {
			env[p] = args[i]
		}
	}
	walk(fn.Blocks[0], nil, frame{env: env}, map[*ssa.BasicBlock]int{})
	return out
}

// finish handles the terminator of b (after optionally evaluating the given
// remaining instructions, which are plain value computations).
func (pe *peval) finish(b *ssa.BasicBlock, rest []ssa.Instruction, env map[ssa.Value]aval, guards []pguard, out *[]poutcome, cont func(*ssa.BasicBlock, map[ssa.Value]aval, []pguard)) {
	val := func(v ssa.Value) aval {
		if k, ok := constIntVal(v); ok {
			return aval{known: true, k: k}
		}
		if k, ok := constBoolVal(v); ok {
			return aval{known: true, k: k}
		}
		if a, ok := env[v]; ok {
			return a
		}
		return aval{}
	}
	for _, ins := range rest {
		switch x := ins.(type) {
		case *ssa.Convert:
			if isIntegral(x.Type()) && isIntegral(x.X.Type()) {
				env[x] = val(x.X)
			}
		case *ssa.ChangeType:
			env[x] = val(x.X)
		case *ssa.BinOp:
			a, c := val(x.X), val(x.Y)
			if (x.Op == token.ADD || x.Op == token.SUB) && a.known && c.known && c.coef == 0 {
				s := int64(1)
				if x.Op == token.SUB {
					s = -1
				}
				env[x] = aval{known: true, coef: a.coef, k: a.k + s*c.k, conv: a.conv}
			}
		}
	}
	term := b.Instrs[len(b.Instrs)-1]
	switch t := term.(type) {
	case *ssa.Return:
		o := poutcome{guards: guards}
		if len(t.Results) == 0 {
			o.noRes = true
		} else {
			r := t.Results[0]
			// a named result spilled to memory: the last store on this path is not tracked; give up gracefully
			o.res = val(r)
			if !o.res.known {
				o.noRes = true
			}
			if len(t.Results) > 1 {
				for _, rr := range t.Results {
					o.all = append(o.all, val(rr))
				}
			}
		}
		*out = append(*out, o)
	case *ssa.Panic:
		*out = append(*out, poutcome{guards: guards, panics: true})
	case *ssa.Jump:
		cont(b.Succs[0], env, guards)
	case *ssa.If:
		bo, _ := t.Cond.(*ssa.BinOp)
		if bo == nil {
			// a boolean whose value is known on this path (the ok of a helper's tuple)
			if a := val(t.Cond); a.isConst() {
				taken := 1
				if a.k != 0 {
					taken = 0
				}
				cont(b.Succs[taken], env, guards)
				return
			}
			// an opaque condition: both ways
			for _, s := range b.Succs {
				pe.paths++
				cont(s, copyEnv(env), append([]pguard{}, guards...))
			}
			return
		}
		a, c := val(bo.X), val(bo.Y)
		op := bo.Op
		if a.isConst() && !c.isConst() && c.known {
			a, c = c, a
			op = flipOp(op)
		}
		switch {
		case a.isConst() && c.isConst():
			taken := 1
			if cmpConst(a.k, op, c.k) {
				taken = 0
			}
			cont(b.Succs[taken], env, guards)
		case a.known && c.isConst():
			unsigned := false
			if bt, ok := bo.X.Type().Underlying().(*types.Basic); ok && bt.Info()&types.IsUnsigned != 0 {
				unsigned = true
			}
			pe.paths++
			cont(b.Succs[0], copyEnv(env), append(append([]pguard{}, guards...), pguard{a, op, c.k, unsigned}))
			cont(b.Succs[1], copyEnv(env), append(append([]pguard{}, guards...), pguard{a, negateOp(op), c.k, unsigned}))
		default:
			for _, s := range b.Succs {
				pe.paths++
				cont(s, copyEnv(env), append([]pguard{}, guards...))
			}
		}
	default:
		*out = append(*out, poutcome{guards: guards, noRes: true})
	}
}

func copyEnv(e map[ssa.Value]aval) map[ssa.Value]aval {
	n := make(map[ssa.Value]aval, len(e))
	for k, v := range e {
		n[k] = v
	}
	return n
}

func cmpConst(a int64, op token.Token, b int64) bool {
	switch op {
	case token.EQL:
		return a == b
	case token.NEQ:
		return a != b
	case token.LSS:
		return a < b
	case token.LEQ:
		return a <= b
	case token.GTR:
		return a > b
	case token.GEQ:
		return a >= b
	}
	return false
}

// globalTableEntry: the constant that the package initialiser stores at g[k] (a table written as a composite
// literal of constants); entries the literal leaves out are zero.
func globalTableEntry(g *ssa.Global, k int64) (int64, bool) {
	if g.Pkg == nil {
		return 0, false
	}
	init := g.Pkg.Func("init")
	if init == nil {
		return 0, false
	}
	found, stored := false, false
	var val int64
	for _, b := range init.Blocks {
		for _, ins := range b.Instrs {
			st, ok := ins.(*ssa.Store)
			if !ok {
				continue
			}
			ia, ok := st.Addr.(*ssa.IndexAddr)
			if !ok || ia.X != ssa.Value(g) {
				if st.Addr == ssa.Value(g) {
					return 0, false // assigned as a whole from a computed value
				}
				continue
			}
			stored = true
			i, okI := constIntVal(ia.Index)
			v, okV := constIntVal(st.Val)
			if !okI || !okV {
				return 0, false
			}
			if i == k {
				val, found = v, true
			}
		}
	}
	if !stored {
		return 0, false
	}
	return val, true || found
}

// globalRecordEntry: the constant in field f of entry k of a package-level
// array of records written as a composite literal of constants. go/ssa builds
// such a literal in locals (one per record, one for the array) and stores the
// array into the global as a whole, or (x/tools v0.29) stores each field in place at &g[i].f; entries or fields the literal leaves out
// are zero. Anything computed makes the table unreadable.
func globalRecordEntry(g *ssa.Global, k int64, f int) (int64, bool) {
	if g.Pkg == nil {
		return 0, false
	}
	init := g.Pkg.Func("init")
	if init == nil {
		return 0, false
	}
	// the array the global is assigned from
	var arr *ssa.Alloc
	nWhole := 0
	for _, b := range init.Blocks {
		for _, ins := range b.Instrs {
			st, ok := ins.(*ssa.Store)
			if !ok || st.Addr != ssa.Value(g) {
				continue
			}
			nWhole++
			if ld, ok := st.Val.(*ssa.UnOp); ok && ld.Op == token.MUL {
				arr, _ = ld.X.(*ssa.Alloc)
			}
		}
	}
	if nWhole == 0 {
		// the literal is built in place: stores to &g[i].f
		val, stored := int64(0), false
		for _, b := range init.Blocks {
			for _, ins := range b.Instrs {
				st, ok := ins.(*ssa.Store)
				if !ok {
					continue
				}
				fa, ok := st.Addr.(*ssa.FieldAddr)
				if !ok {
					if ia, ok := st.Addr.(*ssa.IndexAddr); ok && ia.X == ssa.Value(g) {
						return 0, false // an entry stored as a whole
					}
					continue
				}
				ia, ok := fa.X.(*ssa.IndexAddr)
				if !ok || ia.X != ssa.Value(g) {
					continue
				}
				i, okI := constIntVal(ia.Index)
				v, okV := constIntVal(st.Val)
				if !okI || !okV {
					return 0, false
				}
				stored = true
				if i == k && fa.Field == f {
					val = v
				}
			}
		}
		if !stored || storedOutsideInit(g, init) {
			return 0, false
		}
		return val, true
	}
	if nWhole != 1 || arr == nil {
		return 0, false
	}
	if storedOutsideInit(g, init) {
		return 0, false
	}
	var rec *ssa.Alloc
	for _, r := range *arr.Referrers() {
		ia, ok := r.(*ssa.IndexAddr)
		if !ok {
			continue
		}
		i, okI := constIntVal(ia.Index)
		if !okI {
			return 0, false
		}
		for _, rr := range *ia.Referrers() {
			st, ok := rr.(*ssa.Store)
			if !ok || st.Addr != ssa.Value(ia) {
				return 0, false
			}
			ld, ok := st.Val.(*ssa.UnOp)
			if !ok || ld.Op != token.MUL {
				return 0, false
			}
			a, ok := ld.X.(*ssa.Alloc)
			if !ok {
				return 0, false
			}
			if i == k {
				rec = a
			}
		}
	}
	if rec == nil {
		return 0, true // an entry the literal leaves out
	}
	val, found := int64(0), false
	for _, r := range *rec.Referrers() {
		fa, ok := r.(*ssa.FieldAddr)
		if !ok {
			continue
		}
		for _, rr := range *fa.Referrers() {
			st, ok := rr.(*ssa.Store)
			if !ok || st.Addr != ssa.Value(fa) {
				return 0, false
			}
			v, okV := constIntVal(st.Val)
			if !okV {
				return 0, false
			}
			if fa.Field == f {
				if found {
					return 0, false
				}
				val, found = v, true
			}
		}
	}
	return val, true
}

// storedOutsideInit: some function of the package other than its initialiser writes into g.
func storedOutsideInit(g *ssa.Global, init *ssa.Function) bool {
	for _, m := range g.Pkg.Members {
		fn, ok := m.(*ssa.Function)
		if !ok || fn == init {
			continue
		}
		for _, b := range fn.Blocks {
			for _, ins := range b.Instrs {
				st, ok := ins.(*ssa.Store)
				if !ok {
					continue
				}
				root := st.Addr
				for i := 0; i < 4; i++ {
					switch x := root.(type) {
					case *ssa.FieldAddr:
						root = x.X
					case *ssa.IndexAddr:
						root = x.X
					}
				}
				if root == ssa.Value(g) {
					return true
				}
			}
		}
	}
	return false
}

// constBoolVal: a boolean constant as 0 or 1.
func constBoolVal(v ssa.Value) (int64, bool) {
	k, ok := v.(*ssa.Const)
	if !ok || k.Value == nil || k.Value.Kind() != constant.Bool {
		return 0, false
	}
	if constant.BoolVal(k.Value) {
		return 1, true
	}
	return 0, true
}
