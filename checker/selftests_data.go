package main

// Self-validation corpus (DESIGN.md Appendix A). Every variant compiles; the
// faults are single-site (or two cooperating sites) edits that the pinned test
// suite does not notice.
func init() {
	const (
		bed   = "io/featio/bed/bed.go"
		gff   = "io/featio/gff/gff.go"
		fasta = "io/seqio/fasta/fasta.go"
		fastq = "io/seqio/fastq/fastq.go"
	)
	selftests["C03"] = []variant{
		{Name: "bed6-guard-off-by-one", File: bed, Find: "const n = 6\n\tdefer handlePanic(b, &err)\n\tf := bytes.SplitN(line, []byte{'\\t'}, n+1)\n\tif len(f) < n {", Replace: "const n = 6\n\tdefer handlePanic(b, &err)\n\tf := bytes.SplitN(line, []byte{'\\t'}, n+1)\n\tif len(f) < n-1 {", Rule: "guardidx", Key: "bed.parseBed6/f[5]"},
		{Name: "gff-type-guard-deleted", File: gff, Find: "\tcase \"Type\", \"type\":\n\t\tif len(fields) <= 1 {\n\t\t\treturn nil, &csv.ParseError{Line: r.line, Err: ErrBadMetaLine}\n\t\t}\n", Replace: "\tcase \"Type\", \"type\":\n", Rule: "guardidx", Key: "commentMetaline/fields[1]"},
		{Name: "gff-frame-guard-weakened", File: gff, Find: "if len(fields) <= frameField {", Replace: "if len(fields) < frameField {", Rule: "guardidx", Key: "gff.(*Reader).Read/fields[7] via mustAtoFr"},
		{Name: "gff-version-guard-deleted", File: gff, Find: "\tcase \"gff-version\":\n\t\tif len(fields) <= 1 {\n\t\t\treturn nil, &csv.ParseError{Line: r.line, Err: ErrBadMetaLine}\n\t\t}\n", Replace: "\tcase \"gff-version\":\n", Rule: "guardidx", Key: "commentMetaline/fields[1] via mustAtoi"},
		{Name: "bed-rgb-guard-weakened", File: bed, Find: "\tif l < 3 {\n\t\tpanic(&csv.ParseError{Column: index, Err: ErrBadColorField})", Replace: "\tif l < 2 {\n\t\tpanic(&csv.ParseError{Column: index, Err: ErrBadColorField})", Rule: "guardidx", Key: "bed.mustAtoRgb/c[2]"},
		{Name: "gff-strand-string-panic", File: gff, Find: "\tif len(f[index]) != 1 {\n\t\tpanic(&csv.ParseError{Line: line, Column: index, Err: ErrBadStrandField})", Replace: "\tif len(f[index]) != 1 {\n\t\tpanic(\"gff: bad strand field\")", Rule: "panicval", Key: "gff.mustAtos/panic(string)"},
		{Name: "gff-zero-start-check-removed", File: gff, Find: "\tif start == 0 {\n\t\treturn nil, &csv.ParseError{Line: r.line, Column: startField, Err: ErrZeroStart}\n\t}\n", Replace: "", Rule: "panicval", Key: "gff.(*Reader).Read/feat.OneToZero"},
		{Name: "gff-region-zero-start-check-removed", File: gff, Find: "\t\tif start == 0 {\n\t\t\treturn nil, &csv.ParseError{Line: r.line, Column: 2, Err: ErrZeroStart}\n\t\t}\n", Replace: "", Rule: "panicval", Key: "commentMetaline/feat.OneToZero"},
		// benign
		{Name: "benign-guard-as-positive-if", File: bed, Find: "const n = 3\n\tdefer handlePanic(b, &err)\n\tf := bytes.SplitN(line, []byte{'\\t'}, n+1)\n\tif len(f) < n {\n\t\treturn nil, ErrBadBedType\n\t}\n", Replace: "const n = 3\n\tdefer handlePanic(b, &err)\n\tf := bytes.SplitN(line, []byte{'\\t'}, n+1)\n\tif len(f) >= n {\n\t} else {\n\t\treturn nil, ErrBadBedType\n\t}\n"},
		{Name: "benign-guard-as-switch", File: bed, Find: "const n = 4\n\tdefer handlePanic(b, &err)\n\tf := bytes.SplitN(line, []byte{'\\t'}, n+1)\n\tif len(f) < n {\n\t\treturn nil, ErrBadBedType\n\t}\n", Replace: "const n = 4\n\tdefer handlePanic(b, &err)\n\tcols := bytes.SplitN(line, []byte{'\\t'}, n+1)\n\tswitch {\n\tcase len(cols) < n:\n\t\treturn nil, ErrBadBedType\n\t}\n\tf := cols\n"},
		{Name: "benign-zero-check-as-less-than-one", File: gff, Find: "\tif start == 0 {\n\t\treturn nil, &csv.ParseError{Line: r.line, Column: startField, Err: ErrZeroStart}", Replace: "\tif start < 1 {\n\t\treturn nil, &csv.ParseError{Line: r.line, Column: startField, Err: ErrZeroStart}"},
	}
	selftests["C04"] = []variant{
		{Name: "bed-eof-early-return", File: bed, Find: "\t\tif err != io.EOF || len(line) == 0 {\n\t\t\treturn\n\t\t}\n", Replace: "\t\treturn\n", Rule: "lineio/eofdata", Key: "bed.(*Reader).Read/ReadBytes"},
		{Name: "gff-eof-early-return", File: gff, Find: "\t\t\tif len(line) == 0 {\n\t\t\t\treturn f, err\n\t\t\t}\n\t\t\terr = nil\n", Replace: "\t\t\treturn f, err\n", Rule: "lineio/eofdata", Key: "gff.(*Reader).Read/ReadBytes"},
		{Name: "gff-metaseq-eof-early-return", File: gff, Find: "\t\t\tif len(line) == 0 {\n\t\t\t\treturn nil, err\n\t\t\t}\n\t\t\terr = nil\n", Replace: "\t\t\treturn nil, err\n", Rule: "lineio/eofdata", Key: "gff.(*Reader).metaSeq/ReadBytes"},
		{Name: "gff-trimspace-weakened", File: gff, Find: "\t\tr.line++\n\t\tline = bytes.TrimSpace(line)\n\t\tif len(line) == 0 { // ignore blank lines", Replace: "\t\tr.line++\n\t\tline = bytes.TrimRight(line, \"\\n\")\n\t\tif len(line) == 0 { // ignore blank lines", Rule: "lineio/normalise", Key: "gff.(*Reader).Read/ReadBytes"},
		{Name: "bed-trimspace-dropped", File: bed, Find: "\tr.line++\n\tline = bytes.TrimSpace(line)\n", Replace: "\tr.line++\n\tline = line[:len(line)-1]\n", Rule: "lineio/normalise", Key: "bed.(*Reader).Read/ReadBytes"},
		{Name: "fasta-isprefix-ignored", File: fasta, Find: "\t\tif isPrefix {\n\t\t\tcontinue\n\t\t}\n\t\tline = bytes.TrimSpace(line)\n\t\tif len(line) == 0 {", Replace: "\t\t_ = isPrefix\n\t\tline = bytes.TrimSpace(line)\n\t\tif len(line) == 0 {", Rule: "lineio/fragments", Key: "fasta.(*Reader).Read/ReadLine/isPrefix"},
		{Name: "fastq-buffer-retained", File: fastq, Find: "\t\tline = append(line, buff...)\n", Replace: "\t\tline = buff\n", Rule: "lineio/fragments", Key: "fastq.(*Reader).Read/ReadLine/buffer"},
		{Name: "fasta-accumulator-reset", File: fasta, Find: "\t\tif isPrefix {\n\t\t\tcontinue\n\t\t}\n\t\tline = bytes.TrimSpace(line)\n\t\tif len(line) == 0 {", Replace: "\t\tif isPrefix {\n\t\t\tline = nil\n\t\t\tcontinue\n\t\t}\n\t\tline = bytes.TrimSpace(line)\n\t\tif len(line) == 0 {", Rule: "lineio/fragments", Key: "fasta.(*Reader).Read/ReadLine/accumulate"},
		// benign
		{Name: "benign-eof-test-in-condition", File: bed, Find: "\tif err != nil {\n\t\t// A final line without a terminator is returned with io.EOF;\n\t\t// parse it now, the next call reports the io.EOF.\n\t\tif err != io.EOF || len(line) == 0 {\n\t\t\treturn\n\t\t}\n\t}\n", Replace: "\tif err != nil && (err != io.EOF || len(line) == 0) {\n\t\treturn\n\t}\n"},
		{Name: "benign-trimright-crlf", File: bed, Find: "\tr.line++\n\tline = bytes.TrimSpace(line)\n", Replace: "\tr.line++\n\tline = bytes.TrimRight(line, \"\\r\\n\")\n"},
	}
	letters := "alphabet/letters.go"
	selftests["C01"] = []variant{
		{Name: "fasta-prefix-count-dropped", File: fasta, Find: "\t\t\t_n, err = w.w.Write(prefix)\n\t\t\tif n += _n; err != nil {", Replace: "\t\t\t_n, err = w.w.Write(prefix)\n\t\t\tif err != nil {", Rule: "bytecount", Key: "fasta.(*Writer).Write/emit io.Writer.Write#2"},
		{Name: "fastq-header-count-overwritten", File: fastq, Find: "\t_n, err = io.WriteString(w.w, s.Name())\n\tif n += _n; err != nil {", Replace: "\tn, err = io.WriteString(w.w, s.Name())\n\tif err != nil {", Rule: "bytecount", Key: "fastq.(*Writer).writeHeader/emit io.WriteString#1"},
		{Name: "fastq-final-newline-uncounted", File: fastq, Find: "\t_n, err = w.w.Write([]byte{'\\n'})\n\tif n += _n; err != nil {\n\t\treturn\n\t}\n\n\treturn\n}", Replace: "\t_, err = w.w.Write([]byte{'\\n'})\n\tif err != nil {\n\t\treturn\n\t}\n\n\treturn\n}", Rule: "bytecount", Key: "fastq.(*Writer).Write/emit io.Writer.Write#5"},
		{Name: "fastq-qid-marker-wrong", File: fastq, Find: "_n, err = w.writeHeader('+', s)", Replace: "_n, err = w.writeHeader('@', s)", Rule: "tables/markers", Key: "fastq/quality-id line marker"},
		{Name: "fastq-reader-marker-wrong", File: fastq, Find: "func maybeID2(l []byte) bool { return len(l) > 0 && l[0] == '+' }", Replace: "func maybeID2(l []byte) bool { return len(l) > 0 && l[0] == '*' }", Rule: "tables/markers", Key: "fastq/quality-id line marker"},
		{Name: "fasta-reader-prefix-differs", File: fasta, Find: "\t\tr:         bufio.NewReader(f),\n\t\tt:         template,\n\t\tIDPrefix:  []byte(DefaultIDPrefix),", Replace: "\t\tr:         bufio.NewReader(f),\n\t\tt:         template,\n\t\tIDPrefix:  []byte(\"> \"),", Rule: "tables/markers", Key: "fasta/IDPrefix"},
		{Name: "sanger-encode-offset-32", File: letters, Find: "\tcase Sanger, Illumina1_8, Illumina1_9:\n\t\tq = byte(qp)\n\t\tif q <= 93 {\n\t\t\tq += 33\n\t\t}", Replace: "\tcase Sanger, Illumina1_8, Illumina1_9:\n\t\tq = byte(qp)\n\t\tif q <= 93 {\n\t\t\tq += 32\n\t\t}", Rule: "tables/quality", Key: "Sanger/Qphred-offset-agree"},
		{Name: "illumina19-decode-case-dropped", File: letters, Find: "func (e Encoding) DecodeToQphred(q byte) Qphred {\n\tswitch e {\n\tcase Sanger, Illumina1_8, Illumina1_9:", Replace: "func (e Encoding) DecodeToQphred(q byte) Qphred {\n\tswitch e {\n\tcase Sanger, Illumina1_8:", Rule: "tables/quality", Key: "Illumina1_9/Qphred-decode-case"},
		{Name: "fastq-buffer-retained", File: fastq, Find: "\t\tline = append(line, buff...)\n", Replace: "\t\tline = buff\n", Rule: "lineio/fragments", Key: "fastq.(*Reader).Read/ReadLine/buffer"},
		// benign
		{Name: "benign-fold-hoisted", File: fasta, Find: "\t_n, err = w.w.Write([]byte{'\\n'})\n\tif n += _n; err != nil {\n\t\treturn n, err\n\t}\n\n\treturn n, nil", Replace: "\tcount, err := w.w.Write([]byte{'\\n'})\n\tn += count\n\tif err != nil {\n\t\treturn n, err\n\t}\n\n\treturn n, nil"},
		{Name: "benign-markers-as-named-constants", File: fastq, Find: "\tn, err = w.writeHeader('@', s)", Replace: "\tconst idMark = '@'\n\tn, err = w.writeHeader(idMark, s)"},
	}
	selftests["C02"] = []variant{
		{Name: "gff-start-not-converted", File: gff, Find: "\t\tFeatStart:  feat.OneToZero(start),", Replace: "\t\tFeatStart:  start,", Rule: "convpair", Key: "gff.(*Reader).Read/parse-start FeatStart"},
		{Name: "gff-end-converted", File: gff, Find: "\t\tFeatEnd:    mustAtoi(fields, endField, r.line),", Replace: "\t\tFeatEnd:    feat.OneToZero(mustAtoi(fields, endField, r.line)),", Rule: "convpair", Key: "gff.(*Reader).Read/parse-end FeatEnd"},
		{Name: "gff-region-start-written-bare", File: gff, Find: "f.SeqName, feat.ZeroToOne(f.RegionStart), f.RegionEnd)", Replace: "f.SeqName, f.RegionStart, f.RegionEnd)", Rule: "convpair", Key: "gff.(*Writer).Write/format-start"},
		{Name: "gff-end-written-converted", File: gff, Find: "\t\t\tfeat.ZeroToOne(f.FeatStart),\n\t\t\tf.FeatEnd,", Replace: "\t\t\tfeat.ZeroToOne(f.FeatStart),\n\t\t\tfeat.ZeroToOne(f.FeatEnd),", Rule: "convpair", Key: "gff.(*Writer).Write/format-end"},
		{Name: "gff-metadata-start-written-bare", File: gff, Find: "d.SeqName, feat.ZeroToOne(d.FeatStart), d.FeatEnd)", Replace: "d.SeqName, d.FeatStart, d.FeatEnd)", Rule: "convpair", Key: "gff.(*Writer).WriteMetaData/format-start"},
		{Name: "bed-deferred-newline-uncounted", File: bed, Find: "\t\t_, err = w.w.Write([]byte{'\\n'})\n\t\tif err != nil {\n\t\t\treturn\n\t\t}\n\t\tn++\n\t}()\n\n\t// Handle Bed types.", Replace: "\t\t_, err = w.w.Write([]byte{'\\n'})\n\t\tif err != nil {\n\t\t\treturn\n\t\t}\n\t}()\n\n\t// Handle Bed types.", Rule: "bytecount", Key: "bed.(*Writer).Write/emit io.Writer.Write#1"},
		{Name: "gff-score-count-dropped", File: gff, Find: "\t\t\t\t_n, err = fmt.Fprintf(w.w, \"%v\", *f.FeatScore)\n", Replace: "\t\t\t\t_, err = fmt.Fprintf(w.w, \"%v\", *f.FeatScore)\n", Rule: "bytecount", Key: "gff.(*Writer).Write/emit fmt.Fprintf#2"},
		{Name: "gff-tab-uncounted", File: gff, Find: "\t\t\t_, err = w.w.Write([]byte{'\\t'})\n\t\t\tif err != nil {\n\t\t\t\treturn\n\t\t\t}\n\t\t\tn++\n", Replace: "\t\t\t_, err = w.w.Write([]byte{'\\t'})\n\t\t\tif err != nil {\n\t\t\t\treturn\n\t\t\t}\n", Rule: "bytecount", Key: "gff.(*Writer).Write/emit io.Writer.Write#3"},
		{Name: "gff-end-marker-count-dropped", File: gff, Find: "\t\tvar _n int\n\t\t_n, err = w.w.Write([...][]byte{", Replace: "\t\t_, err = w.w.Write([...][]byte{", More: []edit{{gff, "\t\treturn n + _n, err\n", "\t\treturn n, err\n"}}, Rule: "bytecount", Key: "gff.(*Writer).Write/emit io.Writer.Write#4"},
		{Name: "bed-name-count-overwrites", File: bed, Find: "\t_n, err := fmt.Fprintf(w.w, \"\\t%s\", f.Name())\n\tn += _n\n", Replace: "\t_n, err := fmt.Fprintf(w.w, \"\\t%s\", f.Name())\n\tn = _n\n", Rule: "bytecount", Key: "bed.(*Writer).Write/emit"},
		// benign
		{Name: "benign-start-via-local", File: gff, Find: "\t\tFeatStart:  feat.OneToZero(start),", Replace: "\t\tFeatStart:  feat.OneToZero(start + 0),"},
		{Name: "benign-count-variable-renamed", File: gff, Find: "\t\tvar _n int\n\t\t_n, err = w.w.Write([...][]byte{", Replace: "\t\tvar m int\n\t\tm, err = w.w.Write([...][]byte{", More: []edit{{gff, "\t\treturn n + _n, err\n", "\t\treturn n + m, err\n"}}},
	}
	const (
		aln   = "seq/alignment/alignment.go"
		qaln  = "seq/alignment/qalignment.go"
		mult  = "seq/multi/multi.go"
		utils = "seq/sequtils/utils.go"
		lseq  = "seq/linear/seq.go"
	)
	cloneFaults := []variant{
		{Name: "alignment-clone-subannotations-shared", File: aln, Find: "\tc.SubAnnotations = append([]seq.Annotation(nil), s.SubAnnotations...)\n", Replace: "", Rule: "fresh/clonedeep", Key: "alignment.(*Seq).Clone/SubAnnotations"},
		{Name: "alignment-clone-columns-shared", File: aln, Find: "\t\tc.Seq[i] = append([]alphabet.Letter(nil), cs...)\n", Replace: "\t\tc.Seq[i] = cs\n", Rule: "fresh/clonedeep", Key: "alignment.(*Seq).Clone/Seq"},
		{Name: "qalignment-clone-shallow-append", File: qaln, Find: "\tc.Seq = make([][]alphabet.QLetter, len(s.Seq))\n\tfor i, s := range s.Seq {\n\t\tc.Seq[i] = append([]alphabet.QLetter(nil), s...)\n\t}\n", Replace: "\tc.Seq = append([][]alphabet.QLetter(nil), s.Seq...)\n", Rule: "fresh/clonedeep", Key: "alignment.(*QSeq).Clone/Seq"},
		{Name: "multi-clone-rows-shared", File: mult, Find: "\t\tc.Seq[i] = r.Clone().(seq.Sequence)\n", Replace: "\t\tc.Seq[i] = r\n", Rule: "fresh/clonedeep", Key: "multi.(*Multi).Clone/Seq"},
		{Name: "linear-clone-shares-letters", File: lseq, Find: "\tc := *s\n\tc.Seq = append([]alphabet.Letter(nil), s.Seq...)\n\treturn &c", Replace: "\tc := *s\n\tc.Seq = s.Seq[:len(s.Seq):len(s.Seq)]\n\treturn &c", Rule: "fresh/clonedeep", Key: "linear.(*Seq).Clone/Seq"},
		{Name: "benign-clone-make-copy", File: lseq, Find: "\tc := *s\n\tc.Seq = append([]alphabet.Letter(nil), s.Seq...)\n\treturn &c", Replace: "\tc := *s\n\tc.Seq = make([]alphabet.Letter, len(s.Seq))\n\tcopy(c.Seq, s.Seq)\n\treturn &c"},
	}
	selftests["C05"] = append(append([]variant{}, cloneFaults...),
		variant{Name: "multi-revcomp-row-independent-offset", File: mult, Find: "\t\tr.RevComp()\n\t\tr.SetOffset(start + end - r.End())\n", Replace: "\t\tr.RevComp()\n\t\tr.SetOffset(start + end - m.End())\n", Rule: "loopdep", Key: "multi.(*Multi).RevComp/r.SetOffset"},
		variant{Name: "multi-reverse-constant-offset", File: mult, Find: "\t\tr.Reverse()\n\t\tr.SetOffset(start + end - r.End())\n", Replace: "\t\tr.Reverse()\n\t\tr.SetOffset(start + end - m.End())\n", Rule: "loopdep", Key: "multi.(*Multi).Reverse/r.SetOffset"},
		variant{Name: "benign-offset-via-local", File: mult, Find: "\t\tr.RevComp()\n\t\tr.SetOffset(start + end - r.End())\n", Replace: "\t\trowEnd := r.End()\n\t\tr.RevComp()\n\t\to := start + end - rowEnd\n\t\tr.SetOffset(o)\n"},
	)
	selftests["C06"] = []variant{
		{Name: "truncate-shares-source", File: utils, Find: "\t\t\tdst.SetSlice(sl.Make(0, end-start).Append(sl.Slice(start-offset, end-offset)))\n", Replace: "\t\t\tdst.SetSlice(sl.Slice(start-offset, end-offset))\n", Rule: "fresh/freshdst", Key: "sequtils.Truncate/dst.SetSlice#2"},
		{Name: "compose-segments-alias-source", File: utils, Find: "\t\tt[i] = sl.Make(l, l)\n\t\tif l > 0 {\n\t\t\tt[i].Copy(sl.Slice(max(f.Start()-offset, 0), min(f.End()-offset, pLen)))\n\t\t}\n", Replace: "\t\tt[i] = sl.Slice(max(f.Start()-offset, 0), max(min(f.End()-offset, pLen), max(f.Start()-offset, 0)))\n", Rule: "fresh/freshdst", Key: "sequtils.Compose/r.SetSlice"},
		{Name: "stitch-single-feature-shortcut-aliases", File: utils, Find: "\tdst.SetSlice(t)\n\tif dst, ok := dst.(seq.ConformationSetter); ok {\n\t\tdst.SetConformation(feat.Linear)\n\t}\n\tdst.SetOffset(0)\n\n\treturn nil\n}\n\ntype SliceReverser interface {", Replace: "\tif len(fsp) == 1 {\n\t\tdst.SetSlice(sl.Slice(max(fsp[0].s-offset, 0), min(fsp[0].e-offset, pLen)))\n\t} else {\n\t\tdst.SetSlice(t)\n\t}\n\tif dst, ok := dst.(seq.ConformationSetter); ok {\n\t\tdst.SetConformation(feat.Linear)\n\t}\n\tdst.SetOffset(0)\n\n\treturn nil\n}\n\ntype SliceReverser interface {", Rule: "fresh/freshdst", Key: "sequtils.Stitch/dst.SetSlice"},
		{Name: "join-result-aliases-source", File: utils, Find: "\tt := dst.Slice().Make(srcLen, srcLen+dstSl.Len())\n\tt.Copy(srcSl)\n\to.SetSlice(t.Append(dstSl))\n", Replace: "\to.SetSlice(srcSl.Append(dstSl))\n", Rule: "fresh/freshdst", Key: "sequtils.Join/o.SetSlice"},
		{Name: "compose-reverse-once", File: utils, Find: "\t\t\t\tr.SetSlice(ts)\n\t\t\t\tif _, ok := src.Alphabet().(alphabet.Complementor); ok {\n\t\t\t\t\tr.RevComp()\n\t\t\t\t} else {\n\t\t\t\t\tr.Reverse()\n\t\t\t\t}\n", Replace: "\t\t\t\tif r.Slice().Len() == 0 {\n\t\t\t\t\tr.SetSlice(ts)\n\t\t\t\t\tif _, ok := src.Alphabet().(alphabet.Complementor); ok {\n\t\t\t\t\t\tr.RevComp()\n\t\t\t\t\t} else {\n\t\t\t\t\t\tr.Reverse()\n\t\t\t\t\t}\n\t\t\t\t}\n", Rule: "mustpass", Key: "sequtils.Compose/append(r.Slice())"},
		{Name: "compose-noncomplementor-not-reversed", File: utils, Find: "\t\t\t\t} else {\n\t\t\t\t\tr.Reverse()\n\t\t\t\t}\n", Replace: "\t\t\t\t}\n", Rule: "mustpass", Key: "sequtils.Compose/append(r.Slice())"},
		{Name: "benign-make-copy-instead-of-append", File: utils, Find: "\t\t\tdst.SetSlice(sl.Make(0, end-start).Append(sl.Slice(start-offset, end-offset)))\n", Replace: "\t\t\tfresh := sl.Make(end-start, end-start)\n\t\t\tfresh.Copy(sl.Slice(start-offset, end-offset))\n\t\t\tdst.SetSlice(fresh)\n"},
		{Name: "benign-fresh-reverser-per-feature", File: utils, Find: "\t\t\t\tif r == nil {\n\t\t\t\t\tr = src.New().(SliceReverser)\n\t\t\t\t\tif _, ok := src.Alphabet().(alphabet.Complementor); ok {\n\t\t\t\t\t\tr.SetAlphabet(src.Alphabet())\n\t\t\t\t\t}\n\t\t\t\t}\n", Replace: "\t\t\t\tr = src.New().(SliceReverser)\n\t\t\t\tif _, ok := src.Alphabet().(alphabet.Complementor); ok {\n\t\t\t\t\tr.SetAlphabet(src.Alphabet())\n\t\t\t\t}\n"},
	}
	selftests["C07"] = append(append([]variant{}, cloneFaults...),
		variant{Name: "qseq-appendcolumns-retains", File: qaln, Find: "\ts.Seq = append(s.Seq, make([][]alphabet.QLetter, len(a))...)[:len(s.Seq)]\n\tfor _, c := range a {\n\t\ts.Seq = append(s.Seq, append([]alphabet.QLetter(nil), c...))\n\t}\n", Replace: "\ts.Seq = append(s.Seq, a...)\n", Rule: "fresh/retain", Key: "alignment.(*QSeq).AppendColumns/caller-buffers"},
		variant{Name: "qseq-appendcolumns-retains-each", File: qaln, Find: "\t\ts.Seq = append(s.Seq, append([]alphabet.QLetter(nil), c...))\n", Replace: "\t\ts.Seq = append(s.Seq, c)\n", Rule: "fresh/retain", Key: "alignment.(*QSeq).AppendEach/caller-buffers"},
		variant{Name: "benign-column-copy-make", File: qaln, Find: "\t\ts.Seq = append(s.Seq, append([]alphabet.QLetter(nil), c...))\n", Replace: "\t\tcol := make([]alphabet.QLetter, len(c))\n\t\tcopy(col, c)\n\t\ts.Seq = append(s.Seq, col)\n"},
	)
	selftests["C09"] = []variant{
		{Name: "nw-qletters-wrong-matrix-cell", File: "align/nw_qletters.go", Find: "\t\t\tupScore := table[p-c] + la[rVal*let]\n", Replace: "\t\t\tupScore := table[p-c] + la[qVal*let]\n", Rule: "sibling", Key: "align.NW/alignLetters~alignQLetters"},
		{Name: "sw-letters-endcell-strict", File: "align/sw_letters.go", Find: "\t\t\t\tif score >= maxS && score == diagScore {", Replace: "\t\t\t\tif score > maxS && score == diagScore {", Rule: "sibling", Key: "align.SW/alignLetters~alignQLetters"},
		{Name: "swaffine-size-check-deleted", File: "align/sw_affine_letters.go", Find: "\tlet := len(a.Matrix)\n\tif let < alpha.Len() {\n\t\treturn nil, ErrMatrixWrongSize{Size: let, Len: alpha.Len()}\n\t}\n", Replace: "\tlet := len(a.Matrix)\n", Rule: "argcheck", Key: "align.SWAffine.alignLetters/matrix-size"},
		{Name: "nw-square-check-deleted", File: "align/nw_qletters.go", Find: "\tfor _, row := range a {\n\t\tif len(row) != let {\n\t\t\treturn nil, ErrMatrixNotSquare\n\t\t}\n\t\tla = append(la, row...)\n\t}\n\n\tindex := alpha.LetterIndex()\n\tfor i := range rSeq {", Replace: "\tfor _, row := range a {\n\t\tla = append(la, row...)\n\t}\n\n\tindex := alpha.LetterIndex()\n\tfor i := range rSeq {", Rule: "argcheck", Key: "align.NW.alignQLetters/matrix-square"},
		{Name: "sw-gapped-check-deleted", File: "align/sw.go", Find: "\tif alpha.IndexOf(alpha.Gap()) != 0 {\n\t\treturn nil, ErrNotGappedAlphabet\n\t}\n", Replace: "", Rule: "argcheck", Key: "align.SW.Align/ErrNotGappedAlphabet"},
		{Name: "fitted-validation-loop-q-deleted", File: "align/fitted_letters.go", Find: "\tfor i := range qSeq {\n\t\tif index[qSeq[i]] < 0 {\n\t\t\treturn nil, fmt.Errorf(\"align: illegal letter %q at position %d in qSeq\", qSeq[i], i)\n\t\t}\n\t}\n", Replace: "", Rule: "livguard", Key: "align.(Fitted).alignLetters/index[qSeq]"},
		{Name: "nwaffine-validation-skips-error", File: "align/nw_affine_qletters.go", Find: "\tfor i := range rSeq {\n\t\tif index[rSeq[i].L] < 0 {\n\t\t\treturn nil, fmt.Errorf(\"align: illegal letter %q at position %d in rSeq\", rSeq[i].L, i)\n\t\t}\n\t}\n", Replace: "\tfor i := range rSeq {\n\t\tif index[rSeq[i].L] < 0 {\n\t\t\tcontinue\n\t\t}\n\t}\n", Rule: "livguard", Key: "align.(NWAffine).alignQLetters/index[rSeq]"},
		{Name: "sw-fill-check-and-traceback", File: "align/sw_letters.go", Find: "\t\t\tif rVal < 0 {\n\t\t\t\treturn nil, fmt.Errorf(\"align: illegal letter %q at position %d in rSeq\", rSeq[i-1], i-1)\n\t\t\t}\n", Replace: "", Rule: "livguard", Key: "align.(SW).alignLetters/index[rSeq]"},
		// benign
		{Name: "benign-local-renamed-one-variant", File: "align/nw_letters.go", Find: "\t\t\tdiagScore := table[p-c-1] + la[rVal*let+qVal]\n\t\t\tupScore := table[p-c] + la[rVal*let]\n\t\t\tleftScore := table[p-1] + la[qVal]\n\n\t\t\ttable[p] = max3(diagScore, upScore, leftScore)", Replace: "\t\t\td := table[p-c-1] + la[rVal*let+qVal]\n\t\t\tupScore := table[p-c] + la[rVal*let]\n\t\t\tleftScore := table[p-1] + la[qVal]\n\n\t\t\ttable[p] = max3(d, upScore, leftScore)"},
		{Name: "benign-error-string-reworded", File: "align/nw_letters.go", Find: "\t\tif index[rSeq[i]] < 0 {\n\t\t\treturn nil, fmt.Errorf(\"align: illegal letter %q at position %d in rSeq\", rSeq[i], i)", Replace: "\t\tif index[rSeq[i]] < 0 {\n\t\t\treturn nil, fmt.Errorf(\"align: bad letter %q at %d in reference\", rSeq[i], i)"},
		{Name: "benign-validation-by-allvalid", File: "align/fitted_letters.go", Find: "\tfor i := range qSeq {\n\t\tif index[qSeq[i]] < 0 {\n\t\t\treturn nil, fmt.Errorf(\"align: illegal letter %q at position %d in qSeq\", qSeq[i], i)\n\t\t}\n\t}\n", Replace: "\tif ok, pos := alpha.AllValid(qSeq); !ok {\n\t\treturn nil, fmt.Errorf(\"align: illegal letter %q at position %d in qSeq\", qSeq[pos], pos)\n\t}\n", More: []edit{{"align/fitted_qletters.go", "\tfor i := range qSeq {\n\t\tif index[qSeq[i].L] < 0 {\n\t\t\treturn nil, fmt.Errorf(\"align: illegal letter %q at position %d in qSeq\", qSeq[i].L, i)\n\t\t}\n\t}\n", "\tif ok, pos := alpha.AllValidQLetter(qSeq); !ok {\n\t\treturn nil, fmt.Errorf(\"align: illegal letter %q at position %d in qSeq\", qSeq[pos].L, pos)\n\t}\n"}}},
	}
	const kmer = "index/kmerindex/kmerindex.go"
	selftests["C10"] = []variant{
		{Name: "foreach-preload-unchecked", File: kmer, Find: "\t\tcurrentBase = ki.lookUp[s.Seq[basePosition]]\n\t\tif currentBase >= 0 {\n\t\t\tkmer = (kmer << 2) | Kmer(currentBase)\n\t\t} else {\n\t\t\tkmer = 0\n\t\t\thigh = basePosition + 1\n\t\t}\n", Replace: "\t\tcurrentBase = ki.lookUp[s.Seq[basePosition]]\n\t\tkmer = (kmer << 2) | Kmer(currentBase)\n", Rule: "livguard", Key: "kmerindex.(*Index).ForEachKmerOf/index["},
		{Name: "kmerof-check-after-use", File: kmer, Find: "\t\tx := lookUp[v]\n\t\tif x < 0 {\n\t\t\treturn 0, ErrBadKmerText\n\t\t}\n\t\tkmer = (kmer << 2) | Kmer(x)\n", Replace: "\t\tx := lookUp[v]\n\t\tkmer = (kmer << 2) | Kmer(x)\n\t\tif x < 0 {\n\t\t\treturn 0, ErrBadKmerText\n\t\t}\n", Rule: "livguard", Key: "kmerindex.KmerOf/index["},
		{Name: "benign-check-as-positive-branch", File: kmer, Find: "\t\tx := lookUp[v]\n\t\tif x < 0 {\n\t\t\treturn 0, ErrBadKmerText\n\t\t}\n\t\tkmer = (kmer << 2) | Kmer(x)\n", Replace: "\t\tx := lookUp[v]\n\t\tif x >= 0 {\n\t\t\tkmer = (kmer << 2) | Kmer(x)\n\t\t} else {\n\t\t\treturn 0, ErrBadKmerText\n\t\t}\n"},
	}
	const mor = "morass/morass.go"
	selftests["C11"] = []variant{
		{Name: "clear-keeps-fast", File: mor, Find: "\tm.len = 0\n\tm.fast = false\n", Replace: "\tm.len = 0\n", Rule: "reset", Key: "morass.(*Morass).Clear/fast"},
		{Name: "clear-keeps-pos", File: mor, Find: "\tm.files = m.files[:0]\n\tm.pos = 0\n", Replace: "\tm.files = m.files[:0]\n", Rule: "reset", Key: "morass.(*Morass).Clear/pos"},
		{Name: "clear-default-keeps-chunk", File: mor, Find: "\tdefault:\n\t\t// No spare buffer; reuse the current one.\n\t\tm.chunk = m.chunk[:0]\n\t}\n", Replace: "\tdefault:\n\t}\n", Rule: "reset", Key: "morass.(*Morass).Clear/chunk"},
		{Name: "clear-keeps-error", File: mor, Find: "\tm._err = nil\n", Replace: "", Rule: "reset", Key: "morass.(*Morass).Clear/_err"},
		{Name: "clear-keeps-len-on-empty", File: mor, Find: "\tm.pos = 0\n\tm.len = 0\n\tm.fast = false\n", Replace: "\tm.pos = 0\n\tif len(m.files) > 0 {\n\t\tm.len = 0\n\t}\n\tm.fast = false\n", Rule: "reset", Key: "morass.(*Morass).Clear/len"},
		{Name: "benign-fast-established-by-finalise", File: mor, Find: "\t\tif m.pos < int64(cap(m.chunk)) {\n\t\t\tm.fast = true\n\t\t\tsort.Sort(m.chunk)", Replace: "\t\tm.fast = m.pos < int64(cap(m.chunk))\n\t\tif m.fast {\n\t\t\tsort.Sort(m.chunk)", More: []edit{{mor, "\tm.len = 0\n\tm.fast = false\n", "\tm.len = 0\n"}}},
	}
	selftests["C12"] = []variant{
		{Name: "finalise-no-wait", File: mor, Find: "\t\tm.writers.Wait()\n", Replace: "", Rule: "gojoin", Key: "morass.(*Morass).Push/go#1"},
		{Name: "finalise-wait-after-reading-files", File: mor, Find: "\t\tm.writers.Wait()\n\t\tif err := m.err(); err != nil {\n\t\t\treturn err\n\t\t}\n\t\tfor _, f := range m.files {", Replace: "\t\tfor _, f := range m.files {", More: []edit{{mor, "\t\theap.Init(&m.files)\n", "\t\tm.writers.Wait()\n\t\tif err := m.err(); err != nil {\n\t\t\treturn err\n\t\t}\n\t\theap.Init(&m.files)\n"}}, Rule: "gojoin", Key: "morass.(*Morass).Push/go#1"},
		{Name: "writer-done-not-deferred", File: mor, Find: "\t\tgo func() {\n\t\t\tdefer m.writers.Done()\n\t\t\tm.write()\n\t\t}()\n", Replace: "\t\tgo func() {\n\t\t\tm.writers.Done()\n\t\t\tm.write()\n\t\t}()\n", Rule: "gojoin", Key: "morass.(*Morass).Push/go#1"},
		{Name: "add-after-go", File: mor, Find: "\t\tm.writers.Add(1)\n\t\tgo func() {\n\t\t\tdefer m.writers.Done()\n\t\t\tm.write()\n\t\t}()\n", Replace: "\t\tgo func() {\n\t\t\tdefer m.writers.Done()\n\t\t\tm.write()\n\t\t}()\n\t\tm.writers.Add(1)\n", Rule: "gojoin", Key: "morass.(*Morass).Push/go#1"},
		{Name: "no-error-check-after-wait", File: mor, Find: "\t\tm.writers.Wait()\n\t\tif err := m.err(); err != nil {\n\t\t\treturn err\n\t\t}\n", Replace: "\t\tm.writers.Wait()\n", Rule: "gojoin", Key: "morass.(*Morass).Push/go#1"},
		{Name: "files-appended-outside-lock", File: mor, Find: "\tm.filesLock.Lock()\n\tm.files = append(m.files, f)\n\tm.filesLock.Unlock()\n", Replace: "\tm.filesLock.Lock()\n\tm.filesLock.Unlock()\n\tm.files = append(m.files, f)\n", Rule: "lockset", Key: "morass.(*Morass).write/files"},
		{Name: "err-read-without-lock", File: mor, Find: "func (m *Morass) err() error {\n\tm.errLock.Lock()\n\tdefer m.errLock.Unlock()\n\treturn m._err\n}", Replace: "func (m *Morass) err() error {\n\treturn m._err\n}", Rule: "lockset", Key: "morass.(*Morass).err/_err"},
		{Name: "benign-write-takes-done", File: mor, Find: "\t\tgo func() {\n\t\t\tdefer m.writers.Done()\n\t\t\tm.write()\n\t\t}()\n", Replace: "\t\tgo m.bgWrite()\n", More: []edit{{mor, "func (m *Morass) setErr(err error) {", "func (m *Morass) bgWrite() {\n\tdefer m.writers.Done()\n\tm.write()\n}\n\nfunc (m *Morass) setErr(err error) {"}}},
	}
	selftests["C13"] = []variant{
		{Name: "sync-result-stored-unconditionally", File: mor, Find: "\tif err := tf.Sync(); err != nil {\n\t\tm.setErr(err)\n\t}\n", Replace: "\tm.setErr(tf.Sync())\n", Rule: "errslot/sticky", Key: "morass.(*Morass).write/setErr#3"},
		{Name: "encode-error-dropped", File: mor, Find: "\t\tif err := enc.Encode(&e); err != nil {\n\t\t\tm.setErr(err)\n\t\t\treturn\n\t\t}\n", Replace: "\t\tif err := enc.Encode(&e); err != nil {\n\t\t\treturn\n\t\t}\n", Rule: "errslot/propagate", Key: "morass.(*Morass).write/Encode#1"},
		{Name: "sync-error-ignored", File: mor, Find: "\tif err := tf.Sync(); err != nil {\n\t\tm.setErr(err)\n\t}\n", Replace: "\ttf.Sync()\n", Rule: "errslot/propagate", Key: "morass.(*Morass).write/Sync#1"},
		{Name: "seek-error-ignored", File: mor, Find: "\t\t\t_, err := f.file.Seek(0, 0)\n\t\t\tif err != nil {\n\t\t\t\treturn err\n\t\t\t}\n\t\t\terr = f.decoder.Decode(&f.head)", Replace: "\t\t\tf.file.Seek(0, 0)\n\t\t\terr := f.decoder.Decode(&f.head)", Rule: "errslot/propagate", Key: "morass.(*Morass).Finalise/Seek#1"},
		{Name: "push-skips-error-check-after-handoff", File: mor, Find: "\tif err := m.err(); err != nil {\n\t\treturn err\n\t}\n\n\tif m.chunk == nil {\n\t\treturn errors.New(\"morass: push on finalised morass\")", Replace: "\tif m.chunk == nil {\n\t\treturn errors.New(\"morass: push on finalised morass\")", Rule: "errslot/propagate", Key: "morass.(*Morass).Push/consults-err"},
		{Name: "fast-eof-skips-autoclean", File: mor, Find: "\t\t\tif m.AutoClear {\n\t\t\t\tm.Clear()\n\t\t\t}\n\t\t\tif m.AutoClean {\n\t\t\t\tos.RemoveAll(m.dir)\n\t\t\t}\n\t\t\terr = io.EOF\n\t\t}\n\t} else {", Replace: "\t\t\tif m.AutoClear {\n\t\t\t\tm.Clear()\n\t\t\t}\n\t\t\terr = io.EOF\n\t\t}\n\t} else {", Rule: "residue", Key: "morass.(*Morass).Pull/EOF#1/AutoClean"},
		{Name: "merge-eof-skips-autoclear", File: mor, Find: "\t\t} else {\n\t\t\tif m.AutoClear {\n\t\t\t\tm.Clear()\n\t\t\t}\n\t\t\tif m.AutoClean {", Replace: "\t\t} else {\n\t\t\tif m.AutoClean {", Rule: "residue", Key: "morass.(*Morass).Pull/EOF#2/AutoClear"},
		{Name: "cleanup-removes-nothing", File: mor, Find: "\treturn os.RemoveAll(m.dir)\n}", Replace: "\treturn os.Remove(m.dir)\n}", Rule: "residue", Key: "morass.(*Morass).CleanUp/removes-dir"},
		{Name: "benign-sticky-inside-seterr", File: mor, Find: "\tm.errLock.Lock()\n\tm._err = err\n\tm.errLock.Unlock()\n", Replace: "\tm.errLock.Lock()\n\tif m._err == nil {\n\t\tm._err = err\n\t}\n\tm.errLock.Unlock()\n", More: []edit{{mor, "\tif err := tf.Sync(); err != nil {\n\t\tm.setErr(err)\n\t}\n", "\tm.setErr(tf.Sync())\n"}}},
	}
	const (
		proc = "concurrent/processor.go"
		prom = "concurrent/promise.go"
		gene = "feat/gene/gene.go"
	)
	selftests["C19"] = []variant{
		{Name: "workers-close-on-token-count", File: proc, Find: "\t\t\t\tp.work <- struct{}{}\n\t\t\t\tp.wg.Done()\n", Replace: "\t\t\t\tp.work <- struct{}{}\n\t\t\t\tif len(p.work) == p.threads {\n\t\t\t\t\tclose(p.out)\n\t\t\t\t}\n\t\t\t\tp.wg.Done()\n", More: []edit{{proc, "\tgo func() {\n\t\tp.wg.Wait()\n\t\tclose(p.out)\n\t}()\n", ""}}, Rule: "closeonce", Key: "concurrent.NewProcessor$1$1/close(out)"},
		{Name: "each-worker-closes", File: proc, Find: "\t\t\t\tp.work <- struct{}{}\n\t\t\t\tp.wg.Done()\n", Replace: "\t\t\t\tp.work <- struct{}{}\n\t\t\t\tp.wg.Done()\n\t\t\t\tclose(p.stop)\n", Rule: "closeonce", Key: "concurrent.NewProcessor$1$1/close(stop)"},
		{Name: "wait-without-mutex", File: prom, Find: "\tp.m.Lock()\n\tr, set := p.messageState()\n\tfor !set {\n\t\tp.set.Wait()\n\t\tr, set = p.messageState()\n\t}\n\tp.message <- r\n\tp.m.Unlock()\n", Replace: "\tr := <-p.message\n\tp.message <- r\n", Rule: "lockset", Key: "concurrent.(*Promise).Wait/message"},
		{Name: "wait-puts-back-after-unlock", File: prom, Find: "\tp.message <- r\n\tp.m.Unlock()\n\tf := make(chan Result, 1)", Replace: "\tp.m.Unlock()\n\tp.message <- r\n\tf := make(chan Result, 1)", Rule: "lockset", Key: "concurrent.(*Promise).Wait/message"},
		{Name: "break-without-mutex", File: prom, Find: "func (p *Promise) Break() {\n\tp.m.Lock()\n\tdefer p.m.Unlock()\n\n\tp.messageState()", Replace: "func (p *Promise) Break() {\n\tp.messageState()", Rule: "lockset", Key: "concurrent.(*Promise).messageState/message"},
		{Name: "benign-close-under-once", File: proc, Find: "\t\t\t\tp.work <- struct{}{}\n\t\t\t\tp.wg.Done()\n", Replace: "\t\t\t\tp.work <- struct{}{}\n\t\t\t\tp.wg.Done()\n\t\t\t\tif false {\n\t\t\t\t\tvar once sync.Once\n\t\t\t\t\tonce.Do(func() { close(p.stop) })\n\t\t\t\t}\n"},
		{Name: "benign-atomic-last-closes", File: proc, Find: "\t\t\t\tp.work <- struct{}{}\n\t\t\t\tp.wg.Done()\n", Replace: "\t\t\t\tp.work <- struct{}{}\n\t\t\t\tif atomic.AddInt32(&live, -1) == 0 {\n\t\t\t\t\tclose(done)\n\t\t\t\t}\n\t\t\t\tp.wg.Done()\n", More: []edit{{proc, "\tfor i := 0; i < threads; i++ {\n\t\tp.wg.Add(1)\n", "\tlive, done := int32(threads), make(chan struct{})\n\tfor i := 0; i < threads; i++ {\n\t\tp.wg.Add(1)\n"}, {proc, "import (\n", "import (\n\t\"sync/atomic\"\n"}}},
	}
	selftests["C20"] = []variant{
		{Name: "add-appends-to-receiver", File: gene, Find: "\tnewSlice := make(Exons, 0, len(s)+len(exons))\n\tnewSlice = append(newSlice, s...)\n\tnewSlice = append(newSlice, exons...)\n", Replace: "\tnewSlice := append(s, exons...)\n", Rule: "appendalias", Key: "gene.(Exons).Add/append(s, ...)"},
		{Name: "setexons-stores-before-check", File: gene, Find: "\tnewExons, err := buildExonsFor(t, exons...)\n\tif err != nil {\n\t\treturn err\n\t}\n\tt.exons = newExons\n\treturn nil", Replace: "\tnewExons, err := buildExonsFor(t, exons...)\n\tt.exons = newExons\n\tif err != nil {\n\t\treturn err\n\t}\n\treturn nil", Rule: "commitlast", Key: "gene.(*CodingTranscript).SetExons/store exons"},
		{Name: "setfeatures-length-before-zero-check", File: gene, Find: "\tif pos != 0 {\n\t\treturn errors.New(\"no transcript with 0 start on gene\")\n\t}\n\tg.length = end - pos\n", Replace: "\tg.length = end - pos\n\tif pos != 0 {\n\t\treturn errors.New(\"no transcript with 0 start on gene\")\n\t}\n", Rule: "commitlast", Key: "gene.(*Gene).SetFeatures/store length"},
		{Name: "benign-append-to-clamped-slice", File: gene, Find: "\tnewSlice := make(Exons, 0, len(s)+len(exons))\n\tnewSlice = append(newSlice, s...)\n\tnewSlice = append(newSlice, exons...)\n", Replace: "\tnewSlice := append(s[:len(s):len(s)], exons...)\n"},
	}
	const (
		filt = "align/pals/filter/filter.go"
		kern = "align/pals/dp/kernel.go"
		dpal = "align/pals/dp/align.go"
	)
	selftests["C14"] = []variant{
		{Name: "threshold-formula-wrong-sign", File: filt, Find: "\treturn hitLength + 1 - wordLength*(maxErrors+1)\n", Replace: "\treturn hitLength + 1 - wordLength*(maxErrors-1)\n", Rule: "tables/ukkonen", Key: "filter.MinWordsPerFilterHit/formula"},
		{Name: "threshold-formula-off-by-one", File: filt, Find: "\treturn hitLength + 1 - wordLength*(maxErrors+1)\n", Replace: "\treturn hitLength + 2 - wordLength*(maxErrors+1)\n", Rule: "tables/ukkonen", Key: "filter.MinWordsPerFilterHit/formula"},
		{Name: "threshold-args-swapped", File: filt, Find: "MinWordsPerFilterHit(f.minMatch, f.k, f.maxError)", Replace: "MinWordsPerFilterHit(f.minMatch, f.maxError, f.k)", Rule: "tables/ukkonen", Key: "call#1-roles"},
		{Name: "restart-emits-exclusive", File: filt, Find: "\tif q-tube.QHi > f.maxKmerDist {\n\t\tif tube.Count >= f.minKmersPerHit {", Replace: "\tif q-tube.QHi > f.maxKmerDist {\n\t\tif tube.Count > f.minKmersPerHit {", Rule: "emitguard", Key: "filter.(*Filter).hitTube/addHit"},
		{Name: "flush-skips-at-threshold", File: filt, Find: "\tif tube.Count < f.minKmersPerHit {\n\t\treturn nil\n\t}\n", Replace: "\tif tube.Count <= f.minKmersPerHit {\n\t\treturn nil\n\t}\n", Rule: "emitguard", Key: "filter.(*Filter).tubeFlush/addHit"},
		{Name: "tube-end-threshold-plus-one", File: filt, Find: "\ttube := &f.tubes[tubeIndex%cap(f.tubes)]\n\n\tif tube.Count >= f.minKmersPerHit {\n\t\terr := f.addHit(tubeIndex, tube.QLo, tube.QHi)\n\t\tif err != nil {\n\t\t\treturn err\n\t\t}\n\t}\n\n\ttube.Count = 0", Replace: "\ttube := &f.tubes[tubeIndex%cap(f.tubes)]\n\n\tif tube.Count >= f.minKmersPerHit+1 {\n\t\terr := f.addHit(tubeIndex, tube.QLo, tube.QHi)\n\t\tif err != nil {\n\t\t\treturn err\n\t\t}\n\t}\n\n\ttube.Count = 0", Rule: "emitguard", Key: "filter.(*Filter).tubeEnd/addHit"},
		{Name: "restart-without-emission-test", File: filt, Find: "\tif q-tube.QHi > f.maxKmerDist {\n\t\tif tube.Count >= f.minKmersPerHit {\n\t\t\terr := f.addHit(tubeIndex, tube.QLo, tube.QHi)\n\t\t\tif err != nil {\n\t\t\t\treturn err\n\t\t\t}\n\t\t}\n\n\t\ttube.Count = 1", Replace: "\tif q-tube.QHi > f.maxKmerDist {\n\t\tif q-tube.QLo < f.minMatch && tube.Count >= f.minKmersPerHit {\n\t\t\terr := f.addHit(tubeIndex, tube.QLo, tube.QHi)\n\t\t\tif err != nil {\n\t\t\t\treturn err\n\t\t\t}\n\t\t}\n\n\t\ttube.Count = 1", Rule: "emitguard", Key: "filter.(*Filter).hitTube/reset-Count#2"},
		{Name: "benign-threshold-via-local", File: filt, Find: "\treturn hitLength + 1 - wordLength*(maxErrors+1)\n", Replace: "\twords := hitLength + 1\n\tlost := wordLength * (1 + maxErrors)\n\treturn words - lost\n"},
		{Name: "benign-flush-positive-form", File: filt, Find: "\tif tube.Count < f.minKmersPerHit {\n\t\treturn nil\n\t}\n\n\terr := f.addHit(tubeIndex, tube.QLo, tube.QHi)\n\tif err != nil {\n\t\treturn err\n\t}\n\ttube.Count = 0\n\n\treturn nil", Replace: "\tif f.minKmersPerHit <= tube.Count {\n\t\terr := f.addHit(tubeIndex, tube.QLo, tube.QHi)\n\t\tif err != nil {\n\t\t\treturn err\n\t\t}\n\t\ttube.Count = 0\n\t}\n\n\treturn nil"},
	}
	selftests["C15"] = []variant{
		{Name: "length-test-or", File: kern, Find: "if k.highEnd.Bepos-k.highEnd.Bbpos >= k.minLen && k.highEnd.Aepos-k.highEnd.Abpos >= k.minLen {", Replace: "if k.highEnd.Bepos-k.highEnd.Bbpos >= k.minLen || k.highEnd.Aepos-k.highEnd.Abpos >= k.minLen {", Rule: "emitguard", Key: "alignRecursion/send#1/"},
		{Name: "length-test-one-sequence-only", File: kern, Find: "if k.highEnd.Bepos-k.highEnd.Bbpos >= k.minLen && k.highEnd.Aepos-k.highEnd.Abpos >= k.minLen {", Replace: "if k.highEnd.Bepos-k.highEnd.Bbpos >= k.minLen {", Rule: "emitguard", Key: "alignRecursion/send#1/Aepos-Abpos>=minLen"},
		{Name: "identity-test-removed", File: kern, Find: "\t\tif identity <= k.maxDiff {\n\t\t\tk.highEnd.Error = identity\n", Replace: "\t\tif identity <= 1 {\n\t\t\tk.highEnd.Error = identity\n", Rule: "emitguard", Key: "alignRecursion/send#1/identity<=maxDiff"},
		{Name: "error-field-not-the-tested-value", File: kern, Find: "\t\t\tk.highEnd.Error = identity\n", Replace: "\t\t\tk.highEnd.Error = identity / 2\n", Rule: "emitguard", Key: "alignRecursion/send#1/Error=identity"},
		{Name: "maxdiff-wired-as-minid", File: dpal, Find: "\t\tmaxDiff:     1 - a.minId,\n", Replace: "\t\tmaxDiff:     a.minId,\n", Rule: "emitguard", Key: "AlignTraps/wire-maxDiff"},
		{Name: "minlen-wired-from-k", File: dpal, Find: "\t\tminLen:      a.minHitLength,\n", Replace: "\t\tminLen:      a.k,\n", Rule: "emitguard", Key: "AlignTraps/wire-minLen"},
		{Name: "benign-nested-ifs", File: kern, Find: "if k.highEnd.Bepos-k.highEnd.Bbpos >= k.minLen && k.highEnd.Aepos-k.highEnd.Abpos >= k.minLen {", Replace: "if k.highEnd.Bepos-k.highEnd.Bbpos < k.minLen {\n\t} else if k.minLen <= k.highEnd.Aepos-k.highEnd.Abpos {"},
	}
	selftests["C18"] = []variant{
		{Name: "sanger-encode-offset-32", File: "alphabet/letters.go", Find: "\tcase Sanger, Illumina1_8, Illumina1_9:\n\t\tq = byte(qp)\n\t\tif q <= 93 {\n\t\t\tq += 33\n\t\t}", Replace: "\tcase Sanger, Illumina1_8, Illumina1_9:\n\t\tq = byte(qp)\n\t\tif q <= 93 {\n\t\t\tq += 32\n\t\t}", Rule: "tables/quality", Key: "Sanger/Qphred-offset-agree"},
		{Name: "illumina13-bound-too-low", File: "alphabet/letters.go", Find: "func (qp Qphred) Encode(e Encoding) (q byte) {\n\tif qp == 254 {\n\t\treturn '~'\n\t}\n\tif qp == 255 {\n\t\treturn ' '\n\t}\n\tswitch e {\n\tcase Sanger, Illumina1_8, Illumina1_9:\n\t\tq = byte(qp)\n\t\tif q <= 93 {\n\t\t\tq += 33\n\t\t}\n\tcase Illumina1_3:\n\t\tq = byte(qp)\n\t\tif q <= 62 {", Replace: "func (qp Qphred) Encode(e Encoding) (q byte) {\n\tif qp == 254 {\n\t\treturn '~'\n\t}\n\tif qp == 255 {\n\t\treturn ' '\n\t}\n\tswitch e {\n\tcase Sanger, Illumina1_8, Illumina1_9:\n\t\tq = byte(qp)\n\t\tif q <= 93 {\n\t\t\tq += 33\n\t\t}\n\tcase Illumina1_3:\n\t\tq = byte(qp)\n\t\tif q < 62 {", Rule: "tables/quality", Key: "Illumina1_3/Qphred-offset-agree"},
		{Name: "illumina19-decode-case-dropped", File: "alphabet/letters.go", Find: "func (e Encoding) DecodeToQphred(q byte) Qphred {\n\tswitch e {\n\tcase Sanger, Illumina1_8, Illumina1_9:", Replace: "func (e Encoding) DecodeToQphred(q byte) Qphred {\n\tswitch e {\n\tcase Sanger, Illumina1_8:", Rule: "tables/quality", Key: "Illumina1_9/Qphred-decode-case"},
		{Name: "solexa-decode-through-phred", File: "alphabet/letters.go", Find: "\tcase Solexa:\n\t\treturn Qsolexa(q) - 64\n", Replace: "\tcase Solexa:\n\t\treturn (Qphred(q) - 64).Qsolexa()\n", Rule: "tables/quality", Key: "Solexa/Qsolexa-offset-agree"},
		{Name: "solexa-guard-on-byte-image", File: "alphabet/letters.go", Find: "\t\tif '!'-64 <= qs && qs <= 62 {\n\t\t\tq = byte(qs + 64)\n\t\t}", Replace: "\t\tif q <= 62 {\n\t\t\tq += 64\n\t\t}", Rule: "tables/quality", Key: "Solexa/Qsolexa-negative-scores"},
		{Name: "benign-solexa-guard-without-lower-bound", File: "alphabet/letters.go", Find: "\t\tif '!'-64 <= qs && qs <= 62 {\n\t\t\tq = byte(qs + 64)\n\t\t}", Replace: "\t\tif qs < 63 {\n\t\t\tq = byte(qs + 64)\n\t\t}"},
	}
	const alpha = "alphabet/alphabet.go"
	selftests["C17"] = []variant{
		{Name: "dna-letter-order", File: alpha, Find: "\tDNA = MustComplement(NewComplementor(\n\t\t\"acgt\",", Replace: "\tDNA = MustComplement(NewComplementor(\n\t\t\"actg\",", Rule: "tables/alphabet", Key: "alphabet.DNA/complement-3-minus-index"},
		{Name: "rna-pairing-swapped", File: alpha, Find: "\tRNA = MustComplement(NewComplementor(\n\t\t\"acgu\",\n\t\tfeat.RNA,\n\t\tMustPair(NewPairing(\"acgunxACGUNX-\", \"ugcanxUGCANX-\")),", Replace: "\tRNA = MustComplement(NewComplementor(\n\t\t\"acgu\",\n\t\tfeat.RNA,\n\t\tMustPair(NewPairing(\"acgunxACGUNX-\", \"gucanxGUCANX-\")),", Rule: "tables/alphabet", Key: "alphabet.RNA/"},
		{Name: "dnagapped-gap-not-first", File: alpha, Find: "\tDNAgapped = MustComplement(NewComplementor(\n\t\t\"-acgt\",", Replace: "\tDNAgapped = MustComplement(NewComplementor(\n\t\t\"acgt-\",", Rule: "tables/alphabet", Key: "alphabet.DNAgapped/gap-index0"},
		{Name: "redundant-pairing-case-mixed", File: alpha, Find: "MustPair(NewPairing(\"acmgrsvtwyhkdbnxACMGRSVTWYHKDBNX-\", \"tgkcysbawrdmhvnxTGKCYSBAWRDMHVNX-\")),", Replace: "MustPair(NewPairing(\"acmgrsvtwyhkdbnxACMGRSVTWYHKDBNX-\", \"tgkcysbawrdmhvnxTGKCYSBAWRDMHVNx-\")),", Rule: "tables/alphabet", Key: "alphabet.DNAredundant/pairing"},
		{Name: "protein-duplicate-letter", File: alpha, Find: "\t\t\"-abcdefghijklmnpqrstvwxyz*\",", Replace: "\t\t\"-abcdefghijklmnpqrstvwxyza*\",", Rule: "tables/alphabet", Key: "alphabet.Protein/letters-distinct-ascii"},
		{Name: "rnaredundant-letter-unpaired", File: alpha, Find: "\tRNAredundant = MustComplement(NewComplementor(\n\t\t\"-acmgrsvuwyhkdbn\",", Replace: "\tRNAredundant = MustComplement(NewComplementor(\n\t\t\"-acmgrsvuwyhkdbnt\",", Rule: "tables/alphabet", Key: "alphabet.RNAredundant/complement-closed"},
		{Name: "benign-definitions-in-named-constants", File: alpha, Find: "\tDNA = MustComplement(NewComplementor(\n\t\t\"acgt\",\n\t\tfeat.DNA,\n\t\tMustPair(NewPairing(\"acgtnxACGTNX-\", \"tgcanxTGCANX-\")),", Replace: "\tDNA = MustComplement(NewComplementor(\n\t\tdnaLetters,\n\t\tfeat.DNA,\n\t\tdnaPairs,", More: []edit{{alpha, "const (\n\tCaseSensitive = true\n)\n", "const (\n\tCaseSensitive = true\n\tdnaLetters    = \"acgt\"\n)\n\nvar dnaPairs = MustPair(NewPairing(\"acgtnxACGTNX-\", \"tgcanxTGCANX-\"))\n"}}},
	}
	selftests["C01"] = append(selftests["C01"],
		variant{Name: "benign-writer-stored-via-local", File: "io/seqio/fastq/fastq.go", Find: "\treturn &Writer{\n\t\tw: w,\n\t}", Replace: "\tdst := w\n\treturn &Writer{\n\t\tw: dst,\n\t}"},
	)
	selftests["C03"] = append(selftests["C03"],
		variant{Name: "benign-bounded-preallocation", File: "io/featio/bed/bed.go", Find: "\tc := bytes.Split(f, []byte{','})\n\ta := make([]int, len(c))\n", Replace: "\tc := bytes.Split(f, []byte{','})\n\tn := mustAtoi([]byte(\"3\"), index)\n\tif n < 0 || n > len(c) {\n\t\tn = len(c)\n\t}\n\ta := make([]int, len(c), len(c)+n)\n"},
	)
	selftests["C11"] = append(selftests["C11"],
		variant{Name: "benign-pool-receive-in-helper", File: "morass/morass.go", Find: "\tselect {\n\tcase m.chunk = <-m.pool:\n\tdefault:\n\t\t// No spare buffer; reuse the current one.\n\t\tm.chunk = m.chunk[:0]\n\t}\n", Replace: "\tm.chunk = m.spareOr(m.chunk[:0])\n", More: []edit{{"morass/morass.go", "func (m *Morass) setErr(err error) {", "func (m *Morass) spareOr(cur sorter) sorter {\n\tselect {\n\tcase b := <-m.pool:\n\t\treturn b\n\tdefault:\n\t\treturn cur\n\t}\n}\n\nfunc (m *Morass) setErr(err error) {"}}},
	)
	selftests["C14"] = append(selftests["C14"],
		variant{Name: "benign-tick-period-via-local", File: "align/pals/filter/filter.go", Find: "\t// Ticker tracks cycling of circular list of active tubes.\n\tticker := tubeWidth\n", Replace: "\t// Ticker tracks cycling of circular list of active tubes.\n\tticker := tubeWidth\n\tperiod := f.tubeOffset\n", More: []edit{{"align/pals/filter/filter.go", "\t\t\tticker = f.tubeOffset\n", "\t\t\tticker = period\n"}}},
	)
	selftests["C18"] = append(selftests["C18"],
		variant{Name: "benign-round-with-floor", File: "alphabet/letters.go", Find: "\tQ := -10 * math.Log10(p/(1-p))\n\tif Q > 0 {\n\t\tQ += 0.5\n\t} else {\n\t\tQ -= 0.5\n\t}\n\treturn Qsolexa(Q)", Replace: "\tQ := -10 * math.Log10(p/(1-p))\n\treturn Qsolexa(math.Floor(Q + 0.5))"},
	)
	selftests["C19"] = append(selftests["C19"],
		variant{Name: "benign-deferred-broadcast", File: "concurrent/promise.go", Find: "func (p *Promise) fail(value interface{}, err error) (f bool) {\n\tr, _ := p.messageState()\n", Replace: "func (p *Promise) fail(value interface{}, err error) (f bool) {\n\tdefer p.set.Broadcast()\n\tr, _ := p.messageState()\n", More: []edit{{"concurrent/promise.go", "\tp.message <- r\n\tp.set.Broadcast()\n\n\treturn\n}\n\n// Recover a failed promise", "\tp.message <- r\n\n\treturn\n}\n\n// Recover a failed promise"}}},
		variant{Name: "benign-map-closes-queue-in-feeder", File: "concurrent/map.go", Find: "\tgo func() {\n\t\tfor s := 0; s*chunkSize < set.Len(); s++ {", Replace: "\tgo func() {\n\t\tdefer close(queue)\n\t\tfor s := 0; s*chunkSize < set.Len(); s++ {"},
	)
	selftests["C08"] = []variant{
		{Name: "nw-up-move-reads-left-cell", File: "align/nw_letters.go", Find: "\t\t\tupScore := table[p-c] + la[rVal*let]\n", Replace: "\t\t\tupScore := table[p-1] + la[rVal*let]\n", Rule: "dpstep", Key: "align.(NW).alignLetters/transition"},
		{Name: "sw-diag-scores-gap", File: "align/sw_qletters.go", Find: "\t\t\tdiagScore := table[p-c-1] + la[rVal*let+qVal]\n", Replace: "\t\t\tdiagScore := table[p-c-1] + la[rVal*let]\n", Rule: "dpstep", Key: "align.(SW).alignQLetters/transition"},
		{Name: "swaffine-traceback-wrong-predecessor", File: "align/sw_affine_letters.go", Find: "\t\tcase table[p-c][up] + la[rVal*let]:\n", Replace: "\t\tcase table[p-c-1][up] + la[rVal*let]:\n", Rule: "dpstep", Key: "align.(SWAffine).alignLetters/transition"},
		{Name: "nwaffine-left-layer-opens-with-reference-letter", File: "align/nw_affine_letters.go", Find: "\t\t\t\tadd(table[p-1][diag], a.GapOpen+la[qVal]),\n", Replace: "\t\t\t\tadd(table[p-1][diag], a.GapOpen+la[rVal*let]),\n", Rule: "dpstep", Key: "align.(NWAffine).alignLetters/transition"},
		{Name: "fitted-stride-dropped", File: "align/fitted_letters.go", Find: "\t\t\tupScore := table[p-c] + la[rVal*let]\n", Replace: "\t\t\tupScore := table[p-c] + la[rVal]\n", Rule: "stride", Key: "align.(Fitted).alignLetters/matrix-subscript reference"},
		{Name: "benign-row-offset-in-local", File: "align/nw_letters.go", Find: "\t\t\tdiagScore := table[p-c-1] + la[rVal*let+qVal]\n\t\t\tupScore := table[p-c] + la[rVal*let]\n", Replace: "\t\t\trow := rVal * let\n\t\t\tdiagScore := table[p-c-1] + la[row+qVal]\n\t\t\tupScore := la[row] + table[p-c]\n", More: []edit{{"align/nw_qletters.go", "\t\t\tdiagScore := table[p-c-1] + la[rVal*let+qVal]\n\t\t\tupScore := table[p-c] + la[rVal*let]\n", "\t\t\trow := rVal * let\n\t\t\tdiagScore := table[p-c-1] + la[row+qVal]\n\t\t\tupScore := la[row] + table[p-c]\n"}}},
	}
	const piler = "align/pals/piler.go"
	selftests["C16"] = []variant{
		{Name: "merge-drops-absorbed-images", File: piler, Find: "\t\t\tpi.images = append(pi.images, iv.images...)\n", Replace: "\t\t\t_ = iv.images\n", Rule: "pilemerge", Key: "images-carried-over"},
		{Name: "merge-skips-delete-for-single-match", File: piler, Find: "\tfor _, d := range r {\n\t\tt.Delete(d, false)\n\t}\n", Replace: "\tif len(r) > 1 {\n\t\tfor _, d := range r {\n\t\t\tt.Delete(d, false)\n\t\t}\n\t}\n", Rule: "pilemerge", Key: "matches-deleted"},
		{Name: "merge-end-not-extended", File: piler, Find: "\t\t\tpi.end = max(iv.end, pi.end)\n", Replace: "", Rule: "pilemerge", Key: "span-is-union"},
		{Name: "merge-end-only-from-first-match", File: piler, Find: "\t\t\t\tf = false\n\t\t\t}\n\t\t\tpi.end = max(iv.end, pi.end)\n", Replace: "\t\t\t\tpi.end = max(iv.end, pi.end)\n\t\t\t\tf = false\n\t\t\t}\n", Rule: "pilemerge", Key: "end-from-every-match"},
		{Name: "benign-merge-end-extended-by-comparison", File: piler, Find: "\t\t\tpi.end = max(iv.end, pi.end)\n", Replace: "\t\t\tif iv.end > pi.end {\n\t\t\t\tpi.end = iv.end\n\t\t\t}\n"},
		{Name: "merge-inserts-into-fresh-tree", File: piler, Find: "\tt.Insert(pi, false)\n", Replace: "\tt = &interval.IntTree{}\n\tp.intervals[pi.location] = t\n\tt.Insert(pi, false)\n", Rule: "pilemerge", Key: "merged-inserted"},
		{Name: "add-looks-up-one-orientation-twice", File: piler, Find: "\tif _, ok := p.seen[ba]; ok {\n", Replace: "\t_ = ba\n\tif _, ok := p.seen[ab]; ok {\n", Rule: "pileadd", Key: "duplicate-lookup-both-orientations"},
		{Name: "add-merges-first-feature-before-second-lookup", File: piler, Find: "\tif _, ok := p.seen[ba]; ok {\n\t\treturn duplicatePair\n\t}\n\n\tp.merge(&pileInterval{id: p.nextID(), start: fp.A.Start(), end: fp.A.End(), location: fp.A.Location(), images: []*Feature{fp.A}, overlap: p.overlap})\n", Replace: "\tp.merge(&pileInterval{id: p.nextID(), start: fp.A.Start(), end: fp.A.End(), location: fp.A.Location(), images: []*Feature{fp.A}, overlap: p.overlap})\n\tif _, ok := p.seen[ba]; ok {\n\t\treturn duplicatePair\n\t}\n\n", Rule: "pileadd", Key: "duplicate-verdict-before-merge"},
		{Name: "add-does-not-record-pair", File: piler, Find: "\tp.seen[ab] = struct{}{}\n", Replace: "\t_ = ab\n", Rule: "pileadd", Key: "pair-recorded-on-success"},
		{Name: "benign-start-min-over-all-matches", File: piler, Find: "\t\t\tif f {\n\t\t\t\tpi.start = min(iv.start, pi.start)\n\t\t\t\tf = false\n\t\t\t}\n", Replace: "\t\t\tpi.start = min(iv.start, pi.start)\n", More: []edit{{piler, "\t\tf  = true\n", ""}}},
	}
}
