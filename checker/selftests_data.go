package main

// Self-validation corpus (DESIGN.md Appendix A). Every variant compiles; the
// faults are single-site (or two cooperating sites) edits that the pinned test
// suite does not notice.
func init() {
	const (
		bed   = "io/featio/bed/bed.go"
		gff   = "io/featio/gff/gff.go"
		fasta = "io/seqio/fasta/fasta.go"
		fastq = "io/seqio/fastq/fastq.go"
	)
	selftests["C03"] = []variant{
		{Name: "bed6-guard-off-by-one", File: bed, Find: "const n = 6\n\tdefer handlePanic(b, &err)\n\tf := bytes.SplitN(line, []byte{'\\t'}, n+1)\n\tif len(f) < n {", Replace: "const n = 6\n\tdefer handlePanic(b, &err)\n\tf := bytes.SplitN(line, []byte{'\\t'}, n+1)\n\tif len(f) < n-1 {", Rule: "guardidx", Key: "bed.parseBed6/f[5]"},
		{Name: "gff-type-guard-deleted", File: gff, Find: "\tcase \"Type\", \"type\":\n\t\tif len(fields) <= 1 {\n\t\t\treturn nil, &csv.ParseError{Line: r.line, Err: ErrBadMetaLine}\n\t\t}\n", Replace: "\tcase \"Type\", \"type\":\n", Rule: "guardidx", Key: "commentMetaline/fields[1]"},
		{Name: "gff-frame-guard-weakened", File: gff, Find: "if len(fields) <= frameField {", Replace: "if len(fields) < frameField {", Rule: "guardidx", Key: "gff.(*Reader).Read/fields[7] via mustAtoFr"},
		{Name: "gff-version-guard-deleted", File: gff, Find: "\tcase \"gff-version\":\n\t\tif len(fields) <= 1 {\n\t\t\treturn nil, &csv.ParseError{Line: r.line, Err: ErrBadMetaLine}\n\t\t}\n", Replace: "\tcase \"gff-version\":\n", Rule: "guardidx", Key: "commentMetaline/fields[1] via mustAtoi"},
		{Name: "bed-rgb-guard-weakened", File: bed, Find: "\tif l < 3 {\n\t\tpanic(&csv.ParseError{Column: index, Err: ErrBadColorField})", Replace: "\tif l < 2 {\n\t\tpanic(&csv.ParseError{Column: index, Err: ErrBadColorField})", Rule: "guardidx", Key: "bed.mustAtoRgb/c[2]"},
		{Name: "gff-strand-string-panic", File: gff, Find: "\tif len(f[index]) != 1 {\n\t\tpanic(&csv.ParseError{Line: line, Column: index, Err: ErrBadStrandField})", Replace: "\tif len(f[index]) != 1 {\n\t\tpanic(\"gff: bad strand field\")", Rule: "panicval", Key: "gff.mustAtos/panic(string)"},
		{Name: "gff-zero-start-check-removed", File: gff, Find: "\tif start == 0 {\n\t\treturn nil, &csv.ParseError{Line: r.line, Column: startField, Err: ErrZeroStart}\n\t}\n", Replace: "", Rule: "panicval", Key: "gff.(*Reader).Read/feat.OneToZero"},
		{Name: "gff-region-zero-start-check-removed", File: gff, Find: "\t\tif start == 0 {\n\t\t\treturn nil, &csv.ParseError{Line: r.line, Column: 2, Err: ErrZeroStart}\n\t\t}\n", Replace: "", Rule: "panicval", Key: "commentMetaline/feat.OneToZero"},
		// benign
		{Name: "benign-guard-as-positive-if", File: bed, Find: "const n = 3\n\tdefer handlePanic(b, &err)\n\tf := bytes.SplitN(line, []byte{'\\t'}, n+1)\n\tif len(f) < n {\n\t\treturn nil, ErrBadBedType\n\t}\n", Replace: "const n = 3\n\tdefer handlePanic(b, &err)\n\tf := bytes.SplitN(line, []byte{'\\t'}, n+1)\n\tif len(f) >= n {\n\t} else {\n\t\treturn nil, ErrBadBedType\n\t}\n"},
		{Name: "benign-guard-as-switch", File: bed, Find: "const n = 4\n\tdefer handlePanic(b, &err)\n\tf := bytes.SplitN(line, []byte{'\\t'}, n+1)\n\tif len(f) < n {\n\t\treturn nil, ErrBadBedType\n\t}\n", Replace: "const n = 4\n\tdefer handlePanic(b, &err)\n\tcols := bytes.SplitN(line, []byte{'\\t'}, n+1)\n\tswitch {\n\tcase len(cols) < n:\n\t\treturn nil, ErrBadBedType\n\t}\n\tf := cols\n"},
		{Name: "benign-zero-check-as-less-than-one", File: gff, Find: "\tif start == 0 {\n\t\treturn nil, &csv.ParseError{Line: r.line, Column: startField, Err: ErrZeroStart}", Replace: "\tif start < 1 {\n\t\treturn nil, &csv.ParseError{Line: r.line, Column: startField, Err: ErrZeroStart}"},
	}
	selftests["C04"] = []variant{
		{Name: "bed-eof-early-return", File: bed, Find: "\t\tif err != io.EOF || len(line) == 0 {\n\t\t\treturn\n\t\t}\n", Replace: "\t\treturn\n", Rule: "lineio/eofdata", Key: "bed.(*Reader).Read/ReadBytes"},
		{Name: "gff-eof-early-return", File: gff, Find: "\t\t\tif len(line) == 0 {\n\t\t\t\treturn f, err\n\t\t\t}\n\t\t\terr = nil\n", Replace: "\t\t\treturn f, err\n", Rule: "lineio/eofdata", Key: "gff.(*Reader).Read/ReadBytes"},
		{Name: "gff-metaseq-eof-early-return", File: gff, Find: "\t\t\tif len(line) == 0 {\n\t\t\t\treturn nil, err\n\t\t\t}\n\t\t\terr = nil\n", Replace: "\t\t\treturn nil, err\n", Rule: "lineio/eofdata", Key: "gff.(*Reader).metaSeq/ReadBytes"},
		{Name: "gff-trimspace-weakened", File: gff, Find: "\t\tr.line++\n\t\tline = bytes.TrimSpace(line)\n\t\tif len(line) == 0 { // ignore blank lines", Replace: "\t\tr.line++\n\t\tline = bytes.TrimRight(line, \"\\n\")\n\t\tif len(line) == 0 { // ignore blank lines", Rule: "lineio/normalise", Key: "gff.(*Reader).Read/ReadBytes"},
		{Name: "bed-trimspace-dropped", File: bed, Find: "\tr.line++\n\tline = bytes.TrimSpace(line)\n", Replace: "\tr.line++\n\tline = line[:len(line)-1]\n", Rule: "lineio/normalise", Key: "bed.(*Reader).Read/ReadBytes"},
		{Name: "fasta-isprefix-ignored", File: fasta, Find: "\t\tif isPrefix {\n\t\t\tcontinue\n\t\t}\n\t\tline = bytes.TrimSpace(line)\n\t\tif len(line) == 0 {", Replace: "\t\t_ = isPrefix\n\t\tline = bytes.TrimSpace(line)\n\t\tif len(line) == 0 {", Rule: "lineio/fragments", Key: "fasta.(*Reader).Read/ReadLine/isPrefix"},
		{Name: "fastq-buffer-retained", File: fastq, Find: "\t\tline = append(line, buff...)\n", Replace: "\t\tline = buff\n", Rule: "lineio/fragments", Key: "fastq.(*Reader).Read/ReadLine/buffer"},
		{Name: "fasta-accumulator-reset", File: fasta, Find: "\t\tif isPrefix {\n\t\t\tcontinue\n\t\t}\n\t\tline = bytes.TrimSpace(line)\n\t\tif len(line) == 0 {", Replace: "\t\tif isPrefix {\n\t\t\tline = nil\n\t\t\tcontinue\n\t\t}\n\t\tline = bytes.TrimSpace(line)\n\t\tif len(line) == 0 {", Rule: "lineio/fragments", Key: "fasta.(*Reader).Read/ReadLine/accumulate"},
		// benign
		{Name: "benign-eof-test-in-condition", File: bed, Find: "\tif err != nil {\n\t\t// A final line without a terminator is returned with io.EOF;\n\t\t// parse it now, the next call reports the io.EOF.\n\t\tif err != io.EOF || len(line) == 0 {\n\t\t\treturn\n\t\t}\n\t}\n", Replace: "\tif err != nil && (err != io.EOF || len(line) == 0) {\n\t\treturn\n\t}\n"},
		{Name: "benign-trimright-crlf", File: bed, Find: "\tr.line++\n\tline = bytes.TrimSpace(line)\n", Replace: "\tr.line++\n\tline = bytes.TrimRight(line, \"\\r\\n\")\n"},
	}
}
