package main

import (
	"strings"

	"golang.org/x/tools/go/ssa"
)

// Registrations and explanations of the rules added in round 15 (DESIGN.md §10.14).
func init() {
	aligners := func(c *Ctx, names ...string) []*ssa.Function {
		var fns []*ssa.Function
		for _, a := range names {
			fns = append(fns, c.fn("align", a+".alignLetters"), c.fn("align", a+".alignQLetters"))
		}
		return fns
	}
	all := []string{"NW", "NWAffine", "SW", "SWAffine", "Fitted", "FittedAffine"}
	addRule("C09", "validateupfront", 16, func(c *Ctx, r string) {
		ruleValidateUpFront(c, r, aligners(c, "NW", "NWAffine", "Fitted", "FittedAffine"))
	})
	addRule("C08", "argmaxrunning", 4, func(c *Ctx, r string) { ruleArgmaxRunning(c, r, aligners(c, all...)) })
	addRule("C14", "scansargument", 1, ruleScansArgument)
	for _, id := range []string{"C01", "C04"} {
		addRule(id, "eofpending", 2, func(c *Ctx, r string) { ruleEOFPending(c, r, "io/seqio/fasta", "io/seqio/fastq") })
	}
	addRule("C01", "headeragree", 1, ruleHeaderAgree)
	addRule("C10", "kmerspace", 3, ruleKmerSpace)
	addRule("C17", "marklast", 1, ruleMarkLast)
	addRule("C15", "queryintact", 2, ruleQueryIntact)
	addRule("C13", "dirremoval", 1, ruleDirRemoval)
	addRule("C14", "reset", 2, ruleReset)
	addRule("C19", "chunkclamp", 1, ruleChunkClamp)
	for _, id := range []string{"C06", "C07"} {
		addRule(id, "rangeinclusive", 2, ruleRangeInclusive)
	}
	addRule("C06", "trimcoords", 3, ruleTrimCoords)
	addRule("C03", "qualcount", 1, ruleQualCount)
	addRule("C06", "clipordered", 1, ruleClipOrdered)
	addRule("C15", "trapcount", 3, ruleTrapCount)
	addRule("C05", "emptyalign", 4, ruleEmptyAlign)
	addRule("C09", "nilalphaarg", 6, ruleNilAlphaArg)
	for _, id := range []string{"C08", "C09"} {
		addRule(id, "argroles", 12, ruleArgRoles)
	}
	// C05: of the constant-table clauses, those the reverse complement rests on — every letter of a
	// complementing alphabet has a partner in it, and the pairing is a case-preserving involution
	addRule("C05", "tables/alphabet", 10, func(c *Ctx, r string) {
		from := len(c.Obs)
		ruleAlphabets(c)
		kept := c.Obs[:from]
		for _, o := range c.Obs[from:] {
			if o.Rule != r || strings.HasSuffix(o.Key, "/complement-closed") || strings.Contains(o.Key, "/pairing") {
				kept = append(kept, o)
			}
		}
		c.Obs = kept
	})
	extra := map[string]string{
		"C05": "emptyalign: RevComp and Reverse of the column-major alignments read no fixed column (Rows(), Seq[k]) on a path every call takes, so the alignment without columns is handled by the walk that finds nothing. tables/alphabet (the clauses complement-closed and pairing of C17's rule): in every built-in complementing alphabet each letter, in both cases, is paired with a letter of the same alphabet, and the pairing strings are an involution that preserves case — a nucleotide alphabet wired to the other molecule's pairing leaves a letter without a partner, and its reverse complement is not a letter.",
		"C08": "argroles: every call of an aligner body from its Align method passes letters that come from the reference parameter first and from the query parameter second (the matrix is indexed [reference][query] and need not be symmetric). argmaxrunning: every scan in an aligner body that stores its counter under a comparison of the element it looks at (the row of the best last-column cell in the fitted aligners, the layer of the best end-cell score in NWAffine) compares the element with the running best — the variable receiving the element in the same arm — or with the element at the position stored so far, and stores on the arm where the element is the larger.",
		"C14": "reset (as C11): Clear assigns every per-cycle field of the sorter the filter pushes its hits into — PALS.Align reuses one sorter for both strands, and a stale in-memory flag makes the second strand's hits vanish inside it. scansargument: every letter ForEachKmerOf reads (in the function, its closures and helpers it hands the sequence to) is a letter of its sequence parameter, not of the receiver's sequence (the filter looks up the query's words through ForEachKmerOf; words built from the target's letters lose matches at the start of the query; C10 decides the same through its rule foreignseq).",
		"C01": "eofpending: as C04. headeragree: the helper that writes the FASTQ label line is given the same arguments (apart from the prefix byte) for the '@' line and for the '+' line, since the reader accepts '+' text only if it equals the whole '@' line.",
		"C04": "eofpending: along every path from a ReadLine call of the FASTA and FASTQ readers that is consistent with err == io.EOF, a return handing back an error other than that io.EOF has looked at the accumulator of line fragments first (an unterminated last line whose length is a multiple of the buffer size is pending there).",
		"C06": "rangeinclusive: every test of Truncate that rejects the range by comparing start or end with src.Start() or src.End() is strict in the rejecting direction, so the sequence's own bounds are accepted. trimcoords: in Trim every integer has an origin degree (1 for q.Start() and q.End(), 0 for constants and lengths; sums and differences add); no value on the way to a result or to an EAt probe merges a position with a subscript, and both results and every EAt argument have degree 1. clipordered: every Slice(max(..), min(..)) of Stitch and Compose is reached only under a test that orders the two clipped bounds or found the clipped length positive.",
		"C07": "rangeinclusive: as C06 (Multi.Subseq and Multi.Truncate go through it row by row). carvecap also recognises a column cut as the tail of a block that grows round the loop by append.",
		"C10": "kmerspace: in ForEachKmerOf every integer is classed as a subscript of the whole sequence (start, end, what subscripts s.Seq), a subscript of a cut s.Seq[lo:hi] with a low bound, or neutral; no comparison relates the two kinds and the position handed to the callback is a subscript of the whole sequence. indexspace also accepts parameters used as the bounds of a cut of s.Seq.",
		"C03": "qualcount: the FASTQ reader decodes the scores from the very slice whose length a dominating comparison found equal to the number of letters read (not from a value derived from it afterwards). recovercover is positional: a call that can reach an explicit panic, and the panic itself, are covered only by a defer of the converter that dominates them.",
		"C09": "nilalphaarg: no method is called on the query's alphabet, in Align or in a private helper it is handed to, where it is not known to be non-nil. argroles: as C08. validateupfront: NW, NWAffine, Fitted and FittedAffine test the letter indices of each sequence, with an error return, in a loop of its own (depth one), not only inside the nested fill loop, which does not run when the other sequence is empty. The local aligners validate in the fill only, on the pinned tree as well, and are not instances.",
		"C13": "dirremoval: every removal of the sorter's temporary directory is os.RemoveAll (os.Remove fails silently when run files of an earlier cycle are still there).",
		"C15": "trapcount: from every insertion into the merger's trapezoid list (a retired trapezoid joined at the head, a trapezoid split by prependFrontTo) every path to a return or to the next insertion increments trapCount, the number of trapezoids FinaliseMerge hands out. queryintact: every RevComp or Reverse reached from PALS.Align or PALS.AlignFrom is applied to a value that is a copy (the result of Clone) on every path, never to a sequence held in a field of the aligner.",
		"C17": "marklast: in NewPairing no copy into (or assignment of) the complement table can run after a store that sets the high bit of one of its entries.",
		"C19": "chunkclamp: the upper bound of every set.Slice call in Map is clamped to set.Len() (a min call with Len() among its arguments, a value that takes Len() on one branch, or a dominating comparison with Len()). chunkpositive also decides the other way of counting chunks: a number of rounds computed by an integer division by the chunk size has to be behind a test that the set is not empty (the rounded-up size of an empty set is zero).",
	}
	for id, t := range extra {
		if p := props[id]; p != nil {
			p.Explanation += " " + t
		}
	}
}
