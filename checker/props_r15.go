package main

import "golang.org/x/tools/go/ssa"

// Registrations and explanations of the rules added in round 15 (DESIGN.md §10.14).
func init() {
	aligners := func(c *Ctx, names ...string) []*ssa.Function {
		var fns []*ssa.Function
		for _, a := range names {
			fns = append(fns, c.fn("align", a+".alignLetters"), c.fn("align", a+".alignQLetters"))
		}
		return fns
	}
	all := []string{"NW", "NWAffine", "SW", "SWAffine", "Fitted", "FittedAffine"}
	addRule("C08", "argmaxrunning", 4, func(c *Ctx, r string) { ruleArgmaxRunning(c, r, aligners(c, all...)) })
	addRule("C14", "scansargument", 1, ruleScansArgument)
	extra := map[string]string{
		"C08": "argmaxrunning: every scan in an aligner body that stores its counter under a comparison of the element it looks at (the row of the best last-column cell in the fitted aligners, the layer of the best end-cell score in NWAffine) compares the element with the running best — the variable receiving the element in the same arm — or with the element at the position stored so far, and stores on the arm where the element is the larger.",
		"C14": "scansargument: every letter ForEachKmerOf reads (in the function, its closures and helpers it hands the sequence to) is a letter of its sequence parameter, not of the receiver's sequence (the filter looks up the query's words through ForEachKmerOf; words built from the target's letters lose matches at the start of the query; C10 decides the same through its rule foreignseq).",
		"C03": "recovercover is positional: a call that can reach an explicit panic, and the panic itself, are covered only by a defer of the converter that dominates them.",
		"C19": "chunkpositive also decides the other way of counting chunks: a number of rounds computed by an integer division by the chunk size has to be behind a test that the set is not empty (the rounded-up size of an empty set is zero).",
	}
	for id, t := range extra {
		if p := props[id]; p != nil {
			p.Explanation += " " + t
		}
	}
}
