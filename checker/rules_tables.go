// Rule J "tables": constant data agree with each other. Everything is read
// from the constant values go/types computed for the literal arguments.
package main

import (
	"fmt"
	"go/ast"
	"go/constant"
	"go/token"
	"go/types"
	"strings"
	"unicode"

	"golang.org/x/tools/go/packages"
	"golang.org/x/tools/go/ssa"
)

type alphaDef struct {
	name       string
	pos        token.Pos
	letters    string
	gap, amb   int64
	cased      bool
	complement bool
	hasPair    bool
	ps, pc     string
}

// unwrapTo descends through single-argument wrapper calls (Must(...)) and
// package-level variables to a call of one of the named alphabet constructors.
func unwrapTo(p *packages.Package, e ast.Expr, names ...string) (*ast.CallExpr, string) {
	for depth := 0; depth < 8; depth++ {
		e = unparen(e)
		switch x := e.(type) {
		case *ast.CallExpr:
			o := calleeOf(p, x)
			for _, n := range names {
				if isFunc(o, p.PkgPath, n) {
					return x, n
				}
			}
			if len(x.Args) == 1 {
				e = x.Args[0]
				continue
			}
			return nil, ""
		case *ast.Ident:
			o := p.TypesInfo.Uses[x]
			if v, ok := o.(*types.Var); ok && v.Parent() == p.Types.Scope() {
				if init := pkgVarInit(p, v); init != nil {
					e = init
					continue
				}
			}
			return nil, ""
		default:
			return nil, ""
		}
	}
	return nil, ""
}

// viaAlphaHelper: the definition goes through a helper of the package (mustNucleic("acgt", feat.DNA, s, c))
// that calls the constructor with its parameters and with constants: the constructor call is rebuilt with the
// caller's arguments in place of the helper's parameters, and a local that holds the result of another
// constructor (pairs, err := NewPairing(paired, complement)) in place of that local.
func viaAlphaHelper(p *packages.Package, e ast.Expr) (*ast.CallExpr, string) {
	hc, ok := unparen(e).(*ast.CallExpr)
	if !ok {
		return nil, ""
	}
	h := helperDecl(p, hc)
	if h == nil || h.Type.Params == nil {
		return nil, ""
	}
	env := map[types.Object]ast.Expr{}
	i := 0
	for _, f := range h.Type.Params.List {
		for _, nm := range f.Names {
			if i < len(hc.Args) {
				env[p.TypesInfo.Defs[nm]] = hc.Args[i]
			}
			i++
		}
	}
	if i != len(hc.Args) {
		return nil, ""
	}
	var subst func(a ast.Expr, d int) ast.Expr
	rebuild := func(c *ast.CallExpr, d int) *ast.CallExpr {
		out := &ast.CallExpr{Fun: c.Fun, Lparen: c.Lparen, Rparen: c.Rparen}
		for _, a := range c.Args {
			out.Args = append(out.Args, subst(a, d+1))
		}
		return out
	}
	subst = func(a ast.Expr, d int) ast.Expr {
		id, ok := unparen(a).(*ast.Ident)
		if !ok || d > 4 {
			return a
		}
		o := p.TypesInfo.Uses[id]
		if o == nil {
			return a
		}
		if r, ok := env[o]; ok {
			return r
		}
		// a local of the helper assigned once from a call
		var def *ast.CallExpr
		n := 0
		ast.Inspect(h.Body, func(x ast.Node) bool {
			as, ok := x.(*ast.AssignStmt)
			if !ok || len(as.Rhs) != 1 {
				return true
			}
			for _, l := range as.Lhs {
				if li, ok := l.(*ast.Ident); ok && (p.TypesInfo.Defs[li] == o || p.TypesInfo.Uses[li] == o) {
					n++
					if c, ok := unparen(as.Rhs[0]).(*ast.CallExpr); ok {
						def = c
					}
				}
			}
			return true
		})
		if n == 1 && def != nil {
			return rebuild(def, d)
		}
		return a
	}
	var inner *ast.CallExpr
	which := ""
	ast.Inspect(h.Body, func(x ast.Node) bool {
		c, ok := x.(*ast.CallExpr)
		if !ok {
			return true
		}
		for _, n := range []string{"NewComplementor", "NewAlphabet"} {
			if isFunc(calleeOf(p, c), p.PkgPath, n) {
				if inner != nil {
					which = "ambiguous"
				}
				inner = c
				if which == "" {
					which = n
				}
			}
		}
		return true
	})
	if inner == nil || which == "ambiguous" {
		return nil, ""
	}
	return rebuild(inner, 0), which
}

func ruleAlphabets(c *Ctx) {
	const rule = "tables/alphabet"
	p := c.pkg("alphabet")
	count := 0
	for _, f := range p.Syntax {
		for _, d := range f.Decls {
			gd, ok := d.(*ast.GenDecl)
			if !ok || gd.Tok != token.VAR {
				continue
			}
			for _, s := range gd.Specs {
				vs := s.(*ast.ValueSpec)
				if len(vs.Values) != len(vs.Names) {
					continue
				}
				for i, n := range vs.Names {
					if !n.IsExported() {
						continue
					}
					call, which := unwrapTo(p, vs.Values[i], "NewComplementor", "NewAlphabet")
					if call == nil {
						call, which = viaAlphaHelper(p, vs.Values[i])
					}
					if call == nil {
						continue
					}
					count++
					key := "alphabet." + n.Name
					def, why := extractAlphaDef(p, n.Name, call, which)
					if def == nil {
						c.und(rule, key+"/definition", n.Pos(), "cannot read the definition as constants: "+why)
						continue
					}
					def.pos = n.Pos()
					checkAlphaDef(c, rule, key, def)
				}
			}
		}
	}
	c.Funcs["alphabet.<package-level alphabet definitions>"] = true
	c.floor(rule, 7*4)
	if count < 7 {
		c.und(rule, "alphabet/builtins", token.NoPos, fmt.Sprintf("found %d built-in alphabet definitions, expected at least 7", count))
	}
}

func extractAlphaDef(p *packages.Package, name string, call *ast.CallExpr, which string) (*alphaDef, string) {
	d := &alphaDef{name: name}
	var ok bool
	if which == "NewComplementor" {
		if len(call.Args) != 6 {
			return nil, "NewComplementor arity"
		}
		d.complement = true
		if d.letters, ok = constStr(p, call.Args[0]); !ok {
			return nil, "letters not constant"
		}
		if d.gap, ok = constInt(p, call.Args[3]); !ok {
			return nil, "gap not constant"
		}
		if d.amb, ok = constInt(p, call.Args[4]); !ok {
			return nil, "ambiguous not constant"
		}
		cv := constOf(p, call.Args[5])
		if cv == nil || cv.Kind() != constant.Bool {
			return nil, "caseSensitive not constant"
		}
		d.cased = constant.BoolVal(cv)
		if id, isId := unparen(call.Args[2]).(*ast.Ident); isId && id.Name == "nil" {
			return d, ""
		}
		pc, _ := unwrapTo(p, call.Args[2], "NewPairing")
		if pc == nil || len(pc.Args) != 2 {
			return nil, "pairing is not a NewPairing(s, c) of constants"
		}
		if d.ps, ok = constStr(p, pc.Args[0]); !ok {
			return nil, "pairing s not constant"
		}
		if d.pc, ok = constStr(p, pc.Args[1]); !ok {
			return nil, "pairing c not constant"
		}
		d.hasPair = true
		return d, ""
	}
	if len(call.Args) != 5 {
		return nil, "NewAlphabet arity"
	}
	if d.letters, ok = constStr(p, call.Args[0]); !ok {
		return nil, "letters not constant"
	}
	if d.gap, ok = constInt(p, call.Args[2]); !ok {
		return nil, "gap not constant"
	}
	if d.amb, ok = constInt(p, call.Args[3]); !ok {
		return nil, "ambiguous not constant"
	}
	cv := constOf(p, call.Args[4])
	if cv == nil || cv.Kind() != constant.Bool {
		return nil, "caseSensitive not constant"
	}
	d.cased = constant.BoolVal(cv)
	return d, ""
}

func checkAlphaDef(c *Ctx, rule, key string, d *alphaDef) {
	// letters: ASCII and distinct (up to case for case-insensitive alphabets)
	{
		bad := ""
		seen := map[rune]bool{}
		for _, r := range d.letters {
			if r > unicode.MaxASCII {
				bad = fmt.Sprintf("non-ASCII letter %q", r)
			}
			k := r
			if !d.cased {
				k = unicode.ToLower(r)
			}
			if seen[k] {
				bad = fmt.Sprintf("letter %q appears twice", r)
			}
			seen[k] = true
		}
		if bad != "" {
			c.bad(rule, key+"/letters-distinct-ascii", d.pos, bad+" in "+fmt.Sprintf("%q", d.letters))
		} else {
			c.ok(rule, key+"/letters-distinct-ascii", d.pos, fmt.Sprintf("%d distinct ASCII letters %q", len(d.letters), d.letters))
		}
	}
	index := func(r rune) int {
		if !d.cased {
			r = unicode.ToLower(r)
		}
		l := d.letters
		if !d.cased {
			l = strings.ToLower(l)
		}
		return strings.IndexRune(l, r)
	}
	// gap letter sits at index 0 whenever it is a letter of the alphabet
	if gi := index(rune(d.gap)); gi >= 0 {
		if gi != 0 {
			c.bad(rule, key+"/gap-index0", d.pos, fmt.Sprintf("gap %q is a letter of %q but has index %d, aligners require 0", rune(d.gap), d.letters, gi))
		} else {
			c.ok(rule, key+"/gap-index0", d.pos, fmt.Sprintf("gap %q at index 0", rune(d.gap)))
		}
	} else {
		c.triv(rule, key+"/gap-index0", d.pos, "gap letter is not part of the alphabet (ungapped)")
	}
	if !d.complement {
		c.triv(rule, key+"/pairing", d.pos, "not a complementing alphabet")
		c.triv(rule, key+"/complement-closed", d.pos, "not a complementing alphabet")
		return
	}
	if !d.hasPair {
		c.bad(rule, key+"/pairing", d.pos, "complementing alphabet defined with a nil pairing")
		return
	}
	// pairing: equal lengths, ASCII, involution, case preserving
	pair := map[rune]rune{}
	{
		bad := ""
		ps, pc := []rune(d.ps), []rune(d.pc)
		if len(ps) != len(pc) {
			bad = fmt.Sprintf("pairing strings differ in length (%d vs %d)", len(ps), len(pc))
		} else {
			for i := range ps {
				if ps[i] > unicode.MaxASCII || pc[i] > unicode.MaxASCII {
					bad = "non-ASCII rune in pairing"
				}
				if old, dup := pair[ps[i]]; dup && old != pc[i] {
					bad = fmt.Sprintf("%q paired twice", ps[i])
				}
				pair[ps[i]] = pc[i]
			}
			for i := range ps {
				if back, ok := pair[pc[i]]; !ok || back != ps[i] {
					bad = fmt.Sprintf("pairing is not an involution at %q -> %q", ps[i], pc[i])
				}
				if unicode.IsLetter(ps[i]) && (unicode.IsLower(ps[i]) != unicode.IsLower(pc[i])) {
					bad = fmt.Sprintf("pairing changes case: %q -> %q", ps[i], pc[i])
				}
			}
		}
		if bad != "" {
			c.bad(rule, key+"/pairing", d.pos, bad)
			return
		}
		c.ok(rule, key+"/pairing", d.pos, fmt.Sprintf("%d pairs, involutive, case preserving", len(ps)))
	}
	// closure: every letter (both cases if uncased) is paired with a letter of the alphabet
	{
		bad := ""
		all := d.letters
		if !d.cased {
			all = strings.ToLower(d.letters) + strings.ToUpper(d.letters)
		}
		n := 0
		for _, r := range all {
			cmp, ok := pair[r]
			if !ok {
				bad = fmt.Sprintf("letter %q has no complement", r)
				continue
			}
			if index(cmp) < 0 {
				bad = fmt.Sprintf("complement %q of %q is not a letter of the alphabet", cmp, r)
			}
			n++
		}
		if bad != "" {
			c.bad(rule, key+"/complement-closed", d.pos, bad)
		} else {
			c.ok(rule, key+"/complement-closed", d.pos, fmt.Sprintf("%d letters complement to letters of the alphabet", n))
		}
	}
	// four-letter alphabets: index(complement(l)) == 3 - index(l)
	if len(d.letters) == 4 {
		bad := ""
		for i, r := range d.letters {
			if ci := index(pair[r]); ci != 3-i {
				bad = fmt.Sprintf("index(complement(%q)) = %d, want %d", r, ci, 3-i)
			}
			if !d.cased {
				if ci := index(pair[unicode.ToUpper(r)]); ci != 3-i {
					bad = fmt.Sprintf("index(complement(%q)) = %d, want %d", unicode.ToUpper(r), ci, 3-i)
				}
			}
		}
		if bad != "" {
			c.bad(rule, key+"/complement-3-minus-index", d.pos, bad)
		} else {
			c.ok(rule, key+"/complement-3-minus-index", d.pos, "index of complement is 3 - index for all four letters (both cases)")
		}
	}
}

// ---- quality encodings -------------------------------------------------------

type encCase struct {
	pos       token.Pos
	offset    int64 // additive (Encode) or subtractive (Decode) constant
	bound     int64 // Encode only: scores <= bound get the offset
	hasOffset bool
	direct    bool // no Phred<->Solexa scale conversion in the case
	// Encode only: the range guard is evaluated on an unsigned value
	guardUnsigned bool
	// Encode only: the case clamps low bytes to a constant (`if q < K { q = K }`)
	clamp    bool
	clampPos token.Pos
	why      string
}

// encSwitch finds the switch over an alphabet.Encoding value in fd and
// returns its clauses keyed by constant name.
func encSwitch(p *packages.Package, fd *ast.FuncDecl) map[string]*ast.CaseClause {
	out := map[string]*ast.CaseClause{}
	ast.Inspect(fd.Body, func(n ast.Node) bool {
		sw, ok := n.(*ast.SwitchStmt)
		if !ok || sw.Tag == nil {
			return true
		}
		if tv, ok := p.TypesInfo.Types[sw.Tag]; !ok || !isNamed(tv.Type, p.PkgPath, "Encoding") {
			return true
		}
		for _, s := range sw.Body.List {
			cc := s.(*ast.CaseClause)
			for _, e := range cc.List {
				if o, ok := objOf(p, e).(*types.Const); ok {
					out[o.Name()] = cc
				}
			}
		}
		return false
	})
	return out
}

func hasScaleConversion(p *packages.Package, n ast.Node) bool {
	found := false
	ast.Inspect(n, func(n ast.Node) bool {
		if call, ok := n.(*ast.CallExpr); ok {
			o := calleeOf(p, call)
			if isMethod(o, p.PkgPath, "Qphred", "Qsolexa") || isMethod(o, p.PkgPath, "Qsolexa", "Qphred") {
				found = true
			}
		}
		return true
	})
	return found
}

// encodingHelperValue evaluates a call of a niladic helper method of
// Encoding for the encoding constant name: the constant returned by the case
// of the helper's switch that lists name, else the constant returned after
// the switch (or by its default clause).
func encodingHelperValue(p *packages.Package, call *ast.CallExpr, name string) (int64, bool) {
	f, ok := calleeOf(p, call).(*types.Func)
	if !ok {
		return 0, false
	}
	sig := f.Type().(*types.Signature)
	if sig.Recv() == nil || !isNamed(sig.Recv().Type(), p.PkgPath, "Encoding") {
		return 0, false
	}
	var fd *ast.FuncDecl
	for _, file := range p.Syntax {
		for _, d := range file.Decls {
			if x, ok := d.(*ast.FuncDecl); ok && p.TypesInfo.Defs[x.Name] == f {
				fd = x
			}
		}
	}
	if fd == nil || fd.Body == nil {
		return 0, false
	}
	retConst := func(stmts []ast.Stmt) (int64, bool) {
		if len(stmts) == 1 {
			if r, ok := stmts[0].(*ast.ReturnStmt); ok && len(r.Results) == 1 {
				return constInt(p, r.Results[0])
			}
		}
		return 0, false
	}
	cases := encSwitch(p, fd)
	if cc := cases[name]; cc != nil {
		return retConst(cc.Body)
	}
	// not listed: default clause, else the statement after the switch
	var def *ast.CaseClause
	ast.Inspect(fd.Body, func(n ast.Node) bool {
		if cc, ok := n.(*ast.CaseClause); ok && cc.List == nil {
			def = cc
		}
		return true
	})
	if def != nil {
		return retConst(def.Body)
	}
	if n := len(fd.Body.List); n > 0 {
		return retConst(fd.Body.List[n-1:])
	}
	return 0, false
}

func decodeCase(p *packages.Package, cc *ast.CaseClause, name string) *encCase {
	ec := &encCase{pos: cc.Pos()}
	if len(cc.Body) != 1 {
		ec.why = "case body is not a single return"
		return ec
	}
	ret, ok := cc.Body[0].(*ast.ReturnStmt)
	if !ok || len(ret.Results) != 1 {
		ec.why = "case body is not a single return"
		return ec
	}
	ec.direct = !hasScaleConversion(p, ret)
	n := 0
	ast.Inspect(ret, func(x ast.Node) bool {
		if be, ok := x.(*ast.BinaryExpr); ok && be.Op == token.SUB {
			if k, ok := constInt(p, be.Y); ok && constOf(p, be.X) == nil {
				ec.offset, ec.hasOffset = k, true
				n++
			} else if call, ok := unparen(be.Y).(*ast.CallExpr); ok && len(call.Args) == 0 {
				// the offset comes from a helper method of Encoding that switches on the receiver
				if k, ok := encodingHelperValue(p, call, name); ok {
					ec.offset, ec.hasOffset = k, true
					n++
				}
			}
		}
		return true
	})
	if n != 1 {
		ec.hasOffset = false
		ec.why = fmt.Sprintf("%d subtractive constants in the decode expression", n)
	}
	return ec
}

func encodeCase(p *packages.Package, cc *ast.CaseClause) *encCase {
	ec := &encCase{pos: cc.Pos()}
	direct := true
	n := 0
	// upperGuard finds the `x <= B` / `x < B` conjunct of a guard condition.
	var upperGuard func(e ast.Expr) *ast.BinaryExpr
	upperGuard = func(e ast.Expr) *ast.BinaryExpr {
		be, ok := unparen(e).(*ast.BinaryExpr)
		if !ok {
			return nil
		}
		if be.Op == token.LAND {
			if g := upperGuard(be.X); g != nil {
				return g
			}
			return upperGuard(be.Y)
		}
		if _, isConst := constInt(p, be.Y); isConst && (be.Op == token.LEQ || be.Op == token.LSS) {
			return be
		}
		return nil
	}
	for _, s := range cc.Body {
		switch s := s.(type) {
		case *ast.AssignStmt:
			if hasScaleConversion(p, s) {
				direct = false
			}
		case *ast.IfStmt:
			if s.Init != nil {
				continue
			}
			// clamp: if q < K { q = K }
			if cb, ok := unparen(s.Cond).(*ast.BinaryExpr); ok && (cb.Op == token.LSS || cb.Op == token.LEQ) {
				if _, isK := constInt(p, cb.Y); isK && len(s.Body.List) == 1 {
					if as, ok := s.Body.List[0].(*ast.AssignStmt); ok && as.Tok == token.ASSIGN && len(as.Rhs) == 1 {
						if _, isConst := constInt(p, as.Rhs[0]); isConst {
							ec.clamp, ec.clampPos = true, s.Pos()
							continue
						}
					}
				}
			}
			be := upperGuard(s.Cond)
			if be == nil {
				continue
			}
			b, _ := constInt(p, be.Y)
			if be.Op == token.LSS {
				b--
			}
			for _, bs := range s.Body.List {
				as, ok := bs.(*ast.AssignStmt)
				if !ok || len(as.Rhs) != 1 {
					continue
				}
				found := false
				if as.Tok == token.ADD_ASSIGN {
					if k, ok := constInt(p, as.Rhs[0]); ok {
						ec.offset, ec.bound, ec.hasOffset = k, b, true
						found = true
					}
				} else if as.Tok == token.ASSIGN {
					ast.Inspect(as.Rhs[0], func(x ast.Node) bool {
						if add, ok := x.(*ast.BinaryExpr); ok && add.Op == token.ADD && !found {
							if k, ok := constInt(p, add.Y); ok && constOf(p, add.X) == nil {
								ec.offset, ec.bound, ec.hasOffset = k, b, true
								found = true
							}
						}
						return true
					})
				}
				if found {
					n++
					if tv, ok := p.TypesInfo.Types[be.X]; ok {
						if bt, ok := tv.Type.Underlying().(*types.Basic); ok && bt.Info()&types.IsUnsigned != 0 {
							ec.guardUnsigned = true
						}
					}
				}
			}
		}
	}
	ec.direct = direct
	if n != 1 {
		ec.hasOffset = false
		ec.why = fmt.Sprintf("%d guarded additive constants in the encode case", n)
	}
	return ec
}

// ruleQuality: every Phred-offset encoding has agreeing Encode/Decode
// behaviour, and so has Solexa on the Solexa scale. The four functions are
// read by partial evaluation (peval.go) with the encoding constant and the
// score/byte symbolic, so a switch, an if chain, a helper that applies the
// offset, or a delegation to the sibling decoder are all read alike.
func ruleQuality(c *Ctx) {
	const rule = "tables/quality"
	p := c.pkg("alphabet")
	type encConst struct {
		name string
		val  int64
	}
	var encs []encConst
	sc := p.Types.Scope()
	for _, n := range sc.Names() {
		if k, ok := sc.Lookup(n).(*types.Const); ok && isNamed(k.Type(), p.PkgPath, "Encoding") {
			if v, ok := constant.Int64Val(k.Val()); ok {
				encs = append(encs, encConst{n, v})
			}
		}
	}
	if len(encs) < 7 {
		c.und(rule, "alphabet.Encoding/constants", token.NoPos, fmt.Sprintf("found %d Encoding constants, expected >= 7", len(encs)))
		return
	}
	dP := c.fn("alphabet", "Encoding.DecodeToQphred")
	dS := c.fn("alphabet", "Encoding.DecodeToQsolexa")
	eP := c.fn("alphabet", "Qphred.Encode")
	eS := c.fn("alphabet", "Qsolexa.Encode")
	for _, f := range []*ssa.Function{dP, dS, eP, eS} {
		c.Funcs[funcName(f)] = true
	}
	sym := aval{known: true, coef: 1}
	run := func(f *ssa.Function, args ...aval) []poutcome {
		pe := &peval{convNames: map[string]bool{"Qphred": true, "Qsolexa": true}, maxPaths: 400}
		return pe.run(f, args, 0)
	}
	type decInfo struct {
		present, direct, hasOffset bool
		offset                     int64
		why                        string
	}
	readDecode := func(f *ssa.Function, e int64) decInfo {
		var d decInfo
		outs := run(f, aval{known: true, k: e}, sym) // receiver e, byte q
		var live []poutcome
		for _, o := range outs {
			if !o.panics {
				live = append(live, o)
			}
		}
		if len(live) == 0 {
			return d
		}
		d.present = true
		n := 0
		for _, o := range live {
			if o.noRes || !o.res.known {
				d.why = "the decoded value could not be evaluated"
				continue
			}
			if o.res.coef == 1 {
				n++
				d.offset, d.hasOffset, d.direct = -o.res.k, true, o.res.conv == ""
			}
		}
		if n != 1 {
			d.hasOffset = false
			if d.why == "" {
				d.why = fmt.Sprintf("%d paths return the byte minus a constant", n)
			}
		}
		return d
	}
	type encInfo struct {
		present, direct, hasOffset, clamp, guardUnsigned bool
		offset, bound                                    int64
		why                                              string
	}
	readEncode := func(f *ssa.Function, e int64) encInfo {
		var en encInfo
		outs := run(f, sym, aval{known: true, k: e}) // receiver score, encoding e
		pairs := map[[2]int64]bool{}
		en.direct = true
		for _, o := range outs {
			if o.panics || o.noRes || !o.res.known {
				continue
			}
			// sentinel scores are tested for equality and answered with a constant
			sentinel := false
			for _, g := range o.guards {
				if g.op == token.EQL && g.lhs.conv == "" {
					sentinel = true
				}
			}
			if sentinel {
				continue
			}
			switch {
			case o.res.coef == 1 && o.res.k != 0:
				// the offset: which upper bound guards it?
				for _, g := range o.guards {
					if g.lhs.coef != 1 {
						continue
					}
					b, ok := int64(0), false
					switch g.op {
					case token.LEQ:
						b, ok = g.c-g.lhs.k, true
					case token.LSS:
						b, ok = g.c-g.lhs.k-1, true
					}
					if ok && g.lhs.conv == o.res.conv && g.lhs.k == 0 {
						pairs[[2]int64{o.res.k, b}] = true
						en.offset, en.bound, en.hasOffset = o.res.k, b, true
						en.guardUnsigned = g.unsigned
						en.present = true
					}
				}
				if o.res.conv != "" {
					en.direct = false
				}
			case o.res.coef == 1:
				en.present = true
				if o.res.conv != "" {
					en.direct = false
				}
			case o.res.coef == 0 && o.res.k != 0:
				// a constant answer under an ordering test of the (offset) score: a clamp
				for _, g := range o.guards {
					if g.lhs.coef == 1 && (g.op == token.LSS || g.op == token.LEQ) {
						en.clamp = true
					}
				}
				en.present = true
			}
		}
		if len(pairs) != 1 {
			en.hasOffset = false
			en.why = fmt.Sprintf("%d different (offset, bound) pairs on the paths of the encode function", len(pairs))
		}
		return en
	}
	pair := func(name string, ev int64, scale string, dfn, efn *ssa.Function) {
		key := "alphabet.Encoding/" + name + "/" + scale
		d := readDecode(dfn, ev)
		if !d.present {
			c.bad(rule, key+"-decode-case", dfn.Pos(), fmt.Sprintf("encoding %s has no case in %s: decoding it panics with \"illegal encoding\"", name, dfn.Name()))
			return
		}
		c.ok(rule, key+"-decode-case", dfn.Pos(), "case present")
		e := readEncode(efn, ev)
		if !e.present {
			c.bad(rule, key+"-encode-case", efn.Pos(), fmt.Sprintf("encoding %s has no case in %s.Encode: every score encodes to the zero byte", name, scale))
			return
		}
		c.ok(rule, key+"-encode-case", efn.Pos(), "case present")
		if !d.hasOffset || !e.hasOffset {
			c.und(rule, key+"-offset-agree", efn.Pos(), "cannot read offsets: "+d.why+" "+e.why)
			return
		}
		switch {
		case !d.direct || !e.direct:
			c.bad(rule, key+"-offset-agree", efn.Pos(), "a scale conversion is applied inside the "+scale+"-scale encode/decode of "+name)
		case d.offset != e.offset:
			c.bad(rule, key+"-offset-agree", efn.Pos(), fmt.Sprintf("Encode adds %d but Decode subtracts %d", e.offset, d.offset))
		case e.bound+e.offset != '~':
			c.bad(rule, key+"-offset-agree", efn.Pos(), fmt.Sprintf("offset applied up to score %d, i.e. byte %d; the printable range ends at '~' (126)", e.bound, e.bound+e.offset))
		default:
			c.ok(rule, key+"-offset-agree", efn.Pos(), fmt.Sprintf("Encode +%d for scores <= %d, Decode -%d, bound+offset = '~'", e.offset, e.bound, d.offset))
		}
		// Only Illumina 1.5+ reserves its lowest bytes (0,1 unused, 2 = 'B' the read
		// segment quality control indicator): a clamp anywhere else makes distinct
		// printable scores collide.
		if e.clamp {
			if name == "Illumina1_5" {
				c.ok(rule, key+"-clamp", efn.Pos(), "Illumina 1.5 clamps scores below 'B' by design (0,1 unused, 2 = indicator)")
			} else {
				c.bad(rule, key+"-clamp", efn.Pos(), "the Encode case of "+name+" clamps low bytes to a constant: scores inside its printable range (which starts at 0) collide and do not decode back; only Illumina1_5 reserves its lowest values")
			}
		}
		// A signed score type has printable negative scores (Solexa -5..-1 are ';'..'?'):
		// the range guard must see the signed value, not its unsigned image.
		if scale == "Qsolexa" {
			if e.guardUnsigned {
				c.bad(rule, key+"-negative-scores", efn.Pos(), "the score is converted to an unsigned byte before the `<= "+fmt.Sprint(e.bound)+"` range test, so every negative Solexa score (e.g. -5..-1, which print as ';'..'?') fails the test, never receives the +"+fmt.Sprint(e.offset)+" offset and is encoded as a byte >= 128 that does not decode back")
			} else {
				c.ok(rule, key+"-negative-scores", efn.Pos(), "the range guard is evaluated on the signed score: negative printable scores receive the offset")
			}
		}
	}
	for _, n := range encs {
		switch n.name {
		case "None":
			c.triv(rule, "alphabet.Encoding/None", token.NoPos, "None carries no scores")
		case "Solexa":
			pair(n.name, n.val, "Qsolexa", dS, eS)
		default:
			pair(n.name, n.val, "Qphred", dP, eP)
		}
	}
	// the decode function of the other scale: the byte's offset is removed on the encoding's own scale
	// and the result converted — (Qsolexa(q) - 64).Qphred(), not Qsolexa(q).Qphred() - 64
	for _, n := range encs {
		if n.name == "None" {
			continue
		}
		native, cross, scale := dP, dS, "Qsolexa"
		if n.name == "Solexa" {
			native, cross, scale = dS, dP, "Qphred"
		}
		nd := readDecode(native, n.val)
		if !nd.hasOffset || !nd.direct {
			continue // reported by the pair above
		}
		key := "alphabet.Encoding/" + n.name + "/" + scale + "-decode-converts-after-the-offset"
		var bad, seen bool
		why := ""
		for _, o := range run(cross, aval{known: true, k: n.val}, sym) {
			if o.panics || o.noRes || !o.res.known || o.res.coef != 1 {
				continue
			}
			seen = true
			switch {
			case o.res.conv == "":
				bad, why = true, "the byte is returned on the encoding's own scale without the conversion"
			case o.res.k != 0:
				bad, why = true, fmt.Sprintf("%d is added after the scale conversion: the offset has to come off the byte before it is converted, the two scales differ below Q 10", o.res.k)
			case o.res.preOK && -o.res.pre != nd.offset:
				bad, why = true, fmt.Sprintf("the byte minus %d is converted, but the encoding's offset is %d", -o.res.pre, nd.offset)
			}
		}
		switch {
		case !seen:
			c.triv(rule, key, cross.Pos(), "no evaluable path")
		case bad:
			c.bad(rule, key, cross.Pos(), "decoding "+n.name+" to the other scale: "+why)
		default:
			c.ok(rule, key, cross.Pos(), "the encoding's offset is removed first, then the score is converted")
		}
	}
	c.floor(rule, 6)
}

// ---- record markers ----------------------------------------------------------

// byteCmpConst finds `x[0] == K` (or a switch-free equivalent) in fd.
func byteCmpConsts(p *packages.Package, fd *ast.FuncDecl) []int64 {
	var out []int64
	ast.Inspect(fd.Body, func(n ast.Node) bool {
		be, ok := n.(*ast.BinaryExpr)
		if !ok || be.Op != token.EQL {
			return true
		}
		for _, pair := range [][2]ast.Expr{{be.X, be.Y}, {be.Y, be.X}} {
			if ix, ok := unparen(pair[0]).(*ast.IndexExpr); ok {
				if i, ok := constInt(p, ix.Index); ok && i == 0 {
					if k, ok := constInt(p, pair[1]); ok {
						out = append(out, k)
					}
				}
			}
		}
		return true
	})
	// or through a helper of the package given the constant: startsWith(l, '@') with l[0] == c inside
	ast.Inspect(fd.Body, func(n ast.Node) bool {
		call, ok := n.(*ast.CallExpr)
		if !ok {
			return true
		}
		h := helperDecl(p, call)
		if h == nil || h == fd || h.Type.Params == nil {
			return true
		}
		var params []types.Object
		for _, f := range h.Type.Params.List {
			for _, nm := range f.Names {
				params = append(params, p.TypesInfo.Defs[nm])
			}
		}
		if len(params) != len(call.Args) {
			return true
		}
		ast.Inspect(h.Body, func(m ast.Node) bool {
			be, ok := m.(*ast.BinaryExpr)
			if !ok || be.Op != token.EQL {
				return true
			}
			for _, pair := range [][2]ast.Expr{{be.X, be.Y}, {be.Y, be.X}} {
				ix, ok := unparen(pair[0]).(*ast.IndexExpr)
				if !ok {
					continue
				}
				if i, ok := constInt(p, ix.Index); !ok || i != 0 {
					continue
				}
				id, ok := unparen(pair[1]).(*ast.Ident)
				if !ok {
					continue
				}
				for j, po := range params {
					if po != nil && p.TypesInfo.Uses[id] == po {
						if k, ok := constInt(p, call.Args[j]); ok {
							out = append(out, k)
						}
					}
				}
			}
			return true
		})
		return true
	})
	return out
}

func ruleMarkers(c *Ctx) {
	const rule = "tables/markers"
	// FASTA: reader and writer prefixes are initialised from the same constants
	{
		p := c.pkg("io/seqio/fasta")
		get := func(fn string) map[string]string {
			fd, _ := c.decl("io/seqio/fasta", fn)
			m := map[string]string{}
			ast.Inspect(fd.Body, func(n ast.Node) bool {
				kv, ok := n.(*ast.KeyValueExpr)
				if !ok {
					return true
				}
				id, ok := kv.Key.(*ast.Ident)
				if !ok || (id.Name != "IDPrefix" && id.Name != "SeqPrefix") {
					return true
				}
				if call, ok := unparen(kv.Value).(*ast.CallExpr); ok && len(call.Args) == 1 {
					if s, ok := constStr(p, call.Args[0]); ok {
						m[id.Name] = "=" + s
					}
				}
				return true
			})
			return m
		}
		r, w := get("NewReader"), get("NewWriter")
		for _, f := range []string{"IDPrefix", "SeqPrefix"} {
			key := "fasta/" + f + " reader==writer"
			fd, _ := c.decl("io/seqio/fasta", "NewWriter")
			switch {
			case r[f] == "" || w[f] == "":
				c.und(rule, key, fd.Pos(), "prefix is not initialised from a constant in NewReader/NewWriter")
			case r[f] != w[f]:
				c.bad(rule, key, fd.Pos(), fmt.Sprintf("the writer emits %q but the reader classifies on %q", w[f][1:], r[f][1:]))
			default:
				c.ok(rule, key, fd.Pos(), fmt.Sprintf("both use %q", r[f][1:]))
			}
		}
		if r["IDPrefix"] != "" && r["IDPrefix"] == r["SeqPrefix"] {
			c.bad(rule, "fasta/IDPrefix != SeqPrefix", token.NoPos, "identical header and sequence prefixes cannot be told apart")
		}
	}
	// FASTQ: '@' and '+' at the writer's call sites equal what the reader tests
	{
		p := c.pkg("io/seqio/fastq")
		id1, _ := c.decl("io/seqio/fastq", "maybeID1")
		id2, _ := c.decl("io/seqio/fastq", "maybeID2")
		k1, k2 := byteCmpConsts(p, id1), byteCmpConsts(p, id2)
		wr, _ := c.decl("io/seqio/fastq", "(*Writer).Write")
		whObj := c.obj("io/seqio/fastq", "(*Writer).writeHeader")
		if len(k1) != 1 || len(k2) != 1 {
			c.und(rule, "fastq/reader-markers", id1.Pos(), "maybeID1/maybeID2 do not compare the first byte with one constant each")
			return
		}
		var hdr []int64
		var hdrPos []token.Pos
		var lits []string
		var litPos []token.Pos
		// a local closure that forwards its parameter to writeHeader (putHeader := func(prefix byte) ... w.writeHeader(prefix, s)):
		// its call sites are the header call sites
		forwarders := map[types.Object]int{}
		inForwarder := map[*ast.CallExpr]bool{}
		ast.Inspect(wr.Body, func(n ast.Node) bool {
			as, ok := n.(*ast.AssignStmt)
			if !ok || len(as.Lhs) != 1 || len(as.Rhs) != 1 {
				return true
			}
			fl, ok := unparen(as.Rhs[0]).(*ast.FuncLit)
			id, ok2 := as.Lhs[0].(*ast.Ident)
			if !ok || !ok2 || fl.Type.Params == nil {
				return true
			}
			var params []types.Object
			for _, f := range fl.Type.Params.List {
				for _, nm := range f.Names {
					params = append(params, p.TypesInfo.Defs[nm])
				}
			}
			ast.Inspect(fl.Body, func(m ast.Node) bool {
				c2, ok := m.(*ast.CallExpr)
				if !ok || calleeOf(p, c2) != whObj || len(c2.Args) < 1 {
					return true
				}
				if a, ok := unparen(c2.Args[0]).(*ast.Ident); ok {
					for i, po := range params {
						if po != nil && p.TypesInfo.Uses[a] == po {
							forwarders[p.TypesInfo.ObjectOf(id)] = i
							inForwarder[c2] = true
						}
					}
				}
				return true
			})
			return true
		})
		ast.Inspect(wr.Body, func(n ast.Node) bool {
			call, ok := n.(*ast.CallExpr)
			if !ok {
				return true
			}
			if inForwarder[call] {
				return true
			}
			if fid, ok := unparen(call.Fun).(*ast.Ident); ok {
				if pi, isF := forwarders[p.TypesInfo.ObjectOf(fid)]; isF && pi < len(call.Args) {
					if k, ok := constInt(p, call.Args[pi]); ok {
						hdr = append(hdr, k)
					} else {
						hdr = append(hdr, -1)
					}
					hdrPos = append(hdrPos, call.Pos())
					return true
				}
			}
			if calleeOf(p, call) == whObj && len(call.Args) >= 1 {
				// the prefix: the constant among the arguments (the first one, unless a byte counter is
				// threaded through in front of it)
				found := int64(-1)
				for _, a := range call.Args {
					if k, ok := constInt(p, a); ok {
						found = k
						break
					}
				}
				hdr = append(hdr, found)
				hdrPos = append(hdrPos, call.Pos())
				return true
			}
			if f, ok := calleeOf(p, call).(*types.Func); ok && len(call.Args) >= 1 && (f.Name() == "Write" || (f.Pkg() == p.Types && !f.Exported())) {
				// w.w.Write([]byte("+\n")), or the same through a private helper that counts the bytes
				for _, a := range call.Args {
					if conv, ok := unparen(a).(*ast.CallExpr); ok && len(conv.Args) == 1 {
						if s, ok := constStr(p, conv.Args[0]); ok && len(s) >= 2 {
							lits = append(lits, s)
							litPos = append(litPos, call.Pos())
						}
					}
				}
			}
			return true
		})
		if len(hdr) == 1 {
			// the reader demands that the text after '+' equals the whole '@' line (name and
			// description); that holds by construction only if both lines come from the same routine
			c.bad(rule, "fastq/quality-id line written like the id line", hdrPos[0], "only one of the two header lines is written by writeHeader: the '+' line (written when QID is set) is assembled separately, so it need not carry the same name and description as the '@' line, which the reader compares it with byte for byte — such records are rejected on read-back")
			return
		}
		if len(hdr) != 2 {
			c.und(rule, "fastq/writer-markers", wr.Pos(), fmt.Sprintf("expected 2 writeHeader call sites in Write, found %d", len(hdr)))
			return
		}
		names := []string{"id line", "quality-id line"}
		want := []int64{k1[0], k2[0]}
		for i := range hdr {
			key := "fastq/" + names[i] + " marker reader==writer"
			if hdr[i] != want[i] {
				c.bad(rule, key, hdrPos[i], fmt.Sprintf("the writer starts the %s with %q but the reader expects %q", names[i], rune(hdr[i]), rune(want[i])))
			} else {
				c.ok(rule, key, hdrPos[i], fmt.Sprintf("both use %q", rune(want[i])))
			}
		}
		for i, s := range lits {
			key := "fastq/bare quality-id line literal"
			if int64(s[0]) != k2[0] || s[len(s)-1] != '\n' || len(s) != 2 {
				c.bad(rule, key, litPos[i], fmt.Sprintf("the writer emits %q where the reader expects a line consisting of %q", s, rune(k2[0])))
			} else {
				c.ok(rule, key, litPos[i], fmt.Sprintf("%q", s))
			}
		}
		if k1[0] == k2[0] {
			c.bad(rule, "fastq/id1 != id2", id1.Pos(), "identical markers for the two header lines")
		}
	}
}

// ruleCaseFold: in the case-insensitive branch of newAlphabet every string
// that is ranged over or indexed to fill the valid/index tables derives from
// strings.ToLower/ToUpper of the definition — never from the raw definition,
// or a definition written in upper or mixed case leaves one case unmapped.
func ruleCaseFold(c *Ctx, rule string) {
	fn := c.fn("alphabet", "newAlphabet")
	pkg := modPath + "/alphabet"
	var csParam, letters *ssa.Parameter
	for _, prm := range fn.Params {
		if b, ok := prm.Type().Underlying().(*types.Basic); ok {
			if b.Kind() == types.Bool {
				csParam = prm
			}
			if b.Kind() == types.String && letters == nil {
				letters = prm
			}
		}
	}
	if csParam == nil || letters == nil {
		c.und(rule, "alphabet.newAlphabet/params", fn.Pos(), "expected a string definition and a bool caseSensitive parameter")
		return
	}
	// blocks where caseSensitive is known false
	uncased := func(b *ssa.BasicBlock) bool {
		for d := b.Idom(); d != nil; d = d.Idom() {
			ifi, ok := d.Instrs[len(d.Instrs)-1].(*ssa.If)
			if !ok {
				continue
			}
			e := forcedEdge(d, b)
			if ifi.Cond == ssa.Value(csParam) && e == 1 {
				return true
			}
			if u, ok := ifi.Cond.(*ssa.UnOp); ok && u.Op == token.NOT && u.X == ssa.Value(csParam) && e == 0 {
				return true
			}
		}
		return false
	}
	// blocks where caseSensitive is known true (their stores cannot be what an uncased block reads)
	cased := func(b *ssa.BasicBlock) bool {
		for d := b; d != nil; d = d.Idom() {
			if d == b {
				continue
			}
			ifi, ok := d.Instrs[len(d.Instrs)-1].(*ssa.If)
			if !ok {
				continue
			}
			e := forcedEdge(d, b)
			if ifi.Cond == ssa.Value(csParam) && e == 0 {
				return true
			}
			if u, ok := ifi.Cond.(*ssa.UnOp); ok && u.Op == token.NOT && u.X == ssa.Value(csParam) && e == 1 {
				return true
			}
		}
		return false
	}
	// the flow graph as it is when caseSensitive is false: an edge taken only when it is true does not exist
	feasible := func(pred, succ *ssa.BasicBlock) bool {
		ifi, ok := pred.Instrs[len(pred.Instrs)-1].(*ssa.If)
		if !ok || len(pred.Succs) != 2 || pred.Succs[0] == pred.Succs[1] {
			return true
		}
		if ifi.Cond == ssa.Value(csParam) && succ == pred.Succs[0] {
			return false
		}
		if u, ok := ifi.Cond.(*ssa.UnOp); ok && u.Op == token.NOT && u.X == ssa.Value(csParam) && succ == pred.Succs[1] {
			return false
		}
		return true
	}
	live := map[*ssa.BasicBlock]bool{}
	{
		work := []*ssa.BasicBlock{fn.Blocks[0]}
		live[fn.Blocks[0]] = true
		for len(work) > 0 {
			b := work[0]
			work = work[1:]
			for _, sc := range b.Succs {
				if feasible(b, sc) && !live[sc] {
					live[sc] = true
					work = append(work, sc)
				}
			}
		}
	}
	// reachingStores: the stores to the named field of the alphabet whose value the load x can see when
	// caseSensitive is false (backwards over feasible edges, stopping at the last store of each block)
	reachingStores := func(x ssa.Instruction, name string) []*ssa.Store {
		var out []*ssa.Store
		lastStore := func(b *ssa.BasicBlock, before int) *ssa.Store {
			for i := before - 1; i >= 0; i-- {
				if st, ok := b.Instrs[i].(*ssa.Store); ok {
					if n, ok := fieldOf(st.Addr, pkg, "alpha"); ok && n == name {
						return st
					}
				}
			}
			return nil
		}
		if st := lastStore(x.Block(), instrIndex(x.Block(), x)); st != nil {
			return []*ssa.Store{st}
		}
		seen := map[*ssa.BasicBlock]bool{}
		var back func(b *ssa.BasicBlock)
		back = func(b *ssa.BasicBlock) {
			for _, pr := range b.Preds {
				if !live[pr] || !feasible(pr, b) || seen[pr] {
					continue
				}
				seen[pr] = true
				if st := lastStore(pr, len(pr.Instrs)); st != nil {
					out = append(out, st)
					continue
				}
				back(pr)
			}
		}
		back(x.Block())
		return out
	}
	// feedsTable: the letter read from a string (directly, or by ranging over it) subscripts the valid or
	// index table of the alphabet
	feedsTable := func(ins ssa.Instruction) bool {
		var vals []ssa.Value
		if v, ok := ins.(ssa.Value); ok {
			vals = append(vals, v)
		}
		seenV := map[ssa.Value]bool{}
		for d := 0; d < 6 && len(vals) > 0; d++ {
			var next []ssa.Value
			for _, v := range vals {
				if seenV[v] || v.Referrers() == nil {
					continue
				}
				seenV[v] = true
				for _, r := range *v.Referrers() {
					switch y := r.(type) {
					case *ssa.Next:
						next = append(next, y)
					case *ssa.Extract:
						if y.Index == 2 {
							next = append(next, y)
						}
					case *ssa.Convert:
						next = append(next, y)
					case *ssa.Phi:
						next = append(next, y)
					case *ssa.IndexAddr:
						if y.Index == v {
							if name, ok := fieldOf(y.X, pkg, "alpha"); ok && (name == "valid" || name == "index") {
								return true
							}
						}
					}
				}
			}
			vals = next
		}
		return false
	}
	var origin func(v ssa.Value, at *ssa.BasicBlock, depth int) string // "folded", "raw", "other"
	origin = func(v ssa.Value, at *ssa.BasicBlock, depth int) string {
		if depth > 8 {
			return "other"
		}
		switch x := v.(type) {
		case *ssa.Parameter:
			if x == letters {
				return "raw"
			}
			return "other"
		case *ssa.Slice:
			return origin(x.X, at, depth+1)
		case *ssa.Call:
			if g := x.Call.StaticCallee(); g != nil && g.Pkg != nil && g.Pkg.Pkg.Path() == "strings" && (g.Name() == "ToLower" || g.Name() == "ToUpper") {
				return "folded"
			}
			return "other"
		case *ssa.BinOp:
			a, b := origin(x.X, at, depth+1), origin(x.Y, at, depth+1)
			if a == "raw" || b == "raw" {
				return "raw"
			}
			if a == "folded" && b == "folded" {
				return "folded"
			}
			return "other"
		case *ssa.UnOp:
			if x.Op == token.MUL {
				if name, ok := fieldOf(x.X, pkg, "alpha"); ok {
					// what the load sees when caseSensitive is false
					stores := reachingStores(x, name)
					if len(stores) > 0 {
						res := "folded"
						for _, st := range stores {
							switch o := origin(st.Val, at, depth+1); {
							case o == "raw":
								res = "raw"
							case o != "folded" && res != "raw":
								res = o
							}
						}
						return res
					}
				}
			}
			return "other"
		case *ssa.Phi:
			// in the case-insensitive branch, what arrives over an edge taken only when caseSensitive is true
			// is not what is read
			res := "folded"
			for i, e := range x.Edges {
				pred := x.Block().Preds[i]
				if cased(pred) {
					continue
				}
				if ifi, ok := pred.Instrs[len(pred.Instrs)-1].(*ssa.If); ok && len(pred.Succs) == 2 && pred.Succs[0] != pred.Succs[1] {
					edge := 0
					if pred.Succs[1] == x.Block() {
						edge = 1
					}
					if ifi.Cond == ssa.Value(csParam) && edge == 0 {
						continue
					}
					if u, ok := ifi.Cond.(*ssa.UnOp); ok && u.Op == token.NOT && u.X == ssa.Value(csParam) && edge == 1 {
						continue
					}
				}
				if o := origin(e, at, depth+1); o != "folded" {
					res = o
				}
			}
			return res
		}
		return "other"
	}
	n := 0
	for _, b := range fn.Blocks {
		if !live[b] {
			continue
		}
		for _, ins := range b.Instrs {
			if !uncased(b) && !feedsTable(ins) {
				continue
			}
			var str ssa.Value
			what := ""
			switch x := ins.(type) {
			case *ssa.Range:
				if bt, ok := x.X.Type().Underlying().(*types.Basic); ok && bt.Kind() == types.String {
					str, what = x.X, "ranged over"
				}
			case *ssa.Lookup:
				if bt, ok := x.X.Type().Underlying().(*types.Basic); ok && bt.Kind() == types.String {
					str, what = x.X, "indexed"
				}
			case *ssa.Index:
				if bt, ok := x.X.Type().Underlying().(*types.Basic); ok && bt.Kind() == types.String {
					str, what = x.X, "indexed"
				}
			}
			if str == nil {
				continue
			}
			n++
			key := fmt.Sprintf("alphabet.newAlphabet/uncased-table-fill#%d", n)
			switch origin(str, b, 0) {
			case "folded":
				c.ok(rule, key, ins.Pos(), "the string "+what+" derives from strings.ToLower/ToUpper of the definition")
			case "raw":
				c.bad(rule, key, ins.Pos(), "in the case-insensitive branch the raw definition string is "+what+" to fill the letter tables: for a definition written in upper or mixed case the other case is never marked valid nor indexed (IsValid('a') is false for \"ACGT\")")
			default:
				c.und(rule, key, ins.Pos(), "cannot trace the origin of the string "+what)
			}
		}
	}
	if n == 0 {
		c.und(rule, "alphabet.newAlphabet/uncased-table-fill", fn.Pos(), "no table-filling loop found in the case-insensitive branch")
	}
	// both cases of the definition are walked: the strings ranged over on the case-insensitive path, taken
	// together, hold the lower-case and the upper-case image of the definition. A string is described by
	// its parts in order ("lower", "upper"); a slice at len(definition) of a two-part string selects one.
	// Only shapes understood in full are judged: anything else counts as covering both.
	isDefLen := func(v ssa.Value) bool {
		if call := builtinCall(v, "len"); call != nil {
			o := origin(call.Call.Args[0], nil, 0)
			return o == "raw" || o == "folded"
		}
		if u, ok := v.(*ssa.UnOp); ok && u.Op == token.MUL {
			if name, ok := fieldOf(u.X, pkg, "alpha"); ok && name == "length" {
				return true
			}
		}
		return false
	}
	var parts func(v ssa.Value, depth int) ([]string, bool)
	parts = func(v ssa.Value, depth int) ([]string, bool) {
		if depth > 8 {
			return nil, false
		}
		switch x := v.(type) {
		case *ssa.Parameter:
			if x == letters {
				return nil, true
			}
		case *ssa.Call:
			if g := x.Call.StaticCallee(); g != nil && g.Pkg != nil && g.Pkg.Pkg.Path() == "strings" && len(x.Call.Args) == 1 {
				if o := origin(x.Call.Args[0], nil, 0); o == "raw" {
					switch g.Name() {
					case "ToLower":
						return []string{"lower"}, true
					case "ToUpper":
						return []string{"upper"}, true
					}
				}
			}
		case *ssa.BinOp:
			if x.Op == token.ADD {
				a, okA := parts(x.X, depth+1)
				b, okB := parts(x.Y, depth+1)
				if okA && okB && len(a) == 1 && len(b) == 1 {
					return []string{a[0], b[0]}, true
				}
			}
		case *ssa.Slice:
			in, ok := parts(x.X, depth+1)
			if !ok {
				return nil, false
			}
			if x.Low == nil && x.High == nil {
				return in, true
			}
			if len(in) == 2 {
				if x.Low == nil && x.High != nil && isDefLen(x.High) {
					return in[:1], true
				}
				if x.High == nil && x.Low != nil && isDefLen(x.Low) {
					return in[1:], true
				}
			}
		case *ssa.UnOp:
			if x.Op == token.MUL {
				if name, ok := fieldOf(x.X, pkg, "alpha"); ok {
					var res []string
					cnt, all := 0, true
					for _, st := range reachingStores(x, name) {
						p, ok := parts(st.Val, depth+1)
						if !ok {
							all = false
						}
						if cnt == 0 {
							res = p
						} else if strings.Join(res, ",") != strings.Join(p, ",") {
							all = false
						}
						cnt++
					}
					if cnt > 0 && all {
						return res, true
					}
				}
			}
		}
		return nil, false
	}
	covered := map[string]bool{}
	judged, opaque := 0, false
	var firstRange token.Pos
	for _, b := range fn.Blocks {
		if !live[b] {
			continue
		}
		for _, ins := range b.Instrs {
			rg, ok := ins.(*ssa.Range)
			if !ok {
				continue
			}
			if bt, ok := rg.X.Type().Underlying().(*types.Basic); !ok || bt.Kind() != types.String {
				continue
			}
			// only loops that mark letters valid
			marks := false
			{
				for _, bb := range fn.Blocks {
					for _, i2 := range bb.Instrs {
						if st, ok := i2.(*ssa.Store); ok {
							if ia, ok := st.Addr.(*ssa.IndexAddr); ok {
								if name, ok := fieldOf(ia.X, pkg, "alpha"); ok && name == "valid" {
									if ex, ok := ia.Index.(*ssa.Extract); ok {
										if nx, ok := ex.Tuple.(*ssa.Next); ok && nx.Iter == ssa.Value(rg) {
											marks = true
										}
									}
									if cv, ok := ia.Index.(*ssa.Convert); ok {
										if ex, ok := cv.X.(*ssa.Extract); ok {
											if nx, ok := ex.Tuple.(*ssa.Next); ok && nx.Iter == ssa.Value(rg) {
												marks = true
											}
										}
									}
								}
							}
						}
					}
				}
			}
			if !marks {
				continue
			}
			if firstRange == token.NoPos {
				firstRange = rg.Pos()
			}
			p, ok := parts(rg.X, 0)
			if !ok {
				opaque = true
				continue
			}
			judged++
			for _, q := range p {
				covered[q] = true
			}
		}
	}
	if judged > 0 || opaque {
		key := "alphabet.newAlphabet/both-cases-marked"
		switch {
		case opaque || (covered["lower"] && covered["upper"]):
			c.ok(rule, key, firstRange, "the loops that mark letters valid on the case-insensitive path walk the lower-case and the upper-case image of the definition")
		default:
			missing := "lower"
			if covered["lower"] {
				missing = "upper"
			}
			c.bad(rule, key, firstRange, "on the case-insensitive path no loop that marks letters valid walks the "+missing+"-case image of the definition: those letters are neither valid nor indexed, whatever the case the definition was written in should not matter")
		}
	}
	// the non-ASCII test looks at the definition as given: case folding maps some non-ASCII letters (the Kelvin
	// sign, the long s) to ASCII ones, so a definition folded first slips past the rejection
	nAscii := 0
	for _, b := range fn.Blocks {
		for _, ins := range b.Instrs {
			bo, ok := ins.(*ssa.BinOp)
			if !ok {
				continue
			}
			k, isK := constIntVal(bo.Y)
			if !isK || k != 127 || (bo.Op != token.GTR && bo.Op != token.GEQ && bo.Op != token.LEQ && bo.Op != token.LSS) {
				continue
			}
			// the letter compared: from a range over a string, or a byte of it
			var str ssa.Value
			for v, d := bo.X, 0; d < 5 && str == nil; d++ {
				switch x := v.(type) {
				case *ssa.Extract:
					if nx, ok := x.Tuple.(*ssa.Next); ok {
						if rng, ok := nx.Iter.(*ssa.Range); ok {
							str = rng.X
						}
					}
					d = 5
				case *ssa.Lookup:
					if bt, ok := x.X.Type().Underlying().(*types.Basic); ok && bt.Kind() == types.String {
						str = x.X
					}
					d = 5
				case *ssa.Index:
					if bt, ok := x.X.Type().Underlying().(*types.Basic); ok && bt.Kind() == types.String {
						str = x.X
					}
					d = 5
				case *ssa.Convert:
					v = x.X
				case *ssa.ChangeType:
					v = x.X
				default:
					d = 5
				}
			}
			if str == nil {
				continue
			}
			nAscii++
			key := "alphabet.newAlphabet/ascii-test-on-the-definition-as-given"
			raw := func(v ssa.Value) bool {
				if v == ssa.Value(letters) {
					return true
				}
				if phi, ok := v.(*ssa.Phi); ok {
					for _, e := range phi.Edges {
						if e != ssa.Value(letters) {
							return false
						}
					}
					return true
				}
				return false
			}
			if raw(str) {
				c.ok(rule, key, bo.Pos(), "the non-ASCII test reads the definition parameter itself")
			} else {
				c.bad(rule, key, bo.Pos(), "the non-ASCII test is applied to a string that may already have been case-folded: folding maps some non-ASCII letters to ASCII ones (the Kelvin sign to k), so such a definition is accepted although the alphabet is meant to be ASCII only")
			}
		}
	}
	// or the test is a predicate handed to strings.IndexFunc and its relatives
	for _, b := range fn.Blocks {
		for _, ins := range b.Instrs {
			call, ok := ins.(*ssa.Call)
			if !ok || len(call.Call.Args) != 2 {
				continue
			}
			g := call.Call.StaticCallee()
			if g == nil || g.Pkg == nil || g.Pkg.Pkg.Path() != "strings" {
				continue
			}
			var pred *ssa.Function
			switch x := call.Call.Args[1].(type) {
			case *ssa.Function:
				pred = x
			case *ssa.MakeClosure:
				pred, _ = x.Fn.(*ssa.Function)
			}
			if pred == nil {
				continue
			}
			tests := false
			for _, pb := range pred.Blocks {
				for _, pi := range pb.Instrs {
					if bo, ok := pi.(*ssa.BinOp); ok {
						if k, isK := constIntVal(bo.Y); isK && k == 127 {
							tests = true
						}
					}
				}
			}
			if !tests {
				continue
			}
			nAscii++
			key := "alphabet.newAlphabet/ascii-test-on-the-definition-as-given"
			arg := call.Call.Args[0]
			isRaw := arg == ssa.Value(letters)
			if phi, ok := arg.(*ssa.Phi); ok {
				isRaw = true
				for _, e := range phi.Edges {
					if e != ssa.Value(letters) {
						isRaw = false
					}
				}
			}
			if isRaw {
				c.ok(rule, key, call.Pos(), "the non-ASCII test is applied to the definition parameter itself")
			} else {
				c.bad(rule, key, call.Pos(), "the non-ASCII test is applied to a string that may already have been case-folded: folding maps some non-ASCII letters to ASCII ones (the Kelvin sign to k), so such a definition is accepted although the alphabet is meant to be ASCII only")
			}
		}
	}
	// or a helper of the package that tests the letters of its string parameter (isASCII(letters))
	for _, b := range fn.Blocks {
		for _, ins := range b.Instrs {
			call, ok := ins.(*ssa.Call)
			if !ok {
				continue
			}
			g := call.Call.StaticCallee()
			if g == nil || g.Pkg != fn.Pkg || g.Blocks == nil {
				continue
			}
			pi := -1
			for _, gb := range g.Blocks {
				for _, gi := range gb.Instrs {
					bo, ok := gi.(*ssa.BinOp)
					if !ok {
						continue
					}
					if k, isK := constIntVal(bo.Y); !isK || k != 127 {
						continue
					}
					var str ssa.Value
					for v, d := bo.X, 0; d < 5 && str == nil; d++ {
						switch x := v.(type) {
						case *ssa.Extract:
							if nx, ok := x.Tuple.(*ssa.Next); ok {
								if rng, ok := nx.Iter.(*ssa.Range); ok {
									str = rng.X
								}
							}
							d = 5
						case *ssa.Lookup:
							str = x.X
							d = 5
						case *ssa.Index:
							str = x.X
							d = 5
						case *ssa.Convert:
							v = x.X
						default:
							d = 5
						}
					}
					if prm, ok := str.(*ssa.Parameter); ok {
						pi = paramIndex(g, prm)
					}
				}
			}
			if pi < 0 || pi >= len(call.Call.Args) {
				continue
			}
			nAscii++
			key := "alphabet.newAlphabet/ascii-test-on-the-definition-as-given"
			if call.Call.Args[pi] == ssa.Value(letters) {
				c.ok(rule, key, call.Pos(), "the non-ASCII test ("+g.Name()+") is applied to the definition parameter itself")
			} else {
				c.bad(rule, key, call.Pos(), "the non-ASCII test ("+g.Name()+") is applied to a string that may already have been case-folded: folding maps some non-ASCII letters to ASCII ones (the Kelvin sign to k), so such a definition is accepted although the alphabet is meant to be ASCII only")
			}
		}
	}
	if nAscii == 0 {
		c.und(rule, "alphabet.newAlphabet/ascii-test-on-the-definition-as-given", fn.Pos(), "no comparison of the definition's letters with unicode.MaxASCII found")
	}
}
