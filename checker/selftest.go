// Overlay-based self validation (thorough tier): seeded faults must be
// reported naming the instance, benign variants must stay silent.
package main

type selfResult struct {
	Seeded   int      `json:"seeded"`
	Detected int      `json:"detected"`
	Benign   int      `json:"benign"`
	Silent   int      `json:"silent"`
	Skipped  int      `json:"skipped"`
	Failed   int      `json:"failed"`
	Failures []string `json:"failures,omitempty"`
	Cases    []string `json:"cases,omitempty"`
}

func runSelftests(p *propDef, repo string, base []Obligation) *selfResult {
	return &selfResult{}
}
