// Overlay-based self validation (thorough tier): seeded faults must be
// reported naming the instance, benign variants must stay silent. Variants
// are applied to the in-memory source (packages.Config.Overlay); /repo is
// never touched. Judged relative to the base run of the same invocation.
package main

import (
	"encoding/json"
	"fmt"
	"os"
	"path/filepath"
	"runtime"
	"runtime/debug"
	"sort"
	"strings"
)

// A variant is one edit of one function of /repo's current source.
type variant struct {
	Name    string
	File    string // relative to the repo root
	Find    string // must occur exactly once in File, else the variant is skipped
	Replace string
	// Fault expectation: a new violation of Rule whose key contains Key.
	// Empty Rule means the variant is benign and must add nothing.
	Rule, Key string
	// More edits applied together (cooperating sites).
	More []edit
	// Patch: a unified diff (a seeded change under /verif/seeded) instead of Find/Replace.
	Patch string
	// Rules: for patches, any new violation counts (the expectation comes from seeded/EXPECT.json).
	AnyRule bool
}

type edit struct{ File, Find, Replace string }

var selftests = map[string][]variant{}

type selfResult struct {
	Seeded   int      `json:"seeded"`
	Detected int      `json:"detected"`
	Benign   int      `json:"benign"`
	Silent   int      `json:"silent"`
	Skipped  int      `json:"skipped"`
	Failed   int      `json:"failed"`
	Failures []string `json:"failures,omitempty"`
	Cases    []string `json:"cases,omitempty"`
}

func applyEdits(repo string, v variant) (map[string][]byte, string) {
	if v.Patch != "" {
		ov, err := applyUnifiedDiff(repo, v.Patch)
		if err != nil {
			return nil, "patch does not apply to the current tree: " + err.Error()
		}
		return ov, ""
	}
	ov := map[string][]byte{}
	edits := append([]edit{{v.File, v.Find, v.Replace}}, v.More...)
	for _, e := range edits {
		path := filepath.Join(repo, e.File)
		src, ok := ov[path]
		if !ok {
			b, err := os.ReadFile(path)
			if err != nil {
				return nil, "file missing: " + e.File
			}
			src = b
		}
		if n := strings.Count(string(src), e.Find); n != 1 {
			return nil, fmt.Sprintf("anchor occurs %d times in %s", n, e.File)
		}
		ov[path] = []byte(strings.Replace(string(src), e.Find, e.Replace, 1))
	}
	return ov, ""
}

func runSelftests(p *propDef, repo string, base []Obligation) *selfResult {
	res := &selfResult{}
	baseViol := map[string]bool{}
	for _, o := range base {
		if o.Verdict == VIOLATION {
			baseViol[o.Rule+"|"+o.Key] = true
		}
	}
	only := os.Getenv("BIOCHECK_VARIANT")
	all := append(append([]variant{}, selftests[p.ID]...), seededVariants(p.ID)...)
	all = append(all, benignVariants(p.ID)...)
	for _, v := range all {
		if only != "" && !strings.Contains(v.Name, only) {
			continue
		}
		ov, why := applyEdits(repo, v)
		if ov == nil {
			res.Skipped++
			res.Cases = append(res.Cases, "skipped "+v.Name+": "+why)
			continue
		}
		c, err := load(repo, loadSpec{Label: "variant:" + v.Name}, ov)
		if err != nil {
			// a variant that no longer compiles against the current tree says nothing
			res.Skipped++
			res.Cases = append(res.Cases, "skipped "+v.Name+": does not type-check on the current tree: "+firstLine(err.Error()))
			continue
		}
		c.Prop, c.Tier = p.ID, "thorough"
		if err := runRules(p, c); err != nil {
			res.Failed++
			res.Failures = append(res.Failures, v.Name+": "+firstLine(err.Error()))
			continue
		}
		var added, undecided []Obligation
		for _, o := range c.Obs {
			if o.Verdict == VIOLATION && !baseViol[o.Rule+"|"+o.Key] {
				added = append(added, o)
			}
			if o.Verdict == UNDECIDED {
				undecided = append(undecided, o)
			}
		}
		if v.Rule != "" || v.AnyRule {
			res.Seeded++
			hit := false
			for _, o := range added {
				if (o.Rule == v.Rule && strings.Contains(o.Key, v.Key)) || (v.AnyRule && (v.Rule == "" || strings.HasPrefix(o.Rule, v.Rule))) {
					hit = true
				}
			}
			if !hit && baseViol != nil {
				for k := range baseViol {
					if strings.HasPrefix(k, v.Rule+"|") && strings.Contains(k, v.Key) {
						hit = true // already reported by the base run
					}
				}
			}
			if hit {
				res.Detected++
				res.Cases = append(res.Cases, fmt.Sprintf("fault %s: reported by %s at %s", v.Name, v.Rule, v.Key))
			} else {
				res.Failed++
				got := []string{}
				for _, o := range added {
					got = append(got, o.Rule+" "+o.Key)
				}
				for _, o := range undecided {
					got = append(got, "UNDECIDED "+o.Rule+" "+o.Key+": "+o.Reason)
				}
				res.Failures = append(res.Failures, fmt.Sprintf("seeded fault %s not reported as %s/%s (got: %s)", v.Name, v.Rule, v.Key, strings.Join(got, "; ")))
			}
		} else {
			res.Benign++
			if len(added) == 0 && len(undecided) == 0 && len(c.floorFail) == 0 {
				res.Silent++
				res.Cases = append(res.Cases, "benign "+v.Name+": silent")
			} else {
				res.Failed++
				got := []string{}
				for _, o := range added {
					got = append(got, o.Rule+" "+o.Key+": "+o.Reason)
				}
				for _, o := range undecided {
					got = append(got, "UNDECIDED "+o.Rule+" "+o.Key+": "+o.Reason)
				}
				got = append(got, c.floorFail...)
				res.Failures = append(res.Failures, fmt.Sprintf("benign variant %s raised: %s", v.Name, strings.Join(got, "; ")))
			}
		}
		c = nil
		runtime.GC()
		debug.FreeOSMemory()
	}
	fmt.Printf("  selftest: %d seeded faults (%d reported), %d benign variants (%d silent), %d skipped, %d failed\n",
		res.Seeded, res.Detected, res.Benign, res.Silent, res.Skipped, res.Failed)
	return res
}

func firstLine(s string) string {
	if i := strings.IndexByte(s, '\n'); i >= 0 {
		return s[:i]
	}
	return s
}

// benignVariants loads the independently written behaviour-preserving
// refactorings recorded under <verif>/benign whose SILENT.json entry lists
// this property: each must add no violation and leave nothing undecided.
func benignVariants(prop string) []variant {
	root := verifRoot
	b, err := os.ReadFile(filepath.Join(root, "benign", "SILENT.json"))
	if err != nil {
		return nil
	}
	var sil map[string]struct {
		Props []string `json:"props"`
	}
	if json.Unmarshal(b, &sil) != nil {
		return nil
	}
	var ids []string
	for id := range sil {
		ids = append(ids, id)
	}
	sort.Strings(ids)
	var out []variant
	for _, id := range ids {
		for _, q := range sil[id].Props {
			if q != prop {
				continue
			}
			pb, err := os.ReadFile(filepath.Join(root, "benign", id, "patch.diff"))
			if err != nil {
				continue
			}
			out = append(out, variant{Name: "benign-" + id, Patch: string(pb)})
		}
	}
	return out
}

// seededVariants loads the independently seeded changes recorded under
// <verif>/seeded whose EXPECT.json entry names this property as catching them.
func seededVariants(prop string) []variant {
	root := verifRoot
	b, err := os.ReadFile(filepath.Join(root, "seeded", "EXPECT.json"))
	if err != nil {
		return nil
	}
	var exp map[string]struct {
		CaughtBy []string `json:"caught_by"`
		Rule     string   `json:"rule"`
	}
	if json.Unmarshal(b, &exp) != nil {
		return nil
	}
	var ids []string
	for id := range exp {
		ids = append(ids, id)
	}
	sort.Strings(ids)
	var out []variant
	for _, id := range ids {
		e := exp[id]
		for _, q := range e.CaughtBy {
			if q != prop {
				continue
			}
			pb, err := os.ReadFile(filepath.Join(root, "seeded", id, "patch.diff"))
			if err != nil {
				continue
			}
			out = append(out, variant{Name: "seeded-" + id, Patch: string(pb), AnyRule: true, Rule: e.Rule})
		}
	}
	return out
}
