// Rules added after the sixth round of seeded changes, second part (DESIGN §10.5).
package main

import (
	"fmt"
	"go/ast"
	"go/token"
	"go/types"
	"sort"
	"strings"

	"golang.org/x/tools/go/ssa"
)

// ---- ownoffset (C07): a position is turned into a subscript with the offset of the object subscripted ----

func ruleOwnOffset(c *Ctx, rule string, shorts ...string) {
	n := 0
	for _, short := range shorts {
		sp := c.SPkgs[c.pkg(short).PkgPath]
		for _, fn := range srcFuncs(sp) {
			if fn.Parent() != nil || fn.Signature.Recv() == nil {
				continue
			}
			ints := map[string]bool{}
			for _, p := range fn.Params[1:] {
				if isIntegral(p.Type()) {
					ints[p.Name()] = true
				}
			}
			if len(ints) == 0 {
				continue
			}
			env := &linEnv{forms: map[*ssa.Parameter]lin{}, names: map[*ssa.Parameter]string{}, allocAsName: true}
			seen := map[string]bool{}
			for _, b := range fn.Blocks {
				for _, ins := range b.Instrs {
					ia, ok := ins.(*ssa.IndexAddr)
					if !ok {
						continue
					}
					ld, ok := ia.X.(*ssa.UnOp)
					if !ok || ld.Op != token.MUL {
						continue
					}
					fa, ok := ld.X.(*ssa.FieldAddr)
					if !ok || fieldName(fa) != "Seq" {
						continue
					}
					owner := symName(fa.X, env)
					raw := linOf(ia.Index, env)
					idx := newLin()
					idx.k = raw.k
					for a, cf := range raw.coef {
						a = strings.Replace(strings.Replace(a, "&", "", -1), ".Annotation", "", -1)
						idx.coef[a] += cf
					}
					// position parameter with coefficient one, and an Offset term
					pos := ""
					hasOffset := false
					for a, cf := range idx.coef {
						if ints[a] && cf == 1 {
							pos = a
						}
						if strings.HasSuffix(a, ".Offset") || strings.HasSuffix(a, ".Start()") {
							hasOffset = true
						}
					}
					if pos == "" || !hasOffset {
						continue
					}
					want := linAtom(pos).add(linAtom(owner+".Offset"), -1)
					key := fmt.Sprintf("%s/%s.Seq[%s…]", funcName(fn), owner, pos)
					if seen[key] {
						continue
					}
					seen[key] = true
					n++
					c.Funcs[funcName(fn)] = true
					d := idx.add(want, -1)
					if d.isConst() {
						c.ok(rule, key, ia.Pos(), "the subscript is "+idx.String())
					} else {
						c.bad(rule, key, ia.Pos(), "position "+pos+" is turned into the subscript "+idx.String()+" of "+owner+".Seq, not into "+want.String()+": the letters of "+owner+" are laid out from its own Offset, so with any other origin the position names a different column (or none) as soon as the two offsets differ")
					}
				}
			}
		}
	}
	if n == 0 {
		c.und(rule, "ownoffset", token.NoPos, "no position-to-subscript conversions found")
	}
}

// ---- rangepanic (C07): Multi's column accessors refuse positions outside [Start, End) ----

func ruleRangePanic(c *Ctx, rule string, targets [][2]string) {
	for _, t := range targets {
		fn := c.fn(t[0], t[1])
		c.Funcs[funcName(fn)] = true
		key := funcName(fn) + "/returns-only-inside-[Start,End)"
		recv, pos := fn.Params[0], fn.Params[1]
		isBound := func(v ssa.Value, name string) bool {
			call, ok := v.(*ssa.Call)
			if !ok {
				return false
			}
			sf := call.Call.StaticCallee()
			return sf != nil && sf.Name() == name && len(call.Call.Args) == 1 && call.Call.Args[0] == ssa.Value(recv)
		}
		var bad *ssa.Return
		for _, r := range returnsOf(fn) {
			bound := func(want token.Token, name string) func(bf branchFact) bool {
				return func(bf branchFact) bool {
					switch {
					case bf.cond.X == ssa.Value(pos):
						return effectiveOp(bf, true) == want && isBound(bf.cond.Y, name)
					case bf.cond.Y == ssa.Value(pos):
						return effectiveOp(bf, false) == want && isBound(bf.cond.X, name)
					}
					return false
				}
			}
			// no path to the return without pos >= Start(), none without pos < End()
			lo := everyPathPasses(fn, r, nil, bound(token.GEQ, "Start"))
			hi := everyPathPasses(fn, r, nil, bound(token.LSS, "End"))
			if !lo || !hi {
				bad = r
			}
		}
		if bad != nil {
			c.bad(rule, key, bad.Pos(), "a column is returned at "+c.pos(bad.Pos())+" without the position having been found inside ["+recv.Name()+".Start(), "+recv.Name()+".End()): a position that lies in the alignment's span but in no row's (or the reverse, for rows that are ragged) is answered differently from the sibling accessor and from what the documentation states")
		} else {
			c.ok(rule, key, fn.Pos(), "every return is reached only with Start() <= pos < End()")
		}
	}
}

// ---- lastblock (C09): the block traced last is always emitted ----

func ruleLastBlock(c *Ctx, rule string, targets [][2]string) {
	for _, t := range targets {
		fn := c.fn(t[0], t[1])
		c.Funcs[funcName(fn)] = true
		key := funcName(fn) + "/last-traced-block-unconditional"
		loops := naturalLoops(fn)
		inLoop := func(b *ssa.BasicBlock) bool {
			for _, l := range loops {
				if l.body[b] {
					return true
				}
			}
			return false
		}
		n := 0
		var bad ssa.Instruction
		for _, b := range fn.Blocks {
			if inLoop(b) {
				continue
			}
			for _, ins := range b.Instrs {
				al, ok := ins.(*ssa.Alloc)
				if !ok || !strings.HasSuffix(typeString(al.Type()), "featPair") {
					continue
				}
				// values stored into the nested start/end fields
				vals := map[ssa.Value]bool{}
				constStart := false
				for _, ins2 := range b.Instrs {
					st, ok := ins2.(*ssa.Store)
					if !ok || addrRoot(st.Addr) != ssa.Value(al) {
						continue
					}
					fa, ok := st.Addr.(*ssa.FieldAddr)
					if !ok {
						continue
					}
					if _, nested := fa.X.(*ssa.FieldAddr); !nested {
						continue
					}
					if _, isK := st.Val.(*ssa.Const); isK {
						if fieldName(fa) == "start" {
							constStart = true
						}
						continue
					}
					vals[st.Val] = true
				}
				if constStart || len(vals) < 4 {
					continue
				}
				n++
				for _, bf := range branchesAt(b) {
					if vals[bf.cond.X] && vals[bf.cond.Y] {
						bad = bf.cond
					}
				}
			}
		}
		// the emission may be a closure shared with the emissions inside the loop (flush := func() {...}): then the
		// coordinates are cells captured by it, and the guard to look for compares loads of those cells
		for _, b := range fn.Blocks {
			if inLoop(b) {
				continue
			}
			for _, ins := range b.Instrs {
				call, ok := ins.(*ssa.Call)
				if !ok {
					continue
				}
				mc, ok := call.Call.Value.(*ssa.MakeClosure)
				if !ok {
					continue
				}
				an := mc.Fn.(*ssa.Function)
				cells := map[ssa.Value]bool{}
				for _, ab := range an.Blocks {
					for _, ai := range ab.Instrs {
						al, ok := ai.(*ssa.Alloc)
						if !ok || !strings.HasSuffix(typeString(al.Type()), "featPair") {
							continue
						}
						for _, ai2 := range ab.Instrs {
							st, ok := ai2.(*ssa.Store)
							if !ok || addrRoot(st.Addr) != ssa.Value(al) {
								continue
							}
							fa, ok := st.Addr.(*ssa.FieldAddr)
							if !ok {
								continue
							}
							if _, nested := fa.X.(*ssa.FieldAddr); !nested {
								continue
							}
							if ld, ok := st.Val.(*ssa.UnOp); ok && ld.Op == token.MUL {
								if fv, ok := ld.X.(*ssa.FreeVar); ok {
									for i, f := range an.FreeVars {
										if f == fv {
											cells[mc.Bindings[i]] = true
										}
									}
								}
							}
						}
					}
				}
				if len(cells) < 4 {
					continue
				}
				n++
				cellOf := func(v ssa.Value) bool {
					ld, ok := v.(*ssa.UnOp)
					return ok && ld.Op == token.MUL && cells[ld.X]
				}
				for _, bf := range branchesAt(b) {
					if cellOf(bf.cond.X) && cellOf(bf.cond.Y) {
						bad = bf.cond
					}
				}
			}
		}
		// the emission may be a private helper that is handed the coordinates (appendSegment(aln, i, maxI, j, maxJ,
		// score)): then the coordinates are the arguments that the helper stores into the pair's nested fields
		for _, b := range fn.Blocks {
			if inLoop(b) {
				continue
			}
			for _, ins := range b.Instrs {
				call, ok := ins.(*ssa.Call)
				if !ok {
					continue
				}
				g := call.Call.StaticCallee()
				if g == nil || g.Pkg != fn.Pkg || g.Blocks == nil || ast.IsExported(g.Name()) {
					continue
				}
				coordParams := map[*ssa.Parameter]bool{}
				for _, gb := range g.Blocks {
					for _, gi := range gb.Instrs {
						al, ok := gi.(*ssa.Alloc)
						if !ok || !strings.HasSuffix(typeString(al.Type()), "featPair") {
							continue
						}
						for _, gi2 := range gb.Instrs {
							st, ok := gi2.(*ssa.Store)
							if !ok || addrRoot(st.Addr) != ssa.Value(al) {
								continue
							}
							fa, ok := st.Addr.(*ssa.FieldAddr)
							if !ok {
								continue
							}
							if _, nested := fa.X.(*ssa.FieldAddr); !nested {
								continue
							}
							if prm, ok := st.Val.(*ssa.Parameter); ok {
								coordParams[prm] = true
							}
						}
					}
				}
				if len(coordParams) < 4 {
					continue
				}
				vals := map[ssa.Value]bool{}
				for i, prm := range g.Params {
					if coordParams[prm] && i < len(call.Call.Args) {
						if _, isK := call.Call.Args[i].(*ssa.Const); !isK {
							vals[call.Call.Args[i]] = true
						}
					}
				}
				if len(vals) < 4 {
					continue
				}
				n++
				for _, bf := range branchesAt(b) {
					if vals[bf.cond.X] && vals[bf.cond.Y] {
						bad = bf.cond
					}
				}
				// and the helper itself does not drop a block by its coordinates
				for _, gb := range g.Blocks {
					if ifi, ok := gb.Instrs[len(gb.Instrs)-1].(*ssa.If); ok {
						if bo, ok := ifi.Cond.(*ssa.BinOp); ok {
							px, okx := bo.X.(*ssa.Parameter)
							py, oky := bo.Y.(*ssa.Parameter)
							if okx && oky && coordParams[px] && coordParams[py] {
								bad = bo
							}
						}
					}
				}
			}
		}
		switch {
		case n == 0:
			c.und(rule, key, fn.Pos(), "the emission of the last traced block was not found after the traceback loop")
		case bad != nil:
			c.bad(rule, key, bad.Pos(), "the block traced last (from where the traceback stopped to the end of the previous block) is emitted only under a test of its own coordinates at "+c.pos(bad.Pos())+": a block that is empty in one sequence only — a run of gap columns at the start of the alignment — fails such a test and is dropped, so the reported blocks no longer tile both sequences and their scores do not add up to the alignment score")
		default:
			c.ok(rule, key, fn.Pos(), "the last traced block is appended unconditionally after the traceback loop")
		}
	}
}

func typeString(t types.Type) string {
	if p, ok := t.(*types.Pointer); ok {
		t = p.Elem()
	}
	return types.TypeString(t, nil)
}

// ---- foreignseq (C10): k-mers of a given sequence never consult the indexed one ----

func ruleForeignSeq(c *Ctx, rule string) {
	pkg := modPath + "/index/kmerindex"
	fn := c.fn("index/kmerindex", "(*Index).ForEachKmerOf")
	c.Funcs[funcName(fn)] = true
	key := funcName(fn) + "/no-use-of-the-indexed-sequence"
	var bad ssa.Instruction
	var visit func(f *ssa.Function)
	visit = func(f *ssa.Function) {
		for _, b := range f.Blocks {
			for _, ins := range b.Instrs {
				if fa, ok := ins.(*ssa.FieldAddr); ok {
					if name, ok := fieldOf(fa, pkg, "Index"); ok && name == "seq" {
						bad = ins
					}
				}
			}
		}
		for _, an := range f.AnonFuncs {
			visit(an)
		}
	}
	visit(fn)
	if bad != nil {
		c.bad(rule, key, bad.Pos(), "ForEachKmerOf, which enumerates the k-mers of the sequence it is given, reads the sequence the index was built from at "+c.pos(bad.Pos())+": lengths, offsets or letters of the indexed sequence say nothing about the argument, so the enumeration is cut short or shifted whenever the two differ")
	} else {
		c.ok(rule, key, fn.Pos(), "only the word length, mask and letter lookup of the index are used")
	}
}

// ---- queryreadonly (C10): index queries do not write index state ----

func ruleQueryReadOnly(c *Ctx, rule string, builders map[string]bool) {
	pkg := modPath + "/index/kmerindex"
	sp := c.SPkgs[c.pkg("index/kmerindex").PkgPath]
	// everything the builders call, or hand on as a function value (callbacks written as methods), builds too
	building := map[*ssa.Function]bool{}
	var mark func(f *ssa.Function)
	mark = func(f *ssa.Function) {
		if f == nil || building[f] || f.Pkg != sp && f.Synthetic == "" {
			return
		}
		building[f] = true
		for _, a := range f.AnonFuncs {
			mark(a)
		}
		for _, b := range f.Blocks {
			for _, ins := range b.Instrs {
				for _, op := range ins.Operands(nil) {
					switch x := (*op).(type) {
					case *ssa.Function:
						// a query that a builder calls does not become a builder
						if ci, ok := ins.(ssa.CallInstruction); ok && ci.Common().StaticCallee() == x && f.Synthetic == "" {
							continue
						}
						mark(x)
					case *ssa.MakeClosure:
						mark(x.Fn.(*ssa.Function))
					}
				}
			}
		}
	}
	for _, fn := range srcFuncs(sp) {
		if fn.Parent() == nil && fn.Signature.Recv() != nil && builders[fn.Name()] {
			mark(fn)
		}
	}
	// an unexported helper that only builders call (a step of Build written as a method) builds too
	for changed := true; changed; {
		changed = false
		for _, fn := range srcFuncs(sp) {
			if fn.Parent() != nil || building[fn] || fn.Object() == nil || fn.Object().Exported() {
				continue
			}
			callers, all := 0, true
			for _, g := range srcFuncs(sp) {
				for _, b := range g.Blocks {
					for _, ins := range b.Instrs {
						if ci, ok := ins.(ssa.CallInstruction); ok && ci.Common().StaticCallee() == fn {
							callers++
							if !building[g] {
								all = false
							}
						}
					}
				}
			}
			if callers > 0 && all {
				mark(fn)
				changed = true
			}
		}
	}
	n := 0
	for _, fn := range srcFuncs(sp) {
		root := fn
		for root.Parent() != nil {
			root = root.Parent()
		}
		if root.Signature.Recv() == nil || !isNamed(root.Signature.Recv().Type(), pkg, "Index") {
			continue
		}
		if builders[root.Name()] || building[root] || building[fn] {
			continue
		}
		if fn.Parent() == nil {
			n++
		}
		c.Funcs[funcName(fn)] = true
		var bad *ssa.Store
		for _, b := range fn.Blocks {
			for _, ins := range b.Instrs {
				st, ok := ins.(*ssa.Store)
				if !ok {
					continue
				}
				if storesIntoIndex(st.Addr, pkg, 0) {
					bad = st
				}
			}
		}
		if fn.Parent() != nil && bad == nil {
			continue
		}
		key := funcName(fn) + "/writes-no-index-state"
		if bad != nil {
			c.bad(rule, key, bad.Pos(), "a query method writes memory owned by the index at "+c.pos(bad.Pos())+" (a field, or an element of a slice the index holds): queries are documented and used as read-only — concurrent lookups on one index then race, and a result that aliases such a scratch area changes under its holder at the next call")
		} else {
			c.ok(rule, key, fn.Pos(), "no store reaches a field of the index or an element of its slices")
		}
	}
	if n == 0 {
		c.und(rule, "queryreadonly", token.NoPos, "no query methods found")
	}
}

func storesIntoIndex(addr ssa.Value, pkg string, d int) bool {
	if d > 6 {
		return false
	}
	switch x := addr.(type) {
	case *ssa.FieldAddr:
		if _, ok := fieldOf(x, pkg, "Index"); ok {
			return true
		}
		return storesIntoIndex(x.X, pkg, d+1)
	case *ssa.IndexAddr:
		return storesIntoIndex(x.X, pkg, d+1)
	case *ssa.UnOp:
		if x.Op == token.MUL {
			if fa, ok := x.X.(*ssa.FieldAddr); ok {
				if name, ok := fieldOf(fa, pkg, "Index"); ok && name != "seq" {
					return true
				}
			}
		}
	case *ssa.Slice:
		return storesIntoIndex(x.X, pkg, d+1)
	}
	return false
}

// ---- freshdecode (C11, C14): a value is never decoded into memory that already held one ----

func ruleFreshDecode(c *Ctx, rule string) {
	sp := c.SPkgs[c.pkg("morass").PkgPath]
	n := 0
	for _, fn := range srcFuncs(sp) {
		for _, b := range fn.Blocks {
			for _, ins := range b.Instrs {
				call, ok := ins.(*ssa.Call)
				if !ok {
					continue
				}
				sf := call.Call.StaticCallee()
				if sf == nil || sf.Pkg == nil || sf.Pkg.Pkg.Path() != "encoding/gob" || (sf.Name() != "Decode" && sf.Name() != "DecodeValue") {
					continue
				}
				n++
				c.Funcs[funcName(fn)] = true
				key := fmt.Sprintf("%s/gob-%s-target#%d", funcName(fn), sf.Name(), n)
				why := ""
				target := call.Call.Args[1]
				if mi, ok := target.(*ssa.MakeInterface); ok {
					target = mi.X
				}
				switch x := target.(type) {
				case *ssa.FieldAddr, *ssa.Alloc, *ssa.IndexAddr:
					// a pointer to an interface-typed slot: gob allocates a new concrete value for every element
					pt, _ := x.Type().Underlying().(*types.Pointer)
					if pt == nil || !types.IsInterface(pt.Elem()) {
						if al, isAl := x.(*ssa.Alloc); !isAl || loopCarried(al) {
							why = "a slot of concrete type " + pt.Elem().String() + " that outlives one element"
						}
					}
				case *ssa.Call:
					f := x.Call.StaticCallee()
					if f == nil || f.Pkg == nil || f.Pkg.Pkg.Path() != "reflect" || f.Name() != "New" {
						why = "the result of a call that is not reflect.New"
					}
				default:
					why = "a value held elsewhere (" + symName(target, nil) + ")"
				}
				if why == "" {
					c.ok(rule, key, call.Pos(), "the target is an interface slot or freshly allocated for this element")
				} else {
					c.bad(rule, key, call.Pos(), "a run element is decoded into "+why+": gob leaves fields that are zero on the wire untouched, so an element with a zero field takes that field from the element decoded into the same memory before it — the values pulled are not the values pushed")
				}
			}
		}
	}
	if n == 0 {
		c.und(rule, "morass/gob-decode", token.NoPos, "no gob decode call found")
	}
}

// loopCarried: the allocation is not in a loop of its function (a fresh one per iteration is fine).
func loopCarried(al *ssa.Alloc) bool {
	for _, l := range naturalLoops(al.Parent()) {
		if l.body[al.Block()] {
			return false
		}
	}
	// used inside a loop although allocated outside?
	for _, l := range naturalLoops(al.Parent()) {
		for _, r := range *al.Referrers() {
			if l.body[r.Block()] {
				return true
			}
		}
	}
	return false
}

// ---- hitpushed (C14): every hit the filter finds is handed to the sorter ----

func ruleHitPushed(c *Ctx, rule string) {
	fn := c.fn("align/pals/filter", "(*Filter).addHit")
	c.Funcs[funcName(fn)] = true
	key := funcName(fn) + "/every-hit-pushed"
	var push *ssa.Call
	for _, b := range fn.Blocks {
		for _, ins := range b.Instrs {
			if call, ok := ins.(*ssa.Call); ok {
				if sf := call.Call.StaticCallee(); sf != nil && sf.Name() == "Push" && strings.HasSuffix(funcName(sf), "Morass).Push") {
					push = call
				}
			}
		}
	}
	if push == nil {
		c.und(rule, key, fn.Pos(), "no Push call")
		return
	}
	var bad *ssa.Return
	for _, r := range returnsOf(fn) {
		if len(r.Results) == 1 && !isNilConst(r.Results[0]) && r.Results[0] != ssa.Value(push) {
			continue // an error being reported
		}
		if !mustPassBeforeInstr(fn, r, push) {
			bad = r
		}
	}
	if bad != nil {
		c.bad(rule, key, bad.Pos(), "addHit returns success at "+c.pos(bad.Pos())+" without having pushed the hit to the sorter: which hits are redundant is decided downstream from what the filter reports (tubes overlap, and the merger's own discards are per trapezoid after merging), so a hit dropped here takes with it every epsilon-match only its tube covers")
	} else {
		c.ok(rule, key, fn.Pos(), "every successful return has passed morass.Push")
	}
}

// ---- codesign (C15): equal letter codes count as a match only for letters of the alphabet ----

func ruleCodeSign(c *Ctx, rule string) {
	sp := c.SPkgs[c.pkg("align/pals/dp").PkgPath]
	isCode := func(v ssa.Value) bool {
		ld, ok := v.(*ssa.UnOp)
		if !ok || ld.Op != token.MUL {
			return false
		}
		ia, ok := ld.X.(*ssa.IndexAddr)
		if !ok {
			return false
		}
		return isNamed(ia.X.Type(), modPath+"/alphabet", "Index") || strings.HasSuffix(ia.X.Type().String(), "alphabet.Index")
	}
	n := 0
	for _, fn := range srcFuncs(sp) {
		for _, b := range fn.Blocks {
			ifi, ok := b.Instrs[len(b.Instrs)-1].(*ssa.If)
			if !ok {
				continue
			}
			bo, ok := ifi.Cond.(*ssa.BinOp)
			if !ok || bo.Op != token.EQL || !isCode(bo.X) || !isCode(bo.Y) {
				continue
			}
			n++
			c.Funcs[funcName(fn)] = true
			key := fmt.Sprintf("%s/code==code#%d", funcName(fn), n)
			signed := false
			for _, bf := range append(branchesAt(b.Succs[0]), branchFact{}) {
				if bf.cond == nil || bf.cond == bo {
					continue
				}
				for i, side := range []ssa.Value{bf.cond.X, bf.cond.Y} {
					if !isCode(side) {
						continue
					}
					other := bf.cond.Y
					if i == 1 {
						other = bf.cond.X
					}
					k, isK := constIntVal(other)
					op := effectiveOp(bf, i == 0)
					if isK && ((op == token.GEQ && k == 0) || (op == token.GTR && k == -1) || (op == token.NEQ && k < 0 && false)) {
						signed = true
					}
				}
			}
			if signed {
				c.ok(rule, key, bo.Pos(), "the match is also conditioned on a code being non-negative")
			} else {
				c.bad(rule, key, bo.Pos(), "two letters are taken to match when their alphabet codes are equal, with no test that the code is non-negative: every byte outside the alphabet has the code -1, so N matches N (and any other masked or ambiguous letter) and a run of them scores as a perfect repeat")
			}
		}
	}
	if n == 0 {
		c.triv(rule, "dp/code-equality", token.NoPos, "letters are compared as bytes; no equality of alphabet codes decides a match")
	}
}

// ---- clipmid (C15): a clipped trapezoid keeps the diagonals of its mid row ----

func ruleClipMid(c *Ctx, rule string) {
	pkg := modPath + "/align/pals/filter"
	fn := c.fn("align/pals/filter", "(*trapezoid).clip")
	c.Funcs[funcName(fn)] = true
	lagPosition, lagClip := fn.Params[1], fn.Params[2]
	isMid := func(v ssa.Value) bool {
		bo, ok := v.(*ssa.BinOp)
		if !ok {
			return false
		}
		if k, isK := constIntVal(bo.Y); !(isK && ((bo.Op == token.QUO && k == 2) || (bo.Op == token.SHR && k == 1))) {
			return false
		}
		sum, ok := bo.X.(*ssa.BinOp)
		if !ok || sum.Op != token.ADD {
			return false
		}
		names := map[string]bool{}
		for _, s := range []ssa.Value{sum.X, sum.Y} {
			if ld, ok := s.(*ssa.UnOp); ok && ld.Op == token.MUL {
				if name, ok := fieldOf(ld.X, pkg, "Trapezoid"); ok {
					names[name] = true
				}
			}
		}
		return names["Top"] && names["Bottom"]
	}
	want := map[string]ssa.Value{"Left": lagPosition, "Right": lagClip}
	got := map[string]string{}
	var pos = map[string]token.Pos{}
	for _, b := range fn.Blocks {
		for _, ins := range b.Instrs {
			st, ok := ins.(*ssa.Store)
			if !ok {
				continue
			}
			name, ok := fieldOf(st.Addr, pkg, "Trapezoid")
			if !ok || want[name] == nil {
				continue
			}
			pos[name] = st.Pos()
			bo, ok := st.Val.(*ssa.BinOp)
			if ok && bo.Op == token.SUB && isMid(bo.X) && bo.Y == want[name] {
				if got[name] == "" {
					got[name] = "ok"
				}
			} else {
				got[name] = "the stored bound is not (Bottom+Top)/2 - " + want[name].Name()
			}
		}
	}
	for _, name := range []string{"Left", "Right"} {
		key := "filter.(*trapezoid).clip/" + name + "-from-the-mid-row"
		switch got[name] {
		case "ok":
			c.ok(rule, key, pos[name], name+" is clipped to the diagonal of the clipped zone's mid row at the segment end")
		case "":
			c.und(rule, key, fn.Pos(), "no store to "+name)
		default:
			c.bad(rule, key, pos[name], got[name]+": Top and Bottom have just been clipped with the extreme diagonals of the band, so a diagonal limit taken from a corner of the zone instead of its mid row closes the band to a single diagonal whenever the zone was really clipped, and the dynamic programming that starts from the trapezoid no longer finds the repeat")
		}
	}
}

// ---- nocache (C17): alphabet constructors build from their arguments only ----

func ruleNoCache(c *Ctx, rule string) {
	sp := c.SPkgs[c.pkg("alphabet").PkgPath]
	n := 0
	for _, fn := range srcFuncs(sp) {
		if fn.Parent() != nil || fn.Signature.Recv() != nil || !strings.HasPrefix(strings.ToLower(fn.Name()), "new") {
			continue
		}
		n++
		c.Funcs[funcName(fn)] = true
		key := funcName(fn) + "/no-shared-mutable-state"
		var bad ssa.Instruction
		var gname string
		seen := map[*ssa.Function]bool{}
		var visit func(f *ssa.Function, d int)
		visit = func(f *ssa.Function, d int) {
			if seen[f] || d > 4 {
				return
			}
			seen[f] = true
			for _, b := range f.Blocks {
				for _, ins := range b.Instrs {
					for _, op := range ins.Operands(nil) {
						g, ok := (*op).(*ssa.Global)
						if !ok || g.Pkg != sp {
							continue
						}
						switch x := ins.(type) {
						case *ssa.Store:
							if x.Addr == ssa.Value(g) {
								bad, gname = ins, g.Name()
							}
						case *ssa.Call:
							// a method with pointer receiver on the global (sync.Map, mutex, ...)
							if len(x.Call.Args) > 0 && x.Call.Args[0] == ssa.Value(g) && x.Call.StaticCallee() != nil && x.Call.StaticCallee().Signature.Recv() != nil {
								bad, gname = ins, g.Name()
							}
						case *ssa.UnOp:
							if _, isMap := g.Type().(*types.Pointer).Elem().Underlying().(*types.Map); isMap && globalWrittenOutsideInit(sp, g) {
								bad, gname = ins, g.Name()
							}
						}
					}
					if call, ok := ins.(*ssa.Call); ok {
						if sf := call.Call.StaticCallee(); sf != nil && sf.Pkg == sp {
							visit(sf, d+1)
						}
					}
				}
			}
		}
		visit(fn, 0)
		if bad != nil {
			c.bad(rule, key, bad.Pos(), "the constructor consults or updates package-level state ("+gname+") at "+c.pos(bad.Pos())+": what it returns then depends on earlier calls, not only on its arguments — two definitions that differ in an argument the cache key leaves out (case sensitivity) get one shared alphabet, and IsValid/IndexOf answer for the wrong definition")
		} else {
			c.ok(rule, key, fn.Pos(), "the value is built from the arguments; no package-level variable is written, locked or used as a cache")
		}
	}
	if n == 0 {
		c.und(rule, "alphabet/constructors", token.NoPos, "no constructors found")
	}
}

func globalWrittenOutsideInit(sp *ssa.Package, g *ssa.Global) bool {
	for _, fn := range srcFuncs(sp) {
		if fn.Name() == "init" || strings.HasPrefix(fn.Name(), "init#") {
			continue
		}
		for _, b := range fn.Blocks {
			for _, ins := range b.Instrs {
				switch x := ins.(type) {
				case *ssa.MapUpdate:
					if ld, ok := x.Map.(*ssa.UnOp); ok && ld.X == ssa.Value(g) {
						return true
					}
				case *ssa.Store:
					if x.Addr == ssa.Value(g) {
						return true
					}
				}
			}
		}
	}
	return false
}

// ---- pairingcomplete (C17): a Pairing is handed out only with its table form built ----

func rulePairingComplete(c *Ctx, rule string) {
	pkg := modPath + "/alphabet"
	fn := c.fn("alphabet", "NewPairing")
	c.Funcs[funcName(fn)] = true
	key := "alphabet.NewPairing/complement-table-built-before-return"
	// the copy into complements
	var fill ssa.Instruction
	for _, b := range fn.Blocks {
		for _, ins := range b.Instrs {
			call, ok := ins.(*ssa.Call)
			if !ok || builtinCall(call, "copy") == nil {
				continue
			}
			if sl, ok := call.Call.Args[0].(*ssa.Slice); ok {
				if name, ok := fieldOf(sl.X, pkg, "Pairing"); ok && name == "complements" {
					fill = call
				}
			}
		}
	}
	if fill == nil {
		// element-wise fill
		for _, b := range fn.Blocks {
			for _, ins := range b.Instrs {
				if st, ok := ins.(*ssa.Store); ok {
					if ia, ok := st.Addr.(*ssa.IndexAddr); ok {
						if name, ok := fieldOf(ia.X, pkg, "Pairing"); ok && name == "complements" && fill == nil {
							fill = st
						}
					}
				}
			}
		}
	}
	if fill == nil {
		// the table built by a private helper NewPairing calls (p.fillComplements())
		fills := func(g *ssa.Function) bool {
			for _, b := range g.Blocks {
				for _, ins := range b.Instrs {
					switch x := ins.(type) {
					case *ssa.Call:
						if builtinCall(x, "copy") != nil {
							if sl, ok := x.Call.Args[0].(*ssa.Slice); ok {
								if name, ok := fieldOf(sl.X, pkg, "Pairing"); ok && name == "complements" {
									return true
								}
							}
						}
					case *ssa.Store:
						if ia, ok := x.Addr.(*ssa.IndexAddr); ok {
							if name, ok := fieldOf(ia.X, pkg, "Pairing"); ok && name == "complements" {
								return true
							}
						}
					}
				}
			}
			return false
		}
		for _, b := range fn.Blocks {
			for _, ins := range b.Instrs {
				if call, ok := ins.(*ssa.Call); ok && fill == nil {
					if g := call.Call.StaticCallee(); g != nil && g.Pkg == fn.Pkg && g.Blocks != nil && (g.Object() == nil || !g.Object().Exported()) && fills(g) {
						fill = call
					}
				}
			}
		}
	}
	if fill == nil {
		c.bad(rule, key, fn.Pos(), "NewPairing does not build the complements table at all: a table built later, on first use by ComplementTable, is built by whichever goroutines happen to ask first — alphabets are shared, and a second caller sees the table before it is filled and flagged, so the table form disagrees with the method form")
		return
	}
	// an element-wise fill sits in a loop over the whole table (tablefill): reaching the loop is what counts
	if _, isStore := fill.(*ssa.Store); isStore {
		for _, l := range naturalLoops(fn) {
			if l.body[fill.Block()] {
				fill = l.head.Instrs[0]
			}
		}
	}
	var bad *ssa.Return
	for _, r := range returnsOf(fn) {
		if len(r.Results) != 2 || !isNilConst(r.Results[1]) {
			continue
		}
		if !mustPassBeforeInstr(fn, r, fill) {
			bad = r
		}
	}
	if bad != nil {
		c.bad(rule, key, bad.Pos(), "a Pairing is returned at "+c.pos(bad.Pos())+" on a path that has not built the complements table: Complement (method form) answers from pair/ok while ComplementTable (used by every RevComp) hands out the table, so on that path the two forms disagree — the table is all zero")
	} else {
		c.ok(rule, key, fn.Pos(), "every successful return has filled the complements table")
	}
}

// ---- fillnobreak (C18): a table initialiser visits every entry ----

func ruleFillNoBreak(c *Ctx, rule string) {
	sp := c.SPkgs[c.pkg("alphabet").PkgPath]
	n := 0
	for _, fn := range srcFuncs(sp) {
		// a function that returns a local [256]T it fills in a loop
		var table *ssa.Alloc
		for _, b := range fn.Blocks {
			for _, ins := range b.Instrs {
				if al, ok := ins.(*ssa.Alloc); ok {
					if at, ok := al.Type().(*types.Pointer).Elem().Underlying().(*types.Array); ok && at.Len() == 256 {
						table = al
					}
				}
			}
		}
		if table == nil {
			continue
		}
		for _, l := range naturalLoops(fn) {
			stores := false
			for b := range l.body {
				for _, ins := range b.Instrs {
					if st, ok := ins.(*ssa.Store); ok && addrRoot(st.Addr) == ssa.Value(table) {
						stores = true
					}
				}
			}
			if !stores {
				continue
			}
			n++
			c.Funcs[funcName(fn)] = true
			key := fmt.Sprintf("%s/fill-loop#%d", tableFuncName(fn), l.head.Index)
			var early *ssa.BasicBlock
			for b := range l.body {
				if b == l.head {
					continue
				}
				for _, s := range b.Succs {
					if !l.body[s] && !rejectsFrom(b, s) {
						early = b
					}
				}
			}
			if early != nil {
				p := fn.Pos()
				for _, ins := range early.Instrs {
					if ins.Pos() != token.NoPos {
						p = ins.Pos()
					}
				}
				c.bad(rule, key, p, "the loop that fills the table can be left from inside its body: the entries not yet visited keep the zero value, which is a legitimate score — rounding makes the converted value reach zero later than the raw formula suggests, so the boundary entries come out wrong")
			} else {
				c.ok(rule, key, l.head.Instrs[0].Pos(), "the fill loop is left only through its header")
			}
		}
	}
	if n == 0 {
		c.und(rule, "alphabet/table-fill-loops", token.NoPos, "no table initialisers found")
	}
}

func tableFuncName(fn *ssa.Function) string {
	// the initialiser of a package-level table is an anonymous function of init; name it after the global it feeds
	if fn.Parent() != nil {
		for _, b := range fn.Parent().Blocks {
			for _, ins := range b.Instrs {
				if st, ok := ins.(*ssa.Store); ok {
					if call, ok := st.Val.(*ssa.Call); ok {
						if mc, ok := call.Call.Value.(*ssa.MakeClosure); ok && mc.Fn == ssa.Value(fn) {
							if g, ok := st.Addr.(*ssa.Global); ok {
								return "alphabet." + g.Name()
							}
						}
						if f, ok := call.Call.Value.(*ssa.Function); ok && f == fn {
							if g, ok := st.Addr.(*ssa.Global); ok {
								return "alphabet." + g.Name()
							}
						}
					}
				}
			}
		}
	}
	return funcName(fn)
}

// ---- tableinit (C18): score tables are complete before any code can read them ----

func ruleTableInit(c *Ctx, rule string) {
	sp := c.SPkgs[c.pkg("alphabet").PkgPath]
	// globals read through a subscript by a method of a quality type
	tables := map[*ssa.Global]bool{}
	isQ := func(t types.Type) bool {
		n, ok := t.(*types.Named)
		return ok && (n.Obj().Name() == "Qphred" || n.Obj().Name() == "Qsolexa")
	}
	for _, fn := range srcFuncs(sp) {
		if fn.Signature.Recv() == nil || !isQ(fn.Signature.Recv().Type()) {
			continue
		}
		for _, b := range fn.Blocks {
			for _, ins := range b.Instrs {
				for _, op := range ins.Operands(nil) {
					if g, ok := (*op).(*ssa.Global); ok && g.Pkg == sp {
						tables[g] = true
					}
				}
			}
		}
	}
	var gs []*ssa.Global
	for g := range tables {
		gs = append(gs, g)
	}
	sort.Slice(gs, func(i, j int) bool { return gs[i].Name() < gs[j].Name() })
	n := 0
	for _, g := range gs {
		switch g.Type().(*types.Pointer).Elem().Underlying().(type) {
		case *types.Array, *types.Pointer, *types.Slice:
		default:
			continue
		}
		n++
		key := "alphabet." + g.Name() + "/written-by-init-only"
		var bad ssa.Instruction
		for _, fn := range srcFuncs(sp) {
			if fn.Name() == "init" && fn.Parent() == nil {
				continue
			}
			for _, b := range fn.Blocks {
				for _, ins := range b.Instrs {
					st, ok := ins.(*ssa.Store)
					if !ok {
						continue
					}
					root := st.Addr
					for d := 0; d < 6; d++ {
						switch x := root.(type) {
						case *ssa.IndexAddr:
							root = x.X
							continue
						case *ssa.FieldAddr:
							root = x.X
							continue
						case *ssa.UnOp:
							root = x.X
							continue
						case *ssa.Slice:
							root = x.X
							continue
						}
						break
					}
					if root == ssa.Value(g) {
						bad = st
					}
				}
			}
		}
		if bad != nil {
			c.bad(rule, key, bad.Pos(), "the lookup table is written outside package initialisation, at "+c.pos(bad.Pos())+" in "+funcName(bad.Parent())+": conversions are plain functions of their argument callable from any goroutine, and a table built or patched on first use is read half-filled by a concurrent caller (and the test-and-build is a data race)")
		} else {
			c.ok(rule, key, g.Pos(), "the table is stored only by the package initialiser")
		}
	}
	if n == 0 {
		c.und(rule, "alphabet/score-tables", token.NoPos, "no lookup tables found behind the quality methods")
	}
}

// ---- waitloop (C19): a condition variable is waited on in a loop ----

func ruleWaitLoop(c *Ctx, rule string) {
	sp := c.SPkgs[c.pkg("concurrent").PkgPath]
	n := 0
	for _, fn := range srcFuncs(sp) {
		loops := naturalLoops(fn)
		for _, b := range fn.Blocks {
			for _, ins := range b.Instrs {
				call, ok := ins.(*ssa.Call)
				if !ok {
					continue
				}
				sf := call.Call.StaticCallee()
				if sf == nil || sf.Pkg == nil || sf.Pkg.Pkg.Path() != "sync" || sf.Name() != "Wait" || !strings.Contains(funcName(sf), "Cond") {
					continue
				}
				n++
				c.Funcs[funcName(fn)] = true
				key := fmt.Sprintf("%s/Cond.Wait#%d", funcName(fn), n)
				in := false
				for _, l := range loops {
					if l.body[b] {
						// the loop is left through a test, not unconditionally after the wait
						for lb := range l.body {
							if _, isIf := lb.Instrs[len(lb.Instrs)-1].(*ssa.If); isIf {
								for _, s := range lb.Succs {
									if !l.body[s] {
										in = true
									}
								}
							}
						}
					}
				}
				if in {
					c.ok(rule, key, call.Pos(), "the wait sits in a loop that re-tests its condition")
				} else {
					c.bad(rule, key, call.Pos(), "Cond.Wait is not inside a loop that re-tests the condition: Broadcast wakes every waiter, but only one of them finds the mailbox full — the others, woken after it has been emptied again, go on with an empty result (or block on the put-back) instead of waiting again")
				}
			}
		}
	}
	if n == 0 {
		c.triv(rule, "concurrent/Cond.Wait", token.NoPos, "no condition variable waits")
	}
}

// ---- chunkpositive (C19): the chunk size that drives Map's loops is at least one ----

func ruleChunkPositive(c *Ctx, rule string) {
	fn := c.fn("concurrent", "Map")
	c.Funcs[funcName(fn)] = true
	key := "concurrent.Map/chunk-size-rounds-up"
	// the multiplier of the counter in a loop condition counter*size < n
	var sizes []ssa.Value
	var visit func(f *ssa.Function)
	visit = func(f *ssa.Function) {
		for _, l := range naturalLoops(f) {
			for _, bf := range headFact(l) {
				for _, side := range []ssa.Value{bf.cond.X, bf.cond.Y} {
					if m, ok := side.(*ssa.BinOp); ok && m.Op == token.MUL {
						for _, f := range []ssa.Value{m.X, m.Y} {
							if _, isPhi := f.(*ssa.Phi); !isPhi {
								sizes = append(sizes, f)
							}
						}
					}
				}
			}
		}
		// or a running offset advanced by the size: for start := 0; start < n; start += size
		for _, l := range naturalLoops(f) {
			if len(headFact(l)) == 0 {
				continue
			}
			for _, ins := range l.head.Instrs {
				phi, ok := ins.(*ssa.Phi)
				if !ok {
					break
				}
				for i, p := range l.head.Preds {
					if !l.body[p] {
						continue
					}
					if add, ok := phi.Edges[i].(*ssa.BinOp); ok && add.Op == token.ADD {
						var step ssa.Value
						if add.X == ssa.Value(phi) {
							step = add.Y
						} else if add.Y == ssa.Value(phi) {
							step = add.X
						}
						if step != nil {
							if _, isK := step.(*ssa.Const); !isK {
								sizes = append(sizes, step)
							}
						}
					}
				}
			}
		}
		for _, an := range f.AnonFuncs {
			visit(an)
		}
	}
	visit(fn)
	// the other way of counting chunks: the number of rounds is computed once by an integer
	// division by the size. The size is zero for an empty set (its rounded-up quotient is 0), so
	// every such division has to be behind a test that excludes that — also when only one of the
	// two loops counts that way.
	var divs []*ssa.BinOp
	var find func(f *ssa.Function)
	find = func(f *ssa.Function) {
		for _, b := range f.Blocks {
			for _, ins := range b.Instrs {
				if bo, ok := ins.(*ssa.BinOp); ok && (bo.Op == token.QUO || bo.Op == token.REM) && isIntegral(bo.Type()) {
					if _, isK := bo.Y.(*ssa.Const); !isK {
						divs = append(divs, bo)
					}
				}
			}
		}
		for _, an := range f.AnonFuncs {
			find(an)
		}
	}
	find(fn)
	if len(sizes) == 0 && len(divs) == 0 {
		c.und(rule, key, fn.Pos(), "no loop of the form counter*size < n found, and no division by the size")
		return
	}
	// only divisions by the chunk size itself: when some loop still multiplies its counter by the size,
	// the divisor must be that value (a quotient by the number of threads is how the size is made)
	if len(sizes) > 0 {
		isSize := map[ssa.Value]bool{}
		for _, sv := range sizes {
			isSize[sv] = true
			// the same variable read again (a captured or spilled size)
			if u, ok := sv.(*ssa.UnOp); ok && u.Op == token.MUL {
				isSize[u.X] = true
				// captured by the producer's closure: the variable of the enclosing function
				if fv, ok := u.X.(*ssa.FreeVar); ok && fv.Parent().Parent() != nil {
					for _, b := range fv.Parent().Parent().Blocks {
						for _, ins := range b.Instrs {
							if mc, ok := ins.(*ssa.MakeClosure); ok && mc.Fn == ssa.Value(fv.Parent()) {
								for i, bv := range mc.Bindings {
									if i < len(fv.Parent().FreeVars) && fv.Parent().FreeVars[i] == fv {
										isSize[bv] = true
									}
								}
							}
						}
					}
				}
			}
		}
		var kept []*ssa.BinOp
		for _, dv := range divs {
			same := isSize[dv.Y]
			if u, ok := dv.Y.(*ssa.UnOp); ok && u.Op == token.MUL && isSize[u.X] {
				same = true
			}
			if fv, ok := dv.Y.(*ssa.FreeVar); ok {
				_ = fv
			}
			if same {
				kept = append(kept, dv)
			}
		}
		divs = kept
	}
	for _, dv := range divs {
		isLen := func(v ssa.Value) bool {
			call, ok := v.(*ssa.Call)
			return ok && call.Call.IsInvoke() && call.Call.Method.Name() == "Len"
		}
		excluded := false
		for _, bf := range branchesAt(dv.Block()) {
			var op token.Token
			var lim int64
			switch {
			case bf.cond.X == dv.Y || isLen(bf.cond.X):
				k, isK := constIntVal(bf.cond.Y)
				if !isK {
					continue
				}
				op, lim = effectiveOp(bf, true), k
			case bf.cond.Y == dv.Y || isLen(bf.cond.Y):
				k, isK := constIntVal(bf.cond.X)
				if !isK {
					continue
				}
				op, lim = effectiveOp(bf, false), k
			default:
				continue
			}
			if (op == token.NEQ && lim == 0) || (op == token.GTR && lim >= 0) || (op == token.GEQ && lim >= 1) {
				excluded = true
			}
		}
		if !excluded {
			c.bad(rule, key, dv.Pos(), "the number of rounds is computed by dividing by the chunk size ("+symName(dv.Y, nil)+") with no dominating test that the set is not empty: for an empty set the size is zero and Map panics with a division by zero instead of returning no results")
			return
		}
		if w := notRoundedUp(dv.Y, fn, 0); w != "" {
			c.bad(rule, key, dv.Pos(), "the chunk size the number of rounds is divided by is "+w)
			return
		}
	}
	if len(sizes) == 0 {
		c.ok(rule, key, fn.Pos(), "the number of rounds is a division by a rounded-up chunk size behind a test that the set is not empty")
		return
	}
	why := ""
	var pos token.Pos
	for _, s := range sizes {
		if w := notRoundedUp(s, fn, 0); w != "" {
			why, pos = w, s.Pos()
		}
	}
	if why != "" {
		c.bad(rule, key, pos, "the chunk size that the feeding and collecting loops multiply their counter by is "+why+": for fewer elements than workers it is zero, counter*0 < n never becomes false, and Map neither returns nor reports anything (with more elements, the remainder beyond threads*size needs extra rounds the caller's limit did not ask for)")
	} else {
		c.ok(rule, key, fn.Pos(), "the chunk size is a quotient rounded up (or clamped to at least one)")
	}
}

var allocBusy = map[*ssa.Alloc]bool{}

// notRoundedUp explains why v may be zero for a non-empty set; "" if it is a rounded-up quotient.
func notRoundedUp(v ssa.Value, fn *ssa.Function, d int) string {
	if d > 8 {
		return "not traceable"
	}
	switch x := v.(type) {
	case *ssa.UnOp:
		if x.Op == token.MUL {
			// a captured variable: look at what is stored
			if fv, ok := x.X.(*ssa.FreeVar); ok {
				outer := fv.Parent().Parent()
				for _, b := range outer.Blocks {
					for _, ins := range b.Instrs {
						if mc, ok := ins.(*ssa.MakeClosure); ok && mc.Fn == ssa.Value(fv.Parent()) {
							for i, bv := range mc.Bindings {
								if fv.Parent().FreeVars[i] == fv {
									return notRoundedUp(bv, fn, d+1)
								}
							}
						}
					}
				}
			}
			return notRoundedUp(x.X, fn, d+1)
		}
	case *ssa.FreeVar:
		outer := x.Parent().Parent()
		for _, b := range outer.Blocks {
			for _, ins := range b.Instrs {
				if mc, ok := ins.(*ssa.MakeClosure); ok && mc.Fn == ssa.Value(x.Parent()) {
					for i, bv := range mc.Bindings {
						if x.Parent().FreeVars[i] == x {
							return notRoundedUp(bv, fn, d+1)
						}
					}
				}
			}
		}
		return "not traceable"
	case *ssa.Alloc:
		if allocBusy[x] {
			return "" // the variable's own earlier value
		}
		allocBusy[x] = true
		defer delete(allocBusy, x)
		// a clamp: a constant >= 1 stored under `variable < 1`
		var clamp *ssa.Store
		for _, r := range *x.Referrers() {
			st, ok := r.(*ssa.Store)
			if !ok || st.Addr != ssa.Value(x) {
				continue
			}
			if k, isK := constIntVal(st.Val); isK && k >= 1 {
				for _, bf := range branchesAt(st.Block()) {
					ld, ok := bf.cond.X.(*ssa.UnOp)
					if !ok || ld.X != ssa.Value(x) {
						continue
					}
					lim, isK := constIntVal(bf.cond.Y)
					op := effectiveOp(bf, true)
					if isK && ((op == token.LSS && lim == 1) || (op == token.LEQ && lim == 0) || (op == token.EQL && lim == 0)) {
						clamp = st
					}
				}
			}
		}
		res := ""
		cnt := 0
		for _, r := range *x.Referrers() {
			if st, ok := r.(*ssa.Store); ok && st.Addr == ssa.Value(x) {
				cnt++
				if w := notRoundedUp(st.Val, fn, d+1); w != "" {
					if clamp != nil && st.Block().Dominates(clamp.Block()) {
						continue // clamped afterwards
					}
					res = w
				}
			}
		}
		if cnt == 0 {
			return "never assigned"
		}
		return res
	case *ssa.Phi:
		for _, e := range x.Edges {
			if k, ok := constIntVal(e); ok && k >= 1 {
				continue
			}
			if w := notRoundedUp(e, fn, d+1); w != "" {
				// a clamp: the phi joins the value with a constant >= 1 under a test value < 1
				clamp := false
				for _, e2 := range x.Edges {
					if k, ok := constIntVal(e2); ok && k >= 1 {
						clamp = true
					}
				}
				if !clamp {
					return w
				}
			}
		}
		return ""
	case *ssa.Parameter:
		return "" // the caller's limit
	case *ssa.Convert:
		return notRoundedUp(x.X, fn, d+1)
	case *ssa.Call:
		if sf := x.Call.StaticCallee(); sf != nil {
			switch {
			case sf.Pkg != nil && sf.Pkg.Pkg.Path() == "math" && sf.Name() == "Ceil":
				// the ceiling of a real quotient; an integer quotient converted afterwards has already rounded down
				arg := x.Call.Args[0]
				if cv, ok := arg.(*ssa.Convert); ok {
					if q, ok := cv.X.(*ssa.BinOp); ok && q.Op == token.QUO && isIntegral(q.Type()) {
						return "math.Ceil of an integer quotient (the division has rounded down before Ceil sees it)"
					}
				}
				return ""
			case sf.Name() == "Min" || sf.Name() == "Max" || sf.Name() == "min" || sf.Name() == "max":
				for _, a := range variadicValues(x.Call.Args[len(x.Call.Args)-1]) {
					if w := notRoundedUp(a, fn, d+1); w != "" && sf.Name() != "Max" && sf.Name() != "max" {
						return w
					}
				}
				return ""
			case inModule(sf) && sf.Blocks != nil && sf.Signature.Results().Len() == 1 && isIntegral(sf.Signature.Results().At(0).Type()):
				// a helper of the module that computes the size: every value it returns
				for _, r := range returnsOf(sf) {
					if w := notRoundedUp(r.Results[0], fn, d+1); w != "" {
						return w
					}
				}
				return ""
			}
		}
		if b, ok := x.Call.Value.(*ssa.Builtin); ok && (b.Name() == "min" || b.Name() == "max") {
			for _, a := range x.Call.Args {
				if k, isK := constIntVal(a); isK && k >= 1 && b.Name() == "max" {
					return ""
				}
			}
			for _, a := range x.Call.Args {
				if w := notRoundedUp(a, fn, d+1); w != "" {
					return w
				}
			}
			return ""
		}
	case *ssa.BinOp:
		switch x.Op {
		case token.QUO:
			// (n + d - 1) / d
			num := linOf(x.X, nil)
			den := linOf(x.Y, nil)
			rest := num.add(den, -1)
			if rest.k == -1 {
				return ""
			}
			return "the plain integer quotient " + num.String() + " / " + den.String() + ", which rounds down"
		case token.ADD:
			// q + 1, or q + (r != 0 ? 1 : 0)
			if k, ok := constIntVal(x.Y); ok && k >= 1 {
				return ""
			}
			if k, ok := constIntVal(x.X); ok && k >= 1 {
				return ""
			}
		}
	case *ssa.Const:
		if k, ok := constIntVal(x); ok && k >= 1 {
			return ""
		}
		return "a constant below one"
	}
	return "computed in a way that is not a rounded-up quotient (" + v.String() + ")"
}

// ---- chainwalk (C20): a position is located within ref only by meeting ref on the way up ----

func ruleChainWalk(c *Ctx, rule string) {
	fn := c.fn("feat", "PositionWithin")
	c.Funcs[funcName(fn)] = true
	key := "feat.PositionWithin/found-only-by-meeting-ref"
	ref := fn.Params[1]
	var bad *ssa.Return
	for _, r := range returnsOf(fn) {
		if len(r.Results) != 2 {
			continue
		}
		if k, ok := r.Results[1].(*ssa.Const); ok && k.Value != nil && k.Value.String() == "false" {
			continue
		}
		met := everyPathPasses(fn, r, nil, func(bf branchFact) bool {
			if bf.cond.Op == token.EQL && bf.edge == 0 || bf.cond.Op == token.NEQ && bf.edge == 1 {
				return bf.cond.X == ssa.Value(ref) || bf.cond.Y == ssa.Value(ref)
			}
			return false
		})
		if !met {
			bad = r
		}
	}
	if bad != nil {
		c.bad(rule, key, bad.Pos(), "PositionWithin can report a position as located (second result not false) at "+c.pos(bad.Pos())+" without the walk up the location chain having arrived at ref itself: two features that merely share an ancestor are not located within one another, and the difference of their base positions is reported as if they were")
	} else {
		c.ok(rule, key, fn.Pos(), "a located position is returned only under `f == ref` for the feature reached by the walk")
	}
}

// ---- regionforward (C20): the regions of a transcript run with the transcript ----

func ruleRegionForward(c *Ctx, rule string) {
	pkg := modPath + "/feat/gene"
	sp := c.SPkgs[c.pkg("feat/gene").PkgPath]
	n := 0
	// per exported region method (UTR5, CDS, UTR3, ...): every TranscriptFeature built by the method or the
	// private helpers it reaches is oriented Forward
	for _, fn := range srcFuncs(sp) {
		if fn.Parent() != nil || fn.Signature.Recv() == nil || !isNamed(fn.Signature.Recv().Type(), pkg, "CodingTranscript") {
			continue
		}
		if fn.Object() == nil || !fn.Object().Exported() {
			continue
		}
		var stores []*ssa.Store
		for _, g := range privateReach(fn) {
			if g.Pkg != sp {
				continue
			}
			for _, b := range g.Blocks {
				for _, ins := range b.Instrs {
					st, ok := ins.(*ssa.Store)
					if !ok {
						continue
					}
					if name, ok := fieldOf(st.Addr, pkg, "TranscriptFeature"); ok && name == "Orient" {
						stores = append(stores, st)
					}
				}
			}
		}
		if len(stores) == 0 {
			continue
		}
		n++
		c.Funcs[funcName(fn)] = true
		key := funcName(fn) + "/region-orientation"
		var bad *ssa.Store
		for _, st := range stores {
			v := callerArg(st.Val, fn)
			if k, isK := constIntVal(v); !isK || k != 1 {
				// a helper called from several places: every argument it is given
				if prm, ok := v.(*ssa.Parameter); ok && prm.Parent() != fn {
					allFwd, sites := true, 0
					pi := paramIndex(prm.Parent(), prm)
					for _, g := range privateReach(fn) {
						for _, b := range g.Blocks {
							for _, ins := range b.Instrs {
								if ci, ok := ins.(ssa.CallInstruction); ok && ci.Common().StaticCallee() == prm.Parent() && pi >= 0 && pi < len(ci.Common().Args) {
									sites++
									if k, isK := constIntVal(ci.Common().Args[pi]); !isK || k != 1 {
										allFwd = false
									}
								}
							}
						}
					}
					if sites > 0 && allFwd {
						continue
					}
				}
				bad = st
			}
		}
		if bad == nil {
			c.ok(rule, key, fn.Pos(), "the region is oriented Forward relative to its transcript")
		} else {
			c.bad(rule, key, bad.Pos(), "a UTR/CDS region of a transcript is given an orientation that is not the constant Forward: the region's Location is the transcript, so its orientation is relative to the transcript, and copying the transcript's own orientation applies it twice — for a transcript on the reverse strand BaseOrientationOf(region) comes out Forward")
		}
	}
	if n == 0 {
		c.und(rule, "gene/transcript-regions", token.NoPos, "no TranscriptFeature is built by CodingTranscript")
	}
}
