// Rules added after the sixth round of seeded changes (DESIGN §10.5).
package main

import (
	"fmt"
	"go/token"
	"go/types"
	"strings"

	"golang.org/x/tools/go/ssa"
)

// derivesFrom: v is obtained from src through slicing, conversion, trimming
// (bytes.Trim*), phis and loads only — it is a verbatim part of src. It
// returns the first transforming call met otherwise.
func verbatimPartOf(v ssa.Value, src ssa.Value, depth int) (bool, string) {
	if depth > 12 {
		return false, "too deep"
	}
	if v == src {
		return true, ""
	}
	switch x := v.(type) {
	case *ssa.Slice:
		return verbatimPartOf(x.X, src, depth+1)
	case *ssa.Convert:
		return verbatimPartOf(x.X, src, depth+1)
	case *ssa.ChangeType:
		return verbatimPartOf(x.X, src, depth+1)
	case *ssa.Phi:
		for _, e := range x.Edges {
			if ok, why := verbatimPartOf(e, src, depth+1); !ok {
				return false, why
			}
		}
		return true, ""
	case *ssa.Call:
		if sf := x.Call.StaticCallee(); sf != nil && sf.Pkg != nil {
			p, n := sf.Pkg.Pkg.Path(), sf.Name()
			if (p == "bytes" || p == "strings") && strings.HasPrefix(n, "Trim") {
				return verbatimPartOf(x.Call.Args[0], src, depth+1)
			}
			return false, p + "." + n
		}
		return false, "a call"
	}
	return false, fmt.Sprintf("%T", v)
}

// ---- verbatimdesc (C01): name and description are taken verbatim from the header line ----

func ruleVerbatimDesc(c *Ctx, rule string, targets [][2]string) {
	for _, t := range targets {
		fn := c.fn(t[0], t[1])
		c.Funcs[funcName(fn)] = true
		line := fn.Params[1]
		n := 0
		for _, b := range fn.Blocks {
			for _, ins := range b.Instrs {
				call, ok := ins.(*ssa.Call)
				if !ok || !call.Call.IsInvoke() {
					continue
				}
				m := call.Call.Method.Name()
				if m != "SetName" && m != "SetDescription" {
					continue
				}
				n++
				key := fmt.Sprintf("%s/%s#%d", funcName(fn), m, n)
				if ok, why := verbatimPartOf(call.Call.Args[0], line, 0); ok {
					c.ok(rule, key, call.Pos(), "the text handed to "+m+" is a verbatim (sliced, trimmed) part of the header line")
				} else {
					c.bad(rule, key, call.Pos(), "the text handed to "+m+" has passed through "+why+": it is no longer a verbatim part of the header line, so a name or description with runs of blanks or tabs inside reads back different from what was written")
				}
			}
		}
		if n == 0 {
			c.und(rule, funcName(fn)+"/SetName", fn.Pos(), "no SetName/SetDescription call")
		}
	}
}

// ---- columnsparsed (C02): the comment column is parsed whenever it is there ----

func ruleColumnsParsed(c *Ctx, rule string) {
	pkg := modPath + "/io/featio/gff"
	fn := c.fn("io/featio/gff", "(*Reader).Read")
	c.Funcs[funcName(fn)] = true
	key := funcName(fn) + "/comment-column-on-every-path"
	var store *ssa.Store
	for _, g := range privateReach(fn) {
		for _, b := range g.Blocks {
			for _, ins := range b.Instrs {
				if st, ok := ins.(*ssa.Store); ok {
					if name, ok := fieldOf(st.Addr, pkg, "Feature"); ok && name == "Comments" {
						store = st
					}
				}
			}
		}
	}
	if store == nil {
		c.und(rule, key, fn.Pos(), "no store to Comments")
		return
	}
	// the feature line may be parsed in a helper of the package: the paths are those of the function that
	// builds the feature
	fn = store.Parent()
	// the vector of columns: the slice whose length guards the store
	var bad *ssa.Return
	for _, r := range returnsOf(fn) {
		res := effectiveResults(r)
		if len(res) == 0 || isNilConst(res[0]) {
			continue
		}
		// only returns of a parsed *Feature (the allocation the store writes into)
		if !sameObject(res[0], addrRoot(store.Addr)) {
			continue
		}
		// a path that skips the store must have established from a column count that there is no comment column
		fewColumns := func(bf branchFact) bool {
			lc := builtinCall(bf.cond.X, "len")
			if lc == nil {
				return false
			}
			// the length of the vector of columns, not of one column
			if sl, ok := lc.Call.Args[0].Type().Underlying().(*types.Slice); !ok || !isByteSlice(sl.Elem()) {
				return false
			}
			if _, isK := constIntVal(bf.cond.Y); !isK {
				return false
			}
			op := effectiveOp(bf, true)
			return op == token.LEQ || op == token.LSS || op == token.EQL
		}
		if !everyPathPasses(fn, r, func(i ssa.Instruction) bool { return i == ssa.Instruction(store) }, fewColumns) {
			bad = r
		}
	}
	if bad != nil {
		c.bad(rule, key, bad.Pos(), "a feature is returned at "+c.pos(bad.Pos())+" on a path that neither parses the comment column nor has established from the column count that there is none: the writer emits an empty attribute column as a placeholder before a comment, so a feature with a comment and no attributes reads back without its comment")
	} else {
		c.ok(rule, key, store.Pos(), "every return of a parsed feature has either stored the comment column or seen that the line has no such column")
	}
}

// effectiveResults looks through named results spilled to memory (a defer
// takes their address): the value last stored before the return.
func effectiveResults(r *ssa.Return) []ssa.Value {
	out := make([]ssa.Value, len(r.Results))
	for i, v := range r.Results {
		out[i] = v
		ld, ok := v.(*ssa.UnOp)
		if !ok || ld.Op != token.MUL {
			continue
		}
		al, ok := ld.X.(*ssa.Alloc)
		if !ok {
			continue
		}
		b := r.Block()
		seen := map[*ssa.BasicBlock]bool{}
	search:
		for b != nil && !seen[b] {
			seen[b] = true
			for j := len(b.Instrs) - 1; j >= 0; j-- {
				if st, ok := b.Instrs[j].(*ssa.Store); ok && st.Addr == ssa.Value(al) {
					out[i] = st.Val
					break search
				}
			}
			if len(b.Preds) != 1 {
				break
			}
			b = b.Preds[0]
		}
	}
	return out
}

func sameObject(v, root ssa.Value) bool {
	for d := 0; d < 4; d++ {
		if v == root {
			return true
		}
		switch x := v.(type) {
		case *ssa.MakeInterface:
			v = x.X
		case *ssa.ChangeInterface:
			v = x.X
		default:
			return false
		}
	}
	return false
}

// returnsSameObject: the return hands out the object the store writes into.
func returnsSameObject(r *ssa.Return, st *ssa.Store) bool {
	root := addrRoot(st.Addr)
	for _, v := range r.Results {
		for d := 0; d < 4; d++ {
			if v == root {
				return true
			}
			switch x := v.(type) {
			case *ssa.MakeInterface:
				v = x.X
			case *ssa.ChangeInterface:
				v = x.X
			case *ssa.Phi:
				for _, e := range x.Edges {
					if mi, ok := e.(*ssa.MakeInterface); ok && mi.X == root {
						return true
					}
				}
				d = 4
			default:
				d = 4
			}
		}
	}
	return false
}

// everyPathPasses: every path from the entry to target passes an instruction
// accepted by stop or leaves a conditional through an edge accepted by cut.
func everyPathPasses(fn *ssa.Function, target ssa.Instruction, stop func(ssa.Instruction) bool, cut func(bf branchFact) bool) bool {
	seen := map[*ssa.BasicBlock]bool{}
	var walk func(b *ssa.BasicBlock) bool // true: target reached without passing
	walk = func(b *ssa.BasicBlock) bool {
		if seen[b] {
			return false
		}
		seen[b] = true
		for _, ins := range b.Instrs {
			if ins == target {
				return true
			}
			if stop != nil && stop(ins) {
				return false
			}
		}
		var bo *ssa.BinOp
		if ifi, ok := b.Instrs[len(b.Instrs)-1].(*ssa.If); ok {
			bo, _ = ifi.Cond.(*ssa.BinOp)
		}
		for e, s := range b.Succs {
			if bo != nil && cut != nil && cut(branchFact{bo, e}) {
				continue
			}
			if walk(s) {
				return true
			}
		}
		return false
	}
	return !walk(fn.Blocks[0])
}

// viaCalls lifts an instruction predicate over helper calls: an instruction
// also counts when it is a static call to a module function all of whose
// returns are reached only through an accepted instruction (so moving the
// accepted code into a helper that always executes it changes nothing).
func viaCalls(pred func(ssa.Instruction) bool) func(ssa.Instruction) bool {
	memo := map[*ssa.Function]int{} // 0 unknown, 1 in progress / no, 2 yes
	var lifted func(i ssa.Instruction) bool
	var always func(f *ssa.Function) bool
	always = func(f *ssa.Function) bool {
		switch memo[f] {
		case 1:
			return false
		case 2:
			return true
		}
		memo[f] = 1
		rets := returnsOf(f)
		if len(rets) == 0 {
			return false
		}
		for _, r := range rets {
			if !everyPathPasses(f, r, lifted, nil) {
				return false
			}
		}
		memo[f] = 2
		return true
	}
	lifted = func(i ssa.Instruction) bool {
		if pred(i) {
			return true
		}
		if ci, ok := i.(ssa.CallInstruction); ok {
			if _, isGo := i.(*ssa.Go); isGo {
				return false
			}
			if _, isDefer := i.(*ssa.Defer); isDefer {
				return false
			}
			if g := ci.Common().StaticCallee(); g != nil && inModule(g) && g.Blocks != nil {
				return always(g)
			}
		}
		return false
	}
	return lifted
}

// containsVia: some instruction accepted by pred occurs in f or in a module function it (transitively) calls.
func containsVia(f *ssa.Function, pred func(ssa.Instruction) bool) bool {
	for _, g := range pkgReach(f) {
		for _, b := range g.Blocks {
			for _, ins := range b.Instrs {
				if pred(ins) {
					return true
				}
			}
		}
	}
	return false
}

// mustPassBeforeInstr: every path from the entry to r passes target.
func mustPassBeforeInstr(fn *ssa.Function, r *ssa.Return, target ssa.Instruction) bool {
	seen := map[*ssa.BasicBlock]bool{}
	var walk func(b *ssa.BasicBlock) bool // true if r's block reachable without target
	walk = func(b *ssa.BasicBlock) bool {
		if seen[b] {
			return false
		}
		seen[b] = true
		for _, ins := range b.Instrs {
			if ins == target {
				return false
			}
			if ins == ssa.Instruction(r) {
				return true
			}
		}
		for _, s := range b.Succs {
			if walk(s) {
				return true
			}
		}
		return false
	}
	return !walk(fn.Blocks[0])
}

// ---- floatnarrow (C02): a score is not squeezed through an integer on its way to the text ----

func ruleFloatNarrow(c *Ctx, rule string) {
	sp := c.SPkgs[c.pkg("io/featio/gff").PkgPath]
	n := 0
	for _, fn := range srcFuncs(sp) {
		root := fn
		for root.Parent() != nil {
			root = root.Parent()
		}
		if root.Signature.Recv() == nil || !isNamed(root.Signature.Recv().Type(), sp.Pkg.Path(), "Writer") {
			continue
		}
		for _, b := range fn.Blocks {
			for _, ins := range b.Instrs {
				cv, ok := ins.(*ssa.Convert)
				if !ok {
					continue
				}
				ft, ok := cv.X.Type().Underlying().(*types.Basic)
				if !ok || ft.Info()&types.IsFloat == 0 || !isIntegral(cv.Type()) {
					continue
				}
				n++
				c.Funcs[funcName(fn)] = true
				key := fmt.Sprintf("%s/float-to-int#%d", funcName(fn), n)
				lower, upper := false, false
				for _, bf := range branchesAt(b) {
					var op token.Token
					switch {
					case bf.cond.X == cv.X:
						op = effectiveOp(bf, true)
					case bf.cond.Y == cv.X:
						op = effectiveOp(bf, false)
					default:
						continue
					}
					switch op {
					case token.GEQ, token.GTR:
						lower = true
					case token.LEQ, token.LSS:
						upper = true
					}
				}
				if lower && upper {
					c.ok(rule, key, cv.Pos(), "the float is bounded on both sides before it is converted")
				} else {
					c.bad(rule, key, cv.Pos(), "a floating-point value (a score) is converted to an integer on its way into the written text without being bounded: whole numbers of magnitude 2^63 and more, and infinities, overflow the conversion and are written as a different number than the feature holds")
				}
			}
		}
	}
	if n == 0 {
		c.triv(rule, "gff.Writer/float-to-int", token.NoPos, "the writer never converts a float to an integer")
	}
}

// ---- strconvonly (C03): numeric columns are parsed by strconv ----

func ruleStrconvOnly(c *Ctx, rule string, shorts ...string) {
	n := 0
	for _, short := range shorts {
		sp := c.SPkgs[c.pkg(short).PkgPath]
		for _, fn := range srcFuncs(sp) {
			if fn.Parent() != nil || !strings.HasPrefix(fn.Name(), "mustAto") {
				continue
			}
			res := fn.Signature.Results()
			if res.Len() != 1 {
				continue
			}
			bt, ok := res.At(0).Type().Underlying().(*types.Basic)
			if !ok || bt.Info()&(types.IsInteger|types.IsFloat) == 0 {
				continue
			}
			usesStrconv := false
			for _, b := range fn.Blocks {
				for _, ins := range b.Instrs {
					if call, ok := ins.(*ssa.Call); ok {
						if sf := call.Call.StaticCallee(); sf != nil && sf.Pkg != nil && sf.Pkg.Pkg.Path() == "strconv" {
							usesStrconv = true
						}
					}
				}
			}
			if !usesStrconv {
				continue // not a number parser (strand, colour)
			}
			n++
			c.Funcs[funcName(fn)] = true
			key := funcName(fn) + "/value-from-strconv"
			bad := ""
			var check func(v ssa.Value, d int)
			check = func(v ssa.Value, d int) {
				if d > 8 || bad != "" {
					return
				}
				switch x := v.(type) {
				case *ssa.Convert:
					check(x.X, d+1)
				case *ssa.ChangeType:
					check(x.X, d+1)
				case *ssa.Extract:
					check(x.Tuple, d+1)
				case *ssa.Phi:
					for _, e := range x.Edges {
						check(e, d+1)
					}
				case *ssa.Const:
					// a fixed answer for a fixed spelling ("." for no frame)
				case *ssa.Call:
					sf := x.Call.StaticCallee()
					if sf != nil && sf.Pkg != nil && sf.Pkg.Pkg.Path() == "strconv" {
						return
					}
					if sf != nil && sf.Pkg == sp && strings.HasPrefix(sf.Name(), "mustAto") {
						return
					}
					name := "a call"
					if sf != nil {
						name = funcName(sf)
					}
					bad = name
				default:
					bad = fmt.Sprintf("%T", v)
				}
			}
			for _, r := range returnsOf(fn) {
				check(r.Results[0], 0)
			}
			if bad == "" {
				c.ok(rule, key, fn.Pos(), "the number returned is always a strconv result")
			} else {
				c.bad(rule, key, fn.Pos(), "on some path the number returned does not come from strconv but from "+bad+": a hand-written digit loop accepts inputs strconv rejects (an empty column runs zero iterations and yields 0), so a line with a missing mandatory number is read as a feature instead of being reported")
			}
		}
	}
	if n == 0 {
		c.und(rule, "mustAto*", token.NoPos, "no numeric column helpers found")
	}
}

// ---- loopidx (C03): a hand-advanced subscript of a line is tested against its length ----

func ruleLoopIdx(c *Ctx, rule string, shorts ...string) {
	n := 0
	for _, short := range shorts {
		sp := c.SPkgs[c.pkg(short).PkgPath]
		for _, fn := range srcFuncs(sp) {
			loops := naturalLoops(fn)
			for _, b := range fn.Blocks {
				for _, ins := range b.Instrs {
					ia, ok := ins.(*ssa.IndexAddr)
					if !ok || !isByteSlice(ia.X.Type()) {
						continue
					}
					phi, _, ok := linearIn(ia.Index)
					if !ok {
						continue
					}
					var lp *ssaLoop
					for _, l := range loops {
						if l.head == phi.Block() {
							lp = l
						}
					}
					if lp == nil {
						continue
					}
					n++
					c.Funcs[funcName(fn)] = true
					key := fmt.Sprintf("%s/%s[counter]#%d", funcName(fn), symName(ia.X, nil), n)
					// some comparison of the counter with a length (or a bound derived from one) on the way
					bounded := false
					for _, bf := range append(branchesAt(b), headFact(lp)...) {
						for _, side := range []ssa.Value{bf.cond.X, bf.cond.Y} {
							if q, _, ok := linearIn(side); ok && q == phi {
								other := bf.cond.Y
								if side == bf.cond.Y {
									other = bf.cond.X
								}
								if mentionsLen(other, 0) {
									bounded = true
								}
							}
						}
					}
					if bounded {
						c.ok(rule, key, ia.Pos(), "the counter is compared with a length before the element is read")
					} else {
						c.bad(rule, key, ia.Pos(), "the subscript is advanced by the loop without ever being compared with the length of the slice: the loop relies on a later byte stopping it (\"the caller has trimmed the field\"), and input for which that does not hold runs off the end — an index panic that escapes Read")
					}
				}
			}
		}
	}
	if n == 0 {
		c.triv(rule, "readers/counter-subscripts", token.NoPos, "no line is subscripted by a hand-advanced counter")
	}
}

func headFact(l *ssaLoop) []branchFact {
	if ifi, ok := l.head.Instrs[len(l.head.Instrs)-1].(*ssa.If); ok {
		if bo, ok := ifi.Cond.(*ssa.BinOp); ok {
			for e, s := range l.head.Succs {
				if l.body[s] {
					return []branchFact{{bo, e}}
				}
			}
		}
	}
	return nil
}

func mentionsLen(v ssa.Value, d int) bool {
	if d > 4 {
		return false
	}
	if builtinCall(v, "len") != nil {
		return true
	}
	switch x := v.(type) {
	case *ssa.BinOp:
		return mentionsLen(x.X, d+1) || mentionsLen(x.Y, d+1)
	case *ssa.Phi:
		for _, e := range x.Edges {
			if mentionsLen(e, d+1) {
				return true
			}
		}
	case *ssa.Call:
		if x.Call.IsInvoke() && x.Call.Method.Name() == "Len" {
			return true
		}
	}
	return false
}

// ---- appendtail (C04): appended letters land after the existing ones ----

func ruleAppendTail(c *Ctx, rule string, targets [][2]string) {
	for _, t := range targets {
		fn := c.fn(t[0], t[1])
		c.Funcs[funcName(fn)] = true
		key := funcName(fn) + "/new-letters-at-the-end"
		recv := fn.Params[0]
		n := 0
		bad := false
		var pos token.Pos
		for _, b := range fn.Blocks {
			for _, ins := range b.Instrs {
				st, ok := ins.(*ssa.Store)
				if !ok {
					continue
				}
				ia, ok := st.Addr.(*ssa.IndexAddr)
				if !ok {
					if fa, ok2 := st.Addr.(*ssa.FieldAddr); ok2 {
						ia, ok = fa.X.(*ssa.IndexAddr)
					}
					if !ok {
						continue
					}
				}
				// the receiver's Seq
				ld, ok := ia.X.(*ssa.UnOp)
				if !ok || ld.Op != token.MUL || addrRoot(ld.X) != ssa.Value(recv) {
					continue
				}
				n++
				// the subscript must include the length the sequence had on entry
				if !mentionsLen(ia.Index, 0) {
					bad, pos = true, st.Pos()
				}
			}
		}
		switch {
		case bad:
			c.bad(rule, key, pos, "letters being appended are stored at a subscript that does not include the sequence's previous length: the first call works, every later call overwrites the front of the sequence and leaves the grown tail zero — a record wrapped over several lines reads back different from the same record on one line")
		case n == 0:
			c.ok(rule, key, fn.Pos(), "new letters are added with append only")
		default:
			c.ok(rule, key, fn.Pos(), "element stores are offset by the previous length")
		}
	}
}

// ---- blankaftertrim (C04): a line is tested for emptiness after it has been trimmed ----

func ruleBlankAfterTrim(c *Ctx, rule string) {
	fn := c.fn("io/seqio/fasta", "(*Reader).Read")
	c.Funcs[funcName(fn)] = true
	key := funcName(fn) + "/classified-only-if-non-empty-after-trim"
	n := 0
	var bad *ssa.Call
	for _, b := range fn.Blocks {
		for _, ins := range b.Instrs {
			call, ok := ins.(*ssa.Call)
			if !ok || !calleeIs(&call.Call, "bytes", "HasPrefix") {
				continue
			}
			n++
			line := call.Call.Args[0]
			if !excluded(factsAt(b, lenOf(line)), 0) {
				bad = call
			}
		}
	}
	switch {
	case n == 0:
		c.und(rule, key, fn.Pos(), "no prefix classification found")
	case bad != nil:
		c.bad(rule, key, bad.Pos(), "a line is classified by its prefix without the trimmed line having been found non-empty: a line of blanks only (or a stray CR) is not skipped like an empty one but reaches the dispatch as an empty line — a badly-formed-line error before the first header or with a sequence prefix set")
	default:
		c.ok(rule, key, fn.Pos(), "every prefix classification is reached only with len(trimmed line) != 0")
	}
}

// ---- offsetroundtrip (C05): Start() returns what SetOffset stored ----

func ruleOffsetRoundTrip(c *Ctx, rule string, shorts ...string) {
	n := 0
	for _, short := range shorts {
		sp := c.SPkgs[c.pkg(short).PkgPath]
		for name, m := range sp.Members {
			t, ok := m.(*ssa.Type)
			if !ok {
				continue
			}
			get := func(mn string) *ssa.Function {
				for _, typ := range []types.Type{t.Type(), types.NewPointer(t.Type())} {
					ms := c.Prog.MethodSets.MethodSet(typ)
					for i := 0; i < ms.Len(); i++ {
						if ms.At(i).Obj().Name() == mn {
							f := c.Prog.MethodValue(ms.At(i))
							if f != nil && f.Synthetic == "" && f.Pkg == sp {
								return f
							}
						}
					}
				}
				return nil
			}
			set, start := get("SetOffset"), get("Start")
			if set == nil || start == nil || len(set.Blocks) != 1 || len(start.Blocks) != 1 || len(set.Params) != 2 {
				continue
			}
			// the single store of SetOffset
			var st *ssa.Store
			cnt := 0
			for _, ins := range set.Blocks[0].Instrs {
				if s, ok := ins.(*ssa.Store); ok {
					if al, isAl := s.Addr.(*ssa.Alloc); isAl && al.Comment != "" {
						continue // spill of a value receiver
					}
					st = s
					cnt++
				}
			}
			if cnt != 1 {
				continue
			}
			ret, ok := start.Blocks[0].Instrs[len(start.Blocks[0].Instrs)-1].(*ssa.Return)
			if !ok || len(ret.Results) != 1 {
				continue
			}
			norm := func(f *ssa.Function, s string) string {
				r := f.Params[0].Name()
				s = strings.Replace(s, "&"+r+".", "&recv.", -1)
				s = strings.Replace(s, r+".", "recv.", -1)
				return s
			}
			envS := &linEnv{forms: map[*ssa.Parameter]lin{}, names: map[*ssa.Parameter]string{}, allocAsName: true}
			stored := linOf(st.Val, envS)
			fieldAtom := norm(set, strings.TrimPrefix(symName(st.Addr, envS), "&"))
			startForm := linOf(ret.Results[0], envS)
			// rename atoms of Start to the receiver-neutral form
			sf := newLin()
			sf.k = startForm.k
			for a, cf := range startForm.coef {
				sf.coef[norm(start, a)] += cf
			}
			n++
			key := shortPkg(sp.Pkg.Path()) + "." + name + "/Start-after-SetOffset"
			c.Funcs[funcName(start)] = true
			got := sf.subst(fieldAtom, stored)
			got = got.subst("&"+fieldAtom, stored)
			want := linAtom(set.Params[1].Name())
			if got.equal(want) {
				c.ok(rule, key, start.Pos(), "Start() returns the value SetOffset stored ("+fieldAtom+")")
			} else {
				c.bad(rule, key, start.Pos(), "after SetOffset("+set.Params[1].Name()+") Start() is "+got.String()+", not "+set.Params[1].Name()+": code that moves a row by reading Start()/End() and writing SetOffset (the mirroring in Multi.RevComp/Reverse) shifts it by the difference every time, so coordinates are not restored by applying the operation twice")
			}
		}
	}
	if n == 0 {
		c.und(rule, "offsetroundtrip", token.NoPos, "no type with straight-line SetOffset and Start found")
	}
}

// ---- joinearly (C06): Join returns early only for an empty piece ----

func ruleJoinEarly(c *Ctx, rule string) {
	fn := c.fn("seq/sequtils", "Join")
	c.Funcs[funcName(fn)] = true
	key := "sequtils.Join/early-success-returns"
	src := fn.Params[1]
	var setSlice *ssa.Call
	for _, b := range fn.Blocks {
		for _, ins := range b.Instrs {
			if call, ok := ins.(*ssa.Call); ok && call.Call.IsInvoke() && call.Call.Method.Name() == "SetSlice" {
				setSlice = call
			}
		}
	}
	if setSlice == nil {
		c.und(rule, key, fn.Pos(), "no SetSlice call")
		return
	}
	var bad *ssa.Return
	for _, r := range returnsOf(fn) {
		if !successReturn(r) {
			continue
		}
		// allowed only under an emptiness test of the piece being joined: the source parameter itself
		srcEmpty := func(bf branchFact) bool {
			k, isK := constIntVal(bf.cond.Y)
			if !isK || k != 0 || effectiveOp(bf, true) != token.EQL {
				return false
			}
			x := bf.cond.X
			for d := 0; d < 4; d++ {
				if call, ok := x.(*ssa.Call); ok {
					if call.Call.IsInvoke() && (call.Call.Method.Name() == "Len" || call.Call.Method.Name() == "Slice") {
						x = call.Call.Value
						continue
					}
					if b := builtinCall(call, "len"); b != nil {
						x = call.Call.Args[0]
						continue
					}
				}
				break
			}
			return x == ssa.Value(src)
		}
		if !everyPathPasses(fn, r, viaCalls(func(i ssa.Instruction) bool { return i == ssa.Instruction(setSlice) }), srcEmpty) {
			bad = r
		}
	}
	if bad != nil {
		c.bad(rule, key, bad.Pos(), "Join returns success at "+c.pos(bad.Pos())+" without installing the joined letters, and not under a test that the piece being joined (the src argument itself) is empty: after the operands have been exchanged for a join at the end, a test on the exchanged value is a test on the destination, so joining onto an empty destination silently does nothing")
	} else {
		c.ok(rule, key, fn.Pos(), "every successful return has installed the joined letters (or the src argument was found empty)")
	}
}

// ---- conformlinear (C06): a truncation is always marked linear ----

func ruleConformLinear(c *Ctx, rule string) {
	fn := c.fn("seq/sequtils", "Truncate")
	c.Funcs[funcName(fn)] = true
	key := "sequtils.Truncate/result-marked-linear"
	isSet := func(i ssa.Instruction) bool {
		ta, ok := i.(*ssa.TypeAssert)
		if !ok {
			return false
		}
		n, ok := ta.AssertedType.(*types.Named)
		return ok && n.Obj().Name() == "ConformationSetter"
	}
	var bad *ssa.Return
	lifted := viaCalls(isSet)
	for _, r := range returnsOf(fn) {
		if !maybeSuccess(r) {
			continue
		}
		// a return that hands back another module function's result is judged there
		if call, ok := effectiveResults(r)[len(r.Results)-1].(*ssa.Call); ok {
			if g := call.Call.StaticCallee(); g != nil && inModule(g) && g.Blocks != nil {
				okAll := true
				for _, gr := range returnsOf(g) {
					if maybeSuccess(gr) && !everyPathPasses(g, gr, lifted, nil) {
						okAll = false
					}
				}
				if okAll {
					continue
				}
			}
		}
		if !everyPathPasses(fn, r, lifted, nil) {
			bad = r
		}
	}
	if bad != nil {
		c.bad(rule, key, bad.Pos(), "a successful return at "+c.pos(bad.Pos())+" is reachable without the destination's conformation having been set to linear: a piece cut from a circular sequence into a destination that is already circular (in place, or a clone of the source) stays marked circular, so a second truncation wraps around it and Join refuses it")
	} else {
		c.ok(rule, key, fn.Pos(), "every successful return has passed the ConformationSetter branch")
	}
}
