// biocheck decides structural necessary conditions of the biogo properties
// from the type-checked source of /repo's current working tree. Nothing in
// /repo is executed. See /verif/DESIGN.md.
package main

import (
	"encoding/json"
	"flag"
	"fmt"
	"os"
	"path/filepath"
	"runtime/debug"
	"sort"
	"strconv"
	"strings"
	"time"
)

type propDef struct {
	ID          string
	Explanation string
	Assumptions []string
	NotDecided  string
	Run         func(c *Ctx)
}

var props = map[string]*propDef{}

var dumpAll bool

var verifRoot = "/verif"

func register(p *propDef) { props[p.ID] = p }

func main() {
	prop := flag.String("prop", "", "property id (C01..C20)")
	tier := flag.String("tier", "quick", "quick|thorough")
	repo := flag.String("repo", "/repo", "repository to analyse")
	verif := flag.String("verif", "", "verif root (default: parent of the binary's directory)")
	explain := flag.String("explain", "", "print a violations file")
	noSelf := flag.Bool("noselftest", false, "thorough tier without the overlay self-validation")
	list := flag.Bool("list", false, "list properties")
	flag.BoolVar(&dumpAll, "dump", false, "print every obligation")
	flag.Parse()

	if *verif == "" {
		exe, err := os.Executable()
		if err == nil {
			*verif = filepath.Dir(filepath.Dir(exe))
		} else {
			*verif = "/verif"
		}
	}
	verifRoot = *verif
	if *explain != "" {
		b, err := os.ReadFile(*explain)
		if err != nil {
			fmt.Println(err)
			os.Exit(2)
		}
		var obs []Obligation
		if err := json.Unmarshal(b, &obs); err != nil {
			fmt.Println(err)
			os.Exit(2)
		}
		for _, o := range obs {
			fmt.Printf("%s  rule=%s key=%s\n    %s\n", o.Pos, o.Rule, o.Key, o.Reason)
		}
		return
	}
	if *list {
		var ids []string
		for id := range props {
			ids = append(ids, id)
		}
		sort.Strings(ids)
		fmt.Println(strings.Join(ids, " "))
		return
	}
	if t := os.Getenv("VERIF_TIER"); t != "" && !isFlagSet("tier") {
		*tier = t
	}
	p := props[*prop]
	if p == nil {
		fmt.Printf("unknown property %q\n", *prop)
		os.Exit(2)
	}
	if *tier != "quick" && *tier != "thorough" {
		fmt.Printf("unknown tier %q\n", *tier)
		os.Exit(2)
	}
	seed, _ := strconv.Atoi(os.Getenv("VERIF_SEED"))
	os.Exit(runProp(p, *tier, *repo, *verif, seed, *noSelf))
}

func isFlagSet(name string) bool {
	set := false
	flag.Visit(func(f *flag.Flag) {
		if f.Name == name {
			set = true
		}
	})
	return set
}

// runRules runs one property's rules on one load; internal panics are
// reported as errors (exit 2), never as verdicts.
func runRules(p *propDef, c *Ctx) (err error) {
	defer func() {
		if r := recover(); r != nil {
			err = fmt.Errorf("internal error in rules of %s: %v\n%s", p.ID, r, debug.Stack())
		}
	}()
	p.Run(c)
	for _, f := range extraRules[p.ID] {
		f(c)
	}
	return nil
}

// extraRules holds rules registered outside the property's own Run function
// (later rounds keep their registrations in their own files).
var extraRules = map[string][]func(c *Ctx){}

func addRule(id, rule string, floor int, f func(c *Ctx, rule string)) {
	extraRules[id] = append(extraRules[id], func(c *Ctx) {
		c.guard(rule, func() { f(c, rule); c.floor(rule, floor) })
	})
}

func runProp(p *propDef, tier, repo, verif string, seed int, noSelf bool) int {
	start := time.Now()
	evPath := filepath.Join(verif, "evidence", p.ID+".json")
	violPath := filepath.Join(verif, "evidence", p.ID+".violations.json")
	os.Remove(violPath)

	specs := []loadSpec{{Label: "linux/amd64"}}
	if tier == "thorough" {
		specs = append(specs, loadSpec{GOARCH: "386", Label: "linux/386"}, loadSpec{Tags: "verif", Label: "linux/amd64+verif"})
	}
	known, _, err := readKnown(filepath.Join(verif, "known_findings.txt"))
	if err != nil {
		fmt.Println("ERROR:", err)
		return 2
	}

	var all []Obligation
	funcs := map[string]bool{}
	pkgsUsed := map[string]bool{}
	var notes, floorFail, configs []string
	for _, s := range specs {
		c, err := load(repo, s, nil)
		if err != nil {
			fmt.Printf("ERROR: cannot analyse %s (%s): %v\n", repo, s.Label, err)
			return 2
		}
		c.Prop, c.Tier, c.VTA = p.ID, tier, tier == "thorough"
		if err := runRules(p, c); err != nil {
			fmt.Println("ERROR:", err)
			return 2
		}
		all = append(all, c.Obs...)
		for k := range c.Funcs {
			funcs[k] = true
		}
		for k := range c.PkgsUsed {
			pkgsUsed[k] = true
		}
		notes = append(notes, c.Notes...)
		for _, f := range c.floorFail {
			floorFail = append(floorFail, s.Label+": "+f)
		}
		configs = append(configs, s.Label)
	}

	// Verdicts.
	var viol, und, knownHit []Obligation
	discharged, nontriv := 0, map[string]bool{}
	perRule := map[string]int{}
	for _, o := range all {
		perRule[o.Rule]++
		if o.NonTrivial {
			nontriv[o.Rule+"|"+o.Key] = true
		}
		switch o.Verdict {
		case OK:
			discharged++
		case UNDECIDED:
			und = append(und, o)
		case VIOLATION:
			isKnown := false
			for _, k := range known {
				if k.Prop == p.ID && k.Rule == o.Rule && k.Key == o.Key {
					isKnown = true
				}
			}
			if isKnown {
				knownHit = append(knownHit, o)
			} else {
				viol = append(viol, o)
			}
		}
	}

	fmt.Printf("biocheck %s tier=%s configs=%s: %d obligations (%d distinct non-trivial), %d discharged, %d violations, %d known findings, %d undecided; %d functions in %d packages\n",
		p.ID, tier, strings.Join(configs, ","), len(all), len(nontriv), discharged, len(viol), len(knownHit), len(und), len(funcs), len(pkgsUsed))
	var rules []string
	for r := range perRule {
		rules = append(rules, r)
	}
	sort.Strings(rules)
	for _, r := range rules {
		fmt.Printf("  rule %-28s %d instances\n", r, perRule[r])
	}

	if dumpAll {
		for _, o := range all {
			fmt.Printf("  [%s] %s %s %s: %s\n", o.Verdict, o.Rule, o.Key, o.Pos, o.Reason)
		}
	}
	seenKnown := map[string]bool{}
	for _, o := range knownHit {
		k := o.Rule + "|" + o.Key
		if seenKnown[k] {
			continue
		}
		seenKnown[k] = true
		fmt.Printf("KNOWN-FINDING: property=%s rule=%s key=%s at %s: %s\n", p.ID, o.Rule, o.Key, o.Pos, o.Reason)
	}

	// Self validation (thorough): seeded faults must be reported, benign
	// variants must stay silent, judged relative to the base run above.
	var self *selfResult
	if tier == "thorough" && !noSelf {
		self = runSelftests(p, repo, all)
	}

	samples := sampleObs(all, viol)
	cov := map[string]interface{}{
		"explanation":         p.Explanation,
		"not_decided":         p.NotDecided,
		"evaluations":         len(all),
		"distinct_nontrivial": len(nontriv),
		"rule":                "one obligation per (rule, construct, build configuration) found in /repo's current source; non-trivial = needed a dominance / path / flow / table argument rather than mere absence of the construct; distinct by (rule,key)",
		"obligations":         len(all),
		"discharged":          discharged,
		"undecided":           len(und),
		"known_findings":      len(knownHit),
		"per_rule_instances":  perRule,
		"functions_analysed":  sortedKeys(funcs),
		"packages":            sortedKeys(pkgsUsed),
		"build_configs":       configs,
		"samples":             samples,
		"notes":               notes,
		"checker_cmd":         fmt.Sprintf("bin/biocheck -prop %s -tier %s", p.ID, tier),
		"trusted_base":        []string{"go/types, go/ssa, go/cfg (golang.org/x/tools v0.29.0)", "Go 1.23 front end", "rule tables in /verif/checker"},
	}
	if self != nil {
		cov["selftest"] = self
	}
	ev := evidence{PropertyID: p.ID, Tier: tier, Seed: seed, Level: "other", Coverage: cov,
		Assumptions: p.Assumptions, WallS: time.Since(start).Seconds(), Violations: len(viol)}
	if err := writeJSON(evPath, ev); err != nil {
		fmt.Println("ERROR: writing evidence:", err)
		return 2
	}

	if len(viol) > 0 {
		if err := writeJSON(violPath, viol); err != nil {
			fmt.Println("ERROR:", err)
			return 2
		}
		seen := map[string]bool{}
		for _, o := range viol {
			k := o.Rule + "|" + o.Key
			if seen[k] {
				continue
			}
			seen[k] = true
			fmt.Printf("  violation: %s rule=%s key=%s: %s\n", o.Pos, o.Rule, o.Key, o.Reason)
		}
		fmt.Printf("VIOLATION property=%s replay=%s\n", p.ID, violPath)
		return 1
	}
	if len(und) > 0 || len(floorFail) > 0 {
		for _, o := range und {
			fmt.Printf("UNDECIDED: %s rule=%s key=%s: %s\n", o.Pos, o.Rule, o.Key, o.Reason)
		}
		for _, f := range floorFail {
			fmt.Println("UNDECIDED:", f)
		}
		fmt.Printf("no verdict for %s: the rules' anchors or idioms no longer match the source (exit 2)\n", p.ID)
		return 2
	}
	if self != nil && self.Failed > 0 {
		for _, f := range self.Failures {
			fmt.Println("SELFTEST-FAILED:", f)
		}
		return 2
	}
	fmt.Printf("OK property=%s\n", p.ID)
	return 0
}

func sampleObs(all, viol []Obligation) []Obligation {
	// a few obligations per rule, violations first
	out := append([]Obligation{}, viol...)
	per := map[string]int{}
	for _, o := range all {
		if o.Verdict == VIOLATION {
			continue
		}
		if per[o.Rule] >= 4 {
			continue
		}
		per[o.Rule]++
		out = append(out, o)
	}
	if len(out) > 80 {
		out = out[:80]
	}
	return out
}
