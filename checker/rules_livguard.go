// Rule I-livguard: a letter-index value (the result of indexing an
// alphabet.Index table; negative for letters outside the alphabet) is
// sign-checked before it is used as a subscript or converted to unsigned.
package main

import (
	"fmt"
	"go/token"
	"go/types"
	"sort"

	"golang.org/x/tools/go/ssa"
)

type ssaLoop struct {
	head *ssa.BasicBlock
	body map[*ssa.BasicBlock]bool
}

// naturalLoops finds the natural loops of fn (back edges t->h with h dom t).
func naturalLoops(fn *ssa.Function) []*ssaLoop {
	byHead := map[*ssa.BasicBlock]*ssaLoop{}
	var out []*ssaLoop
	for _, t := range fn.Blocks {
		for _, h := range t.Succs {
			if !h.Dominates(t) {
				continue
			}
			l := byHead[h]
			if l == nil {
				l = &ssaLoop{head: h, body: map[*ssa.BasicBlock]bool{h: true}}
				byHead[h] = l
				out = append(out, l)
			}
			stack := []*ssa.BasicBlock{t}
			for len(stack) > 0 {
				b := stack[len(stack)-1]
				stack = stack[:len(stack)-1]
				if l.body[b] {
					continue
				}
				l.body[b] = true
				stack = append(stack, b.Preds...)
			}
		}
	}
	return out
}

type liv struct {
	v     *ssa.UnOp // the loaded index value
	ia    *ssa.IndexAddr
	base  ssa.Value // the sequence (or string) whose letter is looked up; may be nil
	valid bool      // an If on v sends the negative case out of the function/loop
	// covered: the validating lookup runs on every iteration of a loop whose
	// bounds sweep every position of base (see loopCovers)
	covered bool
	whyNot  string
}

// seqBase walks from the letter operand of a lookup to the sequence it was read from.
func seqBase(v ssa.Value) ssa.Value {
	for i := 0; i < 8; i++ {
		switch x := v.(type) {
		case *ssa.Convert:
			v = x.X
		case *ssa.ChangeType:
			v = x.X
		case *ssa.UnOp:
			if x.Op != token.MUL {
				return nil
			}
			v = x.X
		case *ssa.FieldAddr:
			v = x.X
		case *ssa.Field:
			v = x.X
		case *ssa.IndexAddr:
			return x.X
		case *ssa.Index:
			return x.X
		case *ssa.Lookup:
			return x.X
		case *ssa.Extract: // rune from a string range
			if n, ok := x.Tuple.(*ssa.Next); ok {
				if r, ok := n.Iter.(*ssa.Range); ok {
					return r.X
				}
			}
			return nil
		default:
			return nil
		}
	}
	return nil
}

func isUnsigned(t types.Type) bool {
	b, ok := t.Underlying().(*types.Basic)
	return ok && b.Info()&types.IsUnsigned != 0
}

func describeBase(v ssa.Value) string {
	if v == nil {
		return "?"
	}
	if p, ok := v.(*ssa.Parameter); ok {
		return p.Name()
	}
	if v.Name() != "" {
		return v.Name()
	}
	return v.String()
}

// ruleLIVGuard analyses the given functions.
func ruleLIVGuard(c *Ctx, rule string, fns []*ssa.Function) {
	alphaPath := modPath + "/alphabet"
	for _, fn := range fns {
		c.Funcs[funcName(fn)] = true
		loops := naturalLoops(fn)
		var livs []*liv
		for _, b := range fn.Blocks {
			for _, ins := range b.Instrs {
				ia, ok := ins.(*ssa.IndexAddr)
				if !ok || !isNamed(ia.X.Type(), alphaPath, "Index") {
					continue
				}
				for _, r := range *ia.Referrers() {
					if u, ok := r.(*ssa.UnOp); ok && u.Op == token.MUL {
						livs = append(livs, &liv{v: u, ia: ia, base: seqBase(ia.Index)})
					}
				}
			}
		}
		sort.Slice(livs, func(i, j int) bool { return livs[i].v.Pos() < livs[j].v.Pos() })
		// validated lookups: an If on v whose negative edge leaves for good
		for _, l := range livs {
			for _, r := range *l.v.Referrers() {
				bo, ok := r.(*ssa.BinOp)
				if !ok {
					continue
				}
				for _, rr := range *bo.Referrers() {
					ifi, ok := rr.(*ssa.If)
					if !ok {
						continue
					}
					f, ok := condFact(ifi.Cond, sameValue(l.v))
					if !ok {
						continue
					}
					// which successor is the "negative" one?
					neg := -1
					if lowerBound([]cmpFact{f}, -1) >= 0 {
						neg = 1 // condition true means v >= 0
					} else {
						nf := f
						nf.op = negateOp(f.op)
						if lowerBound([]cmpFact{nf}, -1) >= 0 {
							neg = 0
						}
					}
					if neg < 0 {
						continue
					}
					// the negative successor must not come back to this lookup
					if returnsOnly(ifi.Block().Succs[neg]) {
						l.valid = true
					}
				}
			}
		}
		for _, l := range livs {
			if l.valid {
				l.covered, l.whyNot = loopCovers(l, loops)
			}
		}
		keyN := map[string]int{}
		for _, l := range livs {
			// sinks reachable from v through arithmetic
			type sink struct {
				ins  ssa.Instruction
				what string
			}
			var sinks []sink
			seen := map[ssa.Value]bool{l.v: true}
			work := []ssa.Value{l.v}
			for len(work) > 0 {
				x := work[0]
				work = work[1:]
				refs := x.Referrers()
				if refs == nil {
					continue
				}
				for _, r := range *refs {
					switch r := r.(type) {
					case *ssa.BinOp:
						switch r.Op {
						case token.ADD, token.SUB, token.MUL, token.SHL, token.OR, token.AND, token.XOR, token.QUO, token.REM:
							if !seen[r] {
								seen[r] = true
								work = append(work, r)
							}
						}
					case *ssa.Convert:
						if isUnsigned(r.Type()) && !isUnsigned(r.X.Type()) {
							sinks = append(sinks, sink{r, "conversion to " + types.TypeString(r.Type(), func(p *types.Package) string { return p.Name() })})
						} else if !seen[r] {
							seen[r] = true
							work = append(work, r)
						}
					case *ssa.IndexAddr:
						if r.Index == x && !isNamed(r.X.Type(), alphaPath, "Index") {
							sinks = append(sinks, sink{r, "subscript"})
						}
					case *ssa.Index:
						if r.Index == x {
							sinks = append(sinks, sink{r, "subscript"})
						}
					case *ssa.Slice:
						if r.Low == x || r.High == x || r.Max == x {
							sinks = append(sinks, sink{r, "slice bound"})
						}
					}
				}
			}
			baseName := describeBase(l.base)
			k := fmt.Sprintf("%s/index[%s]", funcName(fn), baseName)
			keyN[k]++
			key := fmt.Sprintf("%s#%d", k, keyN[k])
			if len(sinks) == 0 {
				c.triv(rule, key, l.v.Pos(), "lookup result is only compared, never used as a subscript")
				continue
			}
			verdict, reason := OK, ""
			for _, s := range sinks {
				u := s.ins.Block()
				// (a) dominating sign check of this very value
				if lowerBound(factsAt(u, sameValue(l.v)), -1) >= 0 {
					reason = "sign-checked by a dominating comparison of this value with 0"
					continue
				}
				// (b) validated earlier in a loop over the same sequence
				okB := false
				partial := ""
				if l.base != nil {
					for _, o := range livs {
						if o == l || !o.valid || o.base != l.base {
							continue
						}
						if !o.covered {
							partial = fmt.Sprintf("; the sign check at %s does not count: %s", c.pos(o.v.Pos()), o.whyNot)
							continue
						}
						for _, lp := range loops {
							if lp.body[o.v.Block()] && !lp.body[u] && entryDominates(lp.head, u) {
								okB = true
								reason = fmt.Sprintf("every letter of %s was sign-checked by the loop at %s, which dominates this use", baseName, c.pos(o.v.Pos()))
							}
						}
					}
				}
				if okB {
					continue
				}
				// (c) a dominating AllValid / Validate call on the same sequence
				okC := false
				if l.base != nil {
					for _, b := range fn.Blocks {
						if !b.Dominates(u) {
							continue
						}
						for _, ins := range b.Instrs {
							call, ok := ins.(*ssa.Call)
							if !ok {
								continue
							}
							name := ""
							if call.Call.IsInvoke() {
								name = call.Call.Method.Name()
							} else if f := call.Call.StaticCallee(); f != nil {
								name = f.Name()
							}
							if name != "AllValid" && name != "AllValidQLetter" && name != "Validate" {
								continue
							}
							for _, a := range call.Call.Args {
								if stripConv(a) == l.base {
									okC = true
									reason = "validated by a dominating " + name + " call"
								}
							}
						}
					}
				}
				if okC {
					continue
				}
				verdict = VIOLATION
				reason = fmt.Sprintf("the letter index of %s is used as a %s at %s before any sign check that covers every position: a letter outside the alphabet gives -1 and the access panics with index out of range instead of returning an error%s", baseName, s.what, c.pos(s.ins.Pos()), partial)
				break
			}
			if verdict == OK {
				c.ok(rule, key, l.v.Pos(), reason)
			} else {
				c.bad(rule, key, l.v.Pos(), reason)
			}
		}
	}
}

// returnsOnly: every path from b ends in a return (no way back into a loop).
func returnsOnly(b *ssa.BasicBlock) bool {
	seen := map[*ssa.BasicBlock]bool{}
	var walk func(*ssa.BasicBlock) bool
	walk = func(x *ssa.BasicBlock) bool {
		if seen[x] {
			return false // a cycle
		}
		seen[x] = true
		if len(x.Succs) == 0 {
			_, isRet := x.Instrs[len(x.Instrs)-1].(*ssa.Return)
			_, isPanic := x.Instrs[len(x.Instrs)-1].(*ssa.Panic)
			return isRet || isPanic
		}
		for _, s := range x.Succs {
			if !walk(s) {
				return false
			}
		}
		return true
	}
	return walk(b)
}

func stripConv(v ssa.Value) ssa.Value {
	for {
		switch x := v.(type) {
		case *ssa.ChangeType:
			v = x.X
		case *ssa.Convert:
			v = x.X
		default:
			return v
		}
	}
}

// seqAccess walks from the letter operand of a lookup to the IndexAddr on
// the sequence it was read from.
func seqAccess(v ssa.Value) *ssa.IndexAddr {
	for i := 0; i < 8; i++ {
		switch x := v.(type) {
		case *ssa.Convert:
			v = x.X
		case *ssa.ChangeType:
			v = x.X
		case *ssa.UnOp:
			if x.Op != token.MUL {
				return nil
			}
			v = x.X
		case *ssa.FieldAddr:
			v = x.X
		case *ssa.IndexAddr:
			return x
		default:
			return nil
		}
	}
	return nil
}

// linearIn expresses v as phi + a for a loop-header phi.
func linearIn(v ssa.Value) (*ssa.Phi, int64, bool) {
	switch x := v.(type) {
	case *ssa.Phi:
		return x, 0, true
	case *ssa.BinOp:
		if x.Op == token.ADD || x.Op == token.SUB {
			if k, ok := constIntVal(x.Y); ok {
				if p, a, ok := linearIn(x.X); ok {
					if x.Op == token.SUB {
						k = -k
					}
					return p, a + k, true
				}
			}
			if k, ok := constIntVal(x.X); ok && x.Op == token.ADD {
				if p, a, ok := linearIn(x.Y); ok {
					return p, a + k, true
				}
			}
		}
	case *ssa.Convert:
		return linearIn(x.X)
	}
	return nil, 0, false
}

// phiPlusForm expresses v as phi + rest where rest is a linear form that does
// not involve the phi (position := basePosition - (k - 1)).
func phiPlusForm(v ssa.Value, env *linEnv) (*ssa.Phi, lin, bool) {
	switch x := v.(type) {
	case *ssa.Phi:
		return x, linConst(0), true
	case *ssa.Convert:
		return phiPlusForm(x.X, env)
	case *ssa.BinOp:
		switch x.Op {
		case token.ADD:
			if p, f, ok := phiPlusForm(x.X, env); ok {
				return p, f.add(linOf(x.Y, env), 1), true
			}
			if p, f, ok := phiPlusForm(x.Y, env); ok {
				return p, f.add(linOf(x.X, env), 1), true
			}
		case token.SUB:
			if p, f, ok := phiPlusForm(x.X, env); ok {
				return p, f.add(linOf(x.Y, env), -1), true
			}
		}
	}
	return nil, lin{}, false
}

// lenOfBase expresses v as len(base) + b.
func lenOfBase(v ssa.Value, base ssa.Value) (int64, bool) {
	if lc := builtinCall(v, "len"); lc != nil && stripConv(lc.Call.Args[0]) == base {
		return 0, true
	}
	if call, ok := v.(*ssa.Call); ok {
		if f := call.Call.StaticCallee(); f != nil && f.Name() == "Len" && len(call.Call.Args) == 1 && stripConv(call.Call.Args[0]) == base {
			return 0, true
		}
	}
	if bo, ok := v.(*ssa.BinOp); ok && (bo.Op == token.ADD || bo.Op == token.SUB) {
		if k, ok := constIntVal(bo.Y); ok {
			if b, ok := lenOfBase(bo.X, base); ok {
				if bo.Op == token.SUB {
					k = -k
				}
				return b + k, true
			}
		}
	}
	return 0, false
}

// loopCovers: the lookup l (of base[idx]) sits in a loop that executes it on
// every iteration and whose induction variable sweeps idx over 0..len(base)-1.
func loopCovers(l *liv, loops []*ssaLoop) (bool, string) {
	acc := seqAccess(l.ia.Index)
	if acc == nil || l.base == nil {
		return false, "the validating lookup does not index the sequence directly"
	}
	// every iteration of the innermost loop containing the lookup
	var inner *ssaLoop
	for _, lp := range loops {
		if lp.body[l.v.Block()] && (inner == nil || len(lp.body) < len(inner.body)) {
			inner = lp
		}
	}
	if inner == nil {
		return false, "the validating lookup is not in a loop"
	}
	for _, p := range inner.head.Preds {
		if inner.body[p] && !l.v.Block().Dominates(p) {
			return false, "the validating lookup is skipped on some iterations of its loop (it sits under another condition)"
		}
	}
	phi, a, ok := linearIn(acc.Index)
	if !ok {
		return false, "the validated position is not a linear function of a loop counter"
	}
	head := phi.Block()
	var drive *ssaLoop
	for _, lp := range loops {
		if lp.head == head {
			drive = lp
		}
	}
	if drive == nil {
		return false, "the position's counter is not a loop induction variable"
	}
	ifi, ok := head.Instrs[len(head.Instrs)-1].(*ssa.If)
	if !ok {
		return false, "the driving loop has no bound test in its header"
	}
	bo, ok := ifi.Cond.(*ssa.BinOp)
	if !ok || bo.Op != token.LSS || !drive.body[head.Succs[0]] {
		return false, "the driving loop's bound test is not of the form counter < bound"
	}
	cphi, d, ok := linearIn(bo.X)
	if !ok || cphi != phi {
		return false, "the driving loop's bound test is on another variable"
	}
	b, ok := lenOfBase(bo.Y, l.base)
	if !ok {
		return false, "the driving loop is bounded by something other than the length of the validated sequence"
	}
	var s0 int64
	found := false
	for i, p := range head.Preds {
		if !drive.body[p] {
			if k, ok := constIntVal(phi.Edges[i]); ok {
				s0, found = k, true
			}
		}
	}
	if !found {
		return false, "the loop counter does not start at a constant"
	}
	if s0+a != 0 || b-d+a != 0 {
		return false, fmt.Sprintf("the loop validates positions %d..len%+d, not 0..len-1", s0+a, b-d+a-1)
	}
	return true, ""
}

// ruleStride: the flattened scoring matrix la[r*let+q] holds a[r][q] with
// the reference letter selecting the row and the query letter the column.
// Every subscript built from letter indices must therefore multiply indices
// of reference letters (first sequence parameter) by the row stride and use
// indices of query letters (second sequence parameter) unmultiplied. With
// an asymmetric matrix anything else scores a pair with the wrong cell.
func ruleStride(c *Ctx, rule string, fns []*ssa.Function) {
	alphaPath := modPath + "/alphabet"
	type term struct {
		liv *ssa.UnOp
		ia  *ssa.IndexAddr
		mul bool
	}
	var decode func(v ssa.Value, depth int) []term
	decode = func(v ssa.Value, depth int) []term {
		if depth > 6 {
			return nil
		}
		switch x := v.(type) {
		case *ssa.UnOp:
			if x.Op == token.MUL {
				if ia, ok := x.X.(*ssa.IndexAddr); ok && isNamed(ia.X.Type(), alphaPath, "Index") {
					return []term{{x, ia, false}}
				}
			}
		case *ssa.Phi:
			// a letter index joined with a constant (the index used when there is no letter to look up)
			var ts []term
			for _, e := range x.Edges {
				if _, isK := e.(*ssa.Const); isK || e == ssa.Value(x) {
					continue
				}
				for _, t := range decode(e, depth+1) {
					dup := false
					for _, u := range ts {
						dup = dup || u.ia == t.ia
					}
					if !dup {
						ts = append(ts, t)
					}
				}
			}
			if len(ts) == 1 {
				return ts
			}
		case *ssa.BinOp:
			switch x.Op {
			case token.ADD:
				return append(decode(x.X, depth+1), decode(x.Y, depth+1)...)
			case token.MUL:
				ts := append(decode(x.X, depth+1), decode(x.Y, depth+1)...)
				for i := range ts {
					ts[i].mul = true
				}
				return ts
			}
		}
		return nil
	}
	for _, fn := range fns {
		if len(fn.Params) < 3 {
			c.und(rule, funcName(fn)+"/params", fn.Pos(), "expected (receiver, reference, query, ...) parameters")
			continue
		}
		ref, qry := fn.Params[1], fn.Params[2]
		type use struct {
			pos  token.Pos
			role string
			mul  bool
		}
		var uses []use
		for _, b := range fn.Blocks {
			for _, ins := range b.Instrs {
				ia, ok := ins.(*ssa.IndexAddr)
				if !ok || isNamed(ia.X.Type(), alphaPath, "Index") {
					continue
				}
				for _, t := range decode(ia.Index, 0) {
					base := seqBase(t.ia.Index)
					role := ""
					if base == ssa.Value(ref) {
						role = "reference"
					} else if base == ssa.Value(qry) {
						role = "query"
					} else {
						continue
					}
					uses = append(uses, use{ia.Pos(), role, t.mul})
				}
			}
		}
		sort.Slice(uses, func(i, j int) bool { return uses[i].pos < uses[j].pos })
		cnt := map[string]int{}
		for _, u := range uses {
			cnt[u.role]++
			key := fmt.Sprintf("%s/matrix-subscript %s#%d", funcName(fn), u.role, cnt[u.role])
			switch {
			case u.role == "reference" && !u.mul:
				c.bad(rule, key, u.pos, "the index of a reference letter is used as a column of the flattened matrix (not multiplied by the row stride): the cell read is a[gap][x] instead of a[x][gap] (or a[q][r] instead of a[r][q]), so with an asymmetric matrix the reported scores differ from the scores recomputed from the letters")
			case u.role == "query" && u.mul:
				c.bad(rule, key, u.pos, "the index of a query letter is multiplied by the row stride: it selects a row of the flattened matrix where a column is meant")
			default:
				c.ok(rule, key, u.pos, map[string]string{"reference": "row index: multiplied by the stride", "query": "column index: used unmultiplied"}[u.role])
			}
		}
		if len(uses) == 0 {
			c.und(rule, funcName(fn)+"/matrix-subscripts", fn.Pos(), "no matrix subscript built from letter indices found")
		}
	}
}

// ruleWatermark: when a looked-up letter is outside the alphabet, the
// k-mer scanner records the first position from which a window no longer
// contains that letter: exactly one past the letter's own position. The
// value carried out of the invalid-letter branch must therefore equal the
// looked-up position + 1 (both are linear in the same loop counter, so the
// difference is a compile-time constant).
func ruleWatermark(c *Ctx, rule string, fn *ssa.Function) {
	alphaPath := modPath + "/alphabet"
	n := 0
	for _, b := range fn.Blocks {
		for _, ins := range b.Instrs {
			ia, ok := ins.(*ssa.IndexAddr)
			if !ok || !isNamed(ia.X.Type(), alphaPath, "Index") {
				continue
			}
			acc := seqAccess(ia.Index)
			if acc == nil {
				continue
			}
			xphi, xa, ok := linearIn(acc.Index)
			if !ok {
				continue
			}
			for _, r := range *ia.Referrers() {
				v, ok := r.(*ssa.UnOp)
				if !ok || v.Op != token.MUL {
					continue
				}
				// the sign test on v and its negative successor
				for _, rr := range *v.Referrers() {
					bo, ok := rr.(*ssa.BinOp)
					if !ok {
						continue
					}
					for _, r3 := range *bo.Referrers() {
						ifi, ok := r3.(*ssa.If)
						if !ok {
							continue
						}
						f, ok := condFact(ifi.Cond, sameValue(v))
						if !ok {
							continue
						}
						neg := -1
						if lowerBound([]cmpFact{f}, -1) >= 0 {
							neg = 1
						} else {
							nf := f
							nf.op = negateOp(f.op)
							if lowerBound([]cmpFact{nf}, -1) >= 0 {
								neg = 0
							}
						}
						if neg < 0 {
							continue
						}
						nb := ifi.Block().Succs[neg]
						if returnsOnly(nb) || len(nb.Succs) != 1 {
							continue // the invalid letter ends the function: no watermark needed
						}
						merge := nb.Succs[0]
						pi := -1
						for i, p := range merge.Preds {
							if p == nb {
								pi = i
							}
						}
						n++
						key := fmt.Sprintf("%s/invalid-letter-watermark#%d", funcName(fn), n)
						good, bad := false, ""
						for _, mi := range merge.Instrs {
							phi, ok := mi.(*ssa.Phi)
							if !ok {
								break
							}
							if pi < 0 {
								continue
							}
							vphi, va, ok := linearIn(phi.Edges[pi])
							if !ok || vphi != xphi {
								continue
							}
							if va-xa == 1 {
								good = true
							} else {
								bad = fmt.Sprintf("the watermark (%s) is set to the invalid letter's position %+d instead of +1", phi.Comment, va-xa)
							}
						}
						switch {
						case bad != "":
							c.bad(rule, key, v.Pos(), bad+": the window that starts at (or just before) the invalid letter is still reported, as a k-mer with the letter read as index 0")
						case good:
							c.ok(rule, key, v.Pos(), "on the invalid-letter branch the watermark is the letter's position + 1")
						default:
							c.und(rule, key, v.Pos(), "no value linear in the scan position leaves the invalid-letter branch")
						}
					}
				}
			}
		}
	}
	if n == 0 {
		n = watermarkViaHelper(c, rule, fn)
	}
	if n == 0 {
		n = watermarkViaRun(c, rule, fn)
	}
	if n == 0 {
		c.und(rule, funcName(fn)+"/invalid-letter-watermark", fn.Pos(), "no skipped-letter branch found")
	}
}

// watermarkViaHelper: the look-up and the sign test sit in a step function of the package that is handed the
// letter and its position (kmer, high = ki.extend(kmer, high, s.Seq[next], next)): on the invalid-letter
// branch it returns position+1, and every call passes the position the letter was read at.
func watermarkViaHelper(c *Ctx, rule string, fn *ssa.Function) int {
	alphaPath := modPath + "/alphabet"
	n := 0
	for _, h := range privateReach(fn) {
		if h == fn {
			continue
		}
		for _, b := range h.Blocks {
			for _, ins := range b.Instrs {
				ia, ok := ins.(*ssa.IndexAddr)
				if !ok || !isNamed(ia.X.Type(), alphaPath, "Index") {
					continue
				}
				// the letter looked up is a parameter of the helper
				var letter *ssa.Parameter
				for v := ia.Index; letter == nil; {
					switch x := v.(type) {
					case *ssa.Convert:
						v = x.X
						continue
					case *ssa.ChangeType:
						v = x.X
						continue
					case *ssa.Parameter:
						letter = x
					}
					break
				}
				if letter == nil {
					continue
				}
				for _, r := range *ia.Referrers() {
					v, ok := r.(*ssa.UnOp)
					if !ok || v.Op != token.MUL {
						continue
					}
					for _, rr := range *v.Referrers() {
						bo, ok := rr.(*ssa.BinOp)
						if !ok {
							continue
						}
						for _, r3 := range *bo.Referrers() {
							ifi, ok := r3.(*ssa.If)
							if !ok {
								continue
							}
							f, ok := condFact(ifi.Cond, sameValue(v))
							if !ok {
								continue
							}
							neg := -1
							if lowerBound([]cmpFact{f}, -1) >= 0 {
								neg = 1
							} else {
								nf := f
								nf.op = negateOp(f.op)
								if lowerBound([]cmpFact{nf}, -1) >= 0 {
									neg = 0
								}
							}
							if neg < 0 {
								continue
							}
							nb := ifi.Block().Succs[neg]
							ret, ok := nb.Instrs[len(nb.Instrs)-1].(*ssa.Return)
							if !ok {
								continue
							}
							// the result that is a position parameter plus a constant
							for _, res := range ret.Results {
								add, ok := res.(*ssa.BinOp)
								if !ok || add.Op != token.ADD {
									continue
								}
								at, isP := add.X.(*ssa.Parameter)
								k, isK := constIntVal(add.Y)
								if !isP || !isK || !isIntegral(at.Type()) {
									continue
								}
								// every call: the position passed is where the letter passed was read
								for _, g := range privateReach(fn) {
									for _, gb := range g.Blocks {
										for _, gi := range gb.Instrs {
											call, ok := gi.(*ssa.Call)
											if !ok || call.Call.StaticCallee() != h {
												continue
											}
											li, ai := paramIndex(h, letter), paramIndex(h, at)
											if li < 0 || ai < 0 || li >= len(call.Call.Args) || ai >= len(call.Call.Args) {
												continue
											}
											n++
											key := fmt.Sprintf("%s/invalid-letter-watermark#%d", funcName(fn), n)
											acc := seqAccess(call.Call.Args[li])
											switch {
											case acc == nil:
												c.und(rule, key, call.Pos(), "the letter handed to "+h.Name()+" is not read from the sequence at a position")
											case !linOf(acc.Index, nil).equal(linOf(call.Call.Args[ai], nil)):
												c.bad(rule, key, call.Pos(), fmt.Sprintf("%s is told the letter sits at %s but it was read at %s: the watermark it returns for an invalid letter is off, so a window containing the invalid letter is reported (or a valid one dropped)", h.Name(), linOf(call.Call.Args[ai], nil).String(), linOf(acc.Index, nil).String()))
											case k != 1:
												c.bad(rule, key, add.Pos(), fmt.Sprintf("the watermark is set to the invalid letter's position %+d instead of +1: the window that starts at (or just before) the invalid letter is still reported, as a k-mer with the letter read as index 0", k))
											default:
												c.ok(rule, key, call.Pos(), "on the invalid-letter branch "+h.Name()+" returns the letter's position + 1, and the call passes the position the letter was read at")
											}
										}
									}
								}
							}
						}
					}
				}
			}
		}
	}
	return n
}

// watermarkViaRun: the scanner keeps, instead of a watermark, the number of defined letters read since the last
// undefined one: the invalid-letter branch resets that count to 0, the valid branch adds 1, and a window is
// reported only where the count has been found >= k.
func watermarkViaRun(c *Ctx, rule string, fn *ssa.Function) int {
	alphaPath := modPath + "/alphabet"
	pkg := fn.Pkg.Pkg.Path()
	// the cell in fn behind an address used in g (fn itself or one of its closures)
	cellOf := func(g *ssa.Function, addr ssa.Value) ssa.Value {
		fv, ok := addr.(*ssa.FreeVar)
		if !ok {
			return addr
		}
		for _, b := range fn.Blocks {
			for _, ins := range b.Instrs {
				if mc, ok := ins.(*ssa.MakeClosure); ok && mc.Fn == ssa.Value(g) {
					for i, f := range g.FreeVars {
						if f == fv {
							return mc.Bindings[i]
						}
					}
				}
			}
		}
		return addr
	}
	n := 0
	for _, g := range append([]*ssa.Function{fn}, fn.AnonFuncs...) {
		for _, b := range g.Blocks {
			for _, ins := range b.Instrs {
				ia, ok := ins.(*ssa.IndexAddr)
				if !ok || !isNamed(ia.X.Type(), alphaPath, "Index") {
					continue
				}
				for _, r := range *ia.Referrers() {
					v, ok := r.(*ssa.UnOp)
					if !ok || v.Op != token.MUL {
						continue
					}
					for _, rr := range *v.Referrers() {
						bo, ok := rr.(*ssa.BinOp)
						if !ok {
							continue
						}
						for _, r3 := range *bo.Referrers() {
							ifi, ok := r3.(*ssa.If)
							if !ok {
								continue
							}
							f, ok := condFact(ifi.Cond, sameValue(v))
							if !ok {
								continue
							}
							neg := -1
							if lowerBound([]cmpFact{f}, -1) >= 0 {
								neg = 1
							} else {
								nf := f
								nf.op = negateOp(f.op)
								if lowerBound([]cmpFact{nf}, -1) >= 0 {
									neg = 0
								}
							}
							if neg < 0 {
								continue
							}
							nb, vb := ifi.Block().Succs[neg], ifi.Block().Succs[1-neg]
							// cells reset to 0 on the invalid branch and stepped by 1 on the valid one
							for _, ni := range nb.Instrs {
								st, ok := ni.(*ssa.Store)
								if !ok {
									continue
								}
								if k, isK := constIntVal(st.Val); !isK || k != 0 {
									continue
								}
								if pt, ok := st.Addr.Type().Underlying().(*types.Pointer); !ok || !isIntegral(pt.Elem()) || isNamed(pt.Elem(), pkg, "Kmer") {
									continue
								}
								stepped := false
								for _, vi := range vb.Instrs {
									if s2, ok := vi.(*ssa.Store); ok && s2.Addr == st.Addr {
										if add, ok := s2.Val.(*ssa.BinOp); ok && add.Op == token.ADD {
											if k, isK := constIntVal(add.Y); isK && k == 1 {
												if ld, ok := add.X.(*ssa.UnOp); ok && ld.X == st.Addr {
													stepped = true
												}
											}
										}
									}
								}
								if !stepped {
									continue
								}
								cell := cellOf(g, st.Addr)
								// the report is made where count >= k
								var cb *ssa.Parameter
								for _, p := range fn.Params {
									if _, ok := p.Type().Underlying().(*types.Signature); ok {
										cb = p
									}
								}
								for _, fb := range fn.Blocks {
									for _, fi := range fb.Instrs {
										call, ok := fi.(*ssa.Call)
										if !ok || cb == nil || call.Call.Value != ssa.Value(cb) {
											continue
										}
										n++
										key := fmt.Sprintf("%s/invalid-letter-watermark#%d", funcName(fn), n)
										guarded := false
										for _, bf := range branchesAt(fb) {
											isCount := func(x ssa.Value) bool {
												ld, ok := x.(*ssa.UnOp)
												return ok && ld.Op == token.MUL && ld.X == cell
											}
											isK := func(x ssa.Value) bool {
												return loadOfField(x, pkg, "Index", "k")
											}
											if isCount(bf.cond.X) && isK(bf.cond.Y) && effectiveOp(bf, true) == token.GEQ {
												guarded = true
											}
											if isK(bf.cond.X) && isCount(bf.cond.Y) && effectiveOp(bf, false) == token.GEQ {
												guarded = true
											}
										}
										if guarded {
											c.ok(rule, key, call.Pos(), "the count of defined letters is reset to 0 by an undefined letter and a window is reported only once it has reached k again")
										} else {
											c.bad(rule, key, call.Pos(), "the count of defined letters since the last undefined one is kept, but the report is not made under count >= k: a window containing the undefined letter is reported, as a k-mer with the letter read as index 0")
										}
									}
								}
							}
						}
					}
				}
			}
		}
	}
	return n
}

// ---- dpstep: a DP transition pairs the predecessor cell with the letters it consumes ----

// ruleDPStep: wherever a score-matrix entry la[...] is added to entries of
// the DP table, the predecessor offset and the letters scored agree: the cell
// one row up (p-c) goes with a reference letter only (a[r][gap]), the cell one
// column left (p-1) with a query letter only (a[gap][q]), the diagonal cell
// (p-c-1) with both (a[r][q]). This holds for the fill recurrences and for
// the traceback tests alike. Any other pairing computes (or follows) a
// different recurrence and misses the optimum for some input.
func ruleDPStep(c *Ctx, rule string, fns []*ssa.Function) {
	alphaPath := modPath + "/alphabet"
	for _, fn := range fns {
		if len(fn.Params) < 3 {
			continue
		}
		ref, qry := fn.Params[1], fn.Params[2]
		// the flattened matrix: the local []int that is indexed by letter indices
		isLIV := func(v ssa.Value) (role string) {
			u, ok := v.(*ssa.UnOp)
			if !ok || u.Op != token.MUL {
				return ""
			}
			ia, ok := u.X.(*ssa.IndexAddr)
			if !ok || !isNamed(ia.X.Type(), alphaPath, "Index") {
				return ""
			}
			switch seqBase(ia.Index) {
			case ssa.Value(ref):
				return "r"
			case ssa.Value(qry):
				return "q"
			}
			return ""
		}
		var lettersOf func(v ssa.Value, d int) (r, q bool, any bool)
		lettersOf = func(v ssa.Value, d int) (bool, bool, bool) {
			if d > 6 {
				return false, false, false
			}
			if role := isLIV(v); role != "" {
				return role == "r", role == "q", true
			}
			if bo, ok := v.(*ssa.BinOp); ok && (bo.Op == token.ADD || bo.Op == token.MUL) {
				r1, q1, a1 := lettersOf(bo.X, d+1)
				r2, q2, a2 := lettersOf(bo.Y, d+1)
				return r1 || r2, q1 || q2, a1 || a2
			}
			return false, false, false
		}
		// an la load: load of IndexAddr whose index contains letter indices and whose base is not an alphabet.Index
		laLoad := func(v ssa.Value) (r, q, ok bool) {
			u, isU := v.(*ssa.UnOp)
			if !isU || u.Op != token.MUL {
				return
			}
			ia, isIA := u.X.(*ssa.IndexAddr)
			if !isIA || isNamed(ia.X.Type(), alphaPath, "Index") {
				return
			}
			r, q, any := lettersOf(ia.Index, 0)
			// a row of the matrix cut out first (rScores := la[rVal*let:]; rScores[qVal]): the low bound counts
			for base, d := ia.X, 0; d < 3; d++ {
				sl, isSl := base.(*ssa.Slice)
				if !isSl {
					break
				}
				if sl.Low != nil {
					r2, q2, a2 := lettersOf(sl.Low, 0)
					r, q, any = r || r2, q || q2, any || a2
				}
				base = sl.X
			}
			return r, q, any
		}
		// table load: load of table[idx] or table[idx][layer] with idx = p - k*c - m
		type off struct{ dr, dq int64 }
		tableOff := func(v ssa.Value) (off, bool) {
			u, isU := v.(*ssa.UnOp)
			if !isU || u.Op != token.MUL {
				return off{}, false
			}
			ia, isIA := u.X.(*ssa.IndexAddr)
			if !isIA {
				return off{}, false
			}
			if inner, ok := ia.X.(*ssa.IndexAddr); ok { // table[idx][layer]
				ia = inner
			}
			if _, _, any := lettersOf(ia.Index, 0); any {
				return off{}, false
			}
			// decompose idx
			var base ssa.Value
			var cTerms, kTerm int64
			var cVal ssa.Value
			okDec := true
			var dec func(x ssa.Value, sign int64, d int)
			dec = func(x ssa.Value, sign int64, d int) {
				if d > 6 {
					okDec = false
					return
				}
				if k, ok := constIntVal(x); ok {
					kTerm += sign * k
					return
				}
				if cVal != nil && x == cVal {
					cTerms += sign
					return
				}
				if bo, ok := x.(*ssa.BinOp); ok {
					switch bo.Op {
					case token.SUB:
						dec(bo.X, sign, d+1)
						dec(bo.Y, -sign, d+1)
						return
					case token.ADD:
						// p itself is i*c + j
						if m, ok := bo.X.(*ssa.BinOp); ok && m.Op == token.MUL && base == nil && sign == 1 {
							base, cVal = bo, m.Y
							return
						}
						dec(bo.X, sign, d+1)
						dec(bo.Y, sign, d+1)
						return
					}
				}
				if cVal != nil && x == cVal {
					cTerms += sign
					return
				}
				if base == nil && sign == 1 {
					base = x
					return
				}
				okDec = false
			}
			dec(ia.Index, 1, 0)
			// only cells addressed relative to p = i*c + j are DP transitions; border
			// initialisation (table[j+1], table[(i-1)*c], ...) is not
			if !okDec || base == nil || cVal == nil {
				return off{}, false
			}
			return off{-cTerms, -kTerm}, true
		}
		var offsOf func(v ssa.Value, d int) []off
		offsOf = func(v ssa.Value, d int) []off {
			if d > 6 {
				return nil
			}
			if o, ok := tableOff(v); ok {
				return []off{o}
			}
			switch x := v.(type) {
			case *ssa.BinOp:
				if x.Op == token.ADD {
					return append(offsOf(x.X, d+1), offsOf(x.Y, d+1)...)
				}
			case *ssa.Call:
				if g := x.Call.StaticCallee(); g != nil && g.Pkg == fn.Pkg {
					var out []off
					for _, a := range x.Call.Args {
						out = append(out, offsOf(a, d+1)...)
					}
					return out
				}
			}
			return nil
		}
		var lasOf func(v ssa.Value, d int) [][2]bool
		lasOf = func(v ssa.Value, d int) [][2]bool {
			if d > 6 {
				return nil
			}
			if r, q, ok := laLoad(v); ok {
				return [][2]bool{{r, q}}
			}
			if bo, ok := v.(*ssa.BinOp); ok && bo.Op == token.ADD {
				return append(lasOf(bo.X, d+1), lasOf(bo.Y, d+1)...)
			}
			return nil
		}
		n := 0
		check := func(pos token.Pos, x, y ssa.Value) {
			for _, pair := range [][2]ssa.Value{{x, y}, {y, x}} {
				offs, las := offsOf(pair[0], 0), lasOf(pair[1], 0)
				if len(offs) == 0 || len(las) == 0 {
					continue
				}
				for _, o := range offs {
					for _, l := range las {
						n++
						key := fmt.Sprintf("%s/transition#%d", funcName(fn), n)
						wantR, wantQ := o.dr == 1, o.dq == 1
						if (o.dr == 0 || o.dr == 1) && (o.dq == 0 || o.dq == 1) && wantR == l[0] && wantQ == l[1] && (wantR || wantQ) {
							c.ok(rule, key, pos, fmt.Sprintf("predecessor (-%d rows, -%d columns) scored with %s", o.dr, o.dq, lettersName(l)))
						} else {
							c.bad(rule, key, pos, fmt.Sprintf("a table cell %d row(s) up and %d column(s) left is combined with the matrix entry for %s: the step consumes other letters than it scores, so the table no longer holds optimal alignment scores (or the traceback follows moves the fill never made)", o.dr, o.dq, lettersName(l)))
						}
					}
				}
			}
		}
		for _, b := range fn.Blocks {
			for _, ins := range b.Instrs {
				switch x := ins.(type) {
				case *ssa.BinOp:
					if x.Op == token.ADD {
						// only maximal sums: skip if this ADD feeds another ADD
						feeds := false
						for _, r := range *x.Referrers() {
							if bo, ok := r.(*ssa.BinOp); ok && bo.Op == token.ADD {
								feeds = true
							}
						}
						if !feeds {
							check(x.Pos(), x.X, x.Y)
						}
					}
				case *ssa.Call:
					if g := x.Call.StaticCallee(); g != nil && g.Pkg == fn.Pkg && g.Name() == "add" && len(x.Call.Args) == 2 {
						check(x.Pos(), x.Call.Args[0], x.Call.Args[1])
					}
				}
			}
		}
		if n == 0 {
			c.und(rule, funcName(fn)+"/transitions", fn.Pos(), "no DP transition (table cell + matrix entry) recognised")
		}
	}
}

func lettersName(l [2]bool) string {
	switch {
	case l[0] && l[1]:
		return "a reference and a query letter (a[r][q])"
	case l[0]:
		return "a reference letter against the gap (a[r][gap])"
	case l[1]:
		return "a query letter against the gap (a[gap][q])"
	}
	return "no letter"
}

// entryDominates: the loop head dominates u, or it is entered under tests of
// a size against a constant only (if c > 1 { for ... }) from a block that
// dominates u: the letters the loop does not look at then are those of a
// table with no cells to fill, the same ones a nested loop skips.
func entryDominates(head, u *ssa.BasicBlock) bool {
	d := head
	for step := 0; step < 3; step++ {
		if d.Dominates(u) {
			return true
		}
		id := d.Idom()
		if id == nil {
			return false
		}
		ifi, ok := id.Instrs[len(id.Instrs)-1].(*ssa.If)
		if !ok {
			if len(id.Succs) != 1 || id.Succs[0] != d {
				return false
			}
			d = id
			continue
		}
		bo, ok := ifi.Cond.(*ssa.BinOp)
		if !ok {
			return false
		}
		_, kx := constIntVal(bo.X)
		_, ky := constIntVal(bo.Y)
		if kx == ky {
			return false
		}
		other := bo.X
		if kx {
			other = bo.Y
		}
		// a size: a length, or a length plus a constant
		isLen := func(v ssa.Value) bool {
			call, ok := v.(*ssa.Call)
			return ok && (builtinCall(call, "len") != nil || calleeName(&call.Call) == "Len")
		}
		isSize := false
		switch x := other.(type) {
		case *ssa.Call:
			isSize = isLen(x)
		case *ssa.BinOp:
			if x.Op == token.ADD {
				_, k1 := constIntVal(x.X)
				_, k2 := constIntVal(x.Y)
				isSize = (k1 && isLen(x.Y)) || (k2 && isLen(x.X))
			}
		}
		if !isSize {
			return false
		}
		// the guarded side leads to the use only through the loop: the use is not somewhere between the
		// guard and the loop (a border initialisation that runs before the checking loop)
		var sIn *ssa.BasicBlock
		for _, sc := range id.Succs {
			if sc == d || sc.Dominates(d) {
				sIn = sc
			}
		}
		if sIn == nil || reachesAvoiding(sIn, u, head) {
			return false
		}
		// and the test does guard the loop: its other side does not get to the loop
		for _, sc := range id.Succs {
			if sc != sIn && reachesAvoiding(sc, head, id) {
				return false
			}
		}
		d = id
	}
	return false
}

// reachesAvoiding: to can be reached from from without entering the block avoid.
func reachesAvoiding(from, to, avoid *ssa.BasicBlock) bool {
	seen := map[*ssa.BasicBlock]bool{}
	work := []*ssa.BasicBlock{from}
	for len(work) > 0 {
		x := work[0]
		work = work[1:]
		if x == avoid || seen[x] {
			continue
		}
		seen[x] = true
		if x == to {
			return true
		}
		work = append(work, x.Succs...)
	}
	return false
}
