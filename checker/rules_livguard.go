// Rule I-livguard: a letter-index value (the result of indexing an
// alphabet.Index table; negative for letters outside the alphabet) is
// sign-checked before it is used as a subscript or converted to unsigned.
package main

import (
	"fmt"
	"go/token"
	"go/types"
	"sort"

	"golang.org/x/tools/go/ssa"
)

type ssaLoop struct {
	head *ssa.BasicBlock
	body map[*ssa.BasicBlock]bool
}

// naturalLoops finds the natural loops of fn (back edges t->h with h dom t).
func naturalLoops(fn *ssa.Function) []*ssaLoop {
	byHead := map[*ssa.BasicBlock]*ssaLoop{}
	var out []*ssaLoop
	for _, t := range fn.Blocks {
		for _, h := range t.Succs {
			if !h.Dominates(t) {
				continue
			}
			l := byHead[h]
			if l == nil {
				l = &ssaLoop{head: h, body: map[*ssa.BasicBlock]bool{h: true}}
				byHead[h] = l
				out = append(out, l)
			}
			stack := []*ssa.BasicBlock{t}
			for len(stack) > 0 {
				b := stack[len(stack)-1]
				stack = stack[:len(stack)-1]
				if l.body[b] {
					continue
				}
				l.body[b] = true
				stack = append(stack, b.Preds...)
			}
		}
	}
	return out
}

type liv struct {
	v     *ssa.UnOp // the loaded index value
	ia    *ssa.IndexAddr
	base  ssa.Value // the sequence (or string) whose letter is looked up; may be nil
	valid bool      // an If on v sends the negative case out of the function/loop
}

// seqBase walks from the letter operand of a lookup to the sequence it was read from.
func seqBase(v ssa.Value) ssa.Value {
	for i := 0; i < 8; i++ {
		switch x := v.(type) {
		case *ssa.Convert:
			v = x.X
		case *ssa.ChangeType:
			v = x.X
		case *ssa.UnOp:
			if x.Op != token.MUL {
				return nil
			}
			v = x.X
		case *ssa.FieldAddr:
			v = x.X
		case *ssa.Field:
			v = x.X
		case *ssa.IndexAddr:
			return x.X
		case *ssa.Index:
			return x.X
		case *ssa.Lookup:
			return x.X
		case *ssa.Extract: // rune from a string range
			if n, ok := x.Tuple.(*ssa.Next); ok {
				if r, ok := n.Iter.(*ssa.Range); ok {
					return r.X
				}
			}
			return nil
		default:
			return nil
		}
	}
	return nil
}

func isUnsigned(t types.Type) bool {
	b, ok := t.Underlying().(*types.Basic)
	return ok && b.Info()&types.IsUnsigned != 0
}

func describeBase(v ssa.Value) string {
	if v == nil {
		return "?"
	}
	if p, ok := v.(*ssa.Parameter); ok {
		return p.Name()
	}
	if v.Name() != "" {
		return v.Name()
	}
	return v.String()
}

// ruleLIVGuard analyses the given functions.
func ruleLIVGuard(c *Ctx, rule string, fns []*ssa.Function) {
	alphaPath := modPath + "/alphabet"
	for _, fn := range fns {
		c.Funcs[funcName(fn)] = true
		loops := naturalLoops(fn)
		var livs []*liv
		for _, b := range fn.Blocks {
			for _, ins := range b.Instrs {
				ia, ok := ins.(*ssa.IndexAddr)
				if !ok || !isNamed(ia.X.Type(), alphaPath, "Index") {
					continue
				}
				for _, r := range *ia.Referrers() {
					if u, ok := r.(*ssa.UnOp); ok && u.Op == token.MUL {
						livs = append(livs, &liv{v: u, ia: ia, base: seqBase(ia.Index)})
					}
				}
			}
		}
		sort.Slice(livs, func(i, j int) bool { return livs[i].v.Pos() < livs[j].v.Pos() })
		// validated lookups: an If on v whose negative edge leaves for good
		for _, l := range livs {
			for _, r := range *l.v.Referrers() {
				bo, ok := r.(*ssa.BinOp)
				if !ok {
					continue
				}
				for _, rr := range *bo.Referrers() {
					ifi, ok := rr.(*ssa.If)
					if !ok {
						continue
					}
					f, ok := condFact(ifi.Cond, sameValue(l.v))
					if !ok {
						continue
					}
					// which successor is the "negative" one?
					neg := -1
					if lowerBound([]cmpFact{f}, -1) >= 0 {
						neg = 1 // condition true means v >= 0
					} else {
						nf := f
						nf.op = negateOp(f.op)
						if lowerBound([]cmpFact{nf}, -1) >= 0 {
							neg = 0
						}
					}
					if neg < 0 {
						continue
					}
					// the negative successor must not come back to this lookup
					if returnsOnly(ifi.Block().Succs[neg]) {
						l.valid = true
					}
				}
			}
		}
		keyN := map[string]int{}
		for _, l := range livs {
			// sinks reachable from v through arithmetic
			type sink struct {
				ins  ssa.Instruction
				what string
			}
			var sinks []sink
			seen := map[ssa.Value]bool{l.v: true}
			work := []ssa.Value{l.v}
			for len(work) > 0 {
				x := work[0]
				work = work[1:]
				refs := x.Referrers()
				if refs == nil {
					continue
				}
				for _, r := range *refs {
					switch r := r.(type) {
					case *ssa.BinOp:
						switch r.Op {
						case token.ADD, token.SUB, token.MUL, token.SHL, token.OR, token.AND, token.XOR, token.QUO, token.REM:
							if !seen[r] {
								seen[r] = true
								work = append(work, r)
							}
						}
					case *ssa.Convert:
						if isUnsigned(r.Type()) && !isUnsigned(r.X.Type()) {
							sinks = append(sinks, sink{r, "conversion to " + types.TypeString(r.Type(), func(p *types.Package) string { return p.Name() })})
						} else if !seen[r] {
							seen[r] = true
							work = append(work, r)
						}
					case *ssa.IndexAddr:
						if r.Index == x && !isNamed(r.X.Type(), alphaPath, "Index") {
							sinks = append(sinks, sink{r, "subscript"})
						}
					case *ssa.Index:
						if r.Index == x {
							sinks = append(sinks, sink{r, "subscript"})
						}
					case *ssa.Slice:
						if r.Low == x || r.High == x || r.Max == x {
							sinks = append(sinks, sink{r, "slice bound"})
						}
					}
				}
			}
			baseName := describeBase(l.base)
			k := fmt.Sprintf("%s/index[%s]", funcName(fn), baseName)
			keyN[k]++
			key := fmt.Sprintf("%s#%d", k, keyN[k])
			if len(sinks) == 0 {
				c.triv(rule, key, l.v.Pos(), "lookup result is only compared, never used as a subscript")
				continue
			}
			verdict, reason := OK, ""
			for _, s := range sinks {
				u := s.ins.Block()
				// (a) dominating sign check of this very value
				if lowerBound(factsAt(u, sameValue(l.v)), -1) >= 0 {
					reason = "sign-checked by a dominating comparison of this value with 0"
					continue
				}
				// (b) validated earlier in a loop over the same sequence
				okB := false
				if l.base != nil {
					for _, o := range livs {
						if o == l || !o.valid || o.base != l.base {
							continue
						}
						for _, lp := range loops {
							if lp.body[o.v.Block()] && !lp.body[u] && lp.head.Dominates(u) {
								okB = true
								reason = fmt.Sprintf("every letter of %s was sign-checked by the loop at %s, which dominates this use", baseName, c.pos(o.v.Pos()))
							}
						}
					}
				}
				if okB {
					continue
				}
				// (c) a dominating AllValid / Validate call on the same sequence
				okC := false
				if l.base != nil {
					for _, b := range fn.Blocks {
						if !b.Dominates(u) {
							continue
						}
						for _, ins := range b.Instrs {
							call, ok := ins.(*ssa.Call)
							if !ok {
								continue
							}
							name := ""
							if call.Call.IsInvoke() {
								name = call.Call.Method.Name()
							} else if f := call.Call.StaticCallee(); f != nil {
								name = f.Name()
							}
							if name != "AllValid" && name != "AllValidQLetter" && name != "Validate" {
								continue
							}
							for _, a := range call.Call.Args {
								if stripConv(a) == l.base {
									okC = true
									reason = "validated by a dominating " + name + " call"
								}
							}
						}
					}
				}
				if okC {
					continue
				}
				verdict = VIOLATION
				reason = fmt.Sprintf("the letter index of %s is used as a %s at %s before any sign check: a letter outside the alphabet gives -1 and the access panics with index out of range instead of returning an error", baseName, s.what, c.pos(s.ins.Pos()))
				break
			}
			if verdict == OK {
				c.ok(rule, key, l.v.Pos(), reason)
			} else {
				c.bad(rule, key, l.v.Pos(), reason)
			}
		}
	}
}

// returnsOnly: every path from b ends in a return (no way back into a loop).
func returnsOnly(b *ssa.BasicBlock) bool {
	seen := map[*ssa.BasicBlock]bool{}
	var walk func(*ssa.BasicBlock) bool
	walk = func(x *ssa.BasicBlock) bool {
		if seen[x] {
			return false // a cycle
		}
		seen[x] = true
		if len(x.Succs) == 0 {
			_, isRet := x.Instrs[len(x.Instrs)-1].(*ssa.Return)
			_, isPanic := x.Instrs[len(x.Instrs)-1].(*ssa.Panic)
			return isRet || isPanic
		}
		for _, s := range x.Succs {
			if !walk(s) {
				return false
			}
		}
		return true
	}
	return walk(b)
}

func stripConv(v ssa.Value) ssa.Value {
	for {
		switch x := v.(type) {
		case *ssa.ChangeType:
			v = x.X
		case *ssa.Convert:
			v = x.X
		default:
			return v
		}
	}
}
