package main

// Explanations of the rules added after the third round of seeded changes
// (DESIGN.md §10.2), appended to the registered properties.
func init() {
	extra := map[string]string{
		"C01": "bareplus: each comparison of the text after '+' with the record label is dominated by a test excluding the one-byte line, so the bare \"+\" the writer may emit is never compared. fresh/clonedeep (linear.Seq/QSeq): the record each Read returns is a Clone of the template, which must be fresh on every path (an empty template with spare capacity included).",
		"C02": "convpair writer side is an interprocedural SSA flow: from every fmt.Fprint* argument back to the coordinate read (field or Start()/End() call), through conversions, +/- constants, phis and the parameters of package helpers (all call sites); the net number of +1 conversions must be 1 for starts and 0 for ends. splitsep: the column vector the BED parsers and gff.Reader.Read index with constants is produced (through helpers) by bytes.Split/SplitN on exactly \"\\t\".",
		"C03": "sentinel: where mustAtos looks a byte up in charToStrand and rejects one constant, every table entry not set explicitly (keyed literal: zero; fill loop: the fill constant) equals that constant.",
		"C04": "lineio/rawline: the line assembled from ReadLine fragments flows only into the accumulator, emptiness tests and whitespace-removing calls; any other use (classification, comparison, length test) must see the trimmed value. lineio/pendingeof: on paths consistent with err == io.EOF no record is returned before the accumulated fragments have been looked at (a final unterminated line of exactly k*4096 bytes is still pending then).",
		"C05": "mirror: the argument of every row's SetOffset in Multi.RevComp/Reverse, as a symbolic linear form (locals and helper parameters resolved, Len() rewritten as End()-Start()), equals m.Start() + m.End() - row.End(). strandneg: each RevComp stores the negation of the Strand field into the sequence's own annotation (address rooted outside the frame, or a local copy that is stored back).",
		"C06": "slicebounds: for every sl.Slice(lo, hi) in Truncate the goals 0 <= lo, lo <= hi, hi <= Len() are proved from the dominating comparisons as difference constraints over start, end, src.Start(), src.End() (at most two facts chained, with Len() == End() - Start()).",
		"C07": "stalebuf: inside the column loop of AppendEach some row loop writes the scratch column on every cycle through its head (append or element store on every path), so no entry carries the previous column's letter into AppendColumns.",
		"C08": "bordercover: stores to table[k], table[j+a] (row 0) and table[c], table[k*c], table[i*c] (column 0) before the fill are turned into index intervals from the induction ranges of their loops; where the gap model needs base cases they must cover 1..c-1 and 1..r-1 without a hole.",
		"C09": "bordercover: as C08.",
		"C10": "demandedbits: a backward demanded-bits dataflow (masks, constant shifts, truncations and bitwise operators narrow the demand) shows that every one of the low 2*MaxKmerLen bits of the Kmer parameter of GCof, Format, ComplementOf and the Index methods can influence the result. minrange: a guard of ForEachKmerOf that rejects by range length (linear in k, start, end) must admit end-start == k.",
		"C11": "poolnil: after every receive from the pool into m.chunk (directly, in a select, or through a helper) each successful path passes the cap == 0 / nil test whose true branch installs make(sorter, 0, chunkSize). poolmove: after m.chunk (or a slice of it) is sent to the pool or the writer, m.chunk is reassigned on every path to a return (or was reassigned between reading the buffer and sending it).",
		"C12": "errslot/sticky (as C13). poolreturn: every path from the writer's receive on m.writable to a return passes a send to m.pool or the registration of a deferred function that sends to it.",
		"C13": "runretire: every path from heap.Pop in Pull to a return passes heap.Push, or both a Close of the run file and the AutoClear test whose true branch removes it.",
		"C14": "tubeend: the argument of tubeIndex in tubeEnd, as a symbolic linear form with diagIndex inlined and Tlen cancelled, equals the tick position q. kmerdist: the Count increment in hitTube is dominated by a comparison whose normal form, after substituting the assignment of maxKmerDist in Filter, is q - QHi - (minMatch - k) <= 0.",
		"C15": "dupclass: every store of a negative Score in AlignTraps is dominated by equality of Abpos and Bbpos (or Aepos and Bepos) between the two hits, with polarity. ownedfilter: every store to PALS.hitFilter stores the result of filter.New.",
		"C18": "scorespace: Ephred/Esolexa must not choose the score by comparing two differences that both contain the probability (nearest in probability space); a logarithm on the way is recognised as score-space rounding, anything else is UNDECIDED.",
		"C19": "mailbox: every path from a messageState call in fulfill, fail and Wait to a return passes a send on the mailbox (or registers a deferred function that sends). closerspawn: the function that closes the Processor's result channel is started by a go statement of NewProcessor (closure or named method).",
		"C20": "exonoverlap: the comparison of an exon's Start() with its predecessor's End() that leads to the rejection in Exons.Add has the normal form start - prevEnd < 0.",
	}
	notDecided := map[string]string{
		"C14": "tube geometry beyond the two linear identities above, the ticker's phase, the final flush range — the no-false-negative theorem itself (value-level).",
		"C08": "that the maximum is taken over all three moves, the border values (only their coverage is checked), tie-breaking in the traceback, the affine layer switching logic, SW's zero floor and end-cell choice, the fitted end-row selection — i.e. optimality as such.",
	}
	for id, s := range extra {
		if p := props[id]; p != nil {
			p.Explanation += " " + s
		}
	}
	for id, s := range notDecided {
		if p := props[id]; p != nil {
			p.NotDecided = s
		}
	}
}
