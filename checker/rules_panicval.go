// Rule B "panicval": only error-typed panics may reach a recover-to-error
// converter; a panic conditional on `param == const` must be excluded at
// every call site on the way.
package main

import (
	"fmt"
	"go/token"
	"go/types"
	"sort"

	"golang.org/x/tools/go/ssa"
)

var errorIface = types.Universe.Lookup("error").Type().Underlying().(*types.Interface)

// isConverter recognises structurally a recover-to-error converter: calls
// recover(), asserts the value to `error` and to runtime.Error.
func isConverter(f *ssa.Function) bool {
	rec, toErr, toRT := false, false, false
	for _, b := range f.Blocks {
		for _, ins := range b.Instrs {
			switch ins := ins.(type) {
			case *ssa.Call:
				if bi, ok := ins.Call.Value.(*ssa.Builtin); ok && bi.Name() == "recover" {
					rec = true
				}
			case *ssa.TypeAssert:
				if types.Identical(ins.AssertedType.Underlying(), errorIface) && isNamedErrorOrIface(ins.AssertedType) {
					toErr = true
				}
				if isNamed(ins.AssertedType, "runtime", "Error") {
					toRT = true
				}
			}
		}
	}
	return rec && toErr && toRT
}

func isNamedErrorOrIface(t types.Type) bool {
	if n, ok := t.(*types.Named); ok {
		return n.Obj().Pkg() == nil && n.Obj().Name() == "error"
	}
	return false
}

func (c *Ctx) runtimeErrorIface() *types.Interface {
	for _, p := range c.Prog.AllPackages() {
		if p.Pkg.Path() == "runtime" {
			if o := p.Pkg.Scope().Lookup("Error"); o != nil {
				if it, ok := o.Type().Underlying().(*types.Interface); ok {
					return it
				}
			}
		}
	}
	return nil
}

type panicSite struct {
	ins     *ssa.Panic
	fn      *ssa.Function
	typ     string
	conform bool
	// precondition: panics only when Params[pre] == preC
	pre    int
	preC   int64
	hasPre bool
}

func rulePanicVal(c *Ctx, rule string, shorts ...string) {
	rtErr := c.runtimeErrorIface()
	var funcs []*ssa.Function
	for _, s := range shorts {
		p := c.pkg(s)
		funcs = append(funcs, srcFuncs(c.SPkgs[p.PkgPath])...)
	}
	conv := map[*ssa.Function]bool{}
	for _, f := range funcs {
		if isConverter(f) {
			conv[f] = true
			c.triv(rule+"/converter", funcName(f), f.Pos(), "recover-to-error converter: re-panics non-error and runtime.Error values")
		}
	}
	var roots []*ssa.Function
	for _, f := range funcs {
		for _, b := range f.Blocks {
			for _, ins := range b.Instrs {
				if d, ok := ins.(*ssa.Defer); ok && conv[d.Call.StaticCallee()] {
					roots = append(roots, f)
				}
			}
		}
	}
	classify := func(f *ssa.Function, p *ssa.Panic) *panicSite {
		ps := &panicSite{ins: p, fn: f}
		var t types.Type
		if mi, ok := p.X.(*ssa.MakeInterface); ok {
			t = mi.X.Type()
		} else {
			t = p.X.Type()
		}
		ps.typ = types.TypeString(t, func(p *types.Package) string { return p.Name() })
		if _, isIface := t.Underlying().(*types.Interface); isIface {
			ps.conform = types.Implements(t, errorIface)
		} else {
			ps.conform = types.Implements(t, errorIface) && (rtErr == nil || !types.Implements(t, rtErr))
		}
		if !ps.conform {
			facts := []cmpFact{}
			for i, prm := range f.Params {
				fs := factsAt(p.Block(), sameValue(prm))
				for _, fa := range fs {
					if fa.op == token.EQL {
						ps.pre, ps.preC, ps.hasPre = i, fa.c, true
					}
				}
				facts = append(facts, fs...)
			}
		}
		return ps
	}

	seenSite := map[*ssa.Panic]bool{}
	keyN := map[string]int{}
	mkKey := func(k string) string {
		keyN[k]++
		if keyN[k] > 1 {
			return fmt.Sprintf("%s#%d", k, keyN[k])
		}
		return k
	}
	seenCall := map[ssa.Instruction]bool{}
	sort.Slice(roots, func(i, j int) bool { return roots[i].Pos() < roots[j].Pos() })
	for _, root := range roots {
		c.Funcs[funcName(root)] = true
		order, parent := c.reachableFrom(root, func(f *ssa.Function) bool { return conv[f] })
		c.triv(rule+"/root", funcName(root), root.Pos(), fmt.Sprintf("defers a converter; %d module functions reachable (%s call graph for dynamic calls)", len(order), c.graph().kind))
		inReach := map[*ssa.Function]bool{}
		for _, f := range order {
			inReach[f] = true
			c.Funcs[funcName(f)] = true
		}
		for _, f := range order {
			for _, b := range f.Blocks {
				for _, ins := range b.Instrs {
					p, ok := ins.(*ssa.Panic)
					if !ok {
						continue
					}
					ps := classify(f, p)
					switch {
					case ps.conform:
						if !seenSite[p] {
							seenSite[p] = true
							c.ok(rule, mkKey(funcName(f)+"/panic("+ps.typ+")"), p.Pos(), "panic value implements error and is not a runtime.Error: converted to a returned error; reached by "+pathTo(parent, f))
						}
					case ps.hasPre:
						// every call site of f inside the reachable set must exclude the constant
						for _, h := range order {
							for _, hb := range h.Blocks {
								for _, hi := range hb.Instrs {
									ci, ok := hi.(ssa.CallInstruction)
									if !ok || ci.Common().StaticCallee() != f || seenCall[hi] {
										continue
									}
									seenCall[hi] = true
									arg := argAt(ci.Common(), f, ps.pre)
									key := mkKey(fmt.Sprintf("%s/%s(%s != %d)", funcName(h), funcName(f), f.Params[ps.pre].Name(), ps.preC))
									if k, isConst := constIntVal(arg); isConst {
										if k != ps.preC {
											c.ok(rule, key, hi.Pos(), "constant argument differs from the panicking value")
										} else {
											c.bad(rule, key, hi.Pos(), fmt.Sprintf("constant argument %d makes %s panic with a %s", k, funcName(f), ps.typ))
										}
										continue
									}
									facts := factsAt(hb, sameValue(arg))
									if excluded(facts, ps.preC) {
										c.ok(rule, key, hi.Pos(), fmt.Sprintf("argument is excluded from %d by a dominating comparison at %s", ps.preC, c.pos(facts[0].at)))
									} else {
										c.bad(rule, key, hi.Pos(), fmt.Sprintf("%s panics with a %s value (not an error) when %s == %d, and nothing on the path %s -> %s excludes that value before this call: the converter re-panics", funcName(f), ps.typ, f.Params[ps.pre].Name(), ps.preC, pathTo(parent, h), funcName(f)))
									}
								}
							}
						}
					default:
						if !seenSite[p] {
							seenSite[p] = true
							c.bad(rule, mkKey(funcName(f)+"/panic("+ps.typ+")"), p.Pos(), "panic with a "+ps.typ+" value (not an error) reachable from a function that converts panics to errors: "+pathTo(parent, f)+"; the converter re-panics")
						}
					}
				}
			}
		}
	}
}
