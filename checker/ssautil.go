package main

import (
	"go/constant"
	"go/token"
	"go/types"

	"golang.org/x/tools/go/ssa"
)

func constIntVal(v ssa.Value) (int64, bool) {
	c, ok := v.(*ssa.Const)
	if !ok || c.Value == nil {
		return 0, false
	}
	if c.Value.Kind() != constant.Int {
		return 0, false
	}
	return constant.Int64Val(c.Value)
}

func builtinCall(v ssa.Value, name string) *ssa.Call {
	call, ok := v.(*ssa.Call)
	if !ok {
		return nil
	}
	if b, ok := call.Call.Value.(*ssa.Builtin); ok && b.Name() == name {
		return call
	}
	return nil
}

// calleeIs reports whether the call statically targets pkgpath.name
// (package-level function) — resolved through the SSA callee, never by text.
func calleeIs(c *ssa.CallCommon, pkgpath, name string) bool {
	f := c.StaticCallee()
	if f == nil || f.Pkg == nil || f.Signature.Recv() != nil {
		return false
	}
	return f.Pkg.Pkg.Path() == pkgpath && f.Name() == name
}

// methodIs reports whether the call targets method name on pkgpath.typ,
// statically or through an interface method of that name on that type.
func methodIs(c *ssa.CallCommon, pkgpath, typ, name string) bool {
	if c.IsInvoke() {
		return c.Method.Name() == name && isNamed(c.Value.Type(), pkgpath, typ)
	}
	f := c.StaticCallee()
	if f == nil || f.Signature.Recv() == nil || f.Name() != name {
		return false
	}
	return isNamed(f.Signature.Recv().Type(), pkgpath, typ)
}

// reaches reports whether target is reachable from from without entering avoid.
func reaches(from, target, avoid *ssa.BasicBlock) bool {
	if from == avoid {
		return false
	}
	seen := map[*ssa.BasicBlock]bool{}
	var walk func(b *ssa.BasicBlock) bool
	walk = func(b *ssa.BasicBlock) bool {
		if b == target {
			return true
		}
		if b == avoid || seen[b] {
			return false
		}
		seen[b] = true
		for _, s := range b.Succs {
			if walk(s) {
				return true
			}
		}
		return false
	}
	return walk(from)
}

// forcedEdge: d ends in an If and dominates blk. It returns the index of the
// successor edge that every path must take on its last visit of d before
// reaching blk (0 = condition true, 1 = false), or -1.
func forcedEdge(d, blk *ssa.BasicBlock) int {
	if len(d.Succs) != 2 || d.Succs[0] == d.Succs[1] {
		return -1
	}
	r0 := reaches(d.Succs[0], blk, d)
	r1 := reaches(d.Succs[1], blk, d)
	switch {
	case r0 && !r1:
		return 0
	case r1 && !r0:
		return 1
	}
	return -1
}

type cmpFact struct {
	op token.Token // value OP c holds
	c  int64
	at token.Pos
}

func negateOp(op token.Token) token.Token {
	switch op {
	case token.EQL:
		return token.NEQ
	case token.NEQ:
		return token.EQL
	case token.LSS:
		return token.GEQ
	case token.GEQ:
		return token.LSS
	case token.GTR:
		return token.LEQ
	case token.LEQ:
		return token.GTR
	}
	return token.ILLEGAL
}

func flipOp(op token.Token) token.Token {
	switch op {
	case token.LSS:
		return token.GTR
	case token.GTR:
		return token.LSS
	case token.LEQ:
		return token.GEQ
	case token.GEQ:
		return token.LEQ
	}
	return op
}

// condFacts decodes one branch condition into facts about matching values.
// cond may be a comparison or a boolean built from it; only direct
// comparisons are understood (go/ssa lowers && and || to If chains).
func condFact(cond ssa.Value, match func(ssa.Value) bool) (cmpFact, bool) {
	b, ok := cond.(*ssa.BinOp)
	if !ok {
		if u, ok := cond.(*ssa.UnOp); ok && u.Op == token.NOT {
			f, ok := condFact(u.X, match)
			if ok {
				f.op = negateOp(f.op)
			}
			return f, ok
		}
		return cmpFact{}, false
	}
	switch b.Op {
	case token.EQL, token.NEQ, token.LSS, token.LEQ, token.GTR, token.GEQ:
	default:
		return cmpFact{}, false
	}
	if k, ok := constIntVal(b.Y); ok && match(b.X) {
		return cmpFact{op: b.Op, c: k, at: b.Pos()}, true
	}
	if k, ok := constIntVal(b.X); ok && match(b.Y) {
		return cmpFact{op: flipOp(b.Op), c: k, at: b.Pos()}, true
	}
	return cmpFact{}, false
}

// factsAt collects comparisons with constants, of values accepted by match,
// that hold on every path reaching blk (from dominating branches).
func factsAt(blk *ssa.BasicBlock, match func(ssa.Value) bool) []cmpFact {
	var out []cmpFact
	for d := blk.Idom(); d != nil; d = d.Idom() {
		if len(d.Instrs) == 0 {
			continue
		}
		ifi, ok := d.Instrs[len(d.Instrs)-1].(*ssa.If)
		if !ok {
			continue
		}
		f, ok := condFact(ifi.Cond, match)
		if !ok {
			continue
		}
		switch forcedEdge(d, blk) {
		case 0:
			out = append(out, f)
		case 1:
			f.op = negateOp(f.op)
			out = append(out, f)
		}
	}
	return out
}

// lowerBound of a value given facts (min if nothing known).
func lowerBound(facts []cmpFact, min int64) int64 {
	lb := min
	for _, f := range facts {
		var b int64
		switch f.op {
		case token.GTR:
			b = f.c + 1
		case token.GEQ, token.EQL:
			b = f.c
		default:
			continue
		}
		if b > lb {
			lb = b
		}
	}
	return lb
}

// excluded reports whether the facts rule out value == k.
func excluded(facts []cmpFact, k int64) bool {
	for _, f := range facts {
		switch f.op {
		case token.NEQ:
			if f.c == k {
				return true
			}
		case token.EQL:
			if f.c != k {
				return true
			}
		case token.GTR:
			if f.c >= k {
				return true
			}
		case token.GEQ:
			if f.c > k {
				return true
			}
		case token.LSS:
			if f.c <= k {
				return true
			}
		case token.LEQ:
			if f.c < k {
				return true
			}
		}
	}
	return false
}

// lenOf returns a matcher for `len(v)` calls on exactly the SSA value v.
func lenOf(v ssa.Value) func(ssa.Value) bool {
	return func(x ssa.Value) bool {
		c := builtinCall(x, "len")
		return c != nil && len(c.Call.Args) == 1 && c.Call.Args[0] == v
	}
}

func sameValue(v ssa.Value) func(ssa.Value) bool {
	return func(x ssa.Value) bool { return x == v }
}

// srcFuncs lists the source functions (incl. anonymous ones) of an SSA package.
func srcFuncs(p *ssa.Package) []*ssa.Function {
	var out []*ssa.Function
	seen := map[*ssa.Function]bool{}
	var add func(f *ssa.Function)
	add = func(f *ssa.Function) {
		if f == nil || seen[f] || f.Blocks == nil {
			return
		}
		seen[f] = true
		out = append(out, f)
		for _, a := range f.AnonFuncs {
			add(a)
		}
	}
	for _, m := range p.Members {
		switch m := m.(type) {
		case *ssa.Function:
			if m.Synthetic == "" || m.Name() == "init" {
				add(m)
			}
		case *ssa.Type:
			for _, t := range []types.Type{m.Type(), types.NewPointer(m.Type())} {
				ms := p.Prog.MethodSets.MethodSet(t)
				for i := 0; i < ms.Len(); i++ {
					f := p.Prog.MethodValue(ms.At(i))
					if f != nil && f.Synthetic == "" && f.Pkg == p {
						add(f)
					}
				}
			}
		}
	}
	sortFuncs(out)
	return out
}

func sortFuncs(fs []*ssa.Function) {
	for i := 1; i < len(fs); i++ {
		for j := i; j > 0 && fs[j].Pos() < fs[j-1].Pos(); j-- {
			fs[j], fs[j-1] = fs[j-1], fs[j]
		}
	}
}

func paramIndex(f *ssa.Function, v ssa.Value) int {
	for i, p := range f.Params {
		if p == v {
			return i
		}
	}
	return -1
}
