// Rule O: rejected updates leave the old value alone.
//
//	appendalias: append(param, ...) followed by an in-place mutation of the
//	             result while the parameter is still handed back.
//	commitlast:  no store to receiver state can reach a non-nil error return.
package main

import (
	"fmt"
	"go/ast"
	"go/token"
	"go/types"

	"golang.org/x/tools/go/ssa"
)

func ruleAppendAlias(c *Ctx, rule, short string) {
	p := c.pkg(short)
	n := 0
	for _, fn := range srcFuncs(c.SPkgs[p.PkgPath]) {
		for _, b := range fn.Blocks {
			for _, ins := range b.Instrs {
				call, ok := ins.(*ssa.Call)
				if !ok {
					continue
				}
				bi, ok := call.Call.Value.(*ssa.Builtin)
				if !ok || bi.Name() != "append" || len(call.Call.Args) < 1 {
					continue
				}
				base := call.Call.Args[0]
				par, isParam := base.(*ssa.Parameter)
				if !isParam {
					continue
				}
				n++
				c.Funcs[funcName(fn)] = true
				key := fmt.Sprintf("%s/append(%s, ...)", funcName(fn), par.Name())
				// is the append result mutated in place?
				mut := ""
				seen := map[ssa.Value]bool{}
				work := []ssa.Value{call}
				for len(work) > 0 && mut == "" {
					v := work[0]
					work = work[1:]
					if seen[v] {
						continue
					}
					seen[v] = true
					refs := v.Referrers()
					if refs == nil {
						continue
					}
					for _, r := range *refs {
						switch r := r.(type) {
						case *ssa.ChangeType, *ssa.MakeInterface, *ssa.Phi, *ssa.Slice, *ssa.Convert:
							work = append(work, r.(ssa.Value))
						case *ssa.IndexAddr:
							for _, rr := range *r.Referrers() {
								if st, ok := rr.(*ssa.Store); ok && st.Addr == r {
									mut = "an element store at " + c.pos(st.Pos())
								}
							}
						case ssa.CallInstruction:
							if f := r.Common().StaticCallee(); f != nil && f.Pkg != nil && f.Pkg.Pkg.Path() == "sort" {
								mut = "sort." + f.Name() + " at " + c.pos(r.Pos())
							}
						}
					}
				}
				// is the parameter still handed back afterwards?
				var retPos token.Pos
				for _, rb := range fn.Blocks {
					ret, ok := rb.Instrs[len(rb.Instrs)-1].(*ssa.Return)
					if !ok {
						continue
					}
					for _, res := range ret.Results {
						if res == ssa.Value(par) && (rb == b || reaches(b, rb, nil)) {
							retPos = ret.Pos()
						}
					}
				}
				switch {
				case mut != "" && retPos.IsValid():
					c.bad(rule, key, call.Pos(), fmt.Sprintf("the result of append(%s, ...) shares %s's backing array whenever cap(%s) > len(%s); it is then mutated in place (%s) while %s itself is returned at %s: a rejected update has already reordered or overwritten the caller's slice", par.Name(), par.Name(), par.Name(), par.Name(), mut, par.Name(), c.pos(retPos)))
				case mut != "":
					c.ok(rule, key, call.Pos(), "the appended slice is mutated but the parameter is not handed back afterwards")
				default:
					c.ok(rule, key, call.Pos(), "the appended slice is not mutated in place")
				}
			}
		}
	}
	if n == 0 {
		c.triv(rule, short+"/no-append-on-parameter", token.NoPos, "no append whose first argument is a parameter: results are built on fresh storage")
	}
}

// ruleCommitLast: in the named setter no store to a field of the receiver
// can be followed by a return of a non-nil error.
func ruleCommitLast(c *Ctx, rule, short, name string) {
	fn := c.fn(short, name)
	recv := fn.Params[0]
	n := 0
	for _, b := range fn.Blocks {
		for _, ins := range b.Instrs {
			st, ok := ins.(*ssa.Store)
			if !ok {
				continue
			}
			fa, ok := st.Addr.(*ssa.FieldAddr)
			if !ok || fa.X != ssa.Value(recv) {
				continue
			}
			n++
			fname := "?"
			if nm, ok := anyFieldName(fa); ok {
				fname = nm
			}
			key := fmt.Sprintf("%s/store %s", funcName(fn), fname)
			bad := token.NoPos
			for _, rb := range fn.Blocks {
				ret, ok := rb.Instrs[len(rb.Instrs)-1].(*ssa.Return)
				if !ok || len(ret.Results) == 0 {
					continue
				}
				last := ret.Results[len(ret.Results)-1]
				if !types.Identical(last.Type(), types.Universe.Lookup("error").Type()) || isNilConst(last) {
					continue
				}
				if knownNilAt(b, last) {
					continue // the store sits on the branch where this very error value was found nil
				}
				after := false
				if rb == b {
					after = true // the return terminates the store's own block
				} else {
					for _, s := range b.Succs {
						if reaches(s, rb, nil) {
							after = true
						}
					}
				}
				if after {
					bad = ret.Pos()
				}
			}
			if bad.IsValid() {
				c.bad(rule, key, st.Pos(), fmt.Sprintf("the receiver's %s is overwritten before a check that can still fail (error return at %s): a rejected update does not leave the previous value as it was", fname, c.pos(bad)))
			} else {
				c.ok(rule, key, st.Pos(), "stored only after every check has passed: no error return is reachable from the store")
			}
		}
	}
	if n == 0 {
		c.und(rule, funcName(fn)+"/stores", fn.Pos(), "the setter stores nothing into its receiver")
	}
}

// ruleSortedFresh: Exons.Add must build, sort and return newly allocated
// storage: sorting (or returning as the accepted set) a slice that aliases
// the receiver or the caller's variadic argument lets a later edit of the
// caller's slice — or a rejected later update — change a stored exon set.
func ruleSortedFresh(c *Ctx, rule, short, name string) {
	fd, p := c.decl(short, name)
	f := newFreshFn(p, fd)
	fn := p.Types.Name() + "." + name
	n := 0
	ast.Inspect(fd.Body, func(x ast.Node) bool {
		switch s := x.(type) {
		case *ast.CallExpr:
			fo, ok := calleeOf(p, s).(*types.Func)
			if !ok || fo.Pkg() == nil || fo.Pkg().Path() != "sort" || len(s.Args) < 1 {
				return true
			}
			n++
			key := fmt.Sprintf("%s/sort.%s-argument", fn, fo.Name())
			k, w := f.classify(s.Args[0])
			switch k {
			case fFresh:
				c.ok(rule, key, s.Pos(), "sorts newly allocated storage")
			case fAlias:
				c.bad(rule, key, s.Pos(), "sorts "+w+" in place: the caller's slice is reordered, and the result shares its backing array with it")
			default:
				c.und(rule, key, s.Pos(), "cannot classify "+exprStr(c.Fset, s.Args[0]))
			}
		case *ast.ReturnStmt:
			if len(s.Results) != 2 || !isNilExpr(p, s.Results[1]) {
				return true
			}
			n++
			key := fn + "/accepted-result"
			k, w := f.classify(s.Results[0])
			switch k {
			case fFresh:
				c.ok(rule, key, s.Pos(), "the accepted exon set is newly allocated")
			case fAlias:
				c.bad(rule, key, s.Pos(), "the accepted exon set is "+w+": the transcript's stored exons share a backing array with a slice the caller still holds, so editing or reusing that slice changes the stored set (and a rejected update no longer leaves it as it was)")
			default:
				c.und(rule, key, s.Pos(), "cannot classify "+exprStr(c.Fset, s.Results[0]))
			}
		}
		return true
	})
	if n == 0 {
		c.und(rule, fn+"/shape", fd.Pos(), "no sort call or accepting return found")
	}
}

// ruleOrientWalk: an orientation multiplied into a composed orientation has
// been compared with NotOriented first. NotOriented is the zero of the
// multiplication, so walking through a location that is an Orienter but
// reports NotOriented collapses the product (and moves the reference
// feature further up the chain than documented).
func ruleOrientWalk(c *Ctx, rule string, names ...string) {
	p := c.pkg("feat")
	noObj, ok := p.Types.Scope().Lookup("NotOriented").(*types.Const)
	if !ok {
		c.missing("feat.NotOriented not found")
	}
	isNotOriented := func(v ssa.Value) bool {
		k, ok := v.(*ssa.Const)
		return ok && k.Value != nil && k.Value.ExactString() == noObj.Val().ExactString() && isNamed(k.Type(), p.PkgPath, "Orientation")
	}
	orientCallOn := func(v ssa.Value) ssa.Value { // v is x.Orientation(): returns x
		call, ok := v.(*ssa.Call)
		if !ok {
			return nil
		}
		if call.Call.IsInvoke() && call.Call.Method.Name() == "Orientation" {
			return call.Call.Value
		}
		if f := call.Call.StaticCallee(); f != nil && f.Name() == "Orientation" && len(call.Call.Args) == 1 {
			return call.Call.Args[0]
		}
		return nil
	}
	// checkedAt: on every path to blk, `recv.Orientation() != NotOriented` (or val != NotOriented) was established
	checkedAt := func(blk *ssa.BasicBlock, recv, val ssa.Value) bool {
		for _, bf := range branchesAt(blk) {
			x, y := bf.cond.X, bf.cond.Y
			var other ssa.Value
			left := true
			if isNotOriented(y) {
				other = x
			} else if isNotOriented(x) {
				other, left = y, false
			} else {
				continue
			}
			if effectiveOp(bf, left) != token.NEQ {
				continue
			}
			if val != nil && other == val {
				return true
			}
			if recv != nil && orientCallOn(other) == recv {
				return true
			}
		}
		return false
	}
	// a predicate of the package that hands back an Orienter together with "it is oriented"
	// (o, ok := oriented(f)): ok is true only after o.Orientation() != NotOriented
	okMeansOriented := func(h *ssa.Function) bool {
		if h == nil || h.Blocks == nil || h.Signature.Results().Len() != 2 {
			return false
		}
		n := 0
		for _, r := range returnsOf(h) {
			k, isK := r.Results[1].(*ssa.Const)
			if !isK || k.Value == nil || k.Value.String() != "true" {
				if !isK {
					return false // the flag is computed: not summarised
				}
				continue
			}
			n++
			v := r.Results[0]
			for d := 0; d < 3; d++ {
				switch x := v.(type) {
				case *ssa.MakeInterface:
					v = x.X
					continue
				case *ssa.ChangeInterface:
					v = x.X
					continue
				}
				break
			}
			if !checkedAt(r.Block(), v, nil) {
				return false
			}
		}
		return n > 0
	}
	viaPredicate := func(blk *ssa.BasicBlock, recv ssa.Value) bool {
		ex, ok := recv.(*ssa.Extract)
		if !ok || ex.Index != 0 {
			return false
		}
		call, ok := ex.Tuple.(*ssa.Call)
		if !ok || !okMeansOriented(call.Call.StaticCallee()) {
			return false
		}
		for d := blk; d != nil; d = d.Idom() {
			ifi, ok := d.Instrs[len(d.Instrs)-1].(*ssa.If)
			if !ok || d == blk {
				continue
			}
			if fx, ok := ifi.Cond.(*ssa.Extract); ok && fx.Tuple == ex.Tuple && fx.Index == 1 && forcedEdge(d, blk) == 0 {
				return true
			}
		}
		return false
	}
	for _, name := range names {
		root := c.fn("feat", name)
		n := 0
		for _, fn := range privateReach(root) {
			for _, b := range fn.Blocks {
				for _, ins := range b.Instrs {
					bo, ok := ins.(*ssa.BinOp)
					if !ok || bo.Op != token.MUL || !isNamed(bo.Type(), p.PkgPath, "Orientation") {
						continue
					}
					for _, m := range []ssa.Value{bo.X, bo.Y} {
						recv := orientCallOn(m)
						_, isPhi := m.(*ssa.Phi)
						if recv == nil && (isPhi || isNotOriented(m)) {
							continue // the accumulator
						}
						if _, isK := m.(*ssa.Const); isK {
							continue
						}
						n++
						key := fmt.Sprintf("feat.%s/multiplicand#%d", name, n)
						good := false
						if recv == nil {
							good = checkedAt(b, nil, m)
						} else if checkedAt(b, recv, nil) || viaPredicate(b, recv) {
							good = true
						} else if prm, ok := recv.(*ssa.Parameter); ok && prm.Parent() != root {
							// a helper's parameter: what the caller passes must have been checked at the call
							if a := callerArg(prm, root); a != ssa.Value(prm) {
								for _, g := range privateReach(root) {
									for _, gb := range g.Blocks {
										for _, gi := range gb.Instrs {
											if ci, ok := gi.(ssa.CallInstruction); ok && ci.Common().StaticCallee() == fn {
												good = checkedAt(gb, a, nil) || viaPredicate(gb, a)
											}
										}
									}
								}
							}
						} else if phi, ok := recv.(*ssa.Phi); ok {
							good = true
							for i, e := range phi.Edges {
								pred := phi.Block().Preds[i]
								if ep, isP := e.(*ssa.Parameter); isP && ep.Parent() != root {
									a := callerArg(ep, root)
									okArg := false
									for _, g := range privateReach(root) {
										for _, gb := range g.Blocks {
											for _, gi := range gb.Instrs {
												if ci, ok := gi.(ssa.CallInstruction); ok && ci.Common().StaticCallee() == fn {
													okArg = checkedAt(gb, a, nil) || viaPredicate(gb, a)
												}
											}
										}
									}
									if okArg {
										continue
									}
								}
								if !checkedAt(pred, e, nil) && !viaPredicate(pred, e) && !reachableOnlyChecked(pred, e, checkedAt) && !viaPredicate(phi.Block(), e) {
									good = false
								}
							}
						}
						if good {
							c.ok(rule, key, bo.Pos(), "the orientation multiplied in was compared with NotOriented on every path")
						} else {
							c.bad(rule, key, bo.Pos(), "an orientation is multiplied into the composed orientation without having been compared with NotOriented on every path: a location that implements Orienter but is not oriented zeroes the product, and the walk climbs past the documented reference feature")
						}
					}
				}
			}
		}
		if n == 0 {
			c.und(rule, "feat."+name+"/multiplicand", root.Pos(), "no orientation multiplication found")
		}
	}
}

// reachableOnlyChecked handles a predecessor block that merely jumps: the
// check may dominate it through its own (single) predecessor chain.
func reachableOnlyChecked(pred *ssa.BasicBlock, v ssa.Value, checkedAt func(*ssa.BasicBlock, ssa.Value, ssa.Value) bool) bool {
	for i := 0; i < 4 && len(pred.Preds) == 1; i++ {
		pred = pred.Preds[0]
		if checkedAt(pred, v, nil) {
			return true
		}
	}
	return false
}
