// Round-3 rules, part 2: morass buffer ownership, PALS filter arithmetic,
// duplicate classes, promise mailbox, processor closer, exon overlap.
package main

import (
	"fmt"
	"go/token"
	"go/types"
	"os"
	"sort"
	"strings"

	"golang.org/x/tools/go/ssa"
)

// returnsOf lists the Return instructions of fn.
func returnsOf(fn *ssa.Function) []*ssa.Return {
	var out []*ssa.Return
	for _, b := range fn.Blocks {
		if r, ok := b.Instrs[len(b.Instrs)-1].(*ssa.Return); ok {
			out = append(out, r)
		}
	}
	return out
}

// successReturn: no error-typed result of the return is (possibly) non-nil.
func successReturn(r *ssa.Return) bool {
	for _, v := range r.Results {
		if isErrorType(v.Type()) && !isNilConst(v) {
			return false
		}
	}
	return true
}

func isChunkStore(ins ssa.Instruction) (*ssa.Store, bool) {
	st, ok := ins.(*ssa.Store)
	if !ok {
		return nil, false
	}
	if name, ok := fieldOf(st.Addr, morassPkg, "Morass"); ok && name == "chunk" {
		return st, true
	}
	return nil, false
}

// fromChunkField: v is m.chunk or a slice of it.
func fromChunkField(v ssa.Value) bool {
	for {
		switch x := v.(type) {
		case *ssa.Slice:
			v = x.X
		case *ssa.ChangeType:
			v = x.X
		default:
			return loadOfField(v, morassPkg, "Morass", "chunk")
		}
	}
}

// valueFromPool: v may be a buffer received from m.pool (directly, in a
// select, or through a module helper that returns one).
func valueFromPool(v ssa.Value, depth int) bool {
	if depth > 3 {
		return false
	}
	switch x := v.(type) {
	case *ssa.UnOp:
		return x.Op == token.ARROW && loadOfField(x.X, morassPkg, "Morass", "pool")
	case *ssa.Extract:
		if sel, ok := x.Tuple.(*ssa.Select); ok {
			for _, s := range sel.States {
				if s.Dir == types.RecvOnly && loadOfField(s.Chan, morassPkg, "Morass", "pool") {
					return true
				}
			}
		}
	case *ssa.Phi:
		for _, e := range x.Edges {
			if valueFromPool(e, depth+1) {
				return true
			}
		}
	case *ssa.Call:
		if f := x.Call.StaticCallee(); f != nil && inModule(f) && f.Blocks != nil {
			for _, r := range returnsOf(f) {
				for _, res := range r.Results {
					if valueFromPool(res, depth+1) {
						return true
					}
				}
			}
		}
	}
	return false
}

// ---- poolnil (C11): a buffer from the pool may be the nil placeholder ----

// rulePoolNil: New parks a nil placeholder in the pool, so every buffer
// received from the pool into m.chunk is checked for zero capacity (or nil)
// and replaced by a chunkSize-capacity buffer before the function succeeds.
// Appending to the placeholder lets append pick the capacity, which breaks
// the invariant cap(m.chunk) == chunkSize that Push's spill test and
// Finalise's in-memory test rely on.
func rulePoolNil(c *Ctx, rule string) {
	sp := c.SPkgs[c.pkg("morass").PkgPath]
	nilParked := false
	for _, f := range srcFuncs(sp) {
		for _, b := range f.Blocks {
			for _, ins := range b.Instrs {
				if s, ok := ins.(*ssa.Send); ok && isNilConst(s.X) {
					// into m.pool, or into a channel of buffers that New builds before storing it in the field
					if ch, isCh := s.Chan.Type().Underlying().(*types.Chan); loadOfField(s.Chan, morassPkg, "Morass", "pool") || (isCh && isNamed(ch.Elem(), morassPkg, "sorter")) {
						nilParked = true
					}
				}
			}
		}
	}
	if !nilParked {
		c.triv(rule, "morass/pool-placeholder", token.NoPos, "no nil placeholder is ever parked in the pool")
		return
	}
	n := 0
	for _, f := range srcFuncs(sp) {
		for _, b := range f.Blocks {
			for _, ins := range b.Instrs {
				st, ok := isChunkStore(ins)
				if !ok {
					continue
				}
				// value received from the pool (plain receive or select state)
				fromPool := valueFromPool(st.Val, 0)
				if !fromPool {
					continue
				}
				n++
				c.Funcs[funcName(f)] = true
				key := fmt.Sprintf("%s/pool-receive#%d", funcName(f), n)
				isCheck := func(i ssa.Instruction) bool {
					ifi, ok := i.(*ssa.If)
					if !ok {
						return false
					}
					bo, ok := ifi.Cond.(*ssa.BinOp)
					if !ok || bo.Op != token.EQL {
						return false
					}
					zero := false
					if k, ok := constIntVal(bo.Y); ok && k == 0 {
						// of the field, or of the very value that was just stored into it
						if cl := builtinCall(bo.X, "cap"); cl != nil && (fromChunkField(cl.Call.Args[0]) || cl.Call.Args[0] == st.Val) {
							zero = true
						}
					}
					if isNilConst(bo.Y) && (fromChunkField(bo.X) || bo.X == st.Val) {
						zero = true
					}
					if !zero {
						return false
					}
					// the true branch installs make(sorter, 0, m.chunkSize)
					for _, j := range ifi.Block().Succs[0].Instrs {
						if s2, ok := isChunkStore(j); ok {
							if mk, ok := s2.Val.(*ssa.MakeSlice); ok && loadOfField(mk.Cap, morassPkg, "Morass", "chunkSize") {
								return true
							}
						}
					}
					return false
				}
				var leak *ssa.Return
				for _, r := range returnsOf(f) {
					if !successReturn(r) || !reachesInstr(st, r) {
						continue
					}
					if !mustPassBetween(st, r, isCheck) {
						leak = r
					}
				}
				if leak != nil && nilReplaced(st.Val) {
					c.ok(rule, key, st.Pos(), "the buffer is chosen in a local first: it is compared with nil and replaced by make(sorter, 0, chunkSize) before it is stored in m.chunk")
					continue
				}
				if leak != nil {
					c.bad(rule, key, st.Pos(), fmt.Sprintf("the buffer received from the pool may be the nil placeholder New parks there, and a path to the successful return at %s uses it without the zero-capacity check that installs make(sorter, 0, chunkSize): append then chooses the capacity, so cap(m.chunk) != chunkSize and the spill / in-memory decisions that compare against cap(m.chunk) go wrong (a spilled cycle is taken for an in-memory one and its run is dropped)", c.pos(leak.Pos())))
				} else {
					c.ok(rule, key, st.Pos(), "every successful path after the receive passes the zero-capacity check that installs a chunkSize-capacity buffer")
				}
			}
		}
	}
	if n == 0 {
		c.und(rule, "morass/pool-receive", token.NoPos, "no receive from the pool into m.chunk found")
	}
}

// nilReplaced: v joins make(sorter, 0, m.chunkSize), taken when the candidate was nil, with the candidate itself.
func nilReplaced(v ssa.Value) bool {
	phi, ok := v.(*ssa.Phi)
	if !ok || len(phi.Edges) != 2 {
		return false
	}
	for i, e := range phi.Edges {
		mk, ok := e.(*ssa.MakeSlice)
		if !ok || !loadOfField(mk.Cap, morassPkg, "Morass", "chunkSize") {
			continue
		}
		cand := phi.Edges[1-i]
		for d := phi.Block().Idom(); d != nil; d = d.Idom() {
			ifi, ok := d.Instrs[len(d.Instrs)-1].(*ssa.If)
			if !ok {
				continue
			}
			bo, ok := ifi.Cond.(*ssa.BinOp)
			if !ok || bo.Op != token.EQL || bo.X != cand || !isNilConst(bo.Y) {
				continue
			}
			// nil leads to the make, anything else straight to the join
			if d.Succs[0] == phi.Block().Preds[i] && (d.Succs[1] == phi.Block() || d == phi.Block().Preds[1-i]) {
				return true
			}
		}
	}
	return false
}

// ---- poolmove (C11): a buffer handed to a channel is given up ----

// rulePoolMove: when m.chunk (or a slice of it) is sent to the pool or to
// the writer, ownership moves with it: m.chunk is reassigned on every path
// before the function returns. Otherwise the sorter keeps appending to, or
// re-parks, a buffer that someone else now owns.
func rulePoolMove(c *Ctx, rule string) {
	sp := c.SPkgs[c.pkg("morass").PkgPath]
	n := 0
	for _, f := range srcFuncs(sp) {
		for _, b := range f.Blocks {
			for _, ins := range b.Instrs {
				s, ok := ins.(*ssa.Send)
				if !ok || !fromChunkField(s.X) {
					continue
				}
				ch := ""
				for _, name := range []string{"pool", "writable"} {
					if loadOfField(s.Chan, morassPkg, "Morass", name) {
						ch = name
					}
				}
				if ch == "" {
					continue
				}
				n++
				c.Funcs[funcName(f)] = true
				key := fmt.Sprintf("%s/send-chunk-to-%s#%d", funcName(f), ch, n)
				reassigned := func(i ssa.Instruction) bool {
					_, ok := isChunkStore(i)
					return ok
				}
				var leak *ssa.Return
				// the field may already have been reassigned between reading the buffer and sending it
				var ld ssa.Instruction
				for v := s.X; ld == nil; {
					switch x := v.(type) {
					case *ssa.Slice:
						v = x.X
					case *ssa.ChangeType:
						v = x.X
					case *ssa.UnOp:
						ld = x
					default:
						ld = s
					}
				}
				movedBefore := ld != ssa.Instruction(s) && mustPassBetween(ld, s, reassigned)
				for _, r := range returnsOf(f) {
					if !movedBefore && reachesInstr(s, r) && !mustPassBetween(s, r, reassigned) {
						leak = r
					}
				}
				if leak != nil {
					c.bad(rule, key, s.Pos(), fmt.Sprintf("m.chunk is handed to m.%s but a path to the return at %s leaves m.chunk pointing at the same buffer: the sorter and the new owner share it (a later call parks another alias in the fixed-capacity pool, or two cycles write into one array)", ch, c.pos(leak.Pos())))
				} else {
					c.ok(rule, key, s.Pos(), "m.chunk is reassigned on every path after the buffer is handed to m."+ch)
				}
			}
		}
	}
	if n == 0 {
		c.und(rule, "morass/send-chunk", token.NoPos, "no send of m.chunk found")
	}
}

// ---- poolreturn (C12): the chunk writer always gives its buffer back ----

func closureSendsToPool(v ssa.Value) bool {
	var fn *ssa.Function
	switch x := v.(type) {
	case *ssa.MakeClosure:
		fn, _ = x.Fn.(*ssa.Function)
	case *ssa.Function:
		fn = x
	}
	if fn == nil {
		return false
	}
	for _, b := range fn.Blocks {
		for _, ins := range b.Instrs {
			if s, ok := ins.(*ssa.Send); ok && loadOfField(s.Chan, morassPkg, "Morass", "pool") {
				return true
			}
		}
	}
	return false
}

func rulePoolReturn(c *Ctx, rule string) {
	sp := c.SPkgs[c.pkg("morass").PkgPath]
	n := 0
	for _, f := range srcFuncs(sp) {
		for _, b := range f.Blocks {
			for _, ins := range b.Instrs {
				rcv, ok := ins.(*ssa.UnOp)
				if !ok || rcv.Op != token.ARROW || !loadOfField(rcv.X, morassPkg, "Morass", "writable") {
					continue
				}
				n++
				c.Funcs[funcName(f)] = true
				key := fmt.Sprintf("%s/writable-receive#%d", funcName(f), n)
				gives := func(i ssa.Instruction) bool {
					switch x := i.(type) {
					case *ssa.Send:
						return loadOfField(x.Chan, morassPkg, "Morass", "pool")
					case *ssa.Defer:
						return closureSendsToPool(x.Call.Value)
					}
					return false
				}
				var leak *ssa.Return
				for _, r := range returnsOf(f) {
					if reachesInstr(rcv, r) && !mustPassBetween(rcv, r, gives) {
						leak = r
					}
				}
				if leak != nil {
					c.bad(rule, key, rcv.Pos(), fmt.Sprintf("the writer takes a run buffer from m.writable but the return at %s is reachable without the buffer being sent (or a deferred send registered) to m.pool: after such an exit the pool runs dry and the next spill in Push blocks forever", c.pos(leak.Pos())))
				} else {
					c.ok(rule, key, rcv.Pos(), "every exit of the writer after taking a run buffer returns it to the pool (direct or deferred send)")
				}
			}
		}
	}
	if n == 0 {
		c.und(rule, "morass/writable-receive", token.NoPos, "no receive from m.writable found")
	}
}

// ---- runretire (C13): a run that is not pushed back is closed and removed ----

func ruleRunRetire(c *Ctx, rule string) {
	pull := c.fn("morass", "(*Morass).Pull")
	c.Funcs[funcName(pull)] = true
	n := 0
	for _, pf := range privateReach(pull) {
		for _, b := range pf.Blocks {
			for _, ins := range b.Instrs {
				pop, ok := ins.(*ssa.Call)
				if !ok || !calleeIs(&pop.Call, "container/heap", "Pop") {
					continue
				}
				c.Funcs[funcName(pf)] = true
				n++
				key := fmt.Sprintf("morass.(*Morass).Pull/popped-run#%d", n)
				pushed := func(i ssa.Instruction) bool {
					cl, ok := i.(*ssa.Call)
					return ok && calleeIs(&cl.Call, "container/heap", "Push")
				}
				closed := func(i ssa.Instruction) bool {
					if pushed(i) {
						return true
					}
					cl, ok := i.(*ssa.Call)
					return ok && methodIs(&cl.Call, "os", "File", "Close")
				}
				removedIfAsked := func(i ssa.Instruction) bool {
					if pushed(i) {
						return true
					}
					ifi, ok := i.(*ssa.If)
					if !ok || !loadOfField(ifi.Cond, morassPkg, "Morass", "AutoClear") {
						return false
					}
					for _, j := range ifi.Block().Succs[0].Instrs {
						if cl, ok := j.(*ssa.Call); ok && calleeIs(&cl.Call, "os", "Remove") {
							return true
						}
					}
					return false
				}
				var noClose, noRemove *ssa.Return
				for _, r := range returnsOf(pf) {
					if !reachesInstr(pop, r) {
						continue
					}
					if !mustPassBetween(pop, r, closed) {
						noClose = r
					}
					if !mustPassBetween(pop, r, removedIfAsked) {
						noRemove = r
					}
				}
				switch {
				case noClose != nil:
					c.bad(rule, key, pop.Pos(), "a run popped from m.files can reach the return at "+c.pos(noClose.Pos())+" without being pushed back or closed")
				case noRemove != nil:
					c.bad(rule, key, pop.Pos(), "a run popped from m.files can reach the return at "+c.pos(noRemove.Pos())+" without being pushed back and without the AutoClear test that removes its file: the run is no longer in m.files, so the final Clear cannot remove it either and the file stays in the temporary directory")
				default:
					c.ok(rule, key, pop.Pos(), "on every path a popped run is pushed back, or closed and (under AutoClear) removed")
				}
			}
		}
	}
	if n == 0 {
		c.und(rule, "morass.(*Morass).Pull/popped-run", pull.Pos(), "no heap.Pop found in Pull")
	}
}

// ---- tubeend / kmerdist (C14): the filter's index arithmetic ----

func filterAlias(v ssa.Value) (string, bool) {
	pkg := modPath + "/align/pals/filter"
	for _, f := range []string{"minMatch", "k", "maxKmerDist", "maxError", "tubeOffset"} {
		if loadOfField(v, pkg, "Filter", f) {
			return f, true
		}
	}
	for _, f := range []string{"QHi", "QLo", "Count"} {
		if loadOfField(v, pkg, "tubeState", f) {
			return f, true
		}
	}
	if call, ok := v.(*ssa.Call); ok {
		if sf := call.Call.StaticCallee(); sf != nil && sf.Name() == "Len" && len(call.Call.Args) == 1 && loadOfField(call.Call.Args[0], pkg, "Filter", "target") {
			return "Tlen", true
		}
	}
	return "", false
}

// ruleTubeEnd: the ticker fires at query positions q = j*TubeOffset +
// MaxError - 1 (checked by gridperiod), exactly when tube j-1 — diagonals
// (j-1)*TubeOffset .. j*TubeOffset+MaxError-1 — can receive no more hits. Its
// top MaxError diagonals are shared with tube j, to which tubeIndex assigns
// them, so the diagonal used to find the finished tube must be q - MaxError
// (= j*TubeOffset - 1). Any other value retires a tube that is still active
// for some TubeOffset, MaxError.
func ruleTubeEnd(c *Ctx, rule string) {
	fn := c.fn("align/pals/filter", "(*Filter).tubeEnd")
	diag := c.fn("align/pals/filter", "(*Filter).diagIndex")
	c.Funcs[funcName(fn)] = true
	key := funcName(fn) + "/retired-diagonal"
	env := &linEnv{forms: map[*ssa.Parameter]lin{}, names: map[*ssa.Parameter]string{}, alias: filterAlias}
	n := 0
	tubeIdx := c.fn("align/pals/filter", "(*Filter).tubeIndex")
	_ = diag
	for _, b := range fn.Blocks {
		for _, ins := range b.Instrs {
			tcall, ok := ins.(*ssa.Call)
			if !ok || tcall.Call.StaticCallee() != tubeIdx || len(tcall.Call.Args) != 2 {
				continue
			}
			call := tcall
			n++
			got := linOf(tcall.Call.Args[1], env)
			want := linAtom(fn.Params[1].Name()).add(linAtom("maxError"), -1)
			if got.equal(want) {
				c.ok(rule, key, call.Pos(), "the diagonal whose tube is retired simplifies to "+want.String()+": ticks fire at q = j*TubeOffset + MaxError - 1, when tube j-1 (diagonals up to q) has ended, and q - MaxError = j*TubeOffset - 1 is the last diagonal tubeIndex assigns to tube j-1")
			} else {
				c.bad(rule, key, call.Pos(), "the diagonal whose tube is retired is "+got.String()+", not "+want.String()+": ticks fire at q = j*TubeOffset + MaxError - 1, when tube j-1 has ended; only q - MaxError maps to tube j-1 for every TubeOffset and MaxError, any other diagonal emits-or-discards and resets a tube that is still active for some parameters, cutting matches into parts below the threshold")
			}
		}
	}
	if n == 0 {
		c.und(rule, key, fn.Pos(), "tubeEnd does not call tubeIndex")
	}
}

// ruleKmerDist: a common k-mer extends the current run exactly when it lies
// at most MinMatch - WordSize query positions after the previous one — two
// k-mers that far apart still fit in one window of MinMatch letters.
func ruleKmerDist(c *Ctx, rule string) {
	pkg := modPath + "/align/pals/filter"
	hit := c.fn("align/pals/filter", "(*Filter).hitTube")
	fil := c.fn("align/pals/filter", "(*Filter).Filter")
	c.Funcs[funcName(hit)] = true
	env := &linEnv{forms: map[*ssa.Parameter]lin{}, names: map[*ssa.Parameter]string{}, alias: filterAlias}
	// definition of maxKmerDist
	var def *lin
	for _, b := range fil.Blocks {
		for _, ins := range b.Instrs {
			if st, ok := ins.(*ssa.Store); ok {
				if name, ok := fieldOf(st.Addr, pkg, "Filter"); ok && name == "maxKmerDist" {
					l := linOf(st.Val, env)
					def = &l
				}
			}
		}
	}
	key := funcName(hit) + "/run-extension"
	if def == nil {
		c.und(rule, key, fil.Pos(), "no assignment of maxKmerDist found in Filter")
		return
	}
	q := hit.Params[2].Name()
	want := linAtom(q).add(linAtom("QHi"), -1).add(linAtom("minMatch"), -1).add(linAtom("k"), 1)
	want.k = -1 // q - QHi - (minMatch - k) - 1 < 0
	n := 0
	for _, b := range hit.Blocks {
		for _, ins := range b.Instrs {
			st, ok := ins.(*ssa.Store)
			if !ok {
				continue
			}
			if name, ok := fieldOf(st.Addr, pkg, "tubeState"); !ok || name != "Count" {
				continue
			}
			inc, ok := st.Val.(*ssa.BinOp)
			if !ok || inc.Op != token.ADD {
				continue
			}
			n++
			var got *lin
			for _, bf := range branchesAt(b) {
				f, ok := strictForm(bf.cond, bf.edge, env)
				if !ok {
					continue
				}
				if _, has := f.coef["QHi"]; !has {
					continue
				}
				f = f.subst("maxKmerDist", *def)
				got = &f
			}
			switch {
			case got == nil:
				c.bad(rule, key, st.Pos(), "the run is extended without any test of the distance to the previous k-mer of the tube")
			case got.equal(want):
				c.ok(rule, key, st.Pos(), "the run is extended exactly when q - QHi <= MinMatch - WordSize")
			default:
				c.bad(rule, key, st.Pos(), "the run is extended when "+got.String()+" < 0, but two k-mers lie in one window of MinMatch letters exactly when "+want.String()+" < 0 (q - QHi <= MinMatch - WordSize): k-mers at the largest admissible distance are counted in different runs, so a match whose surviving k-mers are that far apart stays below the threshold and is not reported")
			}
		}
	}
	if n == 0 {
		c.und(rule, key, hit.Pos(), "no Count increment found in hitTube")
	}
}

// ---- dupclass (C15): only hits equal in both coordinates are duplicates ----

func ruleDupClass(c *Ctx, rule string) {
	fn := c.fn("align/pals/dp", "(*Aligner).AlignTraps")
	c.Funcs[funcName(fn)] = true
	fieldLoad := func(v ssa.Value) string {
		u, ok := v.(*ssa.UnOp)
		if !ok || u.Op != token.MUL {
			return ""
		}
		fa, ok := u.X.(*ssa.FieldAddr)
		if !ok {
			return ""
		}
		return structFieldName(fa.X.Type(), fa.Field)
	}
	reach := pkgReach(fn) // AlignTraps and the private helpers it hands the hits to
	// predEq: the fields that a predicate function finds equal whenever it answers true (a conjunction of
	// equalities between the same field of its two arguments; anything else gives nothing)
	predEq := func(f *ssa.Function) map[string]bool {
		eq := map[string]bool{}
		if f == nil || f.Blocks == nil {
			return eq
		}
		for _, b := range f.Blocks {
			for _, ins := range b.Instrs {
				switch x := ins.(type) {
				case *ssa.BinOp:
					fx, fy := fieldLoad(x.X), fieldLoad(x.Y)
					if x.Op == token.EQL && fx != "" && fx == fy {
						eq[fx] = true
					} else if x.Op == token.EQL || x.Op == token.NEQ || x.Op == token.LSS || x.Op == token.GTR || x.Op == token.LEQ || x.Op == token.GEQ {
						return map[string]bool{}
					}
				case *ssa.Phi:
					for _, e := range x.Edges {
						if k, ok := e.(*ssa.Const); ok && k.Value != nil && k.Value.String() == "true" {
							return map[string]bool{} // a disjunction
						}
					}
				case *ssa.Call:
					return map[string]bool{}
				}
			}
		}
		return eq
	}
	// the function values that reach parameter prm of h at its call sites in reach
	funcsFor := func(h *ssa.Function, prm *ssa.Parameter) []*ssa.Function {
		var out []*ssa.Function
		pi := paramIndex(h, prm)
		for _, g := range reach {
			for _, b := range g.Blocks {
				for _, ins := range b.Instrs {
					ci, ok := ins.(ssa.CallInstruction)
					if !ok || ci.Common().StaticCallee() != h || pi < 0 || pi >= len(ci.Common().Args) {
						continue
					}
					v := ci.Common().Args[pi]
					for d := 0; d < 3; d++ {
						switch x := v.(type) {
						case *ssa.ChangeType:
							v = x.X
							continue
						case *ssa.MakeClosure:
							v = x.Fn
							continue
						}
						break
					}
					if f, ok := v.(*ssa.Function); ok {
						out = append(out, f)
					} else {
						out = append(out, nil)
					}
				}
			}
		}
		return out
	}
	n := 0
	for _, h := range reach {
		for _, b := range h.Blocks {
			for _, ins := range b.Instrs {
				st, ok := ins.(*ssa.Store)
				if !ok {
					continue
				}
				fa, ok := st.Addr.(*ssa.FieldAddr)
				if !ok || structFieldName(fa.X.Type(), fa.Field) != "Score" {
					continue
				}
				if k, ok := constIntVal(st.Val); !ok || k >= 0 {
					continue
				}
				n++
				c.Funcs[funcName(h)] = true
				key := fmt.Sprintf("%s/discard#%d", funcName(fn), n)
				eq := map[string]bool{}
				// alternatives: one set of established equalities per predicate that may have been passed in
				var alts []map[string]bool
				for _, bf := range branchesAt(b) {
					fx, fy := fieldLoad(bf.cond.X), fieldLoad(bf.cond.Y)
					if fx != "" && fx == fy && effectiveOp(bf, true) == token.EQL {
						eq[fx] = true
					}
				}
				// a branch on the answer of a predicate: if shared(&segs[j], &segs[i]) { ... }
				for d := b.Idom(); d != nil; d = d.Idom() {
					ifi, ok := d.Instrs[len(d.Instrs)-1].(*ssa.If)
					if !ok {
						continue
					}
					e := forcedEdge(d, b)
					cond := ifi.Cond
					if u, ok := cond.(*ssa.UnOp); ok && u.Op == token.NOT {
						cond = u.X
						if e >= 0 {
							e = 1 - e
						}
					}
					call, ok := cond.(*ssa.Call)
					if !ok || e != 0 {
						continue
					}
					var preds []*ssa.Function
					if prm, ok := call.Call.Value.(*ssa.Parameter); ok {
						preds = funcsFor(h, prm)
					} else if sf := call.Call.StaticCallee(); sf != nil {
						preds = []*ssa.Function{sf}
					}
					for _, pf := range preds {
						alts = append(alts, predEq(pf))
					}
				}
				if len(alts) == 0 {
					alts = []map[string]bool{{}}
				}
				okAll := true
				var have []string
				for _, alt := range alts {
					all := map[string]bool{}
					for f := range eq {
						all[f] = true
					}
					for f := range alt {
						all[f] = true
					}
					if !(all["Abpos"] && all["Bbpos"]) && !(all["Aepos"] && all["Bepos"]) {
						okAll = false
						have = nil
						for f := range all {
							have = append(have, f)
						}
						sort.Strings(have)
					}
				}
				if okAll {
					c.ok(rule, key, st.Pos(), "a hit is discarded only when it starts (or ends) at the same point as the kept one in both sequences")
				} else {
					c.bad(rule, key, st.Pos(), fmt.Sprintf("a hit is marked as a duplicate (Score = -1) without both coordinates of its start (Abpos, Bbpos) or of its end (Aepos, Bepos) having been found equal to the kept hit's on every path (established: %v): hits that share a position in one sequence only — one element aligned to two copies — are thrown away", have))
				}
			}
		}
	}
	if n == 0 {
		c.und(rule, funcName(fn)+"/discard", fn.Pos(), "no duplicate-discarding store found")
	}
}

// ---- ownedfilter (C15): every aligner owns its filter ----

func ruleOwnedFilter(c *Ctx, rule string) {
	sp := c.SPkgs[c.pkg("align/pals").PkgPath]
	n := 0
	for _, f := range srcFuncs(sp) {
		for _, b := range f.Blocks {
			for _, ins := range b.Instrs {
				st, ok := ins.(*ssa.Store)
				if !ok {
					continue
				}
				if name, ok := fieldOf(st.Addr, palsPkg, "PALS"); !ok || name != "hitFilter" {
					continue
				}
				n++
				c.Funcs[funcName(f)] = true
				key := fmt.Sprintf("%s/hitFilter#%d", funcName(f), n)
				if call, ok := st.Val.(*ssa.Call); ok && calleeIs(&call.Call, modPath+"/align/pals/filter", "New") {
					c.ok(rule, key, st.Pos(), "the aligner receives a filter of its own (filter.New)")
				} else {
					c.bad(rule, key, st.Pos(), "the aligner's filter is not a new filter.New value: the Filter holds per-call state (tube array, morass, strand flags), so two aligners that share one report each other's hits or fail when they run concurrently")
				}
			}
		}
	}
	if n == 0 {
		c.und(rule, "pals/hitFilter", token.NoPos, "no assignment of hitFilter found")
	}
}

// ---- scorespace (C18): nearest score is decided in score (log) space ----

func ruleScoreSpace(c *Ctx, rule string, names ...string) {
	for _, name := range names {
		fn := c.fn("alphabet", name)
		c.Funcs[funcName(fn)] = true
		key := funcName(fn) + "/rounding-domain"
		p := fn.Params[0]
		hasLog := false
		var linearCmp *ssa.BinOp
		isP := func(v ssa.Value) bool {
			if v == ssa.Value(p) {
				return true
			}
			// a parameter captured by a closure lives in a cell
			if u, ok := v.(*ssa.UnOp); ok && u.Op == token.MUL {
				if al, ok := u.X.(*ssa.Alloc); ok && al.Comment == p.Name() {
					return true
				}
			}
			return false
		}
		for _, b := range fn.Blocks {
			for _, ins := range b.Instrs {
				switch x := ins.(type) {
				case *ssa.Call:
					if sf := x.Call.StaticCallee(); sf != nil && sf.Pkg != nil && sf.Pkg.Pkg.Path() == "math" && strings.HasPrefix(sf.Name(), "Log") {
						hasLog = true
					}
				case *ssa.BinOp:
					switch x.Op {
					case token.LSS, token.LEQ, token.GTR, token.GEQ:
						dx, okx := x.X.(*ssa.BinOp)
						dy, oky := x.Y.(*ssa.BinOp)
						if okx && oky && dx.Op == token.SUB && dy.Op == token.SUB && (isP(dx.X) || isP(dx.Y)) && (isP(dy.X) || isP(dy.Y)) {
							linearCmp = x
						}
					}
				}
			}
		}
		// anonymous helpers (sort.Search predicates) do not take logs either
		switch {
		case linearCmp != nil:
			c.bad(rule, key, linearCmp.Pos(), "the score is chosen by comparing differences of probabilities (|p - E(q-1)| against |p - E(q)|): that is the nearest score in probability space, whose midpoints are arithmetic means, while the nearest score — the one that makes score -> probability -> score the identity and rounds -10*log10(p) — has geometric-mean midpoints; probabilities between the two midpoints get the wrong score")
		case hasLog:
			c.ok(rule, key, fn.Pos(), "the score is computed through a logarithm of the probability and rounded in score space")
		default:
			c.und(rule, key, fn.Pos(), "neither a logarithm nor a comparison of probability differences was found: the rounding domain could not be determined")
		}
	}
}

// ---- mailbox (C19): a message taken out of the promise is put back ----

func ruleMailbox(c *Ctx, rule string, names ...string) {
	pkg := modPath + "/concurrent"
	ms := c.fn("concurrent", "(*Promise).messageState")
	for _, name := range names {
		root := c.fn("concurrent", name)
		c.Funcs[funcName(root)] = true
		n := 0
		for _, fn := range privateReach(root) {
			if fn == ms {
				continue
			}
			for _, b := range fn.Blocks {
				for _, ins := range b.Instrs {
					call, ok := ins.(*ssa.Call)
					if !ok || call.Call.StaticCallee() != ms {
						continue
					}
					n++
					key := fmt.Sprintf("%s/messageState#%d", funcName(root), n)
					puts := func(i ssa.Instruction) bool {
						switch x := i.(type) {
						case *ssa.Send:
							return loadOfField(x.Chan, pkg, "Promise", "message")
						case *ssa.Defer:
							// a deferred private method that does the put-back (defer p.put(&r))
							if g := x.Call.StaticCallee(); g != nil && g.Blocks != nil && g.Pkg == fn.Pkg {
								for _, gb := range g.Blocks {
									for _, gi := range gb.Instrs {
										if s, ok := gi.(*ssa.Send); ok && loadOfField(s.Chan, pkg, "Promise", "message") {
											return true
										}
									}
								}
							}
							if mc, ok := x.Call.Value.(*ssa.MakeClosure); ok {
								if cf, ok := mc.Fn.(*ssa.Function); ok {
									for _, cb := range cf.Blocks {
										for _, ci := range cb.Instrs {
											if s, ok := ci.(*ssa.Send); ok && loadOfField(s.Chan, pkg, "Promise", "message") {
												return true
											}
										}
									}
								}
							}
						}
						return false
					}
					var leak *ssa.Return
					for _, r := range returnsOf(fn) {
						if reachesInstr(call, r) && !mustPassBetween(call, r, viaCalls(puts)) {
							leak = r
						}
					}
					if leak != nil {
						c.bad(rule, key, call.Pos(), "the message taken out of the promise's one-slot mailbox is not put back on the path to the return at "+c.pos(leak.Pos())+": after such a call the promise is empty again, so a rejected Fulfill un-sets the promise and every later Wait blocks (or a second Fulfill succeeds)")
					} else {
						c.ok(rule, key, call.Pos(), "every path from taking the message to a return puts a message back")
					}
				}
			}
		}
		if n == 0 {
			c.und(rule, funcName(root)+"/messageState", root.Pos(), "no messageState call")
		}
	}
}

// ---- closerspawn (C19): the result channel's closer is started by the constructor ----

func ruleCloserSpawn(c *Ctx, rule string) {
	pkg := modPath + "/concurrent"
	sp := c.SPkgs[c.pkg("concurrent").PkgPath]
	ctor := c.fn("concurrent", "NewProcessor")
	n := 0
	for _, f := range srcFuncs(sp) {
		for _, b := range f.Blocks {
			for _, ins := range b.Instrs {
				call, ok := ins.(*ssa.Call)
				if !ok || builtinCall(call, "close") == nil || !loadOfField(call.Call.Args[0], pkg, "Processor", "out") {
					continue
				}
				n++
				key := fmt.Sprintf("%s/close-out#%d", funcName(f), n)
				c.Funcs[funcName(f)] = true
				root := f
				for root.Parent() != nil {
					root = root.Parent()
				}
				// the outermost closure must be started by a go statement of the constructor
				spawned := false
				if root == ctor && f != ctor {
					top := f
					for top.Parent() != ctor {
						top = top.Parent()
					}
					for _, cb := range ctor.Blocks {
						for _, ci := range cb.Instrs {
							if g, ok := ci.(*ssa.Go); ok {
								if mc, ok := g.Call.Value.(*ssa.MakeClosure); ok && mc.Fn == ssa.Value(top) {
									spawned = true
								}
							}
						}
					}
				}
				if !spawned && root != ctor {
					for _, cb := range ctor.Blocks {
						for _, ci := range cb.Instrs {
							if g, ok := ci.(*ssa.Go); ok && g.Call.StaticCallee() == root {
								spawned = true
							}
						}
					}
				}
				if spawned {
					c.ok(rule, key, call.Pos(), "the goroutine that closes the result channel is started by NewProcessor, so it runs however the queue gets closed")
				} else {
					c.bad(rule, key, call.Pos(), "the result channel is closed from "+funcName(root)+", not from a goroutine started by NewProcessor: the queue belongs to the caller, who may close it directly (Map does), and then no closer ever runs — the workers exit but the result channel stays open and a reader ranging over it blocks forever")
				}
			}
		}
	}
	if n == 0 {
		c.und(rule, "concurrent/close-out", token.NoPos, "no close of the Processor's result channel found")
	}
}

var debugLin = os.Getenv("BIOCHECK_DEBUG") != ""

// ---- exonoverlap (C20): neighbours overlap exactly when start < previous end ----

func ruleExonOverlap(c *Ctx, rule string) {
	fn := c.fn("feat/gene", "Exons.Add")
	c.Funcs[funcName(fn)] = true
	n := 0
	// Add itself and the private checking helpers whose error Add returns (checkAdjacent(newSlice))
	var blocks []*ssa.BasicBlock
	for _, g := range privateReach(fn) {
		if g == fn {
			blocks = append(blocks, g.Blocks...)
			continue
		}
		res := g.Signature.Results()
		if g.Pkg == fn.Pkg && res.Len() == 1 && isErrorType(res.At(0).Type()) {
			blocks = append(blocks, g.Blocks...)
		}
	}
	for _, b := range blocks {
		ifi, ok := b.Instrs[len(b.Instrs)-1].(*ssa.If)
		if !ok {
			continue
		}
		bo, ok := ifi.Cond.(*ssa.BinOp)
		if !ok {
			continue
		}
		for edge, succ := range b.Succs {
			if !rejectsFrom(b, succ) {
				continue
			}
			f, ok := strictForm(bo, edge, &linEnv{noInline: true})
			if !ok {
				continue
			}
			var startA, endA string
			if debugLin {
				fmt.Println("exonoverlap cond", f.String())
			}
			for a := range f.coef {
				if strings.HasSuffix(a, ".Start()") {
					startA = a
				}
				if strings.HasSuffix(a, ".End()") {
					endA = a
				}
			}
			if startA == "" || endA == "" {
				continue
			}
			n++
			key := fmt.Sprintf("%s/overlap-test#%d", funcName(fn), n)
			want := linAtom(startA).add(linAtom(endA), -1)
			if f.equal(want) {
				c.ok(rule, key, bo.Pos(), "neighbouring exons are rejected exactly when "+want.String()+" < 0 (half-open intervals overlap)")
			} else {
				c.bad(rule, key, bo.Pos(), "neighbouring exons are rejected when "+f.String()+" < 0 instead of "+want.String()+" < 0: with half-open coordinates that accepts exons sharing bases (or rejects abutting ones), so accepted exon sets are not a partition")
			}
		}
	}
	if n == 0 {
		c.und(rule, funcName(fn)+"/overlap-test", fn.Pos(), "no Start()/End() comparison leading to a rejection found")
	}
}

// ---- flushrange / tubecap (C14): the end-of-query flush and the tube ring ----

// ruleFlushRange: query positions are k-mer start positions, so the scan and
// the recycling ticks stop at last = Qlen - k. The final tubeEnd and the
// flush range must be computed from that position; the flush must start at
// the lowest tube that can still be active, floor((last + 1 - MaxError) /
// TubeOffset) — one lower and the retired tube's slot may be the slot of the
// highest active tube — and reach at least the highest reachable diagonal
// last + Tlen.
func ruleFlushRange(c *Ctx, rule string) {
	fn := c.fn("align/pals/filter", "(*Filter).Filter")
	tubeEnd := c.fn("align/pals/filter", "(*Filter).tubeEnd")
	tubeIdx := c.fn("align/pals/filter", "(*Filter).tubeIndex")
	flush := c.fn("align/pals/filter", "(*Filter).tubeFlush")
	c.Funcs[funcName(fn)] = true
	query := fn.Params[1]
	alias := func(v ssa.Value) (string, bool) {
		if s, ok := filterAlias(v); ok {
			return s, true
		}
		if call, ok := v.(*ssa.Call); ok {
			if sf := call.Call.StaticCallee(); sf != nil && sf.Name() == "Len" && len(call.Call.Args) == 1 && call.Call.Args[0] == ssa.Value(query) {
				return "Qlen", true
			}
		}
		return "", false
	}
	env := &linEnv{forms: map[*ssa.Parameter]lin{}, names: map[*ssa.Parameter]string{}, alias: alias}
	last := linAtom("Qlen").add(linAtom("k"), -1)
	// the end-of-scan work may have been moved into a private helper (retireAll(last, width)): analyse the
	// helper with its parameters bound to what Filter passes
	body := fn
	hasCall := func(f *ssa.Function, callee *ssa.Function) bool {
		for _, b := range f.Blocks {
			for _, ins := range b.Instrs {
				if call, ok := ins.(*ssa.Call); ok && call.Call.StaticCallee() == callee {
					return true
				}
			}
		}
		return false
	}
	// the function that holds the calls of callee: Filter itself or a private helper it calls, whose
	// parameters are then bound to what Filter passes
	locate := func(callee *ssa.Function) *ssa.Function {
		if hasCall(fn, callee) {
			return fn
		}
		found := fn
		for _, b := range fn.Blocks {
			for _, ins := range b.Instrs {
				call, ok := ins.(*ssa.Call)
				if !ok {
					continue
				}
				g := call.Call.StaticCallee()
				if g == nil || g.Pkg != fn.Pkg || g.Blocks == nil || !hasCall(g, callee) || len(g.Params) != len(call.Call.Args) {
					continue
				}
				for i, prm := range g.Params {
					if isIntegral(prm.Type()) {
						env.forms[prm] = linOf(call.Call.Args[i], env)
					}
					env.names[prm] = symName(call.Call.Args[i], env)
				}
				found = g
				c.Funcs[funcName(g)] = true
			}
		}
		return found
	}
	body = locate(tubeEnd)
	flushBody := locate(flush)
	// (a) the final tubeEnd
	n := 0
	for _, b := range body.Blocks {
		for _, ins := range b.Instrs {
			call, ok := ins.(*ssa.Call)
			if !ok || call.Call.StaticCallee() != tubeEnd {
				continue
			}
			n++
			got := linOf(call.Call.Args[1], env)
			key := funcName(fn) + "/final-tubeEnd"
			if got.equal(last) {
				c.ok(rule, key, call.Pos(), "the final tubeEnd is given the last scanned position "+last.String())
			} else {
				c.bad(rule, key, call.Pos(), "the final tubeEnd is given "+got.String()+" instead of the last scanned position "+last.String()+" (query positions are k-mer starts): the tube ending there is not the one retired")
			}
		}
	}
	if n == 0 {
		c.und(rule, funcName(fn)+"/final-tubeEnd", fn.Pos(), "no tubeEnd call after the scan")
	}
	// (b) the flush loop: tubeFlush(i) for i from tubeIndex(diagFrom) (clamped at 0) to tubeIndex(diagTo)
	var fl *ssa.Call
	for _, b := range flushBody.Blocks {
		for _, ins := range b.Instrs {
			if call, ok := ins.(*ssa.Call); ok && call.Call.StaticCallee() == flush {
				fl = call
			}
		}
	}
	key := funcName(fn) + "/flush-range"
	if fl == nil {
		c.und(rule, key, fn.Pos(), "no tubeFlush call")
		return
	}
	phi, off, ok := linearIn(fl.Call.Args[1])
	if !ok || off != 0 {
		c.und(rule, key, fl.Pos(), "the flushed tube is not a plain loop counter")
		return
	}
	var from, to *ssa.Call
	addend := int64(0)
	var findIdx func(v ssa.Value, d int) *ssa.Call
	findIdx = func(v ssa.Value, d int) *ssa.Call {
		if d > 4 {
			return nil
		}
		switch x := v.(type) {
		case *ssa.BinOp:
			if x.Op == token.ADD || x.Op == token.SUB {
				if k, ok := constIntVal(x.Y); ok {
					if r := findIdx(x.X, d+1); r != nil {
						if x.Op == token.SUB {
							k = -k
						}
						addend += k
						return r
					}
				}
			}
		case *ssa.Call:
			if x.Call.StaticCallee() == tubeIdx {
				return x
			}
		case *ssa.Phi:
			for _, e := range x.Edges {
				if r := findIdx(e, d+1); r != nil {
					return r
				}
			}
		}
		return nil
	}
	fromAdd := int64(0)
	for i, pred := range phi.Block().Preds {
		if !pred.Dominates(phi.Block()) || i >= len(phi.Edges) {
			continue
		}
		addend = 0
		if r := findIdx(phi.Edges[i], 0); r != nil {
			from, fromAdd = r, addend
		}
	}
	addend = 0
	if ifi, ok := phi.Block().Instrs[len(phi.Block().Instrs)-1].(*ssa.If); ok {
		if bo, ok := ifi.Cond.(*ssa.BinOp); ok && bo.Op == token.LEQ {
			to = findIdx(bo.Y, 0)
		}
	}
	if from == nil || to == nil {
		c.und(rule, key, fl.Pos(), "the bounds of the flush loop are not tubeIndex(...) values with an inclusive upper bound")
		return
	}
	if fromAdd != 0 {
		c.bad(rule, key, from.Pos(), fmt.Sprintf("the flush starts %+d tube(s) away from the tube of the lowest reachable diagonal: one higher and that tube — still active unless the final tubeEnd happened to retire exactly it — is never flushed and its pending run is dropped; one lower and a retired tube's ring slot may be that of the highest active tube", fromAdd))
		return
	}
	gotFrom, gotTo := linOf(from.Call.Args[1], env), linOf(to.Call.Args[1], env)
	wantFrom := last.add(linConst(1), 1).add(linAtom("maxError"), -1)
	// starting up to MaxError diagonals higher is harmless: the tube that may then be skipped is
	// the one the final tubeEnd has just retired, or (only when MaxError == TubeOffset) one whose
	// every diagonal also belongs to a neighbour that is flushed or retired
	if !gotFrom.equal(wantFrom) && !gotFrom.equal(wantFrom.add(linAtom("maxError"), 1)) {
		c.bad(rule, key, from.Pos(), "the flush starts at the tube of diagonal "+gotFrom.String()+" instead of "+wantFrom.String()+" (or up to MaxError more; lowest diagonal still reachable at the last scanned position, minus the overlap): started higher, an active tube whose ticks never came is not flushed; started lower, a retired tube is flushed first whose slot in the circular list may be that of the highest active tube, whose run is then emitted on the wrong diagonal")
		return
	}
	// upper end: at least Tlen + last, anything beyond is a no-op
	d := gotTo.add(linAtom("Tlen").add(last, 1), -1)
	okTo := d.k >= 0
	for a, cf := range d.coef {
		if cf < 0 || (a != "tubeOffset" && a != "maxError") {
			okTo = false
		}
	}
	if !okTo {
		c.bad(rule, key, to.Pos(), "the flush ends at the tube of diagonal "+gotTo.String()+", which does not reach the highest diagonal reachable at the last scanned position, Tlen + "+last.String()+", for all parameters: runs in the highest tubes are never flushed")
		return
	}
	c.ok(rule, key, fl.Pos(), "the flush runs from the tube of diagonal "+gotFrom.String()+" to the tube of diagonal "+gotTo.String()+": every tube that can still be active at the last scanned position, and none below")
}

// ruleTubeCap: the circular list must hold every tube that can be active at
// one query position: floor((Tlen + TubeOffset + MaxError - 2) / TubeOffset) + 1.
// The allocation floor(A/TubeOffset) + c is large enough for all parameters
// exactly when A + c*TubeOffset - (Tlen + 2*TubeOffset + MaxError - 2) is a
// non-negative constant.
func ruleTubeCap(c *Ctx, rule string) {
	pkg := modPath + "/align/pals/filter"
	fn := c.fn("align/pals/filter", "(*Filter).Filter")
	c.Funcs[funcName(fn)] = true
	key := funcName(fn) + "/tube-ring-size"
	env := &linEnv{forms: map[*ssa.Parameter]lin{}, names: map[*ssa.Parameter]string{}, alias: filterAlias}
	var mk *ssa.MakeSlice
	for _, b := range fn.Blocks {
		for _, ins := range b.Instrs {
			if st, ok := ins.(*ssa.Store); ok {
				if name, ok := fieldOf(st.Addr, pkg, "Filter"); ok && name == "tubes" {
					if m, ok := st.Val.(*ssa.MakeSlice); ok {
						mk = m
					}
				}
			}
		}
	}
	if mk == nil {
		c.und(rule, key, fn.Pos(), "f.tubes is not assigned a make() in Filter")
		return
	}
	// size = floor(A / tubeOffset) + cst
	size := mk.Len
	cst := int64(0)
	if bo, ok := size.(*ssa.BinOp); ok && bo.Op == token.ADD {
		if k, ok := constIntVal(bo.Y); ok {
			cst, size = k, bo.X
		} else if k, ok := constIntVal(bo.X); ok {
			cst, size = k, bo.Y
		}
	}
	quo, ok := size.(*ssa.BinOp)
	if call, isCall := size.(*ssa.Call); isCall && !ok {
		// a helper that divides its argument by TubeOffset (tubeIndex)
		if sf := call.Call.StaticCallee(); sf != nil && len(sf.Blocks) == 1 {
			if ret, isRet := sf.Blocks[0].Instrs[len(sf.Blocks[0].Instrs)-1].(*ssa.Return); isRet && len(ret.Results) == 1 {
				if q, isQ := ret.Results[0].(*ssa.BinOp); isQ && q.Op == token.QUO {
					if s, isOff := filterAlias(q.Y); isOff && s == "tubeOffset" {
						for i, prm := range sf.Params {
							if q.X == ssa.Value(prm) && i < len(call.Call.Args) {
								quo, ok = &ssa.BinOp{Op: token.QUO, X: call.Call.Args[i], Y: q.Y}, true
							}
						}
					}
				}
			}
		}
	}
	if !ok || quo.Op != token.QUO {
		c.und(rule, key, mk.Pos(), "the ring size is not of the form A/TubeOffset + constant")
		return
	}
	if s, ok := filterAlias(quo.Y); !ok || s != "tubeOffset" {
		c.und(rule, key, mk.Pos(), "the ring size is not divided by TubeOffset")
		return
	}
	B := linOf(quo.X, env).add(linAtom("tubeOffset").scale(cst), 1)
	need := linAtom("Tlen").add(linAtom("tubeOffset").scale(2), 1).add(linAtom("maxError"), 1).add(linConst(-2), 1)
	d := B.add(need, -1)
	if d.isConst() && d.k >= 0 {
		c.ok(rule, key, mk.Pos(), "the circular list has floor(("+linOf(quo.X, env).String()+")/TubeOffset) + "+fmt.Sprint(cst)+" slots, at least the floor((Tlen + TubeOffset + MaxError - 2)/TubeOffset) + 1 tubes that can be active at one query position")
	} else {
		c.bad(rule, key, mk.Pos(), "the circular list has floor(("+linOf(quo.X, env).String()+")/TubeOffset) + "+fmt.Sprint(cst)+" slots, which is less than the floor((Tlen + TubeOffset + MaxError - 2)/TubeOffset) + 1 tubes that can be active at one query position for some parameters (difference "+d.String()+" in units before division): the lowest and highest active tubes then share a slot and their counts and hits are mixed")
	}
}
