// Rule A "guardidx": every constant index into a split-field vector is
// dominated by a sufficient length guard (on all paths).
package main

import (
	"fmt"
	"go/ast"
	"go/constant"
	"go/token"
	"go/types"
	"sort"

	"golang.org/x/tools/go/ssa"
)

var splitters = map[string]bool{"Split": true, "SplitN": true, "SplitAfter": true, "SplitAfterN": true, "Fields": true}

func isVecType(t types.Type) bool {
	s, ok := t.Underlying().(*types.Slice)
	if !ok {
		return false
	}
	switch e := s.Elem().Underlying().(type) {
	case *types.Slice:
		b, ok := e.Elem().Underlying().(*types.Basic)
		return ok && b.Kind() == types.Byte
	case *types.Basic:
		return e.Kind() == types.String
	}
	return false
}

// splitCall: v is a call of bytes|strings.Split* / Fields; returns the
// guaranteed minimum length of its result.
func splitCall(v ssa.Value) (call *ssa.Call, min int64, ok bool) {
	call, isCall := v.(*ssa.Call)
	if !isCall {
		return nil, 0, false
	}
	f := call.Call.StaticCallee()
	if f == nil || f.Pkg == nil {
		return nil, 0, false
	}
	pp := f.Pkg.Pkg.Path()
	if (pp != "bytes" && pp != "strings") || !splitters[f.Name()] {
		return nil, 0, false
	}
	if f.Name() == "Fields" {
		return call, 0, true
	}
	// non-empty separator?
	sepOK := false
	switch sep := call.Call.Args[1].(type) {
	case *ssa.Slice:
		if a, ok := sep.X.(*ssa.Alloc); ok && sep.Low == nil && sep.High == nil {
			if arr, ok := a.Type().(*types.Pointer).Elem().Underlying().(*types.Array); ok && arr.Len() >= 1 {
				sepOK = true
			}
		}
	case *ssa.Const:
		if sep.Value != nil && len(sep.Value.ExactString()) > 2 { // quoted non-empty string
			sepOK = true
		}
	}
	if !sepOK {
		return call, 0, true
	}
	if f.Name() == "SplitN" || f.Name() == "SplitAfterN" {
		n, isConst := constIntVal(call.Call.Args[2])
		if !isConst || n == 0 {
			return call, 0, true
		}
	}
	return call, 1, true
}

type gidx struct {
	c        *Ctx
	rule     string
	pkgs     map[*ssa.Package]bool
	funcs    []*ssa.Function
	summary  map[*ssa.Function]map[[2]int]bool // helper indexes param i at param j
	entryMin map[*ssa.Parameter]int64
	inProg   map[*ssa.Parameter]bool
	keyCount map[string]int
	dynamic  int
}

func (g *gidx) computeSummaries() {
	g.summary = map[*ssa.Function]map[[2]int]bool{}
	for changed := true; changed; {
		changed = false
		for _, f := range g.funcs {
			for i, p := range f.Params {
				if !isVecType(p.Type()) {
					continue
				}
				for _, r := range *p.Referrers() {
					switch r := r.(type) {
					case *ssa.IndexAddr:
						if j := paramIndex(f, r.Index); j >= 0 && r.X == p {
							changed = g.addSummary(f, i, j) || changed
						}
					case ssa.CallInstruction:
						cc := r.Common()
						callee := cc.StaticCallee()
						if callee == nil {
							continue
						}
						for pair := range g.summary[callee] {
							ai, aj := argAt(cc, callee, pair[0]), argAt(cc, callee, pair[1])
							if ai == p {
								if j := paramIndex(f, aj); j >= 0 {
									changed = g.addSummary(f, i, j) || changed
								}
							}
						}
					}
				}
			}
		}
	}
}

func (g *gidx) addSummary(f *ssa.Function, i, j int) bool {
	if g.summary[f] == nil {
		g.summary[f] = map[[2]int]bool{}
	}
	k := [2]int{i, j}
	if g.summary[f][k] {
		return false
	}
	g.summary[f][k] = true
	return true
}

// argAt maps a callee parameter index to the call's argument value
// (receiver included in Params for methods called statically).
func argAt(cc *ssa.CallCommon, callee *ssa.Function, pi int) ssa.Value {
	if pi < 0 || pi >= len(cc.Args) {
		return nil
	}
	return cc.Args[pi]
}

// boundAt: proven lower bound of len(v) on every path reaching blk.
func (g *gidx) boundAt(v ssa.Value, blk *ssa.BasicBlock) (int64, string) {
	var base int64
	src := "no producer fact"
	if _, min, ok := splitCall(v); ok {
		base = min
		src = fmt.Sprintf("producer guarantees >= %d", min)
	} else if p, ok := v.(*ssa.Parameter); ok {
		base = g.entryBound(p)
		src = fmt.Sprintf("all call sites pass >= %d", base)
	} else if ex, ok := v.(*ssa.Extract); ok {
		if b, why, ok := g.helperBound(ex, blk); ok {
			base, src = b, why
		}
	}
	facts := factsAt(blk, lenOf(v))
	lb := lowerBound(facts, base)
	if lb > base {
		for _, f := range facts {
			if lowerBound([]cmpFact{f}, 0) == lb {
				src = fmt.Sprintf("dominating guard len %s %d at %s", f.op, f.c, g.c.pos(f.at))
			}
		}
	}
	// a length is an integer: lengths ruled out one by one (switch len(v) { case 0, 1, 2: return }) raise the bound
	for n := 0; n < 16 && excluded(facts, lb); n++ {
		lb++
		src = "dominating guards exclude every shorter length"
	}
	if b, why, ok := keyedBound(v, blk); ok && b > lb {
		lb, src = b, why
	}
	return lb, src
}

// keyedBound: a dominating guard compares len(v) with a helper of the module that maps a string key to the
// number of fields that key needs (len(fields) < metaFields(name)), and on every path into blk the key has been
// found equal to a constant. The bound is the smallest value the helper returns for those constants.
func keyedBound(v ssa.Value, blk *ssa.BasicBlock) (int64, string, bool) {
	isLen := lenOf(v)
	for d := blk.Idom(); d != nil; d = d.Idom() {
		ifi, ok := d.Instrs[len(d.Instrs)-1].(*ssa.If)
		if !ok {
			continue
		}
		bo, ok := ifi.Cond.(*ssa.BinOp)
		if !ok {
			continue
		}
		op := bo.Op
		var other ssa.Value
		switch {
		case isLen(bo.X):
			other = bo.Y
		case isLen(bo.Y):
			other = bo.X
			op = flipOp(op)
		default:
			continue
		}
		call, ok := other.(*ssa.Call)
		if !ok {
			continue
		}
		h := call.Call.StaticCallee()
		if h == nil || !inModule(h) || h.Blocks == nil || len(h.Params) != 1 || len(call.Call.Args) != 1 || !isStringType(h.Params[0].Type()) {
			continue
		}
		switch forcedEdge(d, blk) {
		case 0:
		case 1:
			op = negateOp(op)
		default:
			continue
		}
		if op != token.GEQ && op != token.GTR {
			continue
		}
		keys, ok := stringsAt(blk, call.Call.Args[0], 0)
		if !ok || len(keys) == 0 {
			continue
		}
		min := int64(-1)
		for _, k := range keys {
			n, ok := evalKeyed(h, k)
			if !ok {
				min = -1
				break
			}
			if op == token.GTR {
				n++
			}
			if min < 0 || n < min {
				min = n
			}
		}
		if min >= 0 {
			return min, fmt.Sprintf("dominating guard len %s %s(key) and %s returns >= %d for the key(s) %q this path has matched", op, h.Name(), h.Name(), min, keys), true
		}
	}
	return 0, "", false
}

func isStringType(t types.Type) bool {
	b, ok := t.Underlying().(*types.Basic)
	return ok && b.Info()&types.IsString != 0
}

func constString(v ssa.Value) (string, bool) {
	k, ok := v.(*ssa.Const)
	if !ok || k.Value == nil || k.Value.Kind() != constant.String {
		return "", false
	}
	return constant.StringVal(k.Value), true
}

// stringsAt: the constants x has been found equal to on every path into blk.
func stringsAt(blk *ssa.BasicBlock, x ssa.Value, depth int) ([]string, bool) {
	if depth > 12 {
		return nil, false
	}
	eq := func(cond ssa.Value) (string, bool) {
		bo, ok := cond.(*ssa.BinOp)
		if !ok || bo.Op != token.EQL {
			return "", false
		}
		if bo.X == x {
			return constString(bo.Y)
		}
		if bo.Y == x {
			return constString(bo.X)
		}
		return "", false
	}
	for d := blk.Idom(); d != nil; d = d.Idom() {
		if ifi, ok := d.Instrs[len(d.Instrs)-1].(*ssa.If); ok {
			if k, ok := eq(ifi.Cond); ok && forcedEdge(d, blk) == 0 {
				return []string{k}, true
			}
		}
	}
	if len(blk.Preds) == 0 {
		return nil, false
	}
	var out []string
	for _, p := range blk.Preds {
		if ifi, ok := p.Instrs[len(p.Instrs)-1].(*ssa.If); ok && p.Succs[0] == blk && p.Succs[1] != blk {
			if k, ok := eq(ifi.Cond); ok {
				out = append(out, k)
				continue
			}
		}
		if p.Dominates(blk) && len(blk.Preds) == 1 {
			// a straight-line predecessor: whatever held there
			ks, ok := stringsAt(p, x, depth+1)
			if !ok {
				return nil, false
			}
			out = append(out, ks...)
			continue
		}
		if blk.Dominates(p) {
			return nil, false // a loop
		}
		ks, ok := stringsAt(p, x, depth+1)
		if !ok {
			return nil, false
		}
		out = append(out, ks...)
	}
	return out, true
}

// evalKeyed runs a helper whose only branches compare its string parameter with constants.
func evalKeyed(h *ssa.Function, key string) (int64, bool) {
	prm := h.Params[0]
	var prev *ssa.BasicBlock
	b := h.Blocks[0]
	for steps := 0; steps < 256; steps++ {
		switch last := b.Instrs[len(b.Instrs)-1].(type) {
		case *ssa.If:
			bo, ok := last.Cond.(*ssa.BinOp)
			if !ok || (bo.Op != token.EQL && bo.Op != token.NEQ) {
				return 0, false
			}
			var k string
			switch {
			case bo.X == ssa.Value(prm):
				k, ok = constString(bo.Y)
			case bo.Y == ssa.Value(prm):
				k, ok = constString(bo.X)
			default:
				ok = false
			}
			if !ok {
				return 0, false
			}
			taken := (k == key) == (bo.Op == token.EQL)
			prev = b
			if taken {
				b = b.Succs[0]
			} else {
				b = b.Succs[1]
			}
		case *ssa.Jump:
			prev, b = b, b.Succs[0]
		case *ssa.Return:
			if len(last.Results) != 1 {
				return 0, false
			}
			r := last.Results[0]
			if phi, ok := r.(*ssa.Phi); ok && phi.Block() == b && prev != nil {
				for i, p := range b.Preds {
					if p == prev {
						r = phi.Edges[i]
					}
				}
			}
			return constIntVal(r)
		default:
			return 0, false
		}
	}
	return 0, false
}

// helperBound: v is one result of a module helper that splits a line and
// checks the column count (f, err := splitColumns(line, n)). On the helper's
// success returns (error result nil) the vector's length is bounded below by
// the producer fact and by the comparisons of len(vector) with a constant or
// with a parameter that the call passes as a constant. The bound holds in blk
// only if blk is reached with the helper's error found nil.
func (g *gidx) helperBound(ex *ssa.Extract, blk *ssa.BasicBlock) (int64, string, bool) {
	call, ok := ex.Tuple.(*ssa.Call)
	if !ok {
		return 0, "", false
	}
	callee := call.Call.StaticCallee()
	if callee == nil || !inModule(callee) || callee.Blocks == nil {
		return 0, "", false
	}
	res := callee.Signature.Results()
	errIdx := res.Len() - 1
	if errIdx < 1 || !isErrorType(res.At(errIdx).Type()) {
		return 0, "", false
	}
	// the caller has seen err == nil
	checked := false
	for _, bf := range branchesAt(blk) {
		for i, side := range []ssa.Value{bf.cond.X, bf.cond.Y} {
			e, ok := side.(*ssa.Extract)
			if !ok {
				// the error may live in a named result whose address a deferred handler takes
				if ld, isLoad := side.(*ssa.UnOp); isLoad && ld.Op == token.MUL {
					if al, isAl := ld.X.(*ssa.Alloc); isAl {
						for _, r := range *al.Referrers() {
							if st, isSt := r.(*ssa.Store); isSt && st.Addr == ssa.Value(al) {
								if se, isEx := st.Val.(*ssa.Extract); isEx && se.Tuple == ex.Tuple && se.Index == errIdx && st.Block().Dominates(ld.Block()) {
									e, ok = se, true
								}
							}
						}
					}
				}
			}
			if !ok || e.Tuple != ex.Tuple || e.Index != errIdx {
				continue
			}
			other := bf.cond.Y
			if i == 1 {
				other = bf.cond.X
			}
			if isNilConst(other) && effectiveOp(bf, i == 0) == token.EQL {
				checked = true
			}
		}
	}
	if !checked {
		return 0, "", false
	}
	min := int64(-1)
	for _, r := range returnsOf(callee) {
		if len(r.Results) != res.Len() || !isNilConst(r.Results[errIdx]) {
			continue
		}
		v := r.Results[ex.Index]
		var lb int64
		if _, m, ok := splitCall(v); ok {
			lb = m
		}
		for _, bf := range branchesAt(r.Block()) {
			lc := builtinCall(bf.cond.X, "len")
			if lc == nil || lc.Call.Args[0] != v {
				continue
			}
			var k int64
			if c, ok := constIntVal(bf.cond.Y); ok {
				k = c
			} else if pi := paramIndex(callee, bf.cond.Y); pi >= 0 {
				c, ok := constIntVal(argAt(&call.Call, callee, pi))
				if !ok {
					continue
				}
				k = c
			} else {
				continue
			}
			switch effectiveOp(bf, true) {
			case token.GEQ:
				if k > lb {
					lb = k
				}
			case token.GTR:
				if k+1 > lb {
					lb = k + 1
				}
			}
		}
		if min < 0 || lb < min {
			min = lb
		}
	}
	if min < 0 {
		return 0, "", false
	}
	return min, fmt.Sprintf("%s returns without error only with >= %d columns", callee.Name(), min), true
}

func (g *gidx) entryBound(p *ssa.Parameter) int64 {
	if b, ok := g.entryMin[p]; ok {
		return b
	}
	if g.inProg[p] {
		return 0
	}
	g.inProg[p] = true
	defer delete(g.inProg, p)
	f := p.Parent()
	pi := paramIndex(f, p)
	min := int64(-1)
	if f.Object() != nil && f.Object().Exported() && f.Signature.Recv() == nil {
		min = 0 // callable from outside the module with anything
	}
	for _, caller := range g.funcs {
		for _, b := range caller.Blocks {
			for _, ins := range b.Instrs {
				ci, ok := ins.(ssa.CallInstruction)
				if !ok || ci.Common().StaticCallee() != f {
					continue
				}
				a := argAt(ci.Common(), f, pi)
				if a == nil {
					min = 0
					continue
				}
				lb, _ := g.boundAt(a, b)
				if min < 0 || lb < min {
					min = lb
				}
			}
		}
	}
	if min < 0 {
		min = 0
	}
	g.entryMin[p] = min
	return min
}

func (g *gidx) key(f *ssa.Function, what string) string {
	k := funcName(f) + "/" + what
	g.keyCount[k]++
	if n := g.keyCount[k]; n > 1 {
		return fmt.Sprintf("%s#%d", k, n)
	}
	return k
}

func (g *gidx) oblige(f *ssa.Function, v ssa.Value, name string, blk *ssa.BasicBlock, pos token.Pos, need int64, what string) {
	lb, src := g.boundAt(v, blk)
	key := g.key(f, what)
	if lb >= need {
		g.c.ok(g.rule, key, pos, fmt.Sprintf("needs len(%s) >= %d; proven >= %d (%s)", name, need, lb, src))
	} else {
		g.c.bad(g.rule, key, pos, fmt.Sprintf("needs len(%s) >= %d but only >= %d is guaranteed on every path (%s): an input line with %d field(s) panics with index out of range", name, need, lb, src, lb))
	}
}

// vecName recovers the source-level name of an SSA vector value.
func (g *gidx) vecName(f *ssa.Function, v ssa.Value) string {
	if p, ok := v.(*ssa.Parameter); ok {
		return p.Name()
	}
	call, ok := v.(*ssa.Call)
	if !ok {
		return v.Name()
	}
	name := ""
	if syn := f.Syntax(); syn != nil {
		ast.Inspect(syn, func(n ast.Node) bool {
			as, ok := n.(*ast.AssignStmt)
			if !ok || len(as.Lhs) != 1 || len(as.Rhs) != 1 {
				return true
			}
			if ce, ok := unparen(as.Rhs[0]).(*ast.CallExpr); ok && ce.Lparen == call.Pos() {
				if id, ok := as.Lhs[0].(*ast.Ident); ok {
					name = id.Name
				}
			}
			return true
		})
	}
	if name == "" {
		return "fields"
	}
	return name
}

func (g *gidx) checkVector(f *ssa.Function, v ssa.Value) {
	refs := v.Referrers()
	if refs == nil {
		return
	}
	name := g.vecName(f, v)
	type use struct {
		pos token.Pos
		run func()
	}
	var uses []use
	for _, r := range *refs {
		switch r := r.(type) {
		case *ssa.IndexAddr:
			if r.X != v {
				continue
			}
			r0 := r
			if k, ok := constIntVal(r.Index); ok {
				uses = append(uses, use{r.Pos(), func() {
					g.oblige(f, v, name, r0.Block(), r0.Pos(), k+1, fmt.Sprintf("%s[%d]", name, k))
				}})
			} else {
				g.dynamic++
			}
		case *ssa.Slice:
			if r.X != v {
				continue
			}
			var need int64 = -1
			txt := name + "["
			if r.Low != nil {
				if k, ok := constIntVal(r.Low); ok {
					need = k
					txt += fmt.Sprint(k)
				}
			}
			txt += ":"
			if r.High != nil {
				if k, ok := constIntVal(r.High); ok {
					if k > need {
						need = k
					}
					txt += fmt.Sprint(k)
				}
			}
			txt += "]"
			if need > 0 {
				r0, n0, t0 := r, need, txt
				uses = append(uses, use{r.Pos(), func() { g.oblige(f, v, name, r0.Block(), r0.Pos(), n0, t0) }})
			}
		case ssa.CallInstruction:
			cc := r.Common()
			callee := cc.StaticCallee()
			if callee == nil {
				continue
			}
			var pairs [][2]int
			for pair := range g.summary[callee] {
				pairs = append(pairs, pair)
			}
			sort.Slice(pairs, func(a, b int) bool { return pairs[a][1] < pairs[b][1] })
			for _, pair := range pairs {
				if argAt(cc, callee, pair[0]) != v {
					continue
				}
				idx := argAt(cc, callee, pair[1])
				if k, ok := constIntVal(idx); ok {
					r0, k0, cn := r, k, callee.Name()
					uses = append(uses, use{r.Pos(), func() {
						g.oblige(f, v, name, r0.Block(), r0.Pos(), k0+1, fmt.Sprintf("%s[%d] via %s", name, k0, cn))
					}})
				} else if paramIndex(f, idx) < 0 {
					g.dynamic++
				}
			}
		}
	}
	sort.SliceStable(uses, func(i, j int) bool { return uses[i].pos < uses[j].pos })
	for _, u := range uses {
		u.run()
	}
}

// ruleGuardIdx runs the rule over all functions of the given packages.
func ruleGuardIdx(c *Ctx, rule string, shorts ...string) {
	g := &gidx{c: c, rule: rule, pkgs: map[*ssa.Package]bool{}, entryMin: map[*ssa.Parameter]int64{}, inProg: map[*ssa.Parameter]bool{}, keyCount: map[string]int{}}
	for _, s := range shorts {
		p := c.pkg(s)
		sp := c.SPkgs[p.PkgPath]
		if sp == nil {
			c.missing("no SSA for %s", s)
		}
		g.pkgs[sp] = true
		g.funcs = append(g.funcs, srcFuncs(sp)...)
	}
	g.computeSummaries()
	for _, f := range g.funcs {
		c.Funcs[funcName(f)] = true
		for _, p := range f.Params {
			if isVecType(p.Type()) {
				g.checkVector(f, p)
			}
		}
		var calls []*ssa.Call
		for _, b := range f.Blocks {
			for _, ins := range b.Instrs {
				if v, ok := ins.(ssa.Value); ok {
					if call, _, ok := splitCall(v); ok {
						calls = append(calls, call)
					}
				}
			}
		}
		sort.Slice(calls, func(i, j int) bool { return calls[i].Pos() < calls[j].Pos() })
		for _, call := range calls {
			g.checkVector(f, call)
		}
		// vectors handed back by a module helper together with an error
		for _, b := range f.Blocks {
			for _, ins := range b.Instrs {
				if ex, ok := ins.(*ssa.Extract); ok && isVecType(ex.Type()) {
					if call, ok := ex.Tuple.(*ssa.Call); ok {
						if callee := call.Call.StaticCallee(); callee != nil && inModule(callee) && g.pkgs[callee.Pkg] {
							g.checkVector(f, ex)
						}
					}
				}
			}
		}
	}
	if g.dynamic > 0 {
		c.Notes = append(c.Notes, fmt.Sprintf("%s: %d accesses with a non-constant index are outside the rule (range loops and computed indices)", rule, g.dynamic))
	}
}
