// Rules K (reset), L (gojoin + lockset) and M (errslot) for package morass.
package main

import (
	"fmt"
	"go/token"
	"go/types"
	"sort"

	"golang.org/x/tools/go/ssa"
)

const morassPkg = modPath + "/morass"

// pkgReach: same-package functions statically reachable from roots.
func pkgReach(roots ...*ssa.Function) []*ssa.Function {
	seen := map[*ssa.Function]bool{}
	var out []*ssa.Function
	var visit func(f *ssa.Function)
	visit = func(f *ssa.Function) {
		if f == nil || seen[f] || f.Blocks == nil {
			return
		}
		seen[f] = true
		out = append(out, f)
		for _, a := range f.AnonFuncs {
			visit(a)
		}
		for _, b := range f.Blocks {
			for _, ins := range b.Instrs {
				if ci, ok := ins.(ssa.CallInstruction); ok {
					if g := ci.Common().StaticCallee(); g != nil && g.Pkg == roots[0].Pkg {
						visit(g)
					}
				}
			}
		}
	}
	for _, r := range roots {
		visit(r)
	}
	return out
}

// privateReach: fn and the private (unexported or literal) functions of its
// package that it statically reaches — the units a maintainer may split fn into.
func privateReach(fn *ssa.Function) []*ssa.Function {
	var out []*ssa.Function
	for _, f := range pkgReach(fn) {
		if f == fn || f.Parent() != nil || f.Object() == nil || !f.Object().Exported() {
			out = append(out, f)
		}
	}
	return out
}

// callerArg: v is a parameter of a private helper that root reaches and that
// is called from exactly one place there: the value passed at that place
// (followed up through further helpers); otherwise v itself.
func callerArg(v ssa.Value, root *ssa.Function) ssa.Value {
	for d := 0; d < 4; d++ {
		prm, ok := v.(*ssa.Parameter)
		if !ok || prm.Parent() == root {
			return v
		}
		h := prm.Parent()
		pi := paramIndex(h, prm)
		var arg ssa.Value
		sites := 0
		for _, g := range privateReach(root) {
			for _, b := range g.Blocks {
				for _, ins := range b.Instrs {
					if ci, ok := ins.(ssa.CallInstruction); ok && ci.Common().StaticCallee() == h && pi >= 0 && pi < len(ci.Common().Args) {
						sites++
						arg = ci.Common().Args[pi]
					}
				}
			}
		}
		if sites != 1 {
			return v
		}
		v = arg
	}
	return v
}

// morassFieldOps lists, per field of Morass, the writes / reads in fn.
func morassFieldOps(fn *ssa.Function, typ string) (writes, reads map[string][]ssa.Instruction) {
	writes, reads = map[string][]ssa.Instruction{}, map[string][]ssa.Instruction{}
	for _, b := range fn.Blocks {
		for _, ins := range b.Instrs {
			fa, ok := ins.(*ssa.FieldAddr)
			if !ok {
				continue
			}
			name, ok := fieldOf(fa, fn.Pkg.Pkg.Path(), typ)
			if !ok {
				continue
			}
			r, w, e := fieldAccesses(fa)
			reads[name] = append(reads[name], r...)
			writes[name] = append(writes[name], w...)
			// &m.F handed to a call (heap.Pop(&m.files)): both read and written
			for _, x := range e {
				if ci, ok := x.(ssa.CallInstruction); ok {
					if _, _, isMu := mutexOp(ci.Common(), fn.Pkg.Pkg.Path(), typ); isMu {
						continue
					}
					if f := ci.Common().StaticCallee(); f != nil && f.Signature.Recv() != nil && (isNamed(f.Signature.Recv().Type(), "sync", "WaitGroup") || isNamed(f.Signature.Recv().Type(), "sync", "Mutex")) {
						continue
					}
				}
				writes[name] = append(writes[name], x)
				reads[name] = append(reads[name], x)
			}
		}
	}
	return
}

// ---- K: reset --------------------------------------------------------------------

func ruleReset(c *Ctx, rule string) {
	push, write := c.fn("morass", "(*Morass).Push"), c.fn("morass", "(*Morass).write")
	fin, pull := c.fn("morass", "(*Morass).Finalise"), c.fn("morass", "(*Morass).Pull")
	clear := c.fn("morass", "(*Morass).Clear")
	// cycle state: fields written by the cycle methods (and their package-local callees)
	cycle := map[string]bool{}
	for _, f := range pkgReach(push, write, fin, pull) {
		if f == clear || f.Parent() == clear {
			continue
		}
		w, _ := morassFieldOps(f, "Morass")
		for k, v := range w {
			if len(v) > 0 {
				cycle[k] = true
			}
		}
	}
	// reachable-from-Pull includes Clear through AutoClear: exclude Clear's own writes
	var fields []string
	for k := range cycle {
		fields = append(fields, k)
	}
	sort.Strings(fields)
	// must-assign in Clear on every path to a nil return
	assignedAtNilReturn := mustAssigned(clear, "Morass")
	for _, f := range fields {
		key := "morass.(*Morass).Clear/" + f
		if st, ok := assignedAtNilReturn[f]; ok && st {
			c.ok(rule, key, clear.Pos(), "assigned on every path of Clear that returns nil")
			continue
		}
		// (ii) Finalise re-establishes it before any read, and Push/write do not read it
		if finaliseEstablishes(fin, f) {
			readElsewhere := false
			for _, g := range pkgReach(push, write) {
				_, r := morassFieldOps(g, "Morass")
				if len(r[f]) > 0 {
					readElsewhere = true
				}
			}
			if !readElsewhere {
				c.ok(rule, key, fin.Pos(), "not reset by Clear but Finalise assigns it on every path before reading it, and Push/write never read it")
				continue
			}
		}
		why := "is never assigned in Clear"
		if _, some := assignedAtNilReturn[f]; some {
			why = "is not assigned on every path of Clear (some path to `return nil` leaves the old value)"
		}
		c.bad(rule, key, clear.Pos(), fmt.Sprintf("per-cycle field %s %s, and Finalise does not re-establish it before use: a value from the previous cycle survives Clear and the next cycle starts from it", f, why))
	}
	if len(fields) < 6 {
		c.und(rule, "morass/cycle-state", clear.Pos(), fmt.Sprintf("found %d per-cycle fields (%v), expected >= 6", len(fields), fields))
	}
}

// mustAssigned: for each Morass field stored anywhere in fn: is it stored on
// every path to every nil-error return?
func mustAssigned(fn *ssa.Function, typ string) map[string]bool {
	w, _ := morassFieldOps(fn, typ)
	res := map[string]bool{}
	for f, ws := range w {
		if len(ws) == 0 {
			continue
		}
		set := map[ssa.Instruction]bool{}
		for _, x := range ws {
			set[x] = true
		}
		ok := true
		n := 0
		for _, b := range fn.Blocks {
			if len(b.Instrs) == 0 {
				continue
			}
			ret, isRet := b.Instrs[len(b.Instrs)-1].(*ssa.Return)
			if !isRet || !isNilErrorReturn(ret) {
				continue
			}
			n++
			if !mustPassBefore(fn, ret, func(i ssa.Instruction) bool { return set[i] }) {
				ok = false
			}
		}
		res[f] = ok && n > 0
	}
	return res
}

// finaliseEstablishes: every read of field f in fn is preceded, on every
// path, by a store to f (and there is at least one store).
func finaliseEstablishes(fn *ssa.Function, f string) bool {
	w, r := morassFieldOps(fn, "Morass")
	if len(w[f]) == 0 {
		return false
	}
	set := map[ssa.Instruction]bool{}
	for _, x := range w[f] {
		set[x] = true
	}
	for _, rd := range r[f] {
		if !mustPassBefore(fn, rd, func(i ssa.Instruction) bool { return set[i] }) {
			return false
		}
	}
	// and it is assigned on every path to a nil return that goes on to the pull phase
	return true
}

// ---- L: gojoin ------------------------------------------------------------------

func wgOp(cc *ssa.CallCommon, pkg, typ string) (field, op string, ok bool) {
	f := cc.StaticCallee()
	if f == nil || f.Signature.Recv() == nil || !isNamed(f.Signature.Recv().Type(), "sync", "WaitGroup") || len(cc.Args) == 0 {
		return
	}
	name, isField := fieldOf(cc.Args[0], pkg, typ)
	if !isField {
		return
	}
	return name, f.Name(), true
}

func ruleMorassJoin(c *Ctx, rule string) {
	sp := c.SPkgs[c.pkg("morass").PkgPath]
	fin := c.fn("morass", "(*Morass).Finalise")
	errFn := c.fn("morass", "(*Morass).err")
	n := 0
	for _, f := range srcFuncs(sp) {
		for _, b := range f.Blocks {
			for _, ins := range b.Instrs {
				g, ok := ins.(*ssa.Go)
				if !ok {
					continue
				}
				n++
				key := fmt.Sprintf("%s/go#%d", funcName(f), n)
				var target *ssa.Function
				if t := g.Call.StaticCallee(); t != nil {
					target = t
				} else if mc, ok := g.Call.Value.(*ssa.MakeClosure); ok {
					target, _ = mc.Fn.(*ssa.Function)
				}
				if target == nil {
					c.und(rule, key, g.Pos(), "cannot resolve the spawned function")
					continue
				}
				// what the goroutine writes
				shared := map[string]bool{}
				for _, tf := range pkgReach(target) {
					w, _ := morassFieldOps(tf, "Morass")
					for k, v := range w {
						if len(v) > 0 {
							shared[k] = true
						}
					}
				}
				// the foreground reader: Finalise reads of those fields
				_, finReads := morassFieldOps(fin, "Morass")
				var readers []ssa.Instruction
				var readFields []string
				for k := range shared {
					if k == "_err" {
						continue // read through err() under its lock
					}
					if len(finReads[k]) > 0 {
						readers = append(readers, finReads[k]...)
						readFields = append(readFields, k)
					}
				}
				sort.Strings(readFields)
				if len(readers) == 0 {
					c.triv(rule, key, g.Pos(), "the spawned function writes nothing that Finalise reads")
					continue
				}
				// accepted idiom: WaitGroup field W
				// (1) W.Add dominates the go statement
				wg := ""
				for _, fb := range f.Blocks {
					for _, fi := range fb.Instrs {
						if call, ok := fi.(*ssa.Call); ok {
							if name, op, ok := wgOp(&call.Call, morassPkg, "Morass"); ok && op == "Add" {
								if fb.Dominates(b) && (fb != b || instrIndex(fb, fi) < instrIndex(b, ins)) {
									wg = name
								}
							}
						}
					}
				}
				if wg == "" {
					c.bad(rule, key, g.Pos(), fmt.Sprintf("the goroutine started here writes %v, which Finalise reads, but nothing joins it: no sync.WaitGroup Add dominates the go statement. Finalise can seek/decode the run files while this writer has not yet registered its file (run lost) or is still encoding it (run corrupted)", readFields))
					continue
				}
				// (2) Done deferred on every exit of the spawned function
				done := false
				for _, tf := range append([]*ssa.Function{target}, target.AnonFuncs...) {
					if len(tf.Blocks) == 0 {
						continue
					}
					for _, ti := range tf.Blocks[0].Instrs {
						if d, ok := ti.(*ssa.Defer); ok {
							if name, op, ok := wgOp(&d.Call, morassPkg, "Morass"); ok && op == "Done" && name == wg && tf == target {
								done = true
							}
						}
					}
				}
				if !done {
					c.bad(rule, key, g.Pos(), "WaitGroup "+wg+" is incremented but the spawned function does not `defer "+wg+".Done()` in its entry block: an early return leaves Finalise waiting forever, or Done runs before the writer's last store")
					continue
				}
				// (3) Wait dominates every read in Finalise
				var wait *ssa.Call
				for _, fb := range fin.Blocks {
					for _, fi := range fb.Instrs {
						if call, ok := fi.(*ssa.Call); ok {
							if name, op, ok := wgOp(&call.Call, morassPkg, "Morass"); ok && op == "Wait" && name == wg {
								wait = call
							}
						}
					}
				}
				if wait == nil {
					c.bad(rule, key, fin.Pos(), "Finalise never waits for WaitGroup "+wg+": it reads "+fmt.Sprint(readFields)+" while a background writer may still be running")
					continue
				}
				bad := false
				for _, rd := range readers {
					wb, rb := wait.Block(), rd.Block()
					if !(wb.Dominates(rb) && (wb != rb || instrIndex(wb, wait) < instrIndex(rb, rd))) {
						c.bad(rule, key, rd.Pos(), fmt.Sprintf("Finalise reads %v at %s on a path that has not passed %s.Wait(): the background writer may not have finished", readFields, c.pos(rd.Pos()), wg))
						bad = true
						break
					}
				}
				if bad {
					continue
				}
				// (4) the error slot is consulted after the wait on every path to `return nil`
				okErr := true
				for _, fb := range fin.Blocks {
					ret, isRet := fb.Instrs[len(fb.Instrs)-1].(*ssa.Return)
					if !isRet || !isNilErrorReturn(ret) {
						continue
					}
					if !reachesInstr(wait, ret) {
						continue
					}
					if !mustPassBetween(wait, ret, func(i ssa.Instruction) bool {
						call, ok := i.(*ssa.Call)
						return ok && call.Call.StaticCallee() == errFn
					}) {
						okErr = false
					}
				}
				if !okErr {
					c.bad(rule, key, wait.Pos(), "after "+wg+".Wait() Finalise can return nil without consulting the error slot: a failure of the background writer that finished last goes unreported")
					continue
				}
				c.ok(rule, key, g.Pos(), fmt.Sprintf("joined: %s.Add dominates the go statement, the writer defers %s.Done, Finalise waits before reading %v and consults err() after the wait", wg, wg, readFields))
			}
		}
	}
	if n == 0 {
		c.und(rule, "morass/go", token.NoPos, "no go statement found in package morass")
	}
}

func instrIndex(b *ssa.BasicBlock, x ssa.Instruction) int {
	for i, ins := range b.Instrs {
		if ins == x {
			return i
		}
	}
	return -1
}

func reachesInstr(from, to ssa.Instruction) bool {
	if from.Block() == to.Block() && instrIndex(from.Block(), from) < instrIndex(to.Block(), to) {
		return true
	}
	for _, s := range from.Block().Succs {
		if reaches(s, to.Block(), nil) {
			return true
		}
	}
	return false
}

// ---- L: lockset -------------------------------------------------------------------

// ruleLockset: in the given functions every access to a guarded field of
// pkg.typ happens with its lock held (must-hold).
func ruleLockset(c *Ctx, rule, pkg, typ string, guards map[string]string, fns []*ssa.Function, entry map[*ssa.Function]lockState) {
	keyN := map[string]int{}
	for _, fn := range fns {
		c.Funcs[funcName(fn)] = true
		held := heldAt(fn, pkg, typ, entry[fn])
		for _, b := range fn.Blocks {
			for _, ins := range b.Instrs {
				fa, ok := ins.(*ssa.FieldAddr)
				if !ok {
					continue
				}
				name, ok := fieldOf(fa, pkg, typ)
				if !ok {
					continue
				}
				lock, guarded := guards[name]
				if !guarded {
					continue
				}
				if _, fresh := fa.X.(*ssa.Alloc); fresh {
					continue // the object is being constructed and is not shared yet
				}
				r, w, e := fieldAccesses(fa)
				for _, acc := range append(append(append([]ssa.Instruction{}, r...), w...), e...) {
					k := fmt.Sprintf("%s/%s", funcName(fn), name)
					keyN[k]++
					key := fmt.Sprintf("%s#%d", k, keyN[k])
					pos := acc.Pos()
					if !pos.IsValid() {
						pos = fa.Pos()
					}
					if held[acc][lock] {
						c.ok(rule, key, pos, "accessed with "+lock+" held on every path")
					} else {
						c.bad(rule, key, pos, fmt.Sprintf("%s is accessed without %s held on every path to this point", name, lock))
					}
				}
			}
		}
	}
}

func ruleMorassLockset(c *Ctx, rule string) {
	write := c.fn("morass", "(*Morass).write")
	setErr, errFn := c.fn("morass", "(*Morass).setErr"), c.fn("morass", "(*Morass).err")
	fns := pkgReach(write)
	has := map[*ssa.Function]bool{}
	for _, f := range fns {
		has[f] = true
	}
	for _, f := range []*ssa.Function{setErr, errFn} {
		if !has[f] {
			fns = append(fns, f)
		}
	}
	ruleLockset(c, rule, morassPkg, "Morass", map[string]string{"files": "filesLock", "_err": "errLock"}, fns, nil)
}

// ---- M: errslot -----------------------------------------------------------------

func ruleErrSlot(c *Ctx, rule string) {
	sp := c.SPkgs[c.pkg("morass").PkgPath]
	setErr, errFn := c.fn("morass", "(*Morass).setErr"), c.fn("morass", "(*Morass).err")
	clear, newFn := c.fn("morass", "(*Morass).Clear"), c.fn("morass", "New")
	// M1 sticky: is setErr itself guarded by `_err == nil`?
	selfSticky := false
	for _, b := range setErr.Blocks {
		for _, ins := range b.Instrs {
			st, ok := ins.(*ssa.Store)
			if !ok {
				continue
			}
			if name, ok := fieldOf(st.Addr, morassPkg, "Morass"); ok && name == "_err" {
				// a dominating test `m._err == nil`
				for d := b; d != nil; d = d.Idom() {
					if ifi, ok := d.Instrs[len(d.Instrs)-1].(*ssa.If); ok && d != b {
						if bo, ok := ifi.Cond.(*ssa.BinOp); ok && (isNilConst(bo.X) || isNilConst(bo.Y)) {
							other := bo.X
							if isNilConst(bo.X) {
								other = bo.Y
							}
							if u, ok := other.(*ssa.UnOp); ok {
								if nm, ok := fieldOf(u.X, morassPkg, "Morass"); ok && nm == "_err" {
									e := forcedEdge(d, b)
									if (bo.Op == token.EQL && e == 0) || (bo.Op == token.NEQ && e == 1) {
										selfSticky = true
									}
								}
							}
						}
					}
				}
			}
		}
	}
	nSet := 0
	for _, f := range srcFuncs(sp) {
		if f == clear || f == newFn {
			continue
		}
		for _, b := range f.Blocks {
			for _, ins := range b.Instrs {
				call, ok := ins.(*ssa.Call)
				if !ok || call.Call.StaticCallee() != setErr {
					continue
				}
				nSet++
				ord := 1
				for _, ob := range f.Blocks {
					for _, oi := range ob.Instrs {
						if oc, ok := oi.(*ssa.Call); ok && oc.Call.StaticCallee() == setErr && oc.Pos() < call.Pos() {
							ord++
						}
					}
				}
				key := fmt.Sprintf("%s/setErr#%d", funcName(f), ord)
				arg := call.Call.Args[1]
				if selfSticky {
					c.ok(rule+"/sticky", key, call.Pos(), "setErr only stores when the slot is empty")
					continue
				}
				// argument proven non-nil by a dominating `arg != nil`
				nonNil := false
				for d := b.Idom(); d != nil; d = d.Idom() {
					ifi, ok := d.Instrs[len(d.Instrs)-1].(*ssa.If)
					if !ok {
						continue
					}
					bo, ok := ifi.Cond.(*ssa.BinOp)
					if !ok {
						continue
					}
					var other ssa.Value
					if sameLoadIn(f, bo.X, arg) && isNilConst(bo.Y) {
						other = bo.Y
					} else if sameLoadIn(f, bo.Y, arg) && isNilConst(bo.X) {
						other = bo.X
					}
					if other == nil {
						continue
					}
					e := forcedEdge(d, b)
					if (bo.Op == token.NEQ && e == 0) || (bo.Op == token.EQL && e == 1) {
						nonNil = true
					}
				}
				if nonNil {
					c.ok(rule+"/sticky", key, call.Pos(), "stores an error proven non-nil at the call site: the slot only moves nil -> non-nil within a cycle")
				} else {
					c.bad(rule+"/sticky", key, call.Pos(), "stores a value that may be nil ("+describeArg(arg)+"): a successful call overwrites — erases — an error recorded earlier by another writer, so the failure is never reported")
				}
			}
		}
	}
	// M2 propagate: I/O errors reach a return or the slot
	ioCallee := func(f *ssa.Function) string {
		if f == nil {
			return ""
		}
		if f.Pkg != nil && f.Pkg.Pkg.Path() == "io/ioutil" && f.Name() == "TempFile" || f.Pkg != nil && f.Pkg.Pkg.Path() == "os" && f.Name() == "CreateTemp" {
			return "TempFile"
		}
		// a helper of the sorter itself that reports its failure as a result (write() error)
		if f.Pkg == sp && f.Signature.Recv() != nil && isNamed(f.Signature.Recv().Type(), morassPkg, "Morass") {
			res := f.Signature.Results()
			if res.Len() == 1 && isErrorType(res.At(0).Type()) && f != errFn && f.Name() != "Clear" && f.Name() != "CleanUp" && !ast_IsExported(f.Name()) {
				return f.Name()
			}
		}
		if f.Signature.Recv() != nil {
			rt := f.Signature.Recv().Type()
			switch {
			case isNamed(rt, "encoding/gob", "Encoder") && f.Name() == "Encode":
				return "Encode"
			case isNamed(rt, "encoding/gob", "Decoder") && f.Name() == "Decode":
				return "Decode"
			case isNamed(rt, "os", "File") && (f.Name() == "Sync" || f.Name() == "Seek"):
				return f.Name()
			}
			// any other writer/reader layer put between the sorter and its files (a bufio.Writer, ...):
			// the operations the property names — write, sync, seek, read — by method name
			switch f.Name() {
			case "Write", "WriteString", "Flush", "Sync", "Seek", "Read", "ReadFull", "Encode", "Decode":
				res := f.Signature.Results()
				if res.Len() > 0 && isErrorType(res.At(res.Len()-1).Type()) && !inModule(f) {
					return f.Name()
				}
			}
		}
		return ""
	}
	nIO := map[string]int{}
	for _, f := range srcFuncs(sp) {
		for _, b := range f.Blocks {
			for _, ins := range b.Instrs {
				ci, ok := ins.(ssa.CallInstruction)
				if !ok {
					continue
				}
				what := ioCallee(ci.Common().StaticCallee())
				if what == "" {
					continue
				}
				k := funcName(f) + "/" + what
				nIO[k]++
				key := fmt.Sprintf("%s#%d", k, nIO[k])
				call, isCall := ins.(*ssa.Call)
				if !isCall {
					c.bad(rule+"/propagate", key, ins.Pos(), "the I/O call is deferred or spawned: its error is lost")
					continue
				}
				// the error result
				var errv ssa.Value
				if tup, ok := call.Type().(*types.Tuple); ok {
					if e := extractOf(call, tup.Len()-1); e != nil {
						errv = e
					}
				} else {
					errv = call
				}
				if errv == nil || !errorSinks(errv, setErr) {
					c.bad(rule+"/propagate", key, call.Pos(), "the error of "+what+" is dropped: it reaches neither a return nor the error slot, so the sorter reports success while delivering fewer or different values")
				} else {
					c.ok(rule+"/propagate", key, call.Pos(), "the error reaches a return or setErr")
				}
			}
		}
	}
	// Push and Finalise consult the slot on every path to a nil return
	for _, name := range []string{"(*Morass).Push", "(*Morass).Finalise"} {
		fn := c.fn("morass", name)
		key := "morass." + name + "/consults-err"
		ok := true
		n := 0
		for _, b := range fn.Blocks {
			ret, isRet := b.Instrs[len(b.Instrs)-1].(*ssa.Return)
			if !isRet || !isNilErrorReturn(ret) {
				continue
			}
			n++
			if !mustPassBefore(fn, ret, func(i ssa.Instruction) bool {
				call, ok := i.(*ssa.Call)
				return ok && call.Call.StaticCallee() == errFn
			}) {
				ok = false
			}
		}
		if ok && n > 0 {
			c.ok(rule+"/propagate", key, fn.Pos(), "every path to `return nil` has consulted err()")
		} else {
			c.bad(rule+"/propagate", key, fn.Pos(), "some path returns nil without consulting the error slot: a background writer's failure is not reported by this call")
		}
	}
}

func describeArg(v ssa.Value) string {
	if call, ok := v.(*ssa.Call); ok {
		if f := call.Call.StaticCallee(); f != nil {
			return "the result of " + f.Name() + "()"
		}
	}
	return v.Name()
}

// errorSinks: does the error value flow to a Return or to setErr?
func errorSinks(v ssa.Value, setErr *ssa.Function) bool {
	seen := map[ssa.Value]bool{}
	var walk func(x ssa.Value) bool
	walk = func(x ssa.Value) bool {
		if seen[x] {
			return false
		}
		seen[x] = true
		refs := x.Referrers()
		if refs == nil {
			return false
		}
		for _, r := range *refs {
			switch r := r.(type) {
			case *ssa.Return:
				return true
			case *ssa.Call:
				if r.Call.StaticCallee() == setErr {
					return true
				}
			case *ssa.Phi:
				if walk(r) {
					return true
				}
			case *ssa.Store:
				// stored into a local: follow loads of that alloc
				if a, ok := r.Addr.(*ssa.Alloc); ok {
					for _, ar := range *a.Referrers() {
						if u, ok := ar.(*ssa.UnOp); ok && u.Op == token.MUL && walk(u) {
							return true
						}
						// the variable is captured by a closure deferred before the store: what the closure does with it
						mc, ok := ar.(*ssa.MakeClosure)
						if !ok {
							continue
						}
						deferred := false
						for _, mr := range *mc.Referrers() {
							if d, ok := mr.(*ssa.Defer); ok && d.Call.Value == ssa.Value(mc) && (d.Block().Dominates(r.Block())) {
								deferred = true
							}
						}
						if !deferred {
							continue
						}
						cf := mc.Fn.(*ssa.Function)
						for i, bv := range mc.Bindings {
							if bv != ssa.Value(a) || i >= len(cf.FreeVars) {
								continue
							}
							for _, fr := range *cf.FreeVars[i].Referrers() {
								if u, ok := fr.(*ssa.UnOp); ok && u.Op == token.MUL && walk(u) {
									return true
								}
							}
						}
					}
				}
			case *ssa.MakeInterface:
				if walk(r) {
					return true
				}
			}
		}
		return false
	}
	return walk(v)
}

// ruleResidue (M3): both end-of-data branches of Pull honour AutoClear and
// AutoClean; CleanUp removes the temporary directory.
func ruleResidue(c *Ctx, rule string) {
	pull := c.fn("morass", "(*Morass).Pull")
	n := 0
	// Pull itself and the private helpers it hands its end-of-data handling to
	var where []*ssa.Function
	for _, f := range pkgReach(pull) {
		if f == pull || (f.Object() != nil && !f.Object().Exported()) {
			where = append(where, f)
		}
	}
	for _, wf := range where {
		for _, b := range wf.Blocks {
			for _, ins := range b.Instrs {
				u, ok := ins.(*ssa.UnOp)
				if !ok || !isGlobalLoad(u, "io", "EOF") {
					continue
				}
				// an assignment of io.EOF (not a comparison with it)
				assigned := false
				for _, r := range *u.Referrers() {
					switch r.(type) {
					case *ssa.Phi, *ssa.Return, *ssa.Store:
						assigned = true
					}
				}
				if !assigned {
					continue
				}
				n++
				for _, flag := range []string{"AutoClear", "AutoClean"} {
					key := fmt.Sprintf("morass.(*Morass).Pull/EOF#%d/%s", n, flag)
					found := false
					for d := b; d != nil; d = d.Idom() {
						ifi, ok := d.Instrs[len(d.Instrs)-1].(*ssa.If)
						if !ok {
							continue
						}
						if ld, ok := ifi.Cond.(*ssa.UnOp); ok && ld.Op == token.MUL {
							if name, ok := fieldOf(ld.X, morassPkg, "Morass"); ok && name == flag && d != b {
								found = true
							}
						}
					}
					if found {
						c.ok(rule, key, u.Pos(), "this end-of-data branch tests "+flag)
					} else {
						what := "run files stay in the temporary directory"
						if flag == "AutoClean" {
							what = "the temporary directory is left behind after the sorter was drained"
						}
						c.bad(rule, key, u.Pos(), "this end-of-data branch of Pull returns io.EOF without testing "+flag+": "+what)
					}
				}
			}
		}
	}
	if n < 1 {
		c.und(rule, "morass.(*Morass).Pull/EOF", pull.Pos(), "no end-of-data branch (a place that hands out io.EOF) found in Pull or its helpers")
	}
	// CleanUp removes m.dir
	cu := c.fn("morass", "(*Morass).CleanUp")
	ok := false
	for _, b := range cu.Blocks {
		for _, ins := range b.Instrs {
			if call, isCall := ins.(*ssa.Call); isCall && calleeIs(&call.Call, "os", "RemoveAll") {
				if ld, isLd := call.Call.Args[0].(*ssa.UnOp); isLd {
					if name, isF := fieldOf(ld.X, morassPkg, "Morass"); isF && name == "dir" {
						ok = true
					}
				}
			}
		}
	}
	if ok {
		c.ok(rule, "morass.(*Morass).CleanUp/removes-dir", cu.Pos(), "os.RemoveAll(m.dir)")
	} else {
		c.bad(rule, "morass.(*Morass).CleanUp/removes-dir", cu.Pos(), "CleanUp does not remove the sorter's temporary directory")
	}
}

// sameLoadIn: a and b are one value, or two loads of one variable (a captured
// or spilled local) that f itself never stores to — a deferred closure testing
// `err != nil` and then passing err reads the variable twice.
func sameLoadIn(f *ssa.Function, a, b ssa.Value) bool {
	if a == b {
		return true
	}
	la, ok1 := a.(*ssa.UnOp)
	lb, ok2 := b.(*ssa.UnOp)
	if !ok1 || !ok2 || la.Op != token.MUL || lb.Op != token.MUL || la.X != lb.X {
		return false
	}
	switch la.X.(type) {
	case *ssa.FreeVar, *ssa.Alloc:
	default:
		return false
	}
	for _, blk := range f.Blocks {
		for _, ins := range blk.Instrs {
			if st, ok := ins.(*ssa.Store); ok && st.Addr == la.X {
				return false
			}
		}
	}
	return true
}
