package main

// Benign rewrites (and a few faults) for the rules added after the fourth
// round of seeded changes. The fault direction of most of these rules is
// exercised by replaying the R4-* seeded changes.
func init() {
	const (
		gff    = "io/featio/gff/gff.go"
		utils  = "seq/sequtils/utils.go"
		multi  = "seq/multi/multi.go"
		lett   = "alphabet/letters.go"
		alph   = "alphabet/alphabet.go"
		kmer   = "index/kmerindex/kmerindex.go"
		filt   = "align/pals/filter/filter.go"
		merge  = "align/pals/filter/merge.go"
		proc   = "concurrent/processor.go"
		gene   = "feat/gene/gene.go"
		nwaff  = "align/nw_affine_letters.go"
		nwaffq = "align/nw_affine_qletters.go"
	)
	add := func(prop string, vs ...variant) { selftests[prop] = append(selftests[prop], vs...) }

	add("C02",
		variant{Name: "gff-feature-len-inclusive", File: gff, Find: "func (g *Feature) Len() int   { return g.FeatEnd - g.FeatStart }", Replace: "func (g *Feature) Len() int   { return g.FeatEnd - g.FeatStart + 1 }", Rule: "intervalcoherent", Key: "io/featio/gff.Feature/End==Start+Len"},
		variant{Name: "benign-span-check-in-text-coordinates", File: gff, Find: "\tgff := &Feature{\n\t\tSeqName:    string(fields[nameField]),", Replace: "\tif start > mustAtoi(fields, endField, r.line) {\n\t\treturn nil, &csv.ParseError{Line: r.line, Column: endField, Err: ErrBadFeature}\n\t}\n\tgff := &Feature{\n\t\tSeqName:    string(fields[nameField]),"},
		variant{Name: "benign-span-check-in-feature-coordinates", File: gff, Find: "\tgff := &Feature{\n\t\tSeqName:    string(fields[nameField]),", Replace: "\tif feat.OneToZero(start) >= mustAtoi(fields, endField, r.line) {\n\t\treturn nil, &csv.ParseError{Line: r.line, Column: endField, Err: ErrBadFeature}\n\t}\n\tgff := &Feature{\n\t\tSeqName:    string(fields[nameField]),"},
	)
	add("C03",
		variant{Name: "benign-metaline-with-its-own-converter", File: gff, Find: "func (r *Reader) commentMetaline(line []byte) (f feat.Feature, err error) {\n\tfields := bytes.Split(line, []byte{' '})\n", Replace: "func (r *Reader) commentMetaline(line []byte) (f feat.Feature, err error) {\n\tdefer handlePanic(&f, &err)\n\tfields := bytes.Split(line, []byte{' '})\n"},
		variant{Name: "solexa-table-subscript-unnarrowed", File: lett, Find: "\t\treturn (Qsolexa(q) - 64).Qphred()\n", Replace: "\t\treturn solexaPhredTable[int(q)-64+128]\n", Rule: "arrayrange", Key: "alphabet.(Encoding).DecodeToQphred"},
		variant{Name: "benign-solexa-table-subscript-guarded", File: lett, Find: "\t\treturn (Qsolexa(q) - 64).Qphred()\n", Replace: "\t\tif q >= 0xc0 {\n\t\t\treturn 0xff\n\t\t}\n\t\treturn solexaPhredTable[int(q)-64+128]\n"},
	)
	add("C06",
		variant{Name: "compose-extent-not-clamped", File: utils, Find: "\t\tl := max(0, min(f.End(), end)-max(f.Start(), offset))\n", Replace: "\t\tl := min(f.End(), end) - max(f.Start(), offset)\n", Rule: "nonneglen", Key: "sequtils.Compose/Make"},
		variant{Name: "benign-compose-extent-clamped-by-if", File: utils, Find: "\t\tl := max(0, min(f.End(), end)-max(f.Start(), offset))\n", Replace: "\t\tl := min(f.End(), end) - max(f.Start(), offset)\n\t\tif l < 0 {\n\t\t\tl = 0\n\t\t}\n"},
		variant{Name: "trim-start-moved-on-reset", File: utils, Find: "\t\t\tsum, begin = 0, i+1\n", Replace: "\t\t\tsum, start = 0, i+1\n", Rule: "trimwindow", Key: "sequtils.Trim/start-committed-with-end", More: []edit{{utils, "\t\t\tmax, start, end = sum, begin, i+1\n", "\t\t\tmax, end = sum, i+1\n"}}},
		variant{Name: "trim-start-not-from-sequence-start", File: utils, Find: "\tbegin := q.Start()\n\tstart, end = begin, begin\n", Replace: "\tbegin := q.Start()\n\tend = begin\n", Rule: "trimwindow", Key: "sequtils.Trim/start-initialised-from-Start()"},
		variant{Name: "benign-trim-best-window-in-locals", File: utils, Find: "\tstart, end = begin, begin\n\tfor i := q.Start(); i < q.End(); i++ {\n\t\tsum += limit - q.EAt(i)\n\t\tif sum < 0 {\n\t\t\tsum, begin = 0, i+1\n\t\t}\n\t\tif sum >= max {\n\t\t\tmax, start, end = sum, begin, i+1\n\t\t}\n\t}\n\treturn\n", Replace: "\tbestStart, bestEnd := begin, begin\n\tfor i := q.Start(); i < q.End(); i++ {\n\t\tsum += limit - q.EAt(i)\n\t\tif sum < 0 {\n\t\t\tsum, begin = 0, i+1\n\t\t}\n\t\tif sum >= max {\n\t\t\tmax, bestStart, bestEnd = sum, begin, i+1\n\t\t}\n\t}\n\treturn bestStart, bestEnd\n"},
		variant{Name: "benign-compose-ranges-over-features", File: utils, Find: "\tfor i, ts := range t {\n\t\tif f, ok := ff[i].(feat.Orienter); ok && f.Orientation() == feat.Reverse {", Replace: "\tfor i, fi := range ff {\n\t\tts := t[i]\n\t\tif f, ok := fi.(feat.Orienter); ok && f.Orientation() == feat.Reverse {"},
	)
	add("C07",
		variant{Name: "subseq-rows-by-reflect-new", File: multi, Find: "\t\trs, ok := r.Clone().(sequtils.Sliceable)\n\t\tif !ok {\n\t\t\treturn nil, fmt.Errorf(\"multi: cannot take subsequence of %T\", r)\n\t\t}\n", Replace: "\t\trs := reflect.New(reflect.TypeOf(r)).Interface().(sequtils.Sliceable)\n", Rule: "reflectnew", Key: "multi.(*Multi).Subseq/reflect.New"},
		variant{Name: "benign-isflush-two-independent-tests", File: multi,
			Find:    "\tvar start, end int\n\tfor i, r := range m.Seq {\n\t\tif lt, rt := r.Start(), r.End(); i > 0 &&\n\t\t\t((lt != start && where&seq.Start != 0) ||\n\t\t\t\t(rt != end && where&seq.End != 0)) {\n\t\t\treturn false\n\t\t} else if i == 0 {\n\t\t\tstart, end = lt, rt\n\t\t}\n\t}\n\treturn true\n",
			Replace: "\tstart, end := m.Seq[0].Start(), m.Seq[0].End()\n\tfor _, r := range m.Seq[1:] {\n\t\tif where&seq.Start != 0 && r.Start() != start {\n\t\t\treturn false\n\t\t}\n\t\tif where&seq.End != 0 && r.End() != end {\n\t\t\treturn false\n\t\t}\n\t}\n\treturn true\n"},
		variant{Name: "benign-repeat-doubling-by-watermark", File: lett, Find: "\t\tr[0] = l\n\t\tfor i := 1; i < len(r); {\n\t\t\ti += copy(r[i:], r[:i])\n\t\t}\n", Replace: "\t\tr[0] = l\n\t\tfor n := 1; n < len(r); n *= 2 {\n\t\t\tcopy(r[n:], r[:n])\n\t\t}\n"},
	)
	layerFind := "\tbest := t[0]\n\tfor i, s := range t[1:] {\n\t\tif s > best {\n\t\t\tbest, layer = s, i+1\n\t\t}\n\t}\n"
	layerRepl := "\tif t[up] > t[layer] {\n\t\tlayer = up\n\t}\n\tif t[left] > t[layer] {\n\t\tlayer = left\n\t}\n"
	add("C08", variant{Name: "benign-start-layer-chained-comparisons", File: nwaff, Find: layerFind, Replace: layerRepl, More: []edit{{nwaffq, layerFind, layerRepl}}})
	add("C10",
		variant{Name: "benign-positions-copied-by-append", File: kmer, Find: "\tpositions = make([]int, j-i)\n\tfor l, p := range ki.pos[i:j] {\n\t\tpositions[l] = int(p)\n\t}\n\n\treturn\n", Replace: "\treturn append([]int(nil), ki.pos[i:j]...), nil\n"},
		variant{Name: "benign-preload-bound-hoisted", File: kmer, Find: "\tfor ; basePosition < start+ki.k-1; basePosition++ {", Replace: "\tfor preload := start + ki.k - 1; basePosition < preload; basePosition++ {"},
	)
	add("C14",
		variant{Name: "tube-end-without-overlap-step", File: filt, Find: "\tdiagIndex := f.diagIndex(f.target.Len()-1, q-1) - f.maxError\n", Replace: "\tdiagIndex := f.diagIndex(f.target.Len()-1, q-1)\n", Rule: "tubeend", Key: "filter.(*Filter).tubeEnd/retired-diagonal"},
		variant{Name: "flush-from-query-end", File: filt, Find: "\tlast := query.Len() - f.k\n", Replace: "\tlast := query.Len() - 1\n", Rule: "flushrange", Key: "filter.(*Filter).Filter/final-tubeEnd"},
		variant{Name: "flush-a-tube-width-lower", File: filt, Find: "\tdiagFrom := f.diagIndex(f.target.Len()-1, last) - f.maxError\n", Replace: "\tdiagFrom := f.diagIndex(f.target.Len()-1, last) - tubeWidth\n", Rule: "flushrange", Key: "filter.(*Filter).Filter/flush-range"},
		variant{Name: "benign-flush-from-lowest-reachable-diagonal", File: filt, Find: "\tdiagFrom := f.diagIndex(f.target.Len()-1, last) - f.maxError\n", Replace: "\tdiagFrom := f.diagIndex(f.target.Len()-1, last)\n"},
		variant{Name: "benign-ring-size-as-ceiling", File: filt, Find: "\tmaxActiveTubes := (f.target.Len()+tubeWidth-1)/f.tubeOffset + 1\n", Replace: "\tmaxActiveTubes := (f.target.Len() + tubeWidth + f.tubeOffset - 1) / f.tubeOffset\n"},
	)
	add("C15",
		variant{Name: "benign-self-guard-inlined-negation", File: merge, Find: "\tLeft := -h.Diagonal\n\tif m.selfComparison && Left <= m.filterParams.MaxError {\n\t\treturn\n\t}\n", Replace: "\tif m.selfComparison && -h.Diagonal <= m.filterParams.MaxError {\n\t\treturn\n\t}\n\tLeft := -h.Diagonal\n"},
	)
	add("C17",
		variant{Name: "benign-index-cleared-in-both-branches", File: alph, Find: "\tfor i := range a.index {\n\t\ta.index[i] = -1\n\t}\n\n\tif caseSensitive {\n\t\ta.letters = letters\n", Replace: "\tif caseSensitive {\n\t\tfor i := range a.index {\n\t\t\ta.index[i] = -1\n\t\t}\n\t\ta.letters = letters\n",
			More: []edit{{alph, "\ta.letters = strings.ToLower(letters) + strings.ToUpper(letters)\n", "\tfor i := range a.index {\n\t\ta.index[i] = -1\n\t}\n\ta.letters = strings.ToLower(letters) + strings.ToUpper(letters)\n"}}},
	)
	add("C18",
		variant{Name: "solexa-phred-table-without-plus-one", File: lett, Find: "math.Log10(math.Pow(10, float64(qs)/10)+1)", Replace: "math.Log10(math.Pow(10, float64(qs)/10))", Rule: "convformula", Key: "alphabet.solexaPhredTable/log-argument"},
		variant{Name: "benign-decode-offset-from-helper", File: lett, Find: "\tcase Sanger, Illumina1_8, Illumina1_9:\n\t\treturn Qphred(q) - 33\n\tcase Illumina1_3, Illumina1_5:\n\t\treturn Qphred(q) - 64\n", Replace: "\tcase Sanger, Illumina1_8, Illumina1_9, Illumina1_3, Illumina1_5:\n\t\treturn Qphred(q - e.offset())\n",
			More: []edit{{lett, "// DecodeToPhred interprets the byte q as an e encoded quality and returns the corresponding Phred score.", "func (e Encoding) offset() byte {\n\tswitch e {\n\tcase Sanger, Illumina1_8, Illumina1_9:\n\t\treturn 33\n\tcase Solexa, Illumina1_3, Illumina1_5:\n\t\treturn 64\n\t}\n\treturn 0\n}\n\n// DecodeToPhred interprets the byte q as an e encoded quality and returns the corresponding Phred score."}}},
	)
	add("C19",
		variant{Name: "benign-workers-counted-before-the-loop", File: proc, Find: "\tfor i := 0; i < threads; i++ {\n\t\tp.wg.Add(1)\n\t\tgo func() {", Replace: "\tp.wg.Add(threads)\n\tfor i := 0; i < threads; i++ {\n\t\tgo func() {"},
	)
	add("C20",
		variant{Name: "exon-end-inclusive", File: gene, Find: "func (e Exon) End() int { return e.Offset + e.Length }", Replace: "func (e Exon) End() int { return e.Offset + e.Length - 1 }", Rule: "intervalcoherent", Key: "feat/gene.Exon/End==Start+Len"},
		variant{Name: "benign-exon-len-from-ends", File: gene, Find: "func (e Exon) Len() int { return e.Length }", Replace: "func (e Exon) Len() int { return e.End() - e.Start() }"},
		variant{Name: "benign-zero-start-accepting-branch", File: gene, Find: "\tif newExons.Start() != 0 {\n\t\treturn newExons, errors.New(\"no exon with a zero start\")\n\t}\n\treturn newExons, nil\n", Replace: "\tif newExons.Start() == 0 {\n\t\treturn newExons, nil\n\t}\n\treturn newExons, errors.New(\"no exon with a zero start\")\n"},
	)
}
