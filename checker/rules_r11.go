// Round 11 rules.
package main

import (
	"fmt"
	"go/token"
	"go/types"
	"sort"
	"strings"

	"golang.org/x/tools/go/ssa"
)

// ---- seqbounds (C09): the aligners subscript their sequences and the border of the table within bounds ----

// ruleSeqBounds decides, for every subscript of the two sequence parameters
// of an aligner body and every straight-line subscript of its DP table whose
// position is a linear function of the two sequence lengths, that the
// position lies within bounds for all lengths (including zero) that satisfy
// the comparisons dominating the access. Inside a loop the first iteration is
// judged: the counters of the enclosing loops are replaced by their initial
// values, in the subscript and in the dominating comparisons alike (the first
// iteration runs only if those held for the initial values). The decision is
// exhaustive over lengths 0..5 — the forms are linear with coefficients of
// magnitude one and constants of at most two, so a failure, if there is one,
// shows at a length of zero or one — and a violation names the lengths.
// Subscripts whose form mentions anything else (a counter after its loop, a
// product) are outside the rule, and so is a subscript dominated by a
// comparison that involves the lengths but cannot be written in that form;
// comparisons about other things (the matrix size, an error value) are ignored.
// len(table) is understood as the product of the two dimensions.
func ruleSeqBounds(c *Ctx, rule string, fns []*ssa.Function) {
	skipped := 0
	for _, fn := range fns {
		c.Funcs[funcName(fn)] = true
		var seqs []*ssa.Parameter
		for _, p := range fn.Params {
			if isNamed(p.Type(), modPath+"/alphabet", "Letters") || isNamed(p.Type(), modPath+"/alphabet", "QLetters") {
				seqs = append(seqs, p)
			}
		}
		if len(seqs) != 2 {
			c.und(rule, funcName(fn)+"/sequences", fn.Pos(), "the aligner body does not take two sequences")
			continue
		}
		// the table: a slice made with a product of two lengths; len(table) is the atom #table
		var table *ssa.MakeSlice
		for _, b := range fn.Blocks {
			for _, ins := range b.Instrs {
				if mk, ok := ins.(*ssa.MakeSlice); ok && table == nil {
					if m, ok := mk.Len.(*ssa.BinOp); ok && m.Op == token.MUL && m.X != m.Y {
						table = mk
					}
				}
			}
		}
		env := &linEnv{forms: map[*ssa.Parameter]lin{}, names: map[*ssa.Parameter]string{}}
		env.alias = func(v ssa.Value) (string, bool) {
			if cl := builtinCall(v, "len"); cl != nil && table != nil && cl.Call.Args[0] == ssa.Value(table) {
				return "#table", true
			}
			return "", false
		}
		lenAtoms := []string{"len(" + seqs[0].Name() + ")", "len(" + seqs[1].Name() + ")"}
		isLenAtom := func(a string) bool { return a == lenAtoms[0] || a == lenAtoms[1] || a == "#table" }
		aboutLengths := func(l lin) bool {
			for a := range l.coef {
				if strings.Contains(a, lenAtoms[0]) || strings.Contains(a, lenAtoms[1]) || strings.Contains(a, "#table") {
					return true
				}
			}
			return false
		}
		loops := naturalLoops(fn)
		counters := map[string]bool{} // the loop-carried values of fn
		for _, l := range loops {
			for _, ins := range l.head.Instrs {
				phi, ok := ins.(*ssa.Phi)
				if !ok {
					break
				}
				counters[symName(phi, env)] = true
			}
		}
		// the initial values of the counters of the loops around blk
		initsAt := func(blk *ssa.BasicBlock) map[string]lin {
			m := map[string]lin{}
			for _, l := range loops {
				if !l.body[blk] {
					continue
				}
				for _, ins := range l.head.Instrs {
					phi, ok := ins.(*ssa.Phi)
					if !ok {
						break
					}
					var init ssa.Value
					n := 0
					for i, p := range l.head.Preds {
						if !l.body[p] {
							init = phi.Edges[i]
							n++
						}
					}
					if n == 1 {
						m[symName(phi, env)] = linOf(init, env)
					}
				}
			}
			return m
		}
		resolve := func(l lin, inits map[string]lin) (lin, bool) {
			for round := 0; round < 4; round++ {
				changed := false
				for a := range l.coef {
					if r, ok := inits[a]; ok {
						l = l.subst(a, r)
						changed = true
						break
					}
				}
				if !changed {
					break
				}
			}
			for a := range l.coef {
				if !isLenAtom(a) {
					return l, false
				}
			}
			return l, true
		}
		var dimX, dimY lin
		if table != nil {
			m := table.Len.(*ssa.BinOp)
			x, okx := resolve(linOf(m.X, env), nil)
			y, oky := resolve(linOf(m.Y, env), nil)
			if okx && oky && x.coef["#table"] == 0 && y.coef["#table"] == 0 {
				dimX, dimY = x, y
			} else {
				table = nil
			}
		}
		eval := func(l lin, n0, n1 int64) int64 {
			v := l.k + l.coef[lenAtoms[0]]*n0 + l.coef[lenAtoms[1]]*n1
			if t := l.coef["#table"]; t != 0 {
				dx := dimX.k + dimX.coef[lenAtoms[0]]*n0 + dimX.coef[lenAtoms[1]]*n1
				dy := dimY.k + dimY.coef[lenAtoms[0]]*n0 + dimY.coef[lenAtoms[1]]*n1
				v += t * dx * dy
			}
			return v
		}
		keys := map[string]int{}
		n := 0
		type site struct {
			ia *ssa.IndexAddr
		}
		var sites []*ssa.IndexAddr
		for _, b := range fn.Blocks {
			for _, ins := range b.Instrs {
				if ia, ok := ins.(*ssa.IndexAddr); ok {
					sites = append(sites, ia)
				}
			}
		}
		sort.Slice(sites, func(i, j int) bool { return sites[i].Pos() < sites[j].Pos() })
		for _, ia := range sites {
			b := ia.Block()
			which := -1
			for i, p := range seqs {
				if ia.X == ssa.Value(p) {
					which = i
				}
			}
			isTable := table != nil && ia.X == ssa.Value(table)
			if which < 0 && !isTable {
				continue
			}
			inLoop := false
			for _, l := range loops {
				if l.body[b] {
					inLoop = true
				}
			}
			if isTable && inLoop {
				continue // the recurrence's cells are the subject of bordercover / tablezero
			}
			inits := initsAt(b)
			idx, ok := resolve(linOf(ia.Index, env), inits)
			if !ok {
				skipped++
				continue
			}
			var facts []lin
			lost := false
			for _, bf := range branchesAt(b) {
				if f, ok := strictForm(bf.cond, bf.edge, env); ok {
					if rf, ok := resolve(f, inits); ok {
						facts = append(facts, rf)
					} else if aboutLengths(rf) {
						// a comparison about the lengths that this rule cannot express — unless it is the exit test
						// of a loop that is over (its counter against a length), which bounds nothing here
						finished := false
						for a := range rf.coef {
							if counters[a] {
								finished = true
							}
						}
						if !finished {
							lost = true
						}
					}
					continue
				}
				// x != 0 for a length is x >= 1
				if k, isK := constIntVal(bf.cond.Y); isK && k == 0 && effectiveOp(bf, true) == token.NEQ {
					if rf, ok := resolve(linOf(bf.cond.X, env), inits); ok && len(rf.coef) == 1 && rf.k == 0 {
						for _, cf := range rf.coef {
							if cf == 1 {
								facts = append(facts, rf.scale(-1)) // -len < 0
							}
						}
					}
				}
			}
			if lost {
				skipped++
				continue
			}
			base := "table"
			if which >= 0 {
				base = seqs[which].Name()
			}
			n++
			key := numberedKey(keys, fmt.Sprintf("%s/%s[%s]", funcName(fn), base, idx.String()))
			bad := ""
		search:
			for n0 := int64(0); n0 <= 5; n0++ {
				for n1 := int64(0); n1 <= 5; n1++ {
					holds := true
					for _, f := range facts {
						if eval(f, n0, n1) >= 0 {
							holds = false
						}
					}
					if !holds {
						continue
					}
					var size int64
					switch {
					case which == 0:
						size = n0
					case which == 1:
						size = n1
					default:
						size = eval(dimX, n0, n1) * eval(dimY, n0, n1)
					}
					if v := eval(idx, n0, n1); v < 0 || v >= size {
						bad = fmt.Sprintf("with len(%s) = %d and len(%s) = %d the position is %d and the length %d", seqs[0].Name(), n0, seqs[1].Name(), n1, v, size)
						break search
					}
				}
			}
			first := ""
			if inLoop {
				first = " in the first round of its loop"
			}
			if bad != "" {
				var fs []string
				for _, f := range facts {
					fs = append(fs, f.String()+" < 0")
				}
				c.bad(rule, key, ia.Pos(), fmt.Sprintf("%s[%s]%s is out of range: %s, and nothing on the way here excludes those lengths (comparisons passed: %s): the aligner panics on that input instead of returning pairs or an error", base, idx.String(), first, bad, strings.Join(fs, ", ")))
			} else {
				c.ok(rule, key, ia.Pos(), fmt.Sprintf("%s[%s]%s is within bounds for all sequence lengths the dominating comparisons admit (decided for lengths 0..5 of both sequences)", base, idx.String(), first))
			}
		}
		if n == 0 {
			c.und(rule, funcName(fn)+"/subscripts", fn.Pos(), "no subscript of a sequence parameter with a position linear in the sequence lengths found")
		}
	}
	if skipped > 0 {
		c.Notes = append(c.Notes, fmt.Sprintf("%s: %d subscripts whose position is not a linear function of the two sequence lengths (a counter after its loop, a product) are outside the rule", rule, skipped))
	}
}

// ---- reusedview (C03, C01): nothing kept across rounds is a view of a buffer that is refilled in place ----

// ruleReusedView: a loop that truncates its line buffer to line[:0] and
// appends the next line to it overwrites the old bytes. Any other value the
// loop carries from one round to the next (the saved '@' label that the '+'
// line is compared with) must therefore be a copy: if it is the buffer itself,
// a sub-slice of it, or what bytes.TrimSpace and its relatives return for it,
// it silently turns into the next line, and the comparison that is meant to
// reject a mismatching record compares the line with itself.
func ruleReusedView(c *Ctx, rule string, shorts ...string) {
	n := 0
	for _, short := range shorts {
		sp := c.SPkgs[c.pkg(short).PkgPath]
		for _, fn := range srcFuncs(sp) {
			for _, l := range naturalLoops(fn) {
				var heads []*ssa.Phi
				for _, ins := range l.head.Instrs {
					phi, ok := ins.(*ssa.Phi)
					if !ok {
						break
					}
					if isByteSlice(phi.Type()) {
						heads = append(heads, phi)
					}
				}
				for _, buf := range heads {
					// views of buf: sub-slices, trims, joins, appends onto it
					memo := map[ssa.Value]bool{}
					var view func(v ssa.Value, d int) bool
					view = func(v ssa.Value, d int) bool {
						if v == ssa.Value(buf) {
							return true
						}
						if d > 10 {
							return false
						}
						if r, ok := memo[v]; ok {
							return r
						}
						memo[v] = false
						res := false
						switch x := v.(type) {
						case *ssa.Slice:
							res = view(x.X, d+1)
						case *ssa.Phi:
							if x.Block() != l.head {
								for _, e := range x.Edges {
									res = res || view(e, d+1)
								}
							}
						case *ssa.Call:
							if cl := builtinCall(x, "append"); cl != nil {
								res = view(cl.Call.Args[0], d+1)
							} else if f := x.Call.StaticCallee(); f != nil && f.Pkg != nil && f.Pkg.Pkg.Path() == "bytes" && strings.HasPrefix(f.Name(), "Trim") && len(x.Call.Args) > 0 {
								res = view(x.Call.Args[0], d+1)
							}
						}
						memo[v] = res
						return res
					}
					// is the buffer refilled in place? an edge back into buf that is buf[:0] (or an append onto it)
					reused := false
					var reusePos token.Pos
					for i, e := range buf.Edges {
						if !l.body[l.head.Preds[i]] {
							continue
						}
						var walk func(v ssa.Value, d int)
						walk = func(v ssa.Value, d int) {
							if d > 6 {
								return
							}
							switch x := v.(type) {
							case *ssa.Slice:
								if k, ok := constIntVal(x.High); ok && k == 0 && view(x.X, 0) {
									reused = true
									reusePos = x.Pos()
								}
							case *ssa.Phi:
								if x.Block() != l.head {
									for _, e := range x.Edges {
										walk(e, d+1)
									}
								}
							}
						}
						walk(e, 0)
					}
					if !reused {
						continue
					}
					for _, other := range heads {
						if other == buf {
							continue
						}
						n++
						c.Funcs[funcName(fn)] = true
						name := other.Comment
						if name == "" {
							name = other.Name()
						}
						key := fmt.Sprintf("%s/%s-not-a-view-of-%s", funcName(fn), name, buf.Comment)
						var bad ssa.Value
						for i, e := range other.Edges {
							if l.body[l.head.Preds[i]] && e != ssa.Value(other) && view(e, 0) {
								bad = e
							}
						}
						if bad != nil {
							c.bad(rule, key, bad.Pos(), fmt.Sprintf("%s is kept for the following rounds of the loop as a view of %s, which is truncated to [:0] at %s and refilled in place: by the time it is compared with the next line it holds that line's own bytes, so a record whose '+' line names another read is accepted without error", name, buf.Comment, c.pos(reusePos)))
						} else {
							c.ok(rule, key, other.Pos(), fmt.Sprintf("%s never holds a view of the reused buffer %s: what is kept is copied first", name, buf.Comment))
						}
					}
				}
			}
		}
	}
	if n == 0 {
		c.und(rule, "reusedview", token.NoPos, "no loop that refills a line buffer in place while carrying another byte slice found")
	}
}

// ---- strandflip (C05): reverse-complementing negates the strand the sequence had ----

// ruleStrandFlip: a RevComp method that records a strand negates the strand as
// it was when the method was entered (the shape of the stored value is rule
// strandneg's): nothing RevComp calls on the way writes a Strand field —
// Reverse sets it to None, after which the negation is None as well and a
// second RevComp no longer restores the original.
func ruleStrandFlip(c *Ctx, rule string, shorts ...string) {
	n := 0
	var writes func(f *ssa.Function, d int, seen map[*ssa.Function]bool) token.Pos
	writes = func(f *ssa.Function, d int, seen map[*ssa.Function]bool) token.Pos {
		if f == nil || f.Blocks == nil || seen[f] || d > 3 {
			return token.NoPos
		}
		seen[f] = true
		for _, b := range f.Blocks {
			for _, ins := range b.Instrs {
				switch x := ins.(type) {
				case *ssa.Store:
					if fa, ok := x.Addr.(*ssa.FieldAddr); ok && fieldName(fa) == "Strand" {
						return x.Pos()
					}
				case ssa.CallInstruction:
					if g := x.Common().StaticCallee(); g != nil && inModule(g) {
						if p := writes(g, d+1, seen); p.IsValid() {
							return p
						}
					}
				}
			}
		}
		return token.NoPos
	}
	for _, short := range shorts {
		sp := c.SPkgs[c.pkg(short).PkgPath]
		for _, fn := range srcFuncs(sp) {
			if fn.Name() != "RevComp" || fn.Signature.Recv() == nil {
				continue
			}
			var stores []*ssa.Store
			for _, b := range fn.Blocks {
				for _, ins := range b.Instrs {
					if st, ok := ins.(*ssa.Store); ok {
						if fa, ok := st.Addr.(*ssa.FieldAddr); ok && fieldName(fa) == "Strand" {
							stores = append(stores, st)
						}
					}
				}
			}
			if len(stores) == 0 {
				continue // a container: its rows record their own strands
			}
			n++
			c.Funcs[funcName(fn)] = true
			key := funcName(fn) + "/strand-negated-once"
			why := ""
			var pos token.Pos
			for _, b := range fn.Blocks {
				for _, ins := range b.Instrs {
					ci, ok := ins.(ssa.CallInstruction)
					if !ok {
						continue
					}
					if g := ci.Common().StaticCallee(); g != nil && inModule(g) {
						if p := writes(g, 0, map[*ssa.Function]bool{}); p.IsValid() {
							why, pos = fmt.Sprintf("%s, which RevComp calls, writes the strand itself (%s): what is negated afterwards is no longer the strand the sequence had", g.Name(), c.pos(p)), ins.Pos()
						}
					}
				}
			}
			if why != "" {
				c.bad(rule, key, pos, why+": after RevComp the strand is not the opposite of what it was, and a second RevComp does not restore the annotation")
			} else {
				c.ok(rule, key, fn.Pos(), "nothing RevComp calls writes the strand before it is negated")
			}
		}
	}
	if n == 0 {
		c.und(rule, "strandflip", token.NoPos, "no RevComp method that records a strand found")
	}
}

// ---- thresholdagree (C07): a quality equal to the threshold is a good letter in every view ----

// ruleThresholdAgree: wherever a letter's quality is compared with a display
// threshold (the Threshold field of a quality sequence or alignment, or the
// threshold parameter of a QFilter), the letter counts as good for Q >=
// threshold. The row view goes through the QFilter functions and the column
// view compares for itself: if one of them is strict, a letter whose quality
// equals the threshold is the letter in one view and the ambiguity letter in
// the other, so a column no longer shows the row's entry.
func ruleThresholdAgree(c *Ctx, rule string, shorts ...string) {
	n := 0
	keys := map[string]int{}
	isQ := func(v ssa.Value) bool {
		switch x := v.(type) {
		case *ssa.Field:
			return fieldNameOfStruct(x) == "Q" && isNamed(x.X.Type(), modPath+"/alphabet", "QLetter")
		case *ssa.UnOp:
			if fa, ok := x.X.(*ssa.FieldAddr); ok && x.Op == token.MUL {
				if fieldName(fa) != "Q" {
					return false
				}
				if pt, ok := fa.X.Type().Underlying().(*types.Pointer); ok {
					return isNamed(pt.Elem(), modPath+"/alphabet", "QLetter")
				}
			}
		}
		return false
	}
	isThreshold := func(v ssa.Value) bool {
		if !isNamed(v.Type(), modPath+"/alphabet", "Qphred") {
			return false
		}
		switch x := v.(type) {
		case *ssa.Parameter:
			return true
		case *ssa.UnOp:
			if fa, ok := x.X.(*ssa.FieldAddr); ok && x.Op == token.MUL {
				return fieldName(fa) == "Threshold"
			}
		case *ssa.Field:
			return fieldNameOfStruct(x) == "Threshold"
		}
		return false
	}
	for _, short := range shorts {
		sp := c.SPkgs[c.pkg(short).PkgPath]
		for _, fn := range srcFuncs(sp) {
			for _, b := range fn.Blocks {
				for _, ins := range b.Instrs {
					bo, ok := ins.(*ssa.BinOp)
					if !ok {
						continue
					}
					op := bo.Op
					switch {
					case isQ(bo.X) && isThreshold(bo.Y):
					case isQ(bo.Y) && isThreshold(bo.X):
						op = flipOp(op)
					default:
						continue
					}
					n++
					c.Funcs[funcName(fn)] = true
					key := numberedKey(keys, funcName(fn)+"/quality-vs-threshold")
					if op == token.GEQ || op == token.LSS {
						c.ok(rule, key, bo.Pos(), "a quality equal to the threshold counts as good (Q >= threshold)")
					} else {
						c.bad(rule, key, bo.Pos(), "the letter's quality is compared with the threshold by Q "+op.String()+" threshold, the other views by Q >= threshold: a letter whose quality equals the threshold is shown as itself in a row and as the ambiguity letter in the column (or the reverse), so a column is not the rows' entries at that position")
					}
				}
			}
		}
	}
	if n < 2 {
		c.und(rule, "thresholdagree", token.NoPos, fmt.Sprintf("found %d comparisons of a quality with a threshold, expected at least the filter and the column view", n))
	}
}

// ---- carvecap (C07): columns carved from one block cannot grow into their neighbours ----

// ruleCarveCap: a column (an element of a [][]T) that is cut out of a larger
// block shared with other columns must be cut with a capacity limit
// (b[lo:hi:hi]); a plain b[:n] keeps the rest of the block as spare capacity,
// so a later append to that column — Add appends one letter to every column —
// writes into the column that follows it.
func ruleCarveCap(c *Ctx, rule string, shorts ...string) {
	n := 0
	keys := map[string]int{}
	for _, short := range shorts {
		sp := c.SPkgs[c.pkg(short).PkgPath]
		for _, fn := range srcFuncs(sp) {
			for _, b := range fn.Blocks {
				for _, ins := range b.Instrs {
					st, ok := ins.(*ssa.Store)
					if !ok {
						continue
					}
					ia, ok := st.Addr.(*ssa.IndexAddr)
					if !ok {
						continue
					}
					outer, ok := ia.X.Type().Underlying().(*types.Slice)
					if !ok {
						continue
					}
					if _, inner := outer.Elem().Underlying().(*types.Slice); !inner {
						continue
					}
					sl, ok := st.Val.(*ssa.Slice)
					if !ok {
						continue
					}
					// the block it is cut from: shared if it is carried round a loop or cut in more than one place
					shared := false
					if phi, ok := sl.X.(*ssa.Phi); ok {
						shared = true
						_ = phi
					} else if ap := builtinCall(sl.X, "append"); ap != nil {
						// the block grows round the loop (buf = append(buf, col...)) and the column is its tail
						if _, ok := ap.Call.Args[0].(*ssa.Phi); ok {
							shared = true
						}
					} else if refs := sl.X.Referrers(); refs != nil {
						cuts := 0
						for _, r := range *refs {
							if _, ok := r.(*ssa.Slice); ok {
								cuts++
							}
						}
						if _, isMake := sl.X.(*ssa.MakeSlice); isMake && cuts > 1 {
							shared = true
						}
					}
					if !shared {
						continue
					}
					n++
					c.Funcs[funcName(fn)] = true
					key := numberedKey(keys, funcName(fn)+"/column-cut-from-shared-block")
					if sl.Max != nil {
						c.ok(rule, key, sl.Pos(), "the column is cut with a capacity limit")
					} else {
						c.bad(rule, key, sl.Pos(), "a column is cut out of a block shared with the other columns without a capacity limit (b[:n] rather than b[:n:n]): its spare capacity is the next column's letters, so appending a row to this alignment (Add appends to every column) overwrites row 0 of the following column")
					}
				}
			}
		}
	}
	if n == 0 {
		c.triv(rule, "carvecap", token.NoPos, "no column is cut out of a shared block")
	}
}

// ---- nilalpha (C09): an argument's alphabet is used only after it has been found non-nil ----

// ruleNilAlpha: the alphabet of a sequence argument may be nil (a sequence
// without one); the aligners promise ErrNoAlphabet / ErrMismatchedAlphabets
// for that, not a nil dereference. Every method invoked on the result of an
// Alphabet() call inside an aligner's entry point (or a private helper it
// reaches) is dominated by a comparison that found that very value non-nil.
func ruleNilAlpha(c *Ctx, rule string, entries []*ssa.Function) {
	n := 0
	for _, entry := range entries {
		keys := map[string]int{}
		for _, fn := range privateReach(entry) {
			for _, b := range fn.Blocks {
				for _, ins := range b.Instrs {
					call, ok := ins.(*ssa.Call)
					if !ok || !call.Call.IsInvoke() {
						continue
					}
					src, ok := call.Call.Value.(*ssa.Call)
					if !ok || !src.Call.IsInvoke() || src.Call.Method.Name() != "Alphabet" {
						continue
					}
					n++
					c.Funcs[funcName(entry)] = true
					key := numberedKey(keys, fmt.Sprintf("%s/%s.%s()", funcName(entry), symName(src, nil), call.Call.Method.Name()))
					if knownNonNilAt(b, src) {
						c.ok(rule, key, call.Pos(), "the alphabet has been compared with nil on every path to this call")
					} else {
						c.bad(rule, key, call.Pos(), fmt.Sprintf("%s is invoked on the alphabet returned by %s, which nothing on the way here has found non-nil: a sequence without an alphabet makes the aligner panic with a nil dereference instead of returning ErrNoAlphabet or ErrMismatchedAlphabets", call.Call.Method.Name(), symName(src, nil)))
					}
				}
			}
		}
	}
	if n == 0 {
		c.und(rule, "nilalpha", token.NoPos, "no method is invoked on an argument's alphabet in the entry points")
	}
}

// knownNonNilAt: every path into blk has found v != nil (or equal to a value found non-nil).
func knownNonNilAt(blk *ssa.BasicBlock, v ssa.Value) bool {
	facts := branchesAt(blk)
	for _, bf := range facts {
		if bf.cond.X == v && isNilConst(bf.cond.Y) && effectiveOp(bf, true) == token.NEQ {
			return true
		}
		if bf.cond.Y == v && isNilConst(bf.cond.X) && effectiveOp(bf, true) == token.NEQ {
			return true
		}
	}
	for _, bf := range facts {
		if effectiveOp(bf, true) != token.EQL {
			continue
		}
		var other ssa.Value
		switch {
		case bf.cond.X == v:
			other = bf.cond.Y
		case bf.cond.Y == v:
			other = bf.cond.X
		default:
			continue
		}
		for _, bg := range facts {
			if (bg.cond.X == other && isNilConst(bg.cond.Y) || bg.cond.Y == other && isNilConst(bg.cond.X)) && effectiveOp(bg, true) == token.NEQ {
				return true
			}
		}
	}
	return false
}

// ---- repeatlen (C09): Repeat(n) hands back exactly n letters ----

// ruleRepeatLen: Letter.Repeat and QLetter.Repeat build the gap runs that
// Format pads its rows with; the two rows are of equal length only if a run
// asked for n letters has n letters. Every value returned is the slice made
// with length count (or cut to [:count]); a slice grown by append has
// whatever length the growing reached (doubling overshoots to a power of two).
func ruleRepeatLen(c *Ctx, rule string) {
	n := 0
	for _, name := range []string{"Letter.Repeat", "QLetter.Repeat"} {
		fn := c.fn("alphabet", name)
		c.Funcs[funcName(fn)] = true
		count := fn.Params[len(fn.Params)-1]
		key := funcName(fn) + "/result-has-count-elements"
		n++
		why := ""
		var pos token.Pos
		seen := map[ssa.Value]bool{}
		var check func(v ssa.Value, d int)
		check = func(v ssa.Value, d int) {
			if seen[v] || d > 8 {
				return
			}
			seen[v] = true
			switch x := v.(type) {
			case *ssa.Phi:
				for _, e := range x.Edges {
					check(e, d+1)
				}
			case *ssa.MakeSlice:
				if x.Len != ssa.Value(count) {
					why, pos = "the slice returned is made with a length other than count", x.Pos()
				}
			case *ssa.Slice:
				if x.High == ssa.Value(count) {
					return
				}
				if x.High == nil && x.Low == nil {
					check(x.X, d+1)
					return
				}
				why, pos = "the slice returned is cut to something other than [:count]", x.Pos()
			case *ssa.Const:
				if !x.IsNil() {
					why, pos = "a constant is returned", fn.Pos()
				}
			default:
				if cl := builtinCall(v, "append"); cl != nil {
					why, pos = "the slice returned has been grown by append, so its length is whatever the growing reached (doubling overshoots to the next power of two)", cl.Pos()
				} else {
					why, pos = "the slice returned is not the one made with length count", v.Pos()
				}
			}
		}
		for _, r := range returnsOf(fn) {
			if len(r.Results) == 1 {
				check(r.Results[0], 0)
			}
		}
		if why != "" {
			c.bad(rule, key, pos, why+": a gap run of n letters is rendered with a different number of letters, and the two rows Format produces are no longer of equal length")
		} else {
			c.ok(rule, key, fn.Pos(), "every value returned is the slice made with length count")
		}
	}
	if n == 0 {
		c.und(rule, "repeatlen", token.NoPos, "Repeat not found")
	}
}

// ---- capkept (C11): the sort buffer keeps its capacity ----

// ruleCapKept: the sorter decides "has this cycle spilled?" by comparing its
// position with cap(m.chunk), and spills when len(m.chunk) == cap(m.chunk):
// both rely on every buffer in circulation having capacity chunkSize. A buffer
// re-sliced from a non-zero low bound (m.chunk = m.chunk[1:]) loses capacity
// for good — and it is the shrunken buffer that goes back to the pool — so a
// later cycle regrows it by append to an arbitrary capacity and its spilled
// run is taken for an in-memory one and dropped. Every slice of the buffer
// that is stored back into m.chunk, sent to the pool or to the writer starts
// at 0.
func ruleCapKept(c *Ctx, rule string) {
	sp := c.SPkgs[c.pkg("morass").PkgPath]
	n := 0
	keys := map[string]int{}
	for _, fn := range srcFuncs(sp) {
		for _, b := range fn.Blocks {
			for _, ins := range b.Instrs {
				var v ssa.Value
				what := ""
				if st, ok := isChunkStore(ins); ok {
					v, what = st.Val, "stored back into m.chunk"
				} else if s, ok := ins.(*ssa.Send); ok && (loadOfField(s.Chan, morassPkg, "Morass", "pool") || loadOfField(s.Chan, morassPkg, "Morass", "writable")) {
					v, what = s.X, "handed to another owner"
				} else {
					continue
				}
				if !fromChunkField(v) {
					continue
				}
				// every slicing step between the field and v
				bad := token.NoPos
				steps := 0
				for x := v; ; {
					if sl, ok := x.(*ssa.Slice); ok {
						steps++
						if sl.Low != nil {
							if k, isK := constIntVal(sl.Low); !isK || k != 0 {
								bad = sl.Pos()
							}
						}
						x = sl.X
						continue
					}
					if ct, ok := x.(*ssa.ChangeType); ok {
						x = ct.X
						continue
					}
					break
				}
				if steps == 0 {
					continue
				}
				n++
				c.Funcs[funcName(fn)] = true
				key := numberedKey(keys, funcName(fn)+"/chunk-resliced-from-0")
				if bad.IsValid() {
					c.bad(rule, key, bad, "a slice of m.chunk that starts above 0 is "+what+": the buffer loses capacity for good, and it is this shrunken buffer that circulates through the pool; a later cycle regrows it by append to a capacity other than chunkSize, the spill test len == cap and the in-memory test pos < cap then disagree, and a spilled run is taken for an in-memory cycle and dropped")
				} else {
					c.ok(rule, key, ins.Pos(), "the buffer is re-sliced from 0: its capacity stays chunkSize")
				}
			}
		}
	}
	if n == 0 {
		c.und(rule, "capkept", token.NoPos, "no re-slicing of m.chunk found")
	}
	// and every buffer that enters circulation is made with capacity chunkSize
	for _, fn := range srcFuncs(sp) {
		for _, b := range fn.Blocks {
			for _, ins := range b.Instrs {
				st, ok := isChunkStore(ins)
				if !ok {
					continue
				}
				key := numberedKey(keys, funcName(fn)+"/chunk-store-has-capacity-chunkSize")
				isSize := func(v ssa.Value) bool {
					if loadOfField(v, morassPkg, "Morass", "chunkSize") {
						return true
					}
					prm, ok := v.(*ssa.Parameter)
					return ok && prm.Name() == "chunkSize"
				}
				var judge func(v ssa.Value, d int) string
				judge = func(v ssa.Value, d int) string {
					if d > 6 {
						return "a value this rule cannot trace"
					}
					switch x := v.(type) {
					case *ssa.Const:
						if x.IsNil() {
							return ""
						}
					case *ssa.MakeSlice:
						if isSize(x.Cap) {
							return ""
						}
						return "a slice made with a capacity other than chunkSize"
					case *ssa.ChangeType:
						return judge(x.X, d+1)
					case *ssa.Phi:
						for _, e := range x.Edges {
							if w := judge(e, d+1); w != "" {
								return w
							}
						}
						return ""
					case *ssa.Slice:
						if fromChunkField(x.X) {
							return "" // judged by the re-slicing clause
						}
						if al, ok := x.X.(*ssa.Alloc); ok {
							_ = al
							return "an empty or literal slice (sorter{}), whose capacity is whatever append chooses later"
						}
					case *ssa.Call:
						if cl := builtinCall(x, "append"); cl != nil && fromChunkField(cl.Call.Args[0]) {
							return ""
						}
					}
					if fromChunkField(v) || valueFromPool(v, 0) {
						return ""
					}
					return "a value that is neither made with capacity chunkSize, nor taken from the pool, nor a slice of the buffer itself"
				}
				if w := judge(st.Val, 0); w != "" {
					c.bad(rule, key, st.Pos(), "m.chunk is assigned "+w+": the spill test len == cap and the in-memory test pos < cap rely on every buffer in circulation having capacity chunkSize; with another capacity a cycle that has spilled is taken for an in-memory one and its run is dropped")
				} else {
					c.ok(rule, key, st.Pos(), "the buffer assigned has capacity chunkSize (made so, taken from the pool, or the buffer itself)")
				}
			}
		}
	}
}

// ---- closeowner (C19): only the sender closes the queue ----

// ruleCloseOwner: Map feeds its work queue from a goroutine it never joins;
// when a chunk fails, Map returns while that goroutine may still be blocked
// in (or about to reach) `queue <- chunk`. The queue may therefore be closed
// only by the goroutine that sends on it: a close reached from Map itself —
// directly, through Processor.Close on the processor built on that queue, or
// from a deferred function — lets the producer send on a closed channel, which
// panics the process instead of reporting the chunk's error.
func ruleCloseOwner(c *Ctx, rule string) {
	fn := c.fn("concurrent", "Map")
	c.Funcs[funcName(fn)] = true
	key := "concurrent.Map/queue-closed-only-by-its-sender"
	// channels made here and sent on by a goroutine started here
	type fed struct {
		ch     *ssa.MakeChan
		sender *ssa.Function
	}
	var feds []fed
	for _, b := range fn.Blocks {
		for _, ins := range b.Instrs {
			g, ok := ins.(*ssa.Go)
			if !ok {
				continue
			}
			mc, ok := g.Call.Value.(*ssa.MakeClosure)
			if !ok {
				continue
			}
			cl := mc.Fn.(*ssa.Function)
			for i, bv := range mc.Bindings {
				// the binding is the cell holding the channel, or the channel
				var ch *ssa.MakeChan
				switch x := bv.(type) {
				case *ssa.MakeChan:
					ch = x
				case *ssa.Alloc:
					for _, r := range *x.Referrers() {
						if st, ok := r.(*ssa.Store); ok && st.Addr == ssa.Value(x) {
							if m, ok := st.Val.(*ssa.MakeChan); ok {
								ch = m
							}
						}
					}
				}
				if ch == nil {
					continue
				}
				fv := cl.FreeVars[i]
				sends := false
				for _, cb := range cl.Blocks {
					for _, ci := range cb.Instrs {
						if s, ok := ci.(*ssa.Send); ok {
							v := s.Chan
							if u, ok := v.(*ssa.UnOp); ok && u.Op == token.MUL {
								v = u.X
							}
							if v == ssa.Value(fv) {
								sends = true
							}
						}
					}
				}
				if sends {
					feds = append(feds, fed{ch, cl})
				}
			}
		}
	}
	if len(feds) == 0 {
		c.und(rule, key, fn.Pos(), "Map does not feed a channel from a goroutine")
		return
	}
	// is v the fed channel (through its cell, a free variable, or the processor built on it)?
	var isFed func(v ssa.Value, f fed, d int) bool
	isFed = func(v ssa.Value, f fed, d int) bool {
		if d > 6 {
			return false
		}
		switch x := v.(type) {
		case *ssa.MakeChan:
			return x == f.ch
		case *ssa.ChangeType:
			return isFed(x.X, f, d+1)
		case *ssa.UnOp:
			if x.Op == token.MUL {
				return isFed(x.X, f, d+1)
			}
		case *ssa.Alloc:
			for _, r := range *x.Referrers() {
				if st, ok := r.(*ssa.Store); ok && st.Addr == ssa.Value(x) && isFed(st.Val, f, d+1) {
					return true
				}
			}
		case *ssa.FreeVar:
			outer := x.Parent().Parent()
			if outer == nil {
				return false
			}
			for _, b := range outer.Blocks {
				for _, ins := range b.Instrs {
					if mc, ok := ins.(*ssa.MakeClosure); ok && mc.Fn == ssa.Value(x.Parent()) {
						for i, bv := range mc.Bindings {
							if x.Parent().FreeVars[i] == x && isFed(bv, f, d+1) {
								return true
							}
						}
					}
				}
			}
		case *ssa.Call:
			// the processor built on the queue
			if g := x.Call.StaticCallee(); g != nil && g.Name() == "NewProcessor" {
				for _, a := range x.Call.Args {
					if isFed(a, f, d+1) {
						return true
					}
				}
			}
		}
		return false
	}
	var bad token.Pos
	var scan func(g *ssa.Function)
	scan = func(g *ssa.Function) {
		for _, b := range g.Blocks {
			for _, ins := range b.Instrs {
				ci, ok := ins.(ssa.CallInstruction)
				if !ok {
					continue
				}
				cc := ci.Common()
				for _, f := range feds {
					if g == f.sender {
						continue
					}
					if bi, ok := cc.Value.(*ssa.Builtin); ok && bi.Name() == "close" && isFed(cc.Args[0], f, 0) {
						bad = ins.Pos()
					}
					if sf := cc.StaticCallee(); sf != nil && sf.Name() == "Close" && sf.Signature.Recv() != nil && len(cc.Args) > 0 && isFed(cc.Args[0], f, 0) {
						bad = ins.Pos()
					}
				}
			}
		}
		for _, an := range g.AnonFuncs {
			scan(an)
		}
	}
	scan(fn)
	if bad.IsValid() {
		c.bad(rule, key, bad, "Map closes the queue that its producer goroutine sends on, and nothing has waited for that goroutine: when a chunk fails with more chunks pending, the producer is still blocked in (or on its way to) the send when Map returns, and the send on the closed channel panics the process instead of Map reporting the error")
	} else {
		c.ok(rule, key, fn.Pos(), "nothing reached from Map other than the producer goroutine closes the queue")
	}
}

// ---- rangeoffset (C15): the covered mark goes to the trapezoid that was examined ----

// ruleRangeOffset: alignRecursion walks the trapezoids that follow the
// current one (k.trapezoids[k.slot+1:]) and marks those a hit covers in
// k.covered, which AlignTraps indexes by absolute trapezoid number. The
// subscript of the mark must therefore be the sub-slice's low bound plus the
// range counter; the counter alone marks trapezoid i instead of slot+1+i — an
// unrelated trapezoid that has not been aligned yet is then skipped and the
// repeat it seeds is never reported.
func ruleRangeOffset(c *Ctx, rule string) {
	pkg := modPath + "/align/pals/dp"
	fn := c.fn("align/pals/dp", "(*kernel).alignRecursion")
	c.Funcs[funcName(fn)] = true
	key := "dp.(*kernel).alignRecursion/covered-mark-is-absolute"
	env := &linEnv{forms: map[*ssa.Parameter]lin{}, names: map[*ssa.Parameter]string{}}
	n := 0
	root := fn
	for _, fn := range privateReach(root) {
		for _, b := range fn.Blocks {
			for _, ins := range b.Instrs {
				st, ok := ins.(*ssa.Store)
				if !ok {
					continue
				}
				ia, ok := st.Addr.(*ssa.IndexAddr)
				if !ok || !loadOfField(ia.X, pkg, "kernel", "covered") {
					continue
				}
				n++
				// the trapezoid examined in the loop this store sits in: read from k.trapezoids, or from a sub-slice of it
				var want lin
				found := false
				for _, l := range naturalLoops(fn) {
					if !l.body[b] {
						continue
					}
					for lb := range l.body {
						for _, li := range lb.Instrs {
							ea, ok := li.(*ssa.IndexAddr)
							if !ok {
								continue
							}
							if sl, ok := ea.X.(*ssa.Slice); ok && loadOfField(sl.X, pkg, "kernel", "trapezoids") {
								want = linOf(ea.Index, env)
								if sl.Low != nil {
									want = want.add(linOf(sl.Low, env), 1)
								}
								found = true
							} else if loadOfField(ea.X, pkg, "kernel", "trapezoids") {
								want = linOf(ea.Index, env)
								found = true
							}
						}
					}
				}
				if !found {
					c.und(rule, key, st.Pos(), "the mark is not made inside a loop that examines an element of k.trapezoids")
					continue
				}
				got := linOf(ia.Index, env)
				if got.equal(want) {
					c.ok(rule, key, st.Pos(), "the mark's subscript is the sub-slice's low bound plus the range counter: "+got.String())
				} else {
					c.bad(rule, key, st.Pos(), fmt.Sprintf("k.covered is indexed by absolute trapezoid number, but the mark for the trapezoid examined (number %s) is made at %s: another trapezoid, possibly one that has not been aligned yet, is marked covered and skipped by AlignTraps, so the repeat it seeds is not reported", want.String(), got.String()))
				}
			}
		}
	}
	if n == 0 {
		c.und(rule, key, root.Pos(), "no store into k.covered found")
	}
}

// ---- endcellplain (C08): the best end cell is the cell of maximal score, nothing else ----

// ruleEndCellPlain: the Smith-Waterman fill records the end of the best local
// alignment (score, row, column) whenever a cell's score reaches the best so
// far. The record is made under comparisons of that score only — with the best
// so far, with zero, or with the cell's own complete candidates when the score
// is their maximum (linear SW records a cell only if its diagonal candidate
// attains the maximum, i.e. the alignment ends on a letter pair, which loses
// nothing). Any other condition — such as "the maximum of the predecessor
// layers, before this letter pair is scored, was attained in the match layer" —
// leaves optimal alignments that end differently unrecorded, and a
// lower-scoring alignment is returned.
func ruleEndCellPlain(c *Ctx, rule string, fns []*ssa.Function) {
	for _, fn := range fns {
		c.Funcs[funcName(fn)] = true
		key := funcName(fn) + "/end-cell-recorded-on-score-alone"
		loops := naturalLoops(fn)
		counters := map[ssa.Value]bool{} // induction variables: loop-head phis stepped by a constant
		for _, l := range loops {
			for _, ins := range l.head.Instrs {
				phi, ok := ins.(*ssa.Phi)
				if !ok {
					break
				}
				for _, e := range phi.Edges {
					if q, _, ok := linearIn(e); ok && q == phi && e != ssa.Value(phi) {
						counters[phi] = true
					}
				}
			}
		}
		n := 0
		var bad *ssa.BinOp
		var badOther ssa.Value
		for _, m := range fn.Blocks {
			// a join whose phis take two loop counters (row, column) and a score from one predecessor
			for pi, pred := range m.Preds {
				var score ssa.Value
				best := map[ssa.Value]bool{}
				nCounters := 0
				for _, ins := range m.Instrs {
					phi, ok := ins.(*ssa.Phi)
					if !ok {
						break
					}
					e := phi.Edges[pi]
					// what the other predecessors bring: one and the same value (the best so far)
					var other ssa.Value
					same := true
					for qi, oe := range phi.Edges {
						if qi == pi {
							continue
						}
						if other == nil {
							other = oe
						} else if other != oe {
							same = false
						}
					}
					if !same || other == nil || other == e {
						continue
					}
					isCounter := func(v ssa.Value) bool {
						if counters[v] {
							return true
						}
						q, _, ok := linearIn(v)
						return ok && counters[q]
					}
					if isCounter(e) {
						if !isCounter(other) {
							nCounters++
						}
						continue
					}
					_, eK := e.(*ssa.Const)
					_, oK := other.(*ssa.Const)
					if isIntegral(phi.Type()) && !eK && !oK {
						score = e
						best[other] = true
					}
				}
				if nCounters < 2 || score == nil || len(m.Preds) < 2 {
					continue
				}
				// the loop this happens in
				var inner *ssaLoop
				for _, l := range loops {
					if l.body[pred] && (inner == nil || len(l.body) < len(inner.body)) {
						inner = l
					}
				}
				if inner == nil {
					continue
				}
				n++
				// the cell's own complete candidates, when its score is their maximum: asking which of them attains
				// it (a linear alignment that ends on a letter pair) is a question about this cell's score
				cands := map[ssa.Value]bool{}
				if call, ok := score.(*ssa.Call); ok {
					if g := call.Call.StaticCallee(); g != nil && strings.HasPrefix(g.Name(), "max") {
						for _, a := range call.Call.Args {
							cands[a] = true
						}
					}
				}
				allowed := func(v ssa.Value) bool {
					if v == score || best[v] || cands[v] {
						return true
					}
					_, isK := v.(*ssa.Const)
					return isK
				}
				for d := pred; d != nil && inner.body[d]; d = d.Idom() {
					if d == pred && len(d.Succs) == 2 {
						// pred itself branches to the join: its own test decides the record
					} else if d == pred {
						continue
					}
					ifi, ok := d.Instrs[len(d.Instrs)-1].(*ssa.If)
					if !ok {
						continue
					}
					if d != pred && forcedEdge(d, pred) < 0 {
						continue
					}
					bo, ok := ifi.Cond.(*ssa.BinOp)
					if !ok {
						badOther = ifi.Cond
						continue
					}
					// illegal-letter tests and loop bounds dominate everything in the body: only tests that can
					// still fall through to the rest of the body matter
					if rejectsFrom(d, d.Succs[0]) || rejectsFrom(d, d.Succs[1]) || d == inner.head {
						continue
					}
					// the exit test of a loop that has finished before the record (a clamp over the cell's layers)
					finished := false
					for _, l := range loops {
						if l.head == d && !l.body[pred] {
							finished = true
						}
					}
					if finished {
						continue
					}
					if !allowed(bo.X) || !allowed(bo.Y) {
						bad = bo
					}
				}
			}
		}
		if n == 0 {
			// the variables live in memory (a closure of the traceback captures i, j, maxI, maxJ and score):
			// the record is a block of stores
			n, bad, badOther = endCellRecordInMemory(fn, loops, counters)
		}
		switch {
		case n == 0:
			c.und(rule, key, fn.Pos(), "the record of the best end cell (score, row, column taken together from one branch) was not found")
		case bad != nil:
			c.bad(rule, key, bad.Pos(), "the best end cell is recorded only if, besides the comparison of the score with the best so far, "+symName(bad.X, nil)+" "+bad.Op.String()+" "+symName(bad.Y, nil)+" holds: a cell of maximal score that fails this test is not recorded, so an optimal local alignment ending there is never returned")
		case badOther != nil:
			c.bad(rule, key, badOther.Pos(), "the best end cell is recorded under a condition that is not a comparison of the score: an optimal local alignment that fails it is never returned")
		default:
			c.ok(rule, key, fn.Pos(), "the end cell is recorded under comparisons of the score (with the best so far, with zero) only")
		}
	}
}

// endCellRecordInMemory: the same judgement as above for variables that are not
// in registers: a block that stores two loop counters and a score into three
// other variables is the record; the tests in front of it inside its loop may
// only compare the score (any load of its variable, the candidates of the max
// that produced it) with the best so far (loads of the variable the score is
// stored into) or with constants.
func endCellRecordInMemory(fn *ssa.Function, loops []*ssaLoop, regCounters map[ssa.Value]bool) (n int, bad *ssa.BinOp, badOther ssa.Value) {
	loadOf := func(v ssa.Value) *ssa.Alloc {
		u, ok := v.(*ssa.UnOp)
		if !ok || u.Op != token.MUL {
			return nil
		}
		al, _ := u.X.(*ssa.Alloc)
		return al
	}
	// counters in memory: x = x + const
	counter := map[*ssa.Alloc]bool{}
	for _, b := range fn.Blocks {
		for _, ins := range b.Instrs {
			st, ok := ins.(*ssa.Store)
			if !ok {
				continue
			}
			al, ok := st.Addr.(*ssa.Alloc)
			if !ok {
				continue
			}
			if bo, ok := st.Val.(*ssa.BinOp); ok && (bo.Op == token.ADD || bo.Op == token.SUB) {
				if _, isK := bo.Y.(*ssa.Const); isK && loadOf(bo.X) == al {
					counter[al] = true
				}
			}
		}
	}
	for _, rb := range fn.Blocks {
		var scoreSrc ssa.Value
		var bestVar *ssa.Alloc
		nCounters := 0
		for _, ins := range rb.Instrs {
			st, ok := ins.(*ssa.Store)
			if !ok {
				continue
			}
			dst, ok := st.Addr.(*ssa.Alloc)
			if !ok || counter[dst] {
				continue
			}
			if src := loadOf(st.Val); src != nil && counter[src] {
				nCounters++
				continue
			}
			if regCounters[st.Val] {
				nCounters++ // a counter still in a register stored into a captured variable
				continue
			}
			if q, _, ok := linearIn(st.Val); ok && regCounters[q] {
				nCounters++
				continue
			}
			if _, isK := st.Val.(*ssa.Const); !isK && isIntegral(st.Val.Type()) {
				scoreSrc, bestVar = st.Val, dst
			}
		}
		// the best score itself may have stayed in a register: a phi of the join behind the record
		bestVals := map[ssa.Value]bool{}
		if scoreSrc == nil && nCounters >= 2 {
			for _, sb := range rb.Succs {
				for pi, pr := range sb.Preds {
					if pr != rb {
						continue
					}
					for _, ins := range sb.Instrs {
						phi, ok := ins.(*ssa.Phi)
						if !ok {
							break
						}
						e := phi.Edges[pi]
						if _, isK := e.(*ssa.Const); isK || !isIntegral(phi.Type()) || regCounters[e] {
							continue
						}
						scoreSrc = e
						bestVals[phi] = true
						for qi, oe := range phi.Edges {
							if qi != pi {
								bestVals[oe] = true
							}
						}
					}
				}
			}
		}
		if nCounters < 2 || scoreSrc == nil {
			continue
		}
		var inner *ssaLoop
		for _, l := range loops {
			if l.body[rb] && (inner == nil || len(l.body) < len(inner.body)) {
				inner = l
			}
		}
		if inner == nil {
			continue
		}
		n++
		scoreVar := loadOf(scoreSrc)
		cands := map[ssa.Value]bool{}
		if scoreVar != nil {
			for _, r := range *scoreVar.Referrers() {
				if st, ok := r.(*ssa.Store); ok && st.Addr == ssa.Value(scoreVar) {
					v := st.Val
					if bo, ok := v.(*ssa.BinOp); ok && bo.Op == token.ADD {
						v = bo.X
					}
					if call, ok := v.(*ssa.Call); ok {
						if g := call.Call.StaticCallee(); g != nil && strings.HasPrefix(g.Name(), "max") {
							for _, a := range call.Call.Args {
								cands[a] = true
							}
						}
					}
				}
			}
		}
		allowed := func(v ssa.Value) bool {
			if v == scoreSrc || cands[v] || bestVals[v] {
				return true
			}
			if _, isK := v.(*ssa.Const); isK {
				return true
			}
			if al := loadOf(v); al != nil && ((bestVar != nil && al == bestVar) || (scoreVar != nil && al == scoreVar)) {
				return true
			}
			return false
		}
		for d := rb.Idom(); d != nil && inner.body[d]; d = d.Idom() {
			ifi, ok := d.Instrs[len(d.Instrs)-1].(*ssa.If)
			if !ok || forcedEdge(d, rb) < 0 {
				continue
			}
			bo, ok := ifi.Cond.(*ssa.BinOp)
			if !ok {
				badOther = ifi.Cond
				continue
			}
			if rejectsFrom(d, d.Succs[0]) || rejectsFrom(d, d.Succs[1]) || d == inner.head {
				continue
			}
			finished := false
			for _, l := range loops {
				if l.head == d && !l.body[rb] {
					finished = true
				}
			}
			if finished {
				continue
			}
			if !allowed(bo.X) || !allowed(bo.Y) {
				bad = bo
			}
		}
	}
	return n, bad, badOther
}

// ---- tracelayer (C09): an affine traceback step is a transition of the layer it is in ----

// ruleTraceLayer: the affine aligners keep three layers per cell (match, gap
// in the query, gap in the reference). A cell of the gap-in-query layer can
// only have been reached from the cell above, a cell of the gap-in-reference
// layer only from the cell to the left, a cell of the match layer only from
// the diagonal cell. A traceback that compares table[p][layer], for a variable
// layer, with the predecessor formulas of all three kinds takes a move of
// another layer whenever the numbers happen to coincide: the path it reports is
// then not the path the score was computed along, and the pair scores no longer
// equal the scores recomputed from the letters (their sum still equals the
// optimum). Each comparison with a predecessor of one kind must be dominated
// by a test that the current layer is the layer of that kind.
func ruleTraceLayer(c *Ctx, rule string, fns []*ssa.Function) {
	for _, fn := range fns {
		c.Funcs[funcName(fn)] = true
		key := funcName(fn) + "/traceback-step-is-a-transition-of-its-layer"
		n := 0
		var bad *ssa.BinOp
		for _, b := range fn.Blocks {
			ifi, ok := b.Instrs[len(b.Instrs)-1].(*ssa.If)
			if !ok {
				continue
			}
			bo, ok := ifi.Cond.(*ssa.BinOp)
			if !ok || bo.Op != token.EQL {
				continue
			}
			// one side: a load of cell[layer] with a variable layer
			var layerVar ssa.Value
			for _, side := range []ssa.Value{bo.X, bo.Y} {
				ld, ok := side.(*ssa.UnOp)
				if !ok || ld.Op != token.MUL {
					continue
				}
				ia, ok := ld.X.(*ssa.IndexAddr)
				if !ok {
					continue
				}
				pt, ok := ia.X.Type().Underlying().(*types.Pointer)
				if !ok {
					continue
				}
				if arr, ok := pt.Elem().Underlying().(*types.Array); !ok || arr.Len() != 3 {
					continue
				}
				if _, isK := ia.Index.(*ssa.Const); !isK {
					layerVar = ia.Index
				}
			}
			if layerVar == nil {
				continue
			}
			n++
			// is the current layer known here?
			known := false
			for _, bf := range branchesAt(b) {
				if (bf.cond.X == layerVar || bf.cond.Y == layerVar) && effectiveOp(bf, true) == token.EQL {
					known = true
				}
			}
			if !known && bad == nil {
				bad = bo
			}
		}
		switch {
		case n == 0:
			c.triv(rule, key, fn.Pos(), "the traceback does not compare a cell of a variable layer with predecessor formulas")
		case bad != nil:
			c.bad(rule, key, bad.Pos(), fmt.Sprintf("the traceback compares the current cell's value in the current layer with predecessor formulas of every kind (%d comparisons) without testing which layer it is in: when the numbers coincide it takes a move that is not a transition of that layer, so the reported path is not the one the score was computed along and the pair scores differ from the scores recomputed from the letters (their sum still equals the optimum)", n))
		default:
			c.ok(rule, key, fn.Pos(), "every comparison with a predecessor formula is made where the current layer is known")
		}
	}
}

// ---- recorderr (C03): a reader never hands back neither a record nor an error ----

// ruleRecOrErr: every function of the reader packages with results
// (record, error) — Read itself and the helpers whose results it passes on —
// returns a non-nil error wherever it returns a nil record: no return
// statement has both results nil, be it as two nil constants or as a nil
// record with an error value that the paths into the return have found nil
// (or have just reset to nil). A (nil, nil) answer is neither a record nor an
// error; callers that loop until an error spin or stop silently.
func ruleRecOrErr(c *Ctx, rule string, shorts ...string) {
	n := 0
	keys := map[string]int{}
	for _, short := range shorts {
		sp := c.SPkgs[c.pkg(short).PkgPath]
		for _, fn := range srcFuncs(sp) {
			res := fn.Signature.Results()
			if res.Len() != 2 || !isErrorType(res.At(1).Type()) {
				continue
			}
			switch res.At(0).Type().Underlying().(type) {
			case *types.Interface, *types.Pointer:
			default:
				continue
			}
			// only the reading side: Read methods and what they call
			if fn.Name() != "Read" && !calledFromRead(fn, sp) {
				continue
			}
			for _, r := range returnsOf(fn) {
				rs := effectiveResults(r)
				if len(rs) != 2 || !isNilConst(rs[0]) {
					continue
				}
				n++
				c.Funcs[funcName(fn)] = true
				key := numberedKey(keys, funcName(fn)+"/nil-record-comes-with-an-error")
				if isNilConst(rs[1]) || knownNilAt(r.Block(), rs[1]) {
					c.bad(rule, key, r.Pos(), "this return hands back a nil record together with an error that is nil here: the caller gets neither a record nor an error, so a loop that reads until an error never sees the end of a truncated input (or stops silently)")
				} else {
					c.ok(rule, key, r.Pos(), "the nil record is returned with an error value that is not known to be nil")
				}
			}
		}
	}
	if n == 0 {
		c.und(rule, "recorderr", token.NoPos, "no return of a nil record found in the readers")
	}
}

// calledFromRead: fn is reached by static calls from a method named Read of its package.
func calledFromRead(fn *ssa.Function, sp *ssa.Package) bool {
	for _, g := range srcFuncs(sp) {
		if g.Name() != "Read" {
			continue
		}
		for _, h := range pkgReach(g) {
			if h == fn {
				return true
			}
		}
	}
	return false
}

// ---- coordspace (C06): positions and subscripts are not mixed ----

// ruleCoordSpace: Truncate, Stitch and Compose work in two coordinate systems:
// positions (what Start() and End() of the source and of the features return,
// and the start/end arguments) and subscripts of the letter slice (0..Len()).
// Subtracting the source's Start() from a position gives a subscript. Every
// integer expression is given a degree in "origin": 1 for a position, 0 for a
// length or subscript, sums and differences add and subtract degrees. The two
// arguments of a min, max or comparison have the same degree, and the bounds
// handed to Slice and Make have degree 0. min(f.e, pLen) — a position against a
// length — clips in the wrong system: with a source that does not start at 0
// the wrong letters (or none, or a panic) come out.
func ruleCoordSpace(c *Ctx, rule string) {
	for _, name := range []string{"Truncate", "Stitch", "Compose"} {
		fn := c.fn("seq/sequtils", name)
		c.Funcs[funcName(fn)] = true
		type deg struct {
			known bool
			wild  bool // a constant: fits anywhere
			d     int
		}
		memo := map[ssa.Value]deg{}
		busy := map[ssa.Value]bool{}
		var degree func(v ssa.Value) deg
		n := 0
		keys := map[string]int{}
		var bads []string
		report := func(kind string, pos token.Pos, ok bool, msg string) {
			n++
			key := numberedKey(keys, funcName(fn)+"/"+kind)
			if ok {
				c.ok(rule, key, pos, msg)
			} else {
				c.bad(rule, key, pos, msg)
				bads = append(bads, key)
			}
		}
		degree = func(v ssa.Value) deg {
			if d, ok := memo[v]; ok {
				return d
			}
			if busy[v] {
				return deg{}
			}
			busy[v] = true
			defer delete(busy, v)
			var out deg
			switch x := v.(type) {
			case *ssa.Const:
				out = deg{known: true, wild: true}
			case *ssa.Parameter:
				if isIntegral(x.Type()) && (x.Name() == "start" || x.Name() == "end") {
					out = deg{known: true, d: 1}
				}
			case *ssa.Convert:
				out = degree(x.X)
			case *ssa.Phi:
				first := true
				for _, e := range x.Edges {
					de := degree(e)
					if !de.known {
						out = deg{}
						first = false
						break
					}
					if de.wild {
						continue
					}
					if first {
						out, first = de, false
					} else if out.d != de.d {
						out = deg{}
						break
					}
				}
				if first {
					out = deg{known: true, wild: true}
				}
			case *ssa.BinOp:
				if x.Op == token.ADD || x.Op == token.SUB {
					a, b := degree(x.X), degree(x.Y)
					if a.known && b.known {
						s := 1
						if x.Op == token.SUB {
							s = -1
						}
						out = deg{known: true, d: a.d + s*b.d, wild: a.wild && b.wild}
					}
				}
			case *ssa.UnOp:
				if x.Op == token.MUL {
					if fa, ok := x.X.(*ssa.FieldAddr); ok {
						// a field of a local record (the merged spans): what is stored into that field
						nm := fieldName(fa)
						first := true
						conflict := false
						for _, g := range privateReach(fn) {
							for _, b := range g.Blocks {
								for _, ins := range b.Instrs {
									st, ok := ins.(*ssa.Store)
									if !ok {
										continue
									}
									fa2, ok := st.Addr.(*ssa.FieldAddr)
									if !ok || fieldName(fa2) != nm || !types.Identical(fa2.X.Type(), fa.X.Type()) {
										continue
									}
									de := degree(st.Val)
									if !de.known {
										conflict = true // something this rule cannot classify is stored there
										continue
									}
									if first || out.wild {
										out, first = de, false
									} else if !de.wild && de.d != out.d {
										conflict = true
									}
								}
							}
						}
						if conflict {
							// the record type is used for more than one coordinate system: its fields say nothing
							out = deg{}
						}
					}
				}
			case *ssa.Call:
				nm := ""
				if x.Call.IsInvoke() {
					nm = x.Call.Method.Name()
				} else if g := x.Call.StaticCallee(); g != nil {
					nm = g.Name()
				} else if b, ok := x.Call.Value.(*ssa.Builtin); ok {
					nm = b.Name()
				}
				switch nm {
				case "Start", "End":
					out = deg{known: true, d: 1}
				case "Len", "len", "cap":
					out = deg{known: true, d: 0}
				case "min", "max":
					args := x.Call.Args
					if len(args) == 2 {
						a, b := degree(args[0]), degree(args[1])
						switch {
						case a.known && b.known && !a.wild && !b.wild:
							if a.d == b.d {
								out = a
								report(nm, x.Pos(), true, "both arguments are in the same coordinate system")
							} else {
								report(nm, x.Pos(), false, fmt.Sprintf("%s compares a %s with a %s: the result clips in the wrong coordinate system, so for a source that does not start at position 0 the wrong letters are taken (or none, or the slice panics)", nm, degName(a.d), degName(b.d)))
							}
						case a.known && !a.wild:
							out = a
						case b.known && !b.wild:
							out = b
						case a.known && b.known:
							out = deg{known: true, wild: true}
						}
					}
				}
			}
			memo[v] = out
			return out
		}
		// evaluate every integer value once so that each min/max is judged, then the sinks
		for _, b := range fn.Blocks {
			for _, ins := range b.Instrs {
				if v, ok := ins.(ssa.Value); ok && isIntegral(v.Type()) {
					degree(v)
				}
			}
		}
		for _, b := range fn.Blocks {
			for _, ins := range b.Instrs {
				call, ok := ins.(*ssa.Call)
				if !ok || !call.Call.IsInvoke() {
					continue
				}
				m := call.Call.Method.Name()
				if m != "Slice" && m != "Make" {
					continue
				}
				for _, a := range call.Call.Args {
					if !isIntegral(a.Type()) {
						continue
					}
					d := degree(a)
					if !d.known || d.wild {
						continue
					}
					if d.d == 0 {
						report(m+"-bound", call.Pos(), true, "the bound is a subscript (a position minus the source's start, or a length)")
					} else {
						report(m+"-bound", call.Pos(), false, fmt.Sprintf("a bound handed to %s is a %s, not a subscript: the source's start has not been subtracted (or was subtracted twice), so for a source that does not start at position 0 the wrong letters are taken", m, degName(d.d)))
					}
				}
			}
		}
		if n == 0 {
			c.triv(rule, funcName(fn)+"/coordinates", fn.Pos(), "no min, max, Slice or Make with classifiable arguments in this function (its span records hold more than one coordinate system); the rule's instance floor guards against the rule matching nothing at all")
		}
	}
}

func degName(d int) string {
	switch d {
	case 0:
		return "length or subscript"
	case 1:
		return "position"
	}
	return fmt.Sprintf("quantity of origin degree %d", d)
}
