package main

import "golang.org/x/tools/go/ssa"

// Registrations and explanations of the rules added after the seventh round
// of seeded changes (DESIGN.md §10.6).
func init() {
	ioPkgs := []string{"io/seqio/fasta", "io/seqio/fastq", "io/featio/bed", "io/featio/gff"}
	for _, id := range []string{"C01", "C02"} {
		addRule(id, "constformat", 3, func(c *Ctx, r string) { ruleConstFormat(c, r, ioPkgs...) })
		addRule(id, "liveconfig", 2, func(c *Ctx, r string) { ruleLiveConfig(c, r, ioPkgs...) })
	}
	addRule("C03", "lineio/fragments", 3, func(c *Ctx, r string) { ruleFragments(c, r, "io/seqio/fasta", "io/seqio/fastq") })
	addRule("C05", "strictconverge", 2, func(c *Ctx, r string) { ruleStrictConverge(c, r, "seq/linear", "seq/alignment") })
	for _, id := range []string{"C05", "C07"} {
		addRule(id, "posindex", 0, func(c *Ctx, r string) { rulePosIndex(c, r, "seq/linear", "seq/alignment") })
	}
	addRule("C06", "appendfresh", 2, ruleAppendFresh)
	addRule("C06", "commitown", 3, func(c *Ctx, r string) { ruleCommitOwn(c, r, "Truncate", "Stitch", "Compose") })
	addRule("C07", "flagloop", 0, ruleFlagLoop)
	addRule("C07", "stepalways", 1, func(c *Ctx, r string) {
		ruleStepAlways(c, r, [][2]string{{"seq/multi", "(*Multi).AppendEach"}})
	})
	aligners := func(c *Ctx, names ...string) []*ssa.Function {
		var fns []*ssa.Function
		for _, a := range names {
			fns = append(fns, c.fn("align", a+".alignLetters"), c.fn("align", a+".alignQLetters"))
		}
		return fns
	}
	all := []string{"NW", "NWAffine", "SW", "SWAffine", "Fitted", "FittedAffine"}
	for _, id := range []string{"C08", "C09"} {
		addRule(id, "tiekeeps", 0, func(c *Ctx, r string) { ruleTieKeeps(c, r, aligners(c, all...)) })
		addRule(id, "foldinit", 2, func(c *Ctx, r string) {
			ruleFoldInit(c, r, [][2]string{{"align", "Fitted.alignLetters"}, {"align", "Fitted.alignQLetters"}, {"align", "FittedAffine.alignLetters"}, {"align", "FittedAffine.alignQLetters"}})
		})
	}
	addRule("C09", "scorezero", 4, func(c *Ctx, r string) { ruleScoreZero(c, r, aligners(c, all...)) })
	addRule("C10", "checkperkmer", 1, ruleCheckPerKmer)
	addRule("C10", "allkmers", 2, ruleAllKmers)
	addRule("C13", "cleanupremoves", 1, ruleCleanUpRemoves)
	addRule("C14", "scanalways", 1, ruleScanAlways)
	addRule("C16", "treefrommap", 1, ruleTreeFromMap)
	addRule("C16", "imagelocated", 1, ruleImageLocated)
	addRule("C17", "getterpure", 3, ruleGetterPure)
	addRule("C17", "argreadonly", 1, ruleArgReadOnly)
	addRule("C18", "arrayrange", 2, func(c *Ctx, r string) { ruleArrayRange(c, r, "alphabet", "seq/quality") })
	addRule("C19", "recoverdelivers", 0, ruleRecoverDelivers)
	addRule("C19", "setflagused", 1, ruleSetFlagUsed)
	addRule("C20", "exonsfrombuilder", 2, ruleExonsFromBuilder)

	extra := map[string]string{
		"C01": "constformat: the format argument of every fmt.Fprintf/Sprintf/Printf/Errorf in the four io packages is a constant. liveconfig: every exported Reader/Writer field that the methods never write is loaded in the call tree of the type's methods.",
		"C02": "constformat, liveconfig: as C01.",
		"C03": "lineio/fragments (as C01/C04) for the FASTA/FASTQ readers: a long line read in fragments is joined before anything is decided on it.",
		"C05": "strictconverge: the two-position loop of every RevComp runs on a strict comparison of its counters. posindex: a parameter used as a raw subscript of Seq never receives a value with an Offset/Start()/End() term at an in-package call. siblingarith: plain and quality-carrying sibling methods agree on the linear forms of subscripts, bounds and comparisons that mention their integer arguments, and of integer results.",
		"C06": "appendfresh: every Slice.Append returns append(receiver, ...). commitown: every return of Truncate/Stitch/Compose that is not an error made on the spot has passed a SetSlice call of that function. siblingarith: as C05.",
		"C07": "flagloop: a test of Flush's flags inside a loop over the rows is reached on every iteration. stepalways: AppendEach's run counter changes on every way round its loop. posindex, siblingarith: as C05.",
		"C08": "tiekeeps: two arguments of one max3 call are never compared strictly with each other. foldinit (as C07) for the last-column maximum of Fitted/FittedAffine.",
		"C09": "scorezero: the accumulator stored into a block's score enters the traceback loop as the constant 0. lastblock now covers all twelve aligner bodies. tiekeeps, foldinit: as C08.",
		"C10": "checkperkmer: Check returns the flag its per-k-mer callback clears. allkmers: an enumeration of the k-mer space (counter converted to Kmer, bounded by len(finger)) starts at word 0.",
		"C11": "writertakes: as C12.",
		"C12": "writertakes: every return of the chunk writer follows its receive from m.writable.",
		"C13": "cleanupremoves: every return of CleanUp has passed os.RemoveAll. pullerror: as C15.",
		"C14": "scanalways: every return of Filter.Filter that is not an error made on the spot follows the ForEachKmerOf scan.",
		"C15": "collectorfirst: a goroutine receiving the kernel's hits is started before every kernel call in AlignTraps. pullerror: the error of morass.Pull in PALS.Align reaches a return. selfstrand: the self-comparison flag handed to the merger depends on the strand.",
		"C16": "treefrommap: the receiver of every interval-tree operation in Piler.merge is p.intervals[location] or a new tree stored there. imagelocated: the store of an image's location runs on every iteration of its loop.",
		"C17": "argreadonly: constructors store nothing through pointer/slice arguments. getterpure (as C05). pairingcomplete also rejects a NewPairing that does not build the table at all.",
		"C18": "arrayrange (as C03) over alphabet and seq/quality: a fixed-size table is never subscripted by a small signed value without an offset.",
		"C19": "recoverdelivers: a recover handler that records into a captured variable records into a named result of its parent. setflagused: fulfill branches on the settled flag of messageState.",
		"C20": "exonsfrombuilder: every SetExons stores the first result of the in-package builder.",
	}
	for id, s := range extra {
		if p := props[id]; p != nil {
			p.Explanation += " " + s
		}
	}
}

func init() {
	addRule("C12", "writertakes", 1, ruleWriterTakes)
	addRule("C11", "writertakes", 1, ruleWriterTakes)
}

func init() {
	addRule("C15", "collectorfirst", 1, ruleCollectorFirst)
	addRule("C15", "pullerror", 1, rulePullError)
	addRule("C13", "pullerror", 1, rulePullError)
}

func init() {
	addRule("C15", "selfstrand", 1, ruleSelfStrand)
}
