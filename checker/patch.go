// A minimal unified-diff applier, used to turn the seeded changes under
// /verif/seeded into in-memory overlays for the thorough tier.
package main

import (
	"fmt"
	"os"
	"path/filepath"
	"regexp"
	"strconv"
	"strings"
)

type hunk struct {
	oldStart int
	lines    []string // with leading ' ', '-', '+'
}

var hunkRe = regexp.MustCompile(`^@@ -(\d+)(?:,\d+)? \+\d+(?:,\d+)? @@`)

// applyUnifiedDiff applies a git diff to the files under repo and returns
// the patched contents keyed by absolute path.
func applyUnifiedDiff(repo string, diff string) (map[string][]byte, error) {
	out := map[string][]byte{}
	var file string
	var hunks []hunk
	flush := func() error {
		if file == "" {
			return nil
		}
		path := filepath.Join(repo, file)
		src, err := os.ReadFile(path)
		if err != nil {
			return fmt.Errorf("%s: %v", file, err)
		}
		lines := strings.Split(string(src), "\n")
		offset := 0
		for _, h := range hunks {
			var oldSeg, newSeg []string
			for _, l := range h.lines {
				if l == "" {
					l = " "
				}
				switch l[0] {
				case ' ':
					oldSeg = append(oldSeg, l[1:])
					newSeg = append(newSeg, l[1:])
				case '-':
					oldSeg = append(oldSeg, l[1:])
				case '+':
					newSeg = append(newSeg, l[1:])
				}
			}
			pos := -1
			want := h.oldStart - 1 + offset
			for k := 0; k <= 600 && pos < 0; k++ {
				d := (k + 1) / 2
				if k%2 == 0 {
					d = -d
				}
				p := want + d
				if p < 0 || p+len(oldSeg) > len(lines) {
					continue
				}
				match := true
				for i := range oldSeg {
					if lines[p+i] != oldSeg[i] {
						match = false
						break
					}
				}
				if match {
					pos = p
					break
				}
			}
			if pos < 0 {
				return fmt.Errorf("%s: hunk at line %d does not apply", file, h.oldStart)
			}
			rest := append([]string{}, lines[pos+len(oldSeg):]...)
			lines = append(append(lines[:pos:pos], newSeg...), rest...)
			offset += len(newSeg) - len(oldSeg) + (pos - want)
		}
		out[path] = []byte(strings.Join(lines, "\n"))
		return nil
	}
	for _, l := range strings.Split(strings.TrimSuffix(diff, "\n"), "\n") {
		switch {
		case strings.HasPrefix(l, "diff --git "):
			if err := flush(); err != nil {
				return nil, err
			}
			file, hunks = "", nil
		case strings.HasPrefix(l, "+++ b/"):
			file = strings.TrimPrefix(l, "+++ b/")
		case strings.HasPrefix(l, "--- ") || strings.HasPrefix(l, "index ") || strings.HasPrefix(l, "new file") || strings.HasPrefix(l, "deleted file") || strings.HasPrefix(l, "similarity") || strings.HasPrefix(l, "rename"):
		case hunkRe.MatchString(l):
			m := hunkRe.FindStringSubmatch(l)
			n, _ := strconv.Atoi(m[1])
			hunks = append(hunks, hunk{oldStart: n})
		case strings.HasPrefix(l, "\\ No newline"):
		default:
			if len(hunks) > 0 && file != "" {
				hunks[len(hunks)-1].lines = append(hunks[len(hunks)-1].lines, l)
			}
		}
	}
	if err := flush(); err != nil {
		return nil, err
	}
	// drop a trailing empty pseudo-line artefact in hunks (diff text ends with "\n")
	return out, nil
}
