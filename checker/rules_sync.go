// Shared SSA helpers for the concurrency / state rules: field accesses,
// must-hold locksets, must-pass checks.
package main

import (
	"go/token"
	"go/types"

	"golang.org/x/tools/go/ssa"
)

// fieldOf: v is &x.F with x of (pointer to) named type pkg.typ; returns F.
func fieldOf(v ssa.Value, pkg, typ string) (string, bool) {
	fa, ok := v.(*ssa.FieldAddr)
	if !ok || !isNamed(fa.X.Type(), pkg, typ) {
		return "", false
	}
	st, ok := fa.X.Type().Underlying().(*types.Pointer).Elem().Underlying().(*types.Struct)
	if !ok {
		return "", false
	}
	return st.Field(fa.Field).Name(), true
}

// accessKind of a FieldAddr value: read, write, or address taken.
func fieldAccesses(fa *ssa.FieldAddr) (reads, writes, escapes []ssa.Instruction) {
	for _, r := range *fa.Referrers() {
		switch r := r.(type) {
		case *ssa.Store:
			if r.Addr == fa {
				writes = append(writes, r)
			} else {
				escapes = append(escapes, r)
			}
		case *ssa.UnOp:
			if r.Op == token.MUL {
				reads = append(reads, r)
			}
		case *ssa.DebugRef:
		case ssa.CallInstruction:
			escapes = append(escapes, r)
		case *ssa.FieldAddr, *ssa.IndexAddr:
			// nested: treat as read of the container
			reads = append(reads, r.(ssa.Instruction))
		default:
			escapes = append(escapes, r)
		}
	}
	return
}

// mutexOp recognises (*sync.Mutex|RWMutex).Lock/Unlock on a field of pkg.typ
// and returns the lock field's name.
func mutexOp(cc *ssa.CallCommon, pkg, typ string) (field, op string, ok bool) {
	f := cc.StaticCallee()
	if f == nil || f.Signature.Recv() == nil {
		return
	}
	if !isNamed(f.Signature.Recv().Type(), "sync", "Mutex") && !isNamed(f.Signature.Recv().Type(), "sync", "RWMutex") {
		return
	}
	if len(cc.Args) == 0 {
		return
	}
	name, isField := fieldOf(cc.Args[0], pkg, typ)
	if !isField {
		return
	}
	switch f.Name() {
	case "Lock", "RLock":
		return name, "lock", true
	case "Unlock", "RUnlock":
		return name, "unlock", true
	}
	return
}

type lockState map[string]bool

func (s lockState) clone() lockState {
	n := lockState{}
	for k, v := range s {
		n[k] = v
	}
	return n
}

// heldAt computes, for every instruction of fn, the set of lock fields that
// are held on every path reaching it (must-hold). entry is the lockset at
// function entry. Deferred unlocks keep the lock held until exit.
func heldAt(fn *ssa.Function, pkg, typ string, entry lockState) map[ssa.Instruction]lockState {
	in := map[*ssa.BasicBlock]lockState{}
	if len(fn.Blocks) == 0 {
		return nil
	}
	in[fn.Blocks[0]] = entry.clone()
	out := map[ssa.Instruction]lockState{}
	work := []*ssa.BasicBlock{fn.Blocks[0]}
	for len(work) > 0 {
		b := work[0]
		work = work[1:]
		st := in[b].clone()
		for _, ins := range b.Instrs {
			out[ins] = st.clone()
			switch ins := ins.(type) {
			case *ssa.Call:
				if f, op, ok := mutexOp(&ins.Call, pkg, typ); ok {
					if op == "lock" {
						st[f] = true
					} else {
						delete(st, f)
					}
				}
			}
		}
		for _, s := range b.Succs {
			if old, ok := in[s]; !ok {
				in[s] = st.clone()
				work = append(work, s)
			} else {
				changed := false
				for k := range old {
					if !st[k] {
						delete(old, k)
						changed = true
					}
				}
				if changed {
					work = append(work, s)
				}
			}
		}
	}
	return out
}

// mustPassBefore: every path from entry of fn to target passes through an
// instruction satisfying pred (pred instructions in target's own block
// before target count).
func mustPassBefore(fn *ssa.Function, target ssa.Instruction, pred func(ssa.Instruction) bool) bool {
	// blocks that contain a pred instruction
	tb := target.Block()
	for _, ins := range tb.Instrs {
		if ins == target {
			break
		}
		if pred(ins) {
			return true
		}
	}
	// reachability from entry to tb avoiding blocks with pred
	hasPred := map[*ssa.BasicBlock]bool{}
	for _, b := range fn.Blocks {
		for _, ins := range b.Instrs {
			if pred(ins) {
				hasPred[b] = true
			}
		}
	}
	seen := map[*ssa.BasicBlock]bool{}
	var walk func(b *ssa.BasicBlock) bool
	walk = func(b *ssa.BasicBlock) bool {
		if b == tb {
			return true
		}
		if seen[b] || hasPred[b] {
			return false
		}
		seen[b] = true
		for _, s := range b.Succs {
			if walk(s) {
				return true
			}
		}
		return false
	}
	if hasPred[fn.Blocks[0]] && fn.Blocks[0] != tb {
		return true
	}
	return !walk(fn.Blocks[0])
}

// mustPassBetween: every path from `from` (exclusive) to `to` passes pred.
func mustPassBetween(from, to ssa.Instruction, pred func(ssa.Instruction) bool) bool {
	fb, tb := from.Block(), to.Block()
	// same block, from before to
	started := false
	for _, ins := range fb.Instrs {
		if ins == from {
			started = true
			continue
		}
		if !started {
			continue
		}
		if ins == to {
			return false
		}
		if pred(ins) {
			return true
		}
	}
	hasPred := func(b *ssa.BasicBlock, upto ssa.Instruction) bool {
		for _, ins := range b.Instrs {
			if ins == upto {
				return false
			}
			if pred(ins) {
				return true
			}
		}
		return false
	}
	seen := map[*ssa.BasicBlock]bool{}
	var walk func(b *ssa.BasicBlock) bool // true if `to` reachable without pred
	walk = func(b *ssa.BasicBlock) bool {
		if b == tb {
			return !hasPred(b, to)
		}
		if seen[b] {
			return false
		}
		seen[b] = true
		if hasPred(b, nil) {
			return false
		}
		for _, s := range b.Succs {
			if walk(s) {
				return true
			}
		}
		return false
	}
	for _, s := range fb.Succs {
		if walk(s) {
			return false
		}
	}
	return true
}

// isNilErrorReturn: ret returns a constant nil as its last (error) result.
func isNilErrorReturn(ret *ssa.Return) bool {
	if len(ret.Results) == 0 {
		return false
	}
	last := ret.Results[len(ret.Results)-1]
	return isNilConst(last) && types.Identical(last.Type(), types.Universe.Lookup("error").Type())
}
