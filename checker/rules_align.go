// Rules H "sibling" and I-argcheck for package align.
package main

import (
	"fmt"
	"go/ast"
	"go/token"
	"go/types"
	"reflect"
	"strings"

	"golang.org/x/tools/go/packages"
)

// ---- argcheck -----------------------------------------------------------------

// returnsErr: does n contain `return ..., X` where X denotes (or constructs) errName?
func returnsErr(p *packages.Package, n ast.Node, errName string) (token.Pos, bool) {
	var pos token.Pos
	ast.Inspect(n, func(x ast.Node) bool {
		ret, ok := x.(*ast.ReturnStmt)
		if !ok || len(ret.Results) == 0 {
			return true
		}
		last := unparen(ret.Results[len(ret.Results)-1])
		switch e := last.(type) {
		case *ast.Ident:
			if o := p.TypesInfo.Uses[e]; o != nil && o.Name() == errName && o.Pkg() == p.Types {
				pos = ret.Pos()
			}
		case *ast.CompositeLit:
			if tv, ok := p.TypesInfo.Types[e]; ok && isNamed(tv.Type, p.PkgPath, errName) {
				pos = ret.Pos()
			}
		case *ast.UnaryExpr:
			if cl, ok := e.X.(*ast.CompositeLit); ok {
				if tv, ok := p.TypesInfo.Types[cl]; ok && isNamed(tv.Type, p.PkgPath, errName) {
					pos = ret.Pos()
				}
			}
		}
		return true
	})
	return pos, pos.IsValid()
}

func mentionsCall(p *packages.Package, e ast.Expr, method string) bool {
	found := false
	ast.Inspect(e, func(n ast.Node) bool {
		if call, ok := n.(*ast.CallExpr); ok {
			if f, ok := calleeOf(p, call).(*types.Func); ok && f.Name() == method {
				found = true
			}
		}
		return true
	})
	return found
}

func ruleArgCheck(c *Ctx, rule string, aligners []string) {
	p := c.pkg("align")
	for _, a := range aligners {
		for _, m := range []string{"alignLetters", "alignQLetters"} {
			fd, _ := c.decl("align", a+"."+m)
			fn := "align." + a + "." + m
			// first table allocation: the second top-level make (the first flattens the matrix);
			// position of the lookup-table fetch is the boundary we use: alpha.LetterIndex()
			boundary := fd.Body.End()
			ast.Inspect(fd.Body, func(n ast.Node) bool {
				if call, ok := n.(*ast.CallExpr); ok {
					if f, ok := calleeOf(p, call).(*types.Func); ok && f.Name() == "LetterIndex" && call.Pos() < boundary {
						boundary = call.Pos()
					}
				}
				return true
			})
			// a check may have been moved into a helper of the package that is called before any table is
			// indexed and whose error the aligner returns at once: la, let, err := a.flatMatrix(alpha.Len())
			viaHelper := func(errName string, needLenArg bool) token.Pos {
				for i, st := range fd.Body.List {
					as, ok := st.(*ast.AssignStmt)
					if !ok || as.Pos() > boundary || len(as.Rhs) != 1 || i+1 >= len(fd.Body.List) {
						continue
					}
					call, ok := unparen(as.Rhs[0]).(*ast.CallExpr)
					if !ok {
						continue
					}
					h := helperDecl(p, call)
					if h == nil {
						continue
					}
					pos, found := returnsErr(p, h.Body, errName)
					if !found {
						continue
					}
					if needLenArg {
						has := false
						for _, a := range call.Args {
							has = has || mentionsCall(p, a, "Len")
						}
						if !has {
							continue
						}
					}
					// the very next statement hands the error back
					if ifs, ok := fd.Body.List[i+1].(*ast.IfStmt); ok {
						returns := false
						for _, bs := range ifs.Body.List {
							if _, isRet := bs.(*ast.ReturnStmt); isRet {
								returns = true
							}
						}
						if returns {
							return pos
						}
					}
				}
				return token.NoPos
			}
			// (i) size check
			sizePos := token.NoPos
			for _, st := range fd.Body.List {
				ifs, ok := st.(*ast.IfStmt)
				if !ok || ifs.Pos() > boundary {
					continue
				}
				if mentionsCall(p, ifs.Cond, "Len") {
					if pos, ok := returnsErr(p, ifs.Body, "ErrMatrixWrongSize"); ok {
						sizePos = pos
					}
				}
			}
			if sizePos.IsValid() {
				c.ok(rule, fn+"/matrix-size", sizePos, "returns ErrMatrixWrongSize under a comparison with alpha.Len() before any table is indexed")
			} else if pos := viaHelper("ErrMatrixWrongSize", true); pos.IsValid() {
				c.ok(rule, fn+"/matrix-size", pos, "a helper given alpha.Len() returns ErrMatrixWrongSize and the aligner hands that error back before any table is indexed")
			} else {
				// accepted alternative: the entry point checks before calling
				entry, _ := c.decl("align", a+".Align")
				if pos, ok := returnsErr(p, entry.Body, "ErrMatrixWrongSize"); ok {
					c.ok(rule, fn+"/matrix-size", pos, "the Align entry point returns ErrMatrixWrongSize before dispatching")
				} else {
					c.bad(rule, fn+"/matrix-size", fd.Pos(), "never returns ErrMatrixWrongSize (its sibling aligners do): a scoring matrix smaller than the alphabet is indexed out of range and panics instead of producing an error")
				}
			}
			// (ii) squareness check inside the row loop
			sqPos := token.NoPos
			for _, st := range fd.Body.List {
				rs, ok := st.(*ast.RangeStmt)
				if !ok || rs.Pos() > boundary {
					continue
				}
				if pos, ok := returnsErr(p, rs.Body, "ErrMatrixNotSquare"); ok {
					sqPos = pos
				}
			}
			if sqPos.IsValid() {
				c.ok(rule, fn+"/matrix-square", sqPos, "returns ErrMatrixNotSquare inside the row loop")
			} else if pos := viaHelper("ErrMatrixNotSquare", false); pos.IsValid() {
				c.ok(rule, fn+"/matrix-square", pos, "the helper that flattens the matrix returns ErrMatrixNotSquare and the aligner hands that error back")
			} else {
				c.bad(rule, fn+"/matrix-square", fd.Pos(), "never returns ErrMatrixNotSquare while flattening the matrix: a ragged matrix is indexed with the wrong stride or panics")
			}
		}
		entry, _ := c.decl("align", a+".Align")
		for _, e := range []string{"ErrNoAlphabet", "ErrMismatchedAlphabets", "ErrNotGappedAlphabet", "ErrMismatchedTypes"} {
			key := "align." + a + ".Align/" + e
			if pos, ok := returnsErr(p, entry.Body, e); ok {
				c.ok(rule, key, pos, "argument check present")
			} else if pos := errViaHelper(p, entry.Body, e); pos.IsValid() {
				c.ok(rule, key, pos, "argument check present in a helper of the package whose error the entry point hands back at once")
			} else {
				c.bad(rule, key, entry.Pos(), "the entry point never returns "+e+" (the other aligners do): the corresponding ill-typed argument reaches the dynamic-programming code")
			}
		}
	}
}

// errViaHelper: a top-level statement of body calls a helper of the package that returns errName, and the
// next statement returns when the helper's error is set.
func errViaHelper(p *packages.Package, body *ast.BlockStmt, errName string) token.Pos {
	for i, st := range body.List {
		as, ok := st.(*ast.AssignStmt)
		if !ok || len(as.Rhs) != 1 || i+1 >= len(body.List) || len(as.Lhs) == 0 {
			continue
		}
		call, ok := unparen(as.Rhs[0]).(*ast.CallExpr)
		if !ok {
			continue
		}
		h := helperDecl(p, call)
		if h == nil {
			continue
		}
		pos, found := returnsErr(p, h.Body, errName)
		if !found {
			continue
		}
		errID, ok := as.Lhs[len(as.Lhs)-1].(*ast.Ident)
		if !ok || errID.Name == "_" {
			continue
		}
		ifs, ok := body.List[i+1].(*ast.IfStmt)
		if !ok || ifs.Init != nil {
			continue
		}
		be, ok := unparen(ifs.Cond).(*ast.BinaryExpr)
		if !ok || be.Op != token.NEQ {
			continue
		}
		x, ok := unparen(be.X).(*ast.Ident)
		if !ok || p.TypesInfo.ObjectOf(x) != p.TypesInfo.ObjectOf(errID) {
			continue
		}
		if len(ifs.Body.List) > 0 {
			if ret, isRet := ifs.Body.List[len(ifs.Body.List)-1].(*ast.ReturnStmt); isRet && len(ret.Results) > 0 {
				if r, ok := unparen(ret.Results[len(ret.Results)-1]).(*ast.Ident); ok && p.TypesInfo.ObjectOf(r) == p.TypesInfo.ObjectOf(errID) {
					return pos
				}
			}
		}
	}
	return token.NoPos
}

// ---- sibling ----------------------------------------------------------------------

type canon struct {
	p      *packages.Package
	locals map[types.Object]int
	qside  bool
}

func (cn *canon) isQLettersExpr(e ast.Expr) bool {
	tv, ok := cn.p.TypesInfo.Types[e]
	return ok && isNamed(tv.Type, modPath+"/alphabet", "QLetters")
}

func normName(s string) string {
	if s == "AllValidQLetter" {
		return "AllValid"
	}
	s = strings.Replace(s, "QLetters", "Letters", 1)
	return s
}

// str renders a node canonically: locals by declaration order, the
// Letters/QLetters naming difference and `X[e].L` vs `X[e]` erased, string
// literal contents and positions ignored.
func (cn *canon) str(n interface{}) string {
	var b strings.Builder
	cn.write(&b, reflect.ValueOf(n))
	return b.String()
}

func (cn *canon) write(b *strings.Builder, v reflect.Value) {
	if !v.IsValid() {
		b.WriteString("nil")
		return
	}
	switch v.Kind() {
	case reflect.Interface, reflect.Ptr:
		if v.IsNil() {
			b.WriteString("nil")
			return
		}
		if n, ok := v.Interface().(ast.Node); ok {
			switch x := n.(type) {
			case *ast.Ident:
				o := cn.p.TypesInfo.ObjectOf(x)
				if vv, ok := o.(*types.Var); ok && !vv.IsField() && vv.Parent() != cn.p.Types.Scope() && vv.Pkg() == cn.p.Types {
					id, ok := cn.locals[o]
					if !ok {
						id = len(cn.locals)
						cn.locals[o] = id
					}
					fmt.Fprintf(b, "$%d", id)
					return
				}
				b.WriteString(normName(x.Name))
				return
			case *ast.SelectorExpr:
				// X[e].L on a QLetters sequence  ==  X[e] on a Letters sequence
				if x.Sel.Name == "L" {
					if ix, ok := unparen(x.X).(*ast.IndexExpr); ok && cn.isQLettersExpr(ix.X) {
						cn.write(b, reflect.ValueOf(ix))
						return
					}
				}
			case *ast.BasicLit:
				if x.Kind == token.STRING {
					b.WriteString("STR")
					return
				}
				b.WriteString(x.Value)
				return
			case *ast.ParenExpr:
				cn.write(b, reflect.ValueOf(x.X))
				return
			case *ast.CommentGroup, *ast.Comment:
				return
			}
		}
		cn.write(b, v.Elem())
	case reflect.Struct:
		t := v.Type()
		b.WriteString(t.Name())
		b.WriteString("{")
		for i := 0; i < v.NumField(); i++ {
			f := t.Field(i)
			if f.Name == "Ellipsis" {
				fmt.Fprintf(b, "ellipsis=%v,", v.Field(i).Interface().(token.Pos).IsValid())
				continue
			}
			if f.Type == reflect.TypeOf(token.NoPos) || f.Name == "Obj" || f.Name == "Doc" || f.Name == "Comment" {
				continue
			}
			cn.write(b, v.Field(i))
			b.WriteString(",")
		}
		b.WriteString("}")
	case reflect.Slice:
		b.WriteString("[")
		for i := 0; i < v.Len(); i++ {
			cn.write(b, v.Index(i))
			b.WriteString(";")
		}
		b.WriteString("]")
	case reflect.String:
		b.WriteString(normName(v.String()))
	default:
		fmt.Fprintf(b, "%v", v.Interface())
	}
}

// firstDiff descends into matching statement lists to find the smallest
// differing statement pair.
func firstDiff(ca, cb *canon, a, b []ast.Stmt) (ast.Node, ast.Node) {
	n := len(a)
	if len(b) < n {
		n = len(b)
	}
	for i := 0; i < n; i++ {
		if ca.str(a[i]) == cb.str(b[i]) {
			continue
		}
		// try to descend
		if reflect.TypeOf(a[i]) == reflect.TypeOf(b[i]) {
			var la, lb [][]ast.Stmt
			blocks := func(s ast.Stmt) [][]ast.Stmt {
				var out [][]ast.Stmt
				switch x := s.(type) {
				case *ast.BlockStmt:
					out = append(out, x.List)
				case *ast.IfStmt:
					out = append(out, x.Body.List)
					if e, ok := x.Else.(*ast.BlockStmt); ok {
						out = append(out, e.List)
					} else if x.Else != nil {
						out = append(out, []ast.Stmt{x.Else})
					}
				case *ast.ForStmt:
					out = append(out, x.Body.List)
				case *ast.RangeStmt:
					out = append(out, x.Body.List)
				case *ast.SwitchStmt:
					out = append(out, x.Body.List)
				case *ast.CaseClause:
					out = append(out, x.Body)
				}
				return out
			}
			la, lb = blocks(a[i]), blocks(b[i])
			if len(la) == len(lb) {
				for k := range la {
					if x, y := firstDiff(ca, cb, la[k], lb[k]); x != nil {
						return x, y
					}
				}
			}
		}
		return a[i], b[i]
	}
	if len(a) != len(b) {
		if len(a) > n {
			return a[n], b[len(b)-1]
		}
		return a[len(a)-1], b[n]
	}
	return nil, nil
}

func ruleSibling(c *Ctx, rule string, aligners []string) {
	p := c.pkg("align")
	for _, a := range aligners {
		fl, _ := c.decl("align", a+".alignLetters")
		fq, _ := c.decl("align", a+".alignQLetters")
		key := "align." + a + "/alignLetters~alignQLetters"
		// parameters are locals too: seed numbering in declaration order
		ca := &canon{p: p, locals: map[types.Object]int{}}
		cb := &canon{p: p, locals: map[types.Object]int{}}
		sa, sb := ca.str(fl.Type.Params)+ca.str(fl.Body), cb.str(fq.Type.Params)+cb.str(fq.Body)
		if sa == sb {
			c.ok(rule, key, fl.Pos(), fmt.Sprintf("identical modulo element access (%d statements compared)", countStmts(fl.Body)))
			continue
		}
		ca = &canon{p: p, locals: map[types.Object]int{}}
		cb = &canon{p: p, locals: map[types.Object]int{}}
		ca.str(fl.Type.Params)
		cb.str(fq.Type.Params)
		x, y := firstDiff(ca, cb, fl.Body.List, fq.Body.List)
		if x == nil {
			c.bad(rule, key, fl.Pos(), "the two variants differ (parameter lists)")
			continue
		}
		c.bad(rule, key, x.Pos(), fmt.Sprintf("the Letters and QLetters variants are not the same program: %s: `%s` versus %s: `%s` — quality-carrying sequences can align differently from plain ones", c.pos(x.Pos()), oneLine(exprStr(c.Fset, x)), c.pos(y.Pos()), oneLine(exprStr(c.Fset, y))))
	}
}

func oneLine(s string) string {
	s = strings.Join(strings.Fields(s), " ")
	if len(s) > 120 {
		s = s[:120] + "…"
	}
	return s
}

func countStmts(n ast.Node) int {
	k := 0
	ast.Inspect(n, func(x ast.Node) bool {
		if _, ok := x.(ast.Stmt); ok {
			k++
		}
		return true
	})
	return k
}
